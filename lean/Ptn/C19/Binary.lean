import Ptn.C19.Attach
/-! Binary-tree constructor: heap numbering of the breadth-first construction (helper lemmas for
`binary_structure`). -/
namespace Ptn.C19

/-! ### heap positions -/

/-- successor in breadth-first order of (level, position) -/
def nextPos (lp : Nat × Nat) : Nat × Nat :=
  if lp.2 + 1 < 2 ^ lp.1 then (lp.1, lp.2 + 1) else (lp.1 + 1, 0)

/-- (level, position) of the `h`-th node in breadth-first order -/
def heapPos : Nat → Nat × Nat
  | 0 => (0, 0)
  | h + 1 => nextPos (heapPos h)

/-- breadth-first index of (level, position) -/
def hidx (lp : Nat × Nat) : Nat := 2 ^ lp.1 - 1 + lp.2

def ValidPos (lp : Nat × Nat) : Prop := lp.2 < 2 ^ lp.1

theorem two_pow_pos' (l : Nat) : 0 < 2 ^ l := Nat.two_pow_pos l

theorem two_pow_succ' (l : Nat) : 2 ^ (l + 1) = 2 * 2 ^ l := by rw [Nat.pow_succ]; omega

theorem nextPos_spec (lp : Nat × Nat) (hv : ValidPos lp) :
    ValidPos (nextPos lp) ∧ hidx (nextPos lp) = hidx lp + 1 := by
  obtain ⟨l, p⟩ := lp
  simp only [ValidPos] at hv
  have hpos := two_pow_pos' l
  have hsucc := two_pow_succ' l
  by_cases hc : p + 1 < 2 ^ l
  · have e : nextPos (l, p) = (l, p + 1) := by simp [nextPos, hc]
    rw [e]
    exact ⟨hc, by simp only [hidx]; omega⟩
  · have e : nextPos (l, p) = (l + 1, 0) := by simp [nextPos, hc]
    rw [e]
    exact ⟨two_pow_pos' _, by simp only [hidx]; omega⟩

theorem heapPos_spec (h : Nat) : ValidPos (heapPos h) ∧ hidx (heapPos h) = h := by
  induction h with
  | zero => simp [heapPos, ValidPos, hidx]
  | succ h ih =>
    have := nextPos_spec (heapPos h) ih.1
    simp only [heapPos]
    exact ⟨this.1, by rw [this.2, ih.2]⟩

/-- breadth-first indices identify valid positions -/
theorem hidx_inj (a b : Nat × Nat) (ha : ValidPos a) (hb : ValidPos b) (h : hidx a = hidx b) : a = b := by
  obtain ⟨l, p⟩ := a
  obtain ⟨l', p'⟩ := b
  simp only [ValidPos, hidx] at ha hb h
  have key : ∀ (l l' p p' : Nat), p < 2 ^ l → p' < 2 ^ l' → 2 ^ l - 1 + p = 2 ^ l' - 1 + p' → ¬ l < l' := by
    intro l l' p p' ha hb h hlt
    have h1 : 2 ^ (l + 1) ≤ 2 ^ l' := Nat.pow_le_pow_right (by decide) hlt
    have h2 := two_pow_succ' l
    have h3 := two_pow_pos' l
    omega
  have hl : l = l' := by
    rcases Nat.lt_trichotomy l l' with h1 | h1 | h1
    · exact absurd h1 (key l l' p p' ha hb h)
    · exact h1
    · exact absurd h1 (key l' l p' p hb ha h.symm)
  subst hl
  have hp := two_pow_pos' l
  have : p = p' := by omega
  subst this
  rfl

theorem heapPos_inj (h h' : Nat) (e : heapPos h = heapPos h') : h = h' := by
  rw [← (heapPos_spec h).2, ← (heapPos_spec h').2, e]

theorem heapPos_of_hidx (lp : Nat × Nat) (hv : ValidPos lp) : heapPos (hidx lp) = lp :=
  hidx_inj _ _ (heapPos_spec _).1 hv (heapPos_spec _).2

/-- the two children of the `h`-th node are the nodes `2h+1` and `2h+2` -/
theorem heapPos_children (h : Nat) :
    heapPos (2 * h + 1) = ((heapPos h).1 + 1, 2 * (heapPos h).2) ∧
    heapPos (2 * h + 2) = ((heapPos h).1 + 1, 2 * (heapPos h).2 + 1) := by
  obtain ⟨hv, hi⟩ := heapPos_spec h
  generalize heapPos h = lp at hv hi
  obtain ⟨l, p⟩ := lp
  simp only [ValidPos, hidx] at hv hi
  have hsucc := two_pow_succ' l
  have hpos := two_pow_pos' l
  constructor
  · have e : 2 * h + 1 = hidx (l + 1, 2 * p) := by simp only [hidx]; omega
    rw [e]
    exact heapPos_of_hidx _ (by simp only [ValidPos]; omega)
  · have e : 2 * h + 2 = hidx (l + 1, 2 * p + 1) := by simp only [hidx]; omega
    rw [e]
    exact heapPos_of_hidx _ (by simp only [ValidPos]; omega)

/-- the parent of the `h`-th node (`h ≥ 1`) is the node `(h-1)/2`, one level up at half the position -/
theorem heapPos_parent (h : Nat) (hh : 0 < h) :
    heapPos ((h - 1) / 2) = ((heapPos h).1 - 1, (heapPos h).2 / 2) ∧ 0 < (heapPos h).1 := by
  have hc := heapPos_children ((h - 1) / 2)
  generalize hk : heapPos ((h - 1) / 2) = lp at hc
  obtain ⟨l, p⟩ := lp
  simp only at hc
  rcases Nat.mod_two_eq_zero_or_one (h - 1) with hm | hm
  · have e : 2 * ((h - 1) / 2) + 1 = h := by omega
    rw [e] at hc
    rw [hc.1]
    refine ⟨Prod.ext ?_ ?_, ?_⟩ <;> simp only <;> omega
  · have e : 2 * ((h - 1) / 2) + 2 = h := by omega
    rw [e] at hc
    rw [hc.2]
    refine ⟨Prod.ext ?_ ?_, ?_⟩ <;> simp only <;> omega

theorem heapPos_level_pos (h : Nat) (hh : 0 < h) : 0 < (heapPos h).1 := (heapPos_parent h hh).2

theorem heapPos_zero_iff (h : Nat) : heapPos h = (0, 0) ↔ h = 0 := by
  constructor
  · intro e
    exact heapPos_inj h 0 e
  · intro e; subst e; rfl

/-! ### the breadth-first loop of `add_all_nodes` -/

/-- identifier of the `h`-th virtual node: `prefix + level + "_" + position` -/
def virtId (h : Nat) : BinId := .virt (heapPos h).1 (heapPos h).2

theorem virtId_inj (h h' : Nat) (e : virtId h = virtId h') : h = h' := by
  unfold virtId at e
  injection e with e1 e2
  exact heapPos_inj h h' (Prod.ext e1 e2)

def vshapeH (bd h : Nat) : List Nat := if h = 0 then [bd, bd, 1] else [bd, bd, bd, 1]

/-- the `h`-th node while the loop runs: the first `t` nodes have both children, the `t`-th has its
    first child iff `half` -/
def loopNodeH (bd t : Nat) (half : Bool) (h : Nat) : GNode BinId :=
  ⟨virtId h, if h = 0 then none else some (virtId ((h - 1) / 2)),
   if h < t then [virtId (2 * h + 1), virtId (2 * h + 2)]
   else if h = t ∧ half = true then [virtId (2 * h + 1)] else [],
   List.range (vshapeH bd h).length, vshapeH bd h⟩

def loopF (bd t : Nat) (half : Bool) : BinId → GNode BinId
  | .virt l p => { loopNodeH bd t half (hidx (l, p)) with id := .virt l p }
  | .phys k => ⟨.phys k, none, [], [], []⟩

theorem loopF_id (bd t : Nat) (half : Bool) (i : BinId) : (loopF bd t half i).id = i := by
  cases i <;> rfl

theorem loopF_virtId (bd t : Nat) (half : Bool) (h : Nat) :
    loopF bd t half (virtId h) = loopNodeH bd t half h := by
  unfold virtId loopF
  simp only
  have : hidx ((heapPos h).1, (heapPos h).2) = h := (heapPos_spec h).2
  rw [this]
  rfl

def loopIds (m : Nat) : List BinId := (List.range m).map virtId

theorem mem_loopIds (m h : Nat) : virtId h ∈ loopIds m ↔ h < m := by
  unfold loopIds
  constructor
  · intro hm
    obtain ⟨k, hk, e⟩ := List.mem_map.1 hm
    have := virtId_inj _ _ e
    subst this
    exact List.mem_range.1 hk
  · intro hm
    exact List.mem_map.2 ⟨h, List.mem_range.2 hm, rfl⟩

theorem loopIds_succ (m : Nat) : loopIds (m + 1) = loopIds m ++ [virtId m] := by
  simp [loopIds, List.range_succ]

def loopNodes (bd t : Nat) : List (GNode BinId) := (loopIds (2 * t + 1)).map (loopF bd t false)

def loopQueue (t : Nat) : List (Nat × Nat) := (List.range' t (t + 1)).map heapPos

theorem vshapeH_len (bd h : Nat) : (vshapeH bd h).length = if h = 0 then 3 else 4 := by
  unfold vshapeH; split <;> rfl

/-- the two attachments of one pass -/
theorem loop_attach (bd t : Nat) :
    let pleg := if t = 0 then 0 else 1
    gAddChild (loopNodes bd t) (virtId (2 * t + 1)) [bd, bd, bd, 1] 0 (virtId t) pleg =
      some ((loopIds (2 * t + 2)).map (loopF bd t true)) ∧
    gAddChild ((loopIds (2 * t + 2)).map (loopF bd t true)) (virtId (2 * t + 2)) [bd, bd, bd, 1] 0
        (virtId t) (pleg + 1) = some (loopNodes bd (t + 1)) := by
  intro pleg
  constructor
  · rw [loopIds_succ (2 * t + 1)]
    refine gAddChild_closed (loopIds (2 * t + 1)) (loopF bd t false) (loopF bd t true) _ _ 0 _ pleg
      (loopF_id bd t false) ((mem_loopIds _ _).2 (by omega))
      (fun hm => by have := (mem_loopIds _ _).1 hm; omega) (by simp) ?_ ?_ ?_ ?_ ?_
    · rw [loopF_virtId]
      by_cases h0 : t = 0 <;> simp [loopNodeH, GNode.nvirt, h0, pleg]
    · rw [loopF_virtId]
      by_cases h0 : t = 0 <;> simp [loopNodeH, vshapeH, h0, pleg]
    · rw [loopF_virtId]
      by_cases h0 : t = 0 <;> simp [loopNodeH, GNode.shapeAt, vshapeH, h0, pleg]
    · intro i hi
      obtain ⟨h, hh, rfl⟩ := List.mem_map.1 hi
      have hh' := List.mem_range.1 hh
      by_cases hht : h = t
      · subst hht
        rw [if_pos rfl, loopF_virtId, loopF_virtId]
        have hn : (loopNodeH bd h false h).nvirt = pleg := by
          by_cases h0 : h = 0 <;> simp [loopNodeH, GNode.nvirt, h0, pleg]
        rw [← hn, gtoChild_eq _ _ (by
          by_cases h0 : h = 0 <;> simp [loopNodeH, GNode.nvirt, vshapeH, h0])]
        simp [loopNodeH]
      · have : ¬ virtId h = virtId t := fun e => hht (virtId_inj _ _ e)
        rw [if_neg this, loopF_virtId, loopF_virtId]
        simp [loopNodeH, hht]
    · rw [loopF_virtId]
      have e1 : ¬ (2 * t + 1 = 0) := by omega
      have e2 : ¬ (2 * t + 1 < t) := by omega
      have e3 : ¬ (2 * t + 1 = t) := by omega
      have e4 : (2 * t + 1 - 1) / 2 = t := by omega
      simp only [loopNodeH, e1, e2, e3, e4, if_false, vshapeH, List.length_cons,
        List.length_nil, GNode.mk.injEq, true_and, and_true]
      decide
  · unfold loopNodes
    have e : 2 * (t + 1) + 1 = (2 * t + 2) + 1 := by omega
    rw [e, loopIds_succ (2 * t + 2)]
    refine gAddChild_closed (loopIds (2 * t + 2)) (loopF bd t true) (loopF bd (t + 1) false) _ _ 0 _
      (pleg + 1) (loopF_id bd t true) ((mem_loopIds _ _).2 (by omega))
      (fun hm => by have := (mem_loopIds _ _).1 hm; omega) (by simp) ?_ ?_ ?_ ?_ ?_
    · rw [loopF_virtId]
      by_cases h0 : t = 0 <;> simp [loopNodeH, GNode.nvirt, h0, pleg]
    · rw [loopF_virtId]
      by_cases h0 : t = 0 <;> simp [loopNodeH, vshapeH, h0, pleg]
    · rw [loopF_virtId]
      by_cases h0 : t = 0 <;> simp [loopNodeH, GNode.shapeAt, vshapeH, h0, pleg]
    · intro i hi
      obtain ⟨h, hh, rfl⟩ := List.mem_map.1 hi
      have hh' := List.mem_range.1 hh
      by_cases hht : h = t
      · subst hht
        rw [if_pos rfl, loopF_virtId, loopF_virtId]
        have hn : (loopNodeH bd h true h).nvirt = pleg + 1 := by
          by_cases h0 : h = 0 <;> simp [loopNodeH, GNode.nvirt, h0, pleg]
        rw [← hn, gtoChild_eq _ _ (by
          by_cases h0 : h = 0 <;> simp [loopNodeH, GNode.nvirt, vshapeH, h0])]
        simp [loopNodeH]
      · have : ¬ virtId h = virtId t := fun e => hht (virtId_inj _ _ e)
        rw [if_neg this, loopF_virtId, loopF_virtId]
        simp only [loopNodeH, GNode.mk.injEq, true_and, and_true]
        by_cases hlt : h < t
        · have : h < t + 1 := by omega
          simp [hlt, this]
        · have a : ¬ h < t + 1 := by omega
          simp [hlt, a, hht]
    · rw [loopF_virtId]
      have e1 : ¬ (2 * t + 2 = 0) := by omega
      have e2 : ¬ (2 * t + 2 < t + 1) := by omega
      have e4 : (2 * t + 2 - 1) / 2 = t := by omega
      simp only [loopNodeH, e1, e2, e4, if_false, vshapeH, List.length_cons,
        List.length_nil, GNode.mk.injEq, true_and, Bool.false_eq_true, and_false]
      decide

theorem loopQueue_cons (t : Nat) :
    loopQueue t = heapPos t :: (List.range' (t + 1) t).map heapPos := by
  unfold loopQueue
  rw [List.range'_succ, List.map_cons]

theorem loopQueue_next (t : Nat) :
    (List.range' (t + 1) t).map heapPos ++ [heapPos (2 * t + 1), heapPos (2 * t + 2)] =
      loopQueue (t + 1) := by
  unfold loopQueue
  have e1 : List.range' (t + 1) (t + 1 + 1) = List.range' (t + 1) (t + 1) ++ [t + 1 + 1 * (t + 1)] :=
    List.range'_concat
  have e2 : List.range' (t + 1) (t + 1) = List.range' (t + 1) t ++ [t + 1 + 1 * t] := List.range'_concat
  rw [e1, e2]
  have a : t + 1 + (t + 1) = 2 * t + 2 := by omega
  have b : t + 1 + t = 2 * t + 1 := by omega
  simp [a, b]

theorem loopQueue_length (t : Nat) : (loopQueue t).length = t + 1 := by simp [loopQueue]

/-- the loop runs `nphys - 1` passes and stops -/
theorem binLoop_run (nphys bd : Nat) : ∀ (k t : Nat), t + k + 1 = nphys → ∀ fuel, k + 1 ≤ fuel →
    binLoop nphys bd fuel (loopNodes bd t) (loopQueue t) =
      some (loopNodes bd (nphys - 1), loopQueue (nphys - 1)) := by
  intro k
  induction k with
  | zero =>
    intro t ht fuel hf
    obtain ⟨f, rfl⟩ : ∃ f, fuel = f + 1 := ⟨fuel - 1, by omega⟩
    unfold binLoop
    have : nphys - 1 = t := by omega
    rw [if_pos (by rw [loopQueue_length]; omega), this]
  | succ k ih =>
    intro t ht fuel hf
    obtain ⟨f, rfl⟩ : ∃ f, fuel = f + 1 := ⟨fuel - 1, by omega⟩
    unfold binLoop
    rw [if_neg (by rw [loopQueue_length]; omega), loopQueue_cons]
    have hch := heapPos_children t
    have hz := heapPos_zero_iff t
    cases hlp : heapPos t with
    | mk l p =>
      rw [hlp] at hch hz
      simp only at hch
      simp only
      rw [if_neg (by simp; omega)]
      have hv : BinId.virt l p = virtId t := by unfold virtId; rw [hlp]
      have hc1 : BinId.virt (l + 1) (2 * p) = virtId (2 * t + 1) := by unfold virtId; rw [hch.1]
      have hc2 : BinId.virt (l + 1) (2 * p + 1) = virtId (2 * t + 2) := by unfold virtId; rw [hch.2]
      have hcond : (l = 0 ∧ p = 0) ↔ t = 0 := by
        rw [← hz]
        constructor
        · rintro ⟨rfl, rfl⟩; rfl
        · intro e; injection e with e1 e2; exact ⟨e1, e2⟩
      have hat := loop_attach bd t
      simp only at hat
      rw [hv, hc1, hc2]
      by_cases h0 : t = 0
      · have hc : l = 0 ∧ p = 0 := hcond.2 h0
        rw [if_pos hc]
        simp only
        rw [if_pos h0] at hat
        rw [hat.1]
        simp only
        rw [hat.2]
        simp only
        rw [← hch.1, ← hch.2, loopQueue_next]
        exact ih (t + 1) (by omega) f (by omega)
      · have hc : ¬ (l = 0 ∧ p = 0) := fun e => h0 (hcond.1 e)
        rw [if_neg hc]
        simp only
        rw [if_neg h0] at hat
        rw [hat.1]
        simp only
        rw [hat.2]
        simp only
        rw [← hch.1, ← hch.2, loopQueue_next]
        exact ih (t + 1) (by omega) f (by omega)

theorem loopNodes_zero (bd : Nat) : loopNodes bd 0 = [rootNode (.virt 0 0) [bd, bd, 1]] := by
  simp [loopNodes, loopIds, virtId, heapPos, loopF, loopNodeH, hidx, vshapeH, rootNode]

theorem binAddAll_eq (nphys bd : Nat) (hn : 1 ≤ nphys) :
    binAddAll nphys bd = some (loopNodes bd (nphys - 1), loopQueue (nphys - 1)) := by
  unfold binAddAll
  have hq : [(0, 0)] = loopQueue 0 := by simp [loopQueue, heapPos]
  rw [← loopNodes_zero, hq]
  exact binLoop_run nphys bd (nphys - 1) 0 (by omega) (nphys + 1) (by omega)

/-! ### the replacement of the queued leaves by physical nodes (`transform_phys_nodes`) -/

def parentH (h : Nat) : Option BinId := if h = 0 then none else some (virtId ((h - 1) / 2))

/-- the node with breadth-first index `g` when the first `j` leaves (indices `T … T+j-1`) have been
    replaced: `phys (g - T)` for a replaced leaf, the virtual node otherwise -/
def kidR (T j g : Nat) : BinId := if T ≤ g ∧ g < T + j then .phys (g - T) else virtId g

def innerR (bd T j h : Nat) : GNode BinId :=
  ⟨virtId h, parentH h, [kidR T j (2 * h + 1), kidR T j (2 * h + 2)],
   List.range (vshapeH bd h).length, vshapeH bd h⟩

def leafR (bd h : Nat) : GNode BinId :=
  ⟨virtId h, parentH h, [], List.range (vshapeH bd h).length, vshapeH bd h⟩

def physR (bd d T k : Nat) : GNode BinId := ⟨.phys k, parentH (T + k), [], [0, 1], [bd, d]⟩

/-- node list (dict order) after `j` replacements: inner virtual nodes, remaining virtual leaves,
    physical nodes -/
def replNodes (bd d T j : Nat) : List (GNode BinId) :=
  (List.range T).map (innerR bd T j) ++ (List.range' (T + j) (T + 1 - j)).map (leafR bd) ++
    (List.range j).map (physR bd d T)

theorem repl_zero (bd d T : Nat) : loopNodes bd T = replNodes bd d T 0 := by
  unfold loopNodes replNodes loopIds
  rw [List.map_map]
  have e : 2 * T + 1 = T + (T + 1) := by omega
  rw [e, List.range_add, List.map_append]
  simp only [List.range_zero, List.map_nil, List.append_nil, Nat.add_zero, Nat.sub_zero]
  congr 1
  · apply List.map_congr_left
    intro h hh
    have hh' := List.mem_range.1 hh
    simp only [Function.comp, loopF_virtId, loopNodeH, innerR, kidR, parentH, hh', if_true]
    have a : ¬ (T ≤ 2 * h + 1 ∧ 2 * h + 1 < T) := by omega
    have b : ¬ (T ≤ 2 * h + 2 ∧ 2 * h + 2 < T) := by omega
    simp [a, b]
  · rw [List.range'_eq_map_range, List.map_map, List.map_map]
    apply List.map_congr_left
    intro h _
    simp only [Function.comp, loopF_virtId, loopNodeH, leafR, parentH]
    have a : ¬ (T + h < T) := by omega
    simp [a]

theorem gFind_mid (A B : List (GNode BinId)) (x : GNode BinId) (i : BinId)
    (hA : ∀ y ∈ A, y.id ≠ i) (hx : x.id = i) : gFind (A ++ x :: B) i = some x := by
  unfold gFind
  rw [List.find?_append]
  have : A.find? (fun y => decide (y.id = i)) = none := by
    rw [List.find?_eq_none]
    intro y hy
    simp [hA y hy]
  rw [this]
  simp [hx]

theorem kidR_ne (T j g : Nat) (hg : g ≠ T + j) : kidR T j g ≠ virtId (T + j) := by
  unfold kidR
  split
  · intro e; cases e
  · intro e; exact hg (virtId_inj _ _ e)

theorem kidR_succ_ne (T j g : Nat) (hg : g ≠ T + j) : kidR T (j + 1) g = kidR T j g := by
  unfold kidR
  have : (T ≤ g ∧ g < T + (j + 1)) ↔ (T ≤ g ∧ g < T + j) := by omega
  simp only [this]

theorem kidR_at (T j : Nat) : kidR T j (T + j) = virtId (T + j) ∧ kidR T (j + 1) (T + j) = .phys j := by
  unfold kidR
  have a : ¬ (T ≤ T + j ∧ T + j < T + j) := by omega
  have b : T ≤ T + j ∧ T + j < T + (j + 1) := by omega
  rw [if_neg a, if_pos b]
  exact ⟨rfl, by congr 1; omega⟩

/-- one replacement: the `j`-th queued leaf (breadth-first index `T + j`) becomes `phys j` -/
theorem repl_step (bd d T j : Nat) (hT : 1 ≤ T) (hj : j ≤ T) :
    binReplace (replNodes bd d T j) (.phys j) (virtId (T + j)) [bd, d] =
      some (replNodes bd d T (j + 1)) := by
  -- shape of the current node list
  let A := (List.range T).map (innerR bd T j)
  let B := (List.range' (T + j + 1) (T - j)).map (leafR bd) ++ (List.range j).map (physR bd d T)
  have hsplit : replNodes bd d T j = A ++ leafR bd (T + j) :: B := by
    unfold replNodes
    have e : T + 1 - j = (T - j) + 1 := by omega
    rw [e, List.range'_succ, List.map_cons]
    simp [A, B]
  have hne0 : ¬ (T + j = 0) := by omega
  have hpar : parentH (T + j) = some (virtId ((T + j - 1) / 2)) := by
    unfold parentH; rw [if_neg hne0]
  have hvs : vshapeH bd (T + j) = [bd, bd, bd, 1] := by unfold vshapeH; rw [if_neg hne0]
  have hfind : gFind (replNodes bd d T j) (virtId (T + j)) = some (leafR bd (T + j)) := by
    rw [hsplit]
    apply gFind_mid
    · intro y hy
      obtain ⟨h, hh, rfl⟩ := List.mem_map.1 hy
      have := List.mem_range.1 hh
      intro e
      have := virtId_inj _ _ e
      omega
    · rfl
  unfold binReplace
  rw [hfind]
  simp only
  have hcheck : (List.range (leafR bd (T + j)).nvirt).all (fun k =>
      decide (([bd, d] : List Nat)[k]? ≠ none ∧ ([bd, d] : List Nat)[k]? = (leafR bd (T + j)).shapeAt k)) = true := by
    have : (leafR bd (T + j)).nvirt = 1 := by simp [leafR, GNode.nvirt, hpar]
    rw [this]
    simp [leafR, GNode.shapeAt, hvs]
  rw [if_pos hcheck]
  -- the update of every node
  have hupd : ∀ x : GNode BinId, replUpd (leafR bd (T + j)) (BinId.phys j) (virtId (T + j)) x =
      if x.id = virtId ((T + j - 1) / 2) then
        { x with children := x.children.map fun c => if c = virtId (T + j) then BinId.phys j else c }
      else x := by
    intro x
    unfold replUpd
    have h1 : (leafR bd (T + j)).children = [] := rfl
    have h2 : (leafR bd (T + j)).parent = some (virtId ((T + j - 1) / 2)) := hpar
    rw [h1, h2]
    simp only [List.contains_nil, Bool.false_eq_true, false_and, if_false, Option.some.injEq]
    by_cases hx : x.id = virtId ((T + j - 1) / 2)
    · have : x.id ≠ BinId.phys j := by rw [hx]; intro e; cases e
      rw [if_pos ⟨hx, this⟩, if_pos hx]
    · rw [if_neg (fun h => hx h.1), if_neg hx]
  -- inner nodes
  have hA : ∀ h, h < T →
      replUpd (leafR bd (T + j)) (BinId.phys j) (virtId (T + j)) (innerR bd T j h) =
        innerR bd T (j + 1) h := by
    intro h hh
    rw [hupd]
    by_cases hp : h = (T + j - 1) / 2
    · have hc : (innerR bd T j h).id = virtId ((T + j - 1) / 2) := by rw [hp]; rfl
      rw [if_pos hc]
      simp only [innerR, List.map_cons, List.map_nil, GNode.mk.injEq, true_and, and_true,
        List.cons.injEq]
      constructor
      · by_cases hg : 2 * h + 1 = T + j
        · rw [hg, (kidR_at T j).1, (kidR_at T j).2]; simp
        · rw [if_neg (kidR_ne T j _ hg), kidR_succ_ne T j _ hg]
      · by_cases hg : 2 * h + 2 = T + j
        · rw [hg, (kidR_at T j).1, (kidR_at T j).2]; simp
        · rw [if_neg (kidR_ne T j _ hg), kidR_succ_ne T j _ hg]
    · have hc : ¬ (innerR bd T j h).id = virtId ((T + j - 1) / 2) := by
        intro e
        exact hp (virtId_inj _ _ e)
      rw [if_neg hc]
      simp only [innerR, GNode.mk.injEq, true_and, and_true, List.cons.injEq]
      exact ⟨(kidR_succ_ne T j _ (by omega)).symm, (kidR_succ_ne T j _ (by omega)).symm⟩
  -- leaves and physical nodes are untouched
  have hB : ∀ y ∈ leafR bd (T + j) :: B,
      replUpd (leafR bd (T + j)) (BinId.phys j) (virtId (T + j)) y = y := by
    intro y hy
    rw [hupd, if_neg]
    simp only [List.mem_cons, B, List.mem_append, List.mem_map, List.mem_range'_1, List.mem_range] at hy
    rcases hy with rfl | ⟨h, hh, rfl⟩ | ⟨k, _, rfl⟩
    · intro e; have := virtId_inj _ _ e; omega
    · intro e; have := virtId_inj _ _ e; omega
    · intro e; cases e
  rw [hsplit, List.map_append]
  have hmapA : A.map (replUpd (leafR bd (T + j)) (BinId.phys j) (virtId (T + j))) =
      (List.range T).map (innerR bd T (j + 1)) := by
    simp only [A, List.map_map]
    apply List.map_congr_left
    intro h hh
    exact hA h (List.mem_range.1 hh)
  have hmapB : (leafR bd (T + j) :: B).map (replUpd (leafR bd (T + j)) (BinId.phys j) (virtId (T + j))) =
      leafR bd (T + j) :: B := by
    conv => rhs; rw [← List.map_id (leafR bd (T + j) :: B)]
    apply List.map_congr_left
    intro y hy
    exact hB y hy
  rw [hmapA, hmapB, List.filter_append, List.filter_cons]
  have hkeepA : ((List.range T).map (innerR bd T (j + 1))).filter (fun x => decide (x.id ≠ virtId (T + j))) =
      (List.range T).map (innerR bd T (j + 1)) := by
    rw [List.filter_eq_self]
    intro y hy
    obtain ⟨h, hh, rfl⟩ := List.mem_map.1 hy
    have := List.mem_range.1 hh
    apply decide_eq_true
    intro e; have := virtId_inj _ _ e; omega
  have hdrop : decide ((leafR bd (T + j)).id ≠ virtId (T + j)) = false := by simp [leafR]
  have hkeepB : B.filter (fun x => decide (x.id ≠ virtId (T + j))) = B := by
    rw [List.filter_eq_self]
    intro y hy
    simp only [B, List.mem_append, List.mem_map, List.mem_range'_1, List.mem_range] at hy
    apply decide_eq_true
    rcases hy with ⟨h, hh, rfl⟩ | ⟨k, _, rfl⟩
    · intro e; have := virtId_inj _ _ e; omega
    · intro e; cases e
  rw [hkeepA, hdrop, hkeepB]
  simp only [Bool.false_eq_true, if_false]
  congr 1
  unfold replNodes
  have e : T + 1 - (j + 1) = T - j := by omega
  rw [e, List.range_succ, List.map_append]
  simp only [B, List.append_assoc, List.map_cons, List.map_nil]
  congr 3

theorem loopQueue_get (T k : Nat) (hk : k ≤ T) : (loopQueue T)[k]? = some (heapPos (T + k)) := by
  unfold loopQueue
  rw [List.getElem?_map, List.getElem?_range' (by omega)]
  simp

/-- the whole replacement loop -/
theorem repl_fold (bd d T : Nat) (hT : 1 ≤ T) (m : Nat) (hm : m ≤ T + 1) :
    (List.range m).foldl
      (fun acc k => acc.bind fun ns =>
        match (loopQueue T)[k]? with
        | none => none
        | some lp => binReplace ns (.phys k) (.virt lp.1 lp.2) [bd, d]) (some (replNodes bd d T 0)) =
      some (replNodes bd d T m) := by
  induction m with
  | zero => rfl
  | succ m ih =>
    rw [List.range_succ, List.foldl_append, ih (by omega)]
    simp only [List.foldl_cons, List.foldl_nil, Option.bind_some]
    rw [loopQueue_get T m (by omega)]
    exact repl_step bd d T m hT (by omega)

/-- closed form of `generate_binary_ttns` -/
theorem binGenerate_closed (nphys bd d : Nat) (hn : 2 ≤ nphys) (hb : 1 ≤ bd) :
    binGenerate nphys bd d = some (replNodes bd d (nphys - 1) nphys) := by
  unfold binGenerate
  rw [if_neg (by omega), binAddAll_eq nphys bd (by omega)]
  simp only
  rw [loopQueue_length, repl_zero bd d]
  have e : nphys - 1 + 1 = nphys := by omega
  rw [e]
  have := repl_fold bd d (nphys - 1) (by omega) nphys (by omega)
  exact this

/-! ### the specified result -/

/-- the node with breadth-first index `g` of the finished tree: the first `nphys - 1` indices are
    virtual nodes, the following `nphys` ones the physical sites in order -/
def binFinalId (nphys g : Nat) : BinId :=
  if g < nphys - 1 then virtId g else .phys (g - (nphys - 1))

/-- the finished binary tree in dict order: the complete binary tree ("heap") with `2·nphys - 1` nodes in
    breadth-first numbering; node `g` has parent `(g-1)/2` and, if virtual, the children `2g+1`, `2g+2` -/
def binFinal (nphys bd d : Nat) : List (GNode BinId) :=
  (List.range (nphys - 1)).map (fun h =>
    (⟨virtId h, parentH h, [binFinalId nphys (2 * h + 1), binFinalId nphys (2 * h + 2)],
      List.range (vshapeH bd h).length, vshapeH bd h⟩ : GNode BinId)) ++
  (List.range nphys).map (fun k =>
    (⟨.phys k, parentH (nphys - 1 + k), [], [0, 1], [bd, d]⟩ : GNode BinId))

theorem replNodes_final (nphys bd d : Nat) (hn : 1 ≤ nphys) :
    replNodes bd d (nphys - 1) nphys = binFinal nphys bd d := by
  unfold replNodes binFinal
  have e : nphys - 1 + 1 - nphys = 0 := by omega
  rw [e]
  simp only [List.range'_zero, List.map_nil, List.append_nil]
  congr 1
  apply List.map_congr_left
  intro h hh
  have hh' := List.mem_range.1 hh
  simp only [innerR, GNode.mk.injEq, true_and, and_true, List.cons.injEq]
  unfold kidR binFinalId
  constructor
  · by_cases hg : 2 * h + 1 < nphys - 1
    · rw [if_neg (by omega), if_pos hg]
    · rw [if_pos (by omega), if_neg hg]
  · by_cases hg : 2 * h + 2 < nphys - 1
    · rw [if_neg (by omega), if_pos hg]
    · rw [if_pos (by omega), if_neg hg]

theorem binFinal_ids (nphys bd d : Nat) :
    (binFinal nphys bd d).map (·.id) =
      (List.range (nphys - 1)).map virtId ++ (List.range nphys).map BinId.phys := by
  simp [binFinal, Function.comp_def]

theorem binFinal_ids_nodup (nphys : Nat) :
    ((List.range (nphys - 1)).map virtId ++ (List.range nphys).map BinId.phys).Nodup := by
  rw [List.nodup_append]
  refine ⟨?_, ?_, ?_⟩
  · rw [List.Nodup, List.pairwise_map]
    refine List.Pairwise.imp ?_ (List.pairwise_lt_range (n := nphys - 1))
    intro a b hab e
    have := virtId_inj _ _ e
    omega
  · rw [List.Nodup, List.pairwise_map]
    refine List.Pairwise.imp ?_ (List.pairwise_lt_range (n := nphys))
    intro a b hab e
    injection e with e
    omega
  · intro a ha b hb e
    obtain ⟨h, _, rfl⟩ := List.mem_map.1 ha
    obtain ⟨k, _, rfl⟩ := List.mem_map.1 hb
    cases e

end Ptn.C19
