import Ptn.C19.Model
/-! Executable part of the value level for the matrix-product chain (core Lean only; used by the driver and by
`ValueChain.lean`): the labels of a node's legs and the binding record of the network `from_tensor_list` built,
read off the model state. -/
namespace Ptn.C19

abbrev CLeg := Nat × Axis

/-- the specified chain: the right axis of site `i` is joined to the left axis of site `i + 1` -/
def chainRecord (n : Nat) : List (CLeg × CLeg) :=
  (List.range (n - 1)).map fun i => ((i, Axis.right), (i + 1, Axis.left))

/-- label of the `k`-th logical leg of the node `x`: the name of the input axis that sits there -/
def MNode.lab (n : Nat) (x : MNode) (k : Nat) : CLeg := (x.id, (x.legs.map (axisName n x.id)).getD k Axis.left)

/-- `Node.neighbour_index(c)`: position of `c` in `[parent] + children` -/
def MNode.nbrPos (q : MNode) (c : Nat) : Nat := (q.parent.toList ++ q.children).idxOf c

/-- the binding record of the network the constructor built: for every node with a parent (dict order) the
parent's leg towards it and its own leg `0` -/
def stRecord (n : Nat) (st : MPT) : List (CLeg × CLeg) :=
  st.nodes.filterMap fun x => match x.parent with
    | none => none
    | some q => (st.find q).map fun pn => (pn.lab n (pn.nbrPos x.id), x.lab n 0)

/-- the edge of site `i ≠ r` to its parent, parent end first -/
def recPair (r i : Nat) : CLeg × CLeg :=
  if i < r then ((i + 1, Axis.left), (i, Axis.right)) else ((i - 1, Axis.right), (i, Axis.left))

end Ptn.C19
