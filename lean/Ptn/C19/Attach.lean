import Ptn.C19.Special
import Ptn.C19.Mps
/-! Generic layer for the star / fork / binary constructors: a network grown from a root by
`add_child_to_parent(child, tensor, 0, parent, first open leg of the parent)` has an explicit closed form
in terms of the log of operations (helper lemmas for `star_structure`, `fork_structure`,
`binary_structure`). -/
namespace Ptn.C19

/-- one accepted attachment: new identifier, shape of its tensor, identifier of the parent -/
structure AOp (ι : Type) where
  cid : ι
  shape : List Nat
  pid : ι
deriving Repr, DecidableEq

variable {ι : Type} [DecidableEq ι]

def runOps (nodes : List (GNode ι)) (ops : List (AOp ι)) : Option (List (GNode ι)) :=
  ops.foldl (fun acc o => acc.bind fun ns => attachFirstOpen ns o.cid o.shape o.pid) (some nodes)

/-! ### the closed form -/

def parentOf (ops : List (AOp ι)) (i : ι) : Option ι := (ops.find? (fun o => decide (o.cid = i))).map (·.pid)

def childrenOf (ops : List (AOp ι)) (i : ι) : List ι := (ops.filter (fun o => decide (o.pid = i))).map (·.cid)

def shapeOf (r : ι) (rs : List Nat) (ops : List (AOp ι)) (i : ι) : List Nat :=
  if i = r then rs else ((ops.find? (fun o => decide (o.cid = i))).map (·.shape)).getD []

/-- the node `i` of the network grown from the root `r` (shape `rs`) by the operations `ops`:
    parent = the parent named when `i` was attached, children = the nodes attached to `i` in order,
    legs in the order of the array handed in, which therefore must be `(parent, children…, open…)` -/
def nodeG (r : ι) (rs : List Nat) (ops : List (AOp ι)) (i : ι) : GNode ι :=
  ⟨i, parentOf ops i, childrenOf ops i, List.range (shapeOf r rs ops i).length, shapeOf r rs ops i⟩

def idsG (r : ι) (ops : List (AOp ι)) : List ι := r :: ops.map (·.cid)

def closedG (r : ι) (rs : List Nat) (ops : List (AOp ι)) : List (GNode ι) :=
  (idsG r ops).map (nodeG r rs ops)

/-- invariant of accepted logs: identifiers distinct, every parent was present before -/
def GoodLog (r : ι) (ops : List (AOp ι)) : Prop :=
  (idsG r ops).Nodup ∧ ∀ o ∈ ops, o.pid ∈ idsG r ops

theorem gFind_map_id (ids : List ι) (f : ι → GNode ι) (hf : ∀ i, (f i).id = i) (j : ι) :
    gFind (ids.map f) j = if j ∈ ids then some (f j) else none := by
  unfold gFind
  induction ids with
  | nil => simp
  | cons a ids ih =>
    simp only [List.map_cons, List.find?_cons, hf, List.mem_cons]
    by_cases h : a = j
    · subst h; simp
    · have h'' : ¬ j = a := fun e => h e.symm
      simp only [h, decide_false, ih, h'', false_or]

omit [DecidableEq ι] in
theorem gtoChild_eq (x : GNode ι) (cid : ι) (h2 : x.nvirt < x.legs.length) :
    x.toChild cid x.nvirt = ⟨x.id, x.parent, x.children ++ [cid], x.legs, x.dims⟩ := by
  unfold GNode.toChild
  rw [popInsert_self _ _ h2]

theorem nodeG_id (r : ι) (rs : List Nat) (ops : List (AOp ι)) (i : ι) : (nodeG r rs ops i).id = i := rfl

omit [DecidableEq ι] in
theorem idsG_append (r : ι) (pre : List (AOp ι)) (o : AOp ι) :
    idsG r (pre ++ [o]) = idsG r pre ++ [o.cid] := by
  simp [idsG]

theorem find_cid_append (pre : List (AOp ι)) (o : AOp ι) (i : ι) (h : i ≠ o.cid) :
    (pre ++ [o]).find? (fun o' => decide (o'.cid = i)) = pre.find? (fun o' => decide (o'.cid = i)) := by
  rw [List.find?_append]
  have : ([o].find? fun o' => decide (o'.cid = i)) = none := by
    rw [List.find?_eq_none]
    intro x hx
    simp only [List.mem_cons, List.not_mem_nil, or_false] at hx
    subst hx
    simp only [decide_eq_true_eq]
    exact fun e => h e.symm
  rw [this, Option.or_none]

theorem find_cid_new (pre : List (AOp ι)) (o : AOp ι) (h : o.cid ∉ pre.map (·.cid)) :
    (pre ++ [o]).find? (fun o' => decide (o'.cid = o.cid)) = some o := by
  rw [List.find?_append]
  have : pre.find? (fun o' => decide (o'.cid = o.cid)) = none := by
    rw [List.find?_eq_none]
    intro x hx
    simp only [decide_eq_true_eq]
    intro e
    exact h (List.mem_map.2 ⟨x, hx, e⟩)
  rw [this]
  simp

/-- one accepted attachment extends the closed form -/
theorem attach_step (r : ι) (rs : List Nat) (pre : List (AOp ι)) (o : AOp ι) (ns : List (GNode ι))
    (hg : GoodLog r pre)
    (h : attachFirstOpen (closedG r rs pre) o.cid o.shape o.pid = some ns) :
    ns = closedG r rs (pre ++ [o]) ∧ GoodLog r (pre ++ [o]) := by
  obtain ⟨hnd, hpar⟩ := hg
  unfold attachFirstOpen closedG at h
  rw [gFind_map_id _ _ (nodeG_id r rs pre)] at h
  by_cases hp : o.pid ∈ idsG r pre
  · rw [if_pos hp] at h
    simp only at h
    unfold gAddChild at h
    rw [gFind_map_id _ _ (nodeG_id r rs pre), if_pos hp, gFind_map_id _ _ (nodeG_id r rs pre)] at h
    simp only at h
    by_cases hc : o.cid ∈ idsG r pre
    · rw [if_pos hc] at h
      simp at h
    · rw [if_neg hc] at h
      simp only [Option.isSome_none, Bool.false_eq_true, if_false] at h
      by_cases h1 : o.shape.length ≤ 0
      · rw [if_pos h1] at h
        cases h
      · rw [if_neg h1] at h
        by_cases h2 : (nodeG r rs pre o.pid).nvirt < (nodeG r rs pre o.pid).nvirt ∨
            (nodeG r rs pre o.pid).legs.length ≤ (nodeG r rs pre o.pid).nvirt
        · rw [if_pos h2] at h
          cases h
        · rw [if_neg h2] at h
          by_cases h3 : o.shape[0]? ≠ (nodeG r rs pre o.pid).shapeAt (nodeG r rs pre o.pid).nvirt
          · rw [if_pos h3] at h
            cases h
          · rw [if_neg h3] at h
            have hlen : (nodeG r rs pre o.pid).nvirt < (nodeG r rs pre o.pid).legs.length := by omega
            have hne : o.pid ≠ o.cid := fun e => hc (e ▸ hp)
            have hcr : o.cid ≠ r := fun e => hc (by rw [e]; simp [idsG])
            have hcpre : o.cid ∉ pre.map (·.cid) := fun e => hc (by simp only [idsG, List.mem_cons]; exact Or.inr e)
            refine ⟨?_, ?_, ?_⟩
            · -- the new node list is the closed form of the longer log
              injection h with h
              rw [← h, closedG, idsG_append, List.map_append, List.map_map]
              congr 1
              · apply List.map_congr_left
                intro i hi
                have hic : i ≠ o.cid := fun e => hc (e ▸ hi)
                simp only [Function.comp, nodeG_id]
                have hpo : parentOf (pre ++ [o]) i = parentOf pre i := by
                  unfold parentOf; rw [find_cid_append pre o i hic]
                have hsh : shapeOf r rs (pre ++ [o]) i = shapeOf r rs pre i := by
                  unfold shapeOf; rw [find_cid_append pre o i hic]
                by_cases hip : i = o.pid
                · subst hip
                  simp only [↓reduceIte]
                  rw [gtoChild_eq _ _ hlen]
                  simp only [nodeG, GNode.mk.injEq, true_and]
                  rw [hpo, hsh]
                  refine ⟨rfl, ?_, rfl, rfl⟩
                  unfold childrenOf
                  rw [List.filter_append, List.map_append]
                  simp
                · simp only [hip, ↓reduceIte]
                  simp only [nodeG, GNode.mk.injEq, true_and]
                  rw [hpo, hsh]
                  refine ⟨rfl, ?_, rfl, rfl⟩
                  unfold childrenOf
                  rw [List.filter_append, List.map_append]
                  have : ¬ o.pid = i := fun e => hip e.symm
                  simp [this]
              · simp only [List.map_cons, List.map_nil, nodeG, List.cons.injEq, and_true, GNode.mk.injEq,
                  true_and]
                have hsh : shapeOf r rs (pre ++ [o]) o.cid = o.shape := by
                  unfold shapeOf; rw [if_neg hcr, find_cid_new pre o hcpre]; rfl
                rw [hsh]
                refine ⟨?_, ?_, ?_, rfl⟩
                · unfold parentOf; rw [find_cid_new pre o hcpre]; rfl
                · unfold childrenOf
                  rw [List.filter_append, List.map_append]
                  have e1 : pre.filter (fun o' => decide (o'.pid = o.cid)) = [] := by
                    rw [List.filter_eq_nil_iff]
                    intro x hx
                    simp only [decide_eq_true_eq]
                    intro e
                    exact hc (e ▸ hpar x hx)
                  rw [e1]
                  simp [hne]
                · exact popInsert_self (List.range o.shape.length) 0 (by rw [List.length_range]; omega)
            · rw [idsG_append, List.nodup_append]
              refine ⟨hnd, by simp, ?_⟩
              intro a ha b hb
              simp only [List.mem_cons, List.not_mem_nil, or_false] at hb
              subst hb
              exact fun e => hc (e ▸ ha)
            · intro o' ho'
              rw [idsG_append, List.mem_append]
              rcases List.mem_append.1 ho' with h' | h'
              · exact Or.inl (hpar o' h')
              · simp only [List.mem_cons, List.not_mem_nil, or_false] at h'
                subst h'
                exact Or.inl hp
  · rw [if_neg hp] at h
    simp at h

theorem closedG_nil (r : ι) (rs : List Nat) : closedG r rs [] = [rootNode r rs] := by
  simp [closedG, idsG, nodeG, parentOf, childrenOf, shapeOf, rootNode]

omit [DecidableEq ι] in
theorem goodLog_nil (r : ι) : GoodLog r ([] : List (AOp ι)) := by
  simp [GoodLog, idsG]

theorem foldl_bind_none {α β : Type} (f : α → β → Option α) (l : List β) :
    l.foldl (fun acc x => acc.bind fun s => f s x) none = none := by
  induction l with
  | nil => rfl
  | cons a l ih => simpa using ih

/-! ### reading the structure off the closed form -/

theorem find_of_nodup (ops : List (AOp ι)) (hnd : (ops.map (·.cid)).Nodup) (o : AOp ι) (ho : o ∈ ops) :
    ops.find? (fun o' => decide (o'.cid = o.cid)) = some o := by
  induction ops with
  | nil => cases ho
  | cons a l ih =>
    simp only [List.map_cons, List.nodup_cons] at hnd
    rw [List.find?_cons]
    by_cases h : a.cid = o.cid
    · simp only [h, decide_true]
      rcases List.mem_cons.1 ho with rfl | hl
      · rfl
      · exact absurd (List.mem_map.2 ⟨o, hl, rfl⟩) (h ▸ hnd.1)
    · simp only [h, decide_false]
      rcases List.mem_cons.1 ho with rfl | hl
      · exact absurd rfl h
      · exact ih hnd.2 hl

omit [DecidableEq ι] in
theorem goodLog_cids_nodup {r : ι} {ops : List (AOp ι)} (hg : GoodLog r ops) :
    (ops.map (·.cid)).Nodup := by
  have := hg.1
  simp only [idsG, List.nodup_cons] at this
  exact this.2

/-- the parent recorded for an attached node is the one named in its operation -/
theorem closed_parent {r : ι} {ops : List (AOp ι)} (hg : GoodLog r ops) (o : AOp ι) (ho : o ∈ ops) :
    parentOf ops o.cid = some o.pid := by
  unfold parentOf
  rw [find_of_nodup ops (goodLog_cids_nodup hg) o ho]
  rfl

theorem closed_shape {r : ι} (rs : List Nat) {ops : List (AOp ι)} (hg : GoodLog r ops) (o : AOp ι)
    (ho : o ∈ ops) : shapeOf r rs ops o.cid = o.shape := by
  have hne : o.cid ≠ r := by
    intro e
    have := hg.1
    simp only [idsG, List.nodup_cons] at this
    exact this.1 (e ▸ List.mem_map.2 ⟨o, ho, rfl⟩)
  unfold shapeOf
  rw [if_neg hne, find_of_nodup ops (goodLog_cids_nodup hg) o ho]
  rfl

/-- the root has no parent -/
theorem closed_root {r : ι} {ops : List (AOp ι)} (hg : GoodLog r ops) : parentOf ops r = none := by
  unfold parentOf
  have : ops.find? (fun o' => decide (o'.cid = r)) = none := by
    rw [List.find?_eq_none]
    intro x hx
    simp only [decide_eq_true_eq]
    intro e
    have := hg.1
    simp only [idsG, List.nodup_cons] at this
    exact this.1 (e ▸ List.mem_map.2 ⟨x, hx, rfl⟩)
  rw [this]
  rfl

omit [DecidableEq ι] in
theorem closed_root_shape (r : ι) (rs : List Nat) (ops : List (AOp ι)) [DecidableEq ι] :
    shapeOf r rs ops r = rs := by
  simp [shapeOf]

theorem mem_childrenOf (ops : List (AOp ι)) (i c : ι) :
    c ∈ childrenOf ops i ↔ ∃ o ∈ ops, o.pid = i ∧ o.cid = c := by
  simp [childrenOf, List.mem_map, List.mem_filter, and_assoc]

theorem childrenOf_nodup {r : ι} {ops : List (AOp ι)} (hg : GoodLog r ops) (i : ι) :
    (childrenOf ops i).Nodup := by
  unfold childrenOf
  exact List.Pairwise.sublist (List.Sublist.map _ List.filter_sublist) (goodLog_cids_nodup hg)

omit [DecidableEq ι] in
/-- a duplicate-free list all of whose entries equal `a` is empty or `[a]` -/
theorem nodup_all_eq (l : List ι) (a : ι) (hnd : l.Nodup) (h : ∀ x ∈ l, x = a) : l = [] ∨ l = [a] := by
  cases l with
  | nil => exact Or.inl rfl
  | cons x l =>
    right
    have hx := h x (List.mem_cons_self)
    subst hx
    cases l with
    | nil => rfl
    | cons y l =>
      have hy := h y (List.mem_cons_of_mem _ List.mem_cons_self)
      subst hy
      simp at hnd

theorem mem_closedG (r : ι) (rs : List Nat) (ops : List (AOp ι)) (x : GNode ι) :
    x ∈ closedG r rs ops ↔ ∃ i ∈ idsG r ops, x = nodeG r rs ops i := by
  simp [closedG, List.mem_map, eq_comm]

/-- forward form: `gAddChild` on a state given as `ids.map f` succeeds and gives `(ids ++ [cid]).map g` -/
theorem gAddChild_closed (ids : List ι) (f g : ι → GNode ι) (cid : ι) (shape : List Nat)
    (cleg : Nat) (pid : ι) (pleg : Nat)
    (hf : ∀ i, (f i).id = i) (hp : pid ∈ ids) (hc : cid ∉ ids)
    (h1 : cleg < shape.length) (h2 : (f pid).nvirt ≤ pleg) (h3 : pleg < (f pid).legs.length)
    (h4 : shape[cleg]? = (f pid).shapeAt pleg)
    (hg1 : ∀ i ∈ ids, g i = if i = pid then (f i).toChild cid pleg else f i)
    (hg2 : g cid = ⟨cid, some pid, [], popInsert (List.range shape.length) cleg 0, shape⟩) :
    gAddChild (ids.map f) cid shape cleg pid pleg = some ((ids ++ [cid]).map g) := by
  unfold gAddChild
  rw [gFind_map_id ids f hf, if_pos hp, gFind_map_id ids f hf, if_neg hc]
  simp only [Option.isSome_none, Bool.false_eq_true, if_false]
  rw [if_neg (by omega), if_neg (by omega), if_neg (by simp [h4])]
  congr 1
  rw [List.map_append, List.map_map]
  congr 1
  · apply List.map_congr_left
    intro i hi
    simp only [Function.comp, hf, hg1 i hi]
  · simp [hg2]

end Ptn.C19
