import Ptn.C19.Const
/-! Forward (acceptance) direction for the star constructor: when does `add_chain_node` accept a call, in terms of
the closed form of `Attach.lean` / `StarFork.lean` (helper lemmas for `star_const_structure`). -/
namespace Ptn.C19

section generic
variable {ι : Type} [DecidableEq ι]

theorem nodeG_shapeAt (r : ι) (rs : List Nat) (ops : List (AOp ι)) (i : ι) (k : Nat) :
    (nodeG r rs ops i).shapeAt k = (shapeOf r rs ops i)[k]? := by
  unfold GNode.shapeAt nodeG
  simp only
  by_cases h : k < (shapeOf r rs ops i).length
  · rw [List.getElem?_range h]; rfl
  · have e1 : (List.range (shapeOf r rs ops i).length)[k]? = none := by
      rw [List.getElem?_eq_none_iff, List.length_range]; omega
    have e2 : (shapeOf r rs ops i)[k]? = none := by
      rw [List.getElem?_eq_none_iff]; omega
    rw [e1, e2]; rfl

/-- forward form of `attach_step`: an attachment at the parent's first open leg is ACCEPTED when the parent is
    present, the new identifier is fresh, the new tensor has a leg 0, the parent has an open leg and the two
    dimensions agree -/
theorem attach_accept (r : ι) (rs : List Nat) (pre : List (AOp ι)) (cid pid : ι) (shape : List Nat)
    (hp : pid ∈ idsG r pre) (hc : cid ∉ idsG r pre) (h1 : 0 < shape.length)
    (h2 : (nodeG r rs pre pid).nvirt < (shapeOf r rs pre pid).length)
    (h3 : shape[0]? = (shapeOf r rs pre pid)[(nodeG r rs pre pid).nvirt]?) :
    ∃ ns, attachFirstOpen (closedG r rs pre) cid shape pid = some ns := by
  unfold attachFirstOpen closedG
  rw [gFind_map_id _ _ (nodeG_id r rs pre), if_pos hp]
  simp only
  unfold gAddChild
  rw [gFind_map_id _ _ (nodeG_id r rs pre), if_pos hp, gFind_map_id _ _ (nodeG_id r rs pre), if_neg hc]
  simp only [Option.isSome_none, Bool.false_eq_true, if_false]
  have hl : (nodeG r rs pre pid).legs.length = (shapeOf r rs pre pid).length := by simp [nodeG]
  rw [if_neg (by omega), if_neg (by omega), if_neg (by rw [nodeG_shapeAt]; simp [h3])]
  exact ⟨_, rfl⟩

theorem childrenOf_snoc (ops : List (AOp ι)) (o : AOp ι) (i : ι) :
    childrenOf (ops ++ [o]) i = childrenOf ops i ++ (if o.pid = i then [o.cid] else []) := by
  unfold childrenOf
  rw [List.filter_append, List.map_append]
  by_cases h : o.pid = i <;> simp [h]

end generic

/-! ### star -/

theorem cntC_append (a b : List (Nat × List Nat)) (c : Nat) : cntC (a ++ b) c = cntC a c + cntC b c := by
  unfold cntC; rw [List.map_append, List.count_append]

theorem cntC_cons (c' : Nat) (sh : List Nat) (xs : List (Nat × List Nat)) (c : Nat) :
    cntC ((c', sh) :: xs) c = (if c' = c then 1 else 0) + cntC xs c := by
  have := cntC_append [(c', sh)] xs c
  simp only [List.singleton_append] at this
  rw [this]
  congr 1
  have := cntC_snoc [] c' sh c
  simpa [cntC] using this

/-- which chain nodes exist after the calls `p ++ xs`, among those attached by `xs` -/
theorem starOpsAux_cids (p xs : List (Nat × List Nat)) (c k : Nat) :
    StarId.chain c k ∈ (starOpsAux p xs).map (·.cid) ↔ cntC p c ≤ k ∧ k < cntC p c + cntC xs c := by
  induction xs generalizing p with
  | nil =>
    have : cntC [] c = 0 := by simp [cntC]
    simp only [starOpsAux, List.map_nil, List.not_mem_nil, this, false_iff]
    omega
  | cons x xs ih =>
    obtain ⟨c', sh⟩ := x
    simp only [starOpsAux, List.map_cons, List.mem_cons, ih, starOp]
    rw [cntC_snoc p c' sh c, cntC_cons c' sh xs c]
    by_cases h : c' = c
    · subst h
      simp only [if_true, StarId.chain.injEq, true_and]
      omega
    · have h' : ¬ c = c' := fun e => h e.symm
      simp only [if_neg h, StarId.chain.injEq, h', false_and, false_or]
      omega

/-- `chain c k` exists after the calls `done` iff `k` is smaller than the number of calls for chain `c` -/
theorem starOps_cids (done : List (Nat × List Nat)) (c k : Nat) :
    StarId.chain c k ∈ (starOps done).map (·.cid) ↔ k < cntC done c := by
  unfold starOps
  rw [starOpsAux_cids]
  have : cntC [] c = 0 := by simp [cntC]
  rw [this]
  omega

theorem star_chain_mem_ids (done : List (Nat × List Nat)) (c k : Nat) :
    StarId.chain c k ∈ idsG StarId.center (starOps done) ↔ k < cntC done c := by
  rw [← starOps_cids]
  simp [idsG]

/-- the last node of a chain has no child yet -/
theorem star_last_no_children (done : List (Nat × List Nat)) (c : Nat) (hpos : 0 < cntC done c) :
    childrenOf (starOps done) (StarId.chain c (cntC done c - 1)) = [] := by
  unfold childrenOf
  rw [List.map_eq_nil_iff, List.filter_eq_nil_iff]
  intro o ho
  simp only [decide_eq_true_eq]
  intro e
  obtain ⟨c2, j2, hc2, hp2⟩ := starOpsAux_form [] done o ho
  rw [e] at hp2
  by_cases hj : j2 = 0
  · rw [if_pos hj] at hp2; cases hp2
  · rw [if_neg hj] at hp2
    injection hp2 with h1 h2
    have hmem : StarId.chain c2 j2 ∈ (starOps done).map (·.cid) := List.mem_map.2 ⟨o, ho, hc2⟩
    rw [starOps_cids] at hmem
    subst h1
    omega

/-- **forward step**: `add_chain_node(tensor of shape `shape`, c)` is accepted in a state reached by the calls
    `done` when `c` is an existing or the next chain index, the tensor has a leg 0, and
    * new chain: the centre still has an open leg and the dimension of its first open leg is `shape[0]`;
    * existing chain: the last node of the chain has a second leg, of dimension `shape[0]`. -/
theorem star_accept (cshape : List Nat) (done : List (Nat × List Nat)) (st : Star) (c : Nat)
    (shape : List Nat) (hinv : StarInv cshape done st)
    (hc : c ≤ st.lens.length) (hc2 : c ≤ cshape.length) (hsh : 0 < shape.length)
    (hnew : c = st.lens.length →
      (childrenOf (starOps done) StarId.center).length < cshape.length ∧
      shape[0]? = cshape[(childrenOf (starOps done) StarId.center).length]?)
    (hold : c < st.lens.length → ∀ o ∈ starOps done, o.cid = StarId.chain c (cntC done c - 1) →
      1 < o.shape.length ∧ shape[0]? = o.shape[1]?) :
    ∃ st', starAdd st c shape = some st' := by
  obtain ⟨hn, hg, hl⟩ := hinv
  have hcen : StarId.center ∈ idsG StarId.center (starOps done) := by simp [idsG]
  unfold starAdd
  rw [hn]
  unfold closedG
  rw [gFind_map_id _ _ (nodeG_id StarId.center cshape (starOps done)), if_pos hcen]
  simp only
  have hlen : (nodeG StarId.center cshape (starOps done) StarId.center).legs.length = cshape.length := by
    simp [nodeG, closed_root_shape]
  rw [hlen, if_neg (by omega), if_neg (by omega)]
  by_cases h3 : c = st.lens.length
  · rw [if_pos h3]
    obtain ⟨hn1, hn2⟩ := hnew h3
    have hc0 : cntC done c = 0 := hl.big c (by omega)
    have hnv : (nodeG StarId.center cshape (starOps done) StarId.center).nvirt =
        (childrenOf (starOps done) StarId.center).length := by
      simp [GNode.nvirt, nodeG, closed_root hg]
    obtain ⟨ns, hns⟩ := attach_accept StarId.center cshape (starOps done) (StarId.chain c 0) StarId.center shape
      hcen (by rw [star_chain_mem_ids]; omega) hsh
      (by rw [hnv, closed_root_shape]; exact hn1)
      (by rw [hnv, closed_root_shape]; exact hn2)
    unfold closedG at hns
    rw [hns]
    exact ⟨_, rfl⟩
  · rw [if_neg h3]
    have hlt : c < st.lens.length := by omega
    obtain ⟨hget, hpos⟩ := hl.small c hlt
    rw [hget]
    simp only
    have hpm : StarId.chain c (cntC done c - 1) ∈ idsG StarId.center (starOps done) := by
      rw [star_chain_mem_ids]; omega
    have hpm' : StarId.chain c (cntC done c - 1) ∈ (starOps done).map (·.cid) := by
      rw [starOps_cids]; omega
    obtain ⟨o, ho, hoc⟩ := List.mem_map.1 hpm'
    obtain ⟨ho1, ho2⟩ := hold hlt o ho hoc
    have hshape : shapeOf StarId.center cshape (starOps done) (StarId.chain c (cntC done c - 1)) = o.shape := by
      rw [← hoc]; exact closed_shape cshape hg o ho
    have hnv : (nodeG StarId.center cshape (starOps done) (StarId.chain c (cntC done c - 1))).nvirt = 1 := by
      have hp : parentOf (starOps done) (StarId.chain c (cntC done c - 1)) = some o.pid := by
        rw [← hoc]; exact closed_parent hg o ho
      simp [GNode.nvirt, nodeG, hp, star_last_no_children done c hpos]
    obtain ⟨ns, hns⟩ := attach_accept StarId.center cshape (starOps done) (StarId.chain c (cntC done c))
      (StarId.chain c (cntC done c - 1)) shape hpm (by rw [star_chain_mem_ids]; omega) hsh
      (by rw [hnv, hshape]; exact ho1)
      (by rw [hnv, hshape]; exact ho2)
    unfold closedG at hns
    rw [hns]
    exact ⟨_, rfl⟩

end Ptn.C19
