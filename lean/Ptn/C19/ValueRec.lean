import Ptn.C19.Value
/-! Induction over `_from_tensor_rec` at the value level: the flat network the recursion builds has the value
of the tensor it started from (`rec_value` / `kids_value`), and the record it builds is the set of tree edges
(`treeBonds_perm`, `treeBonds_nodup`). -/
namespace Ptn.C19

open Ptn.Ein

section
variable {R : Type} [CommSemiring R]

theorem netValue_single (dim : VLeg → Nat) (A : Asg VLeg → R) (σ : Asg VLeg) :
    netValue dim [] [A] σ = A σ := by
  simp [netValue, sumPairs, prodL]

theorem nodup_idsL_cons {c : RTree} {cs : List RTree} {i : Nat} (h : (i :: RTree.idsL (c :: cs)).Nodup) :
    c.ids.Nodup ∧ (i :: RTree.idsL cs).Nodup ∧ i ∉ c.ids ∧ (∀ d ∈ c.ids, d ∉ RTree.idsL cs) := by
  simp only [RTree.idsL, List.nodup_cons, List.mem_append, not_or, List.nodup_append] at h
  obtain ⟨⟨h1, h2⟩, h3, h4, h5⟩ := h
  exact ⟨h3, List.nodup_cons.2 ⟨h2, h4⟩, h1, fun d hd hd' => h5 d hd d hd' rfl⟩

theorem ids_eq (c : RTree) : c.ids = c.id :: RTree.idsL c.kids := by
  cases c with
  | node j js => rfl

mutual
theorem rec_value (ld2 : Nat → List Nat) (h2 : ∀ i, (ld2 i).length = 2) (dim : VLeg → Nat)
    (t : RTree) (par : Option Nat) (A : Asg VLeg → R) (out : List (Asg VLeg → R))
    (hnd : t.ids.Nodup)
    (hA : DependsOn (· ∈ (par.toList.map (fun q => Leg.bond q t.id) ++ (block ld2 t).map Leg.ax).map
      (vleg t.id)) A)
    (hrun : RecRun dim t par (par.toList.map (fun q => Leg.bond q t.id) ++ (block ld2 t).map Leg.ax) A out) :
    List.Forall₂ LocalTo (specNodes ld2 par t) out ∧
    ∀ (bs : List (VLeg × VLeg)) (rest : List (Asg VLeg → R)) (S : VLeg → Prop),
      (∀ f ∈ rest, DependsOn S f) → Avoids (RTree.idsL t.kids) S →
      ∀ σ, netValue dim (bs ++ treeBonds t) (out ++ rest) σ = netValue dim bs (A :: rest) σ := by
  cases t with
  | node i kids =>
    have hlen : (par.toList.map (fun q => Leg.bond q i)).length = if par.isSome then 1 else 0 := by
      cases par <;> simp
    simp only [RecRun, RTree.id, block, List.map_append, ← List.append_assoc] at hrun
    obtain ⟨fin, subs, hk, rfl⟩ := hrun
    rw [← hlen] at hk
    have hA' : DependsOn (· ∈ (par.toList.map (fun q => Leg.bond q i) ++ (ld2 i).map Leg.ax ++
        (blockL ld2 kids).map Leg.ax).map (vleg i)) A := by
      simpa [RTree.id, block] using hA
    have hAv : ∀ l ∈ par.toList.map (fun q => Leg.bond q i) ++ (ld2 i).map Leg.ax,
        ∀ c ∈ RTree.idsL kids, (vleg i l).child ≠ some c := by
      intro l hl c hc
      rw [vleg_child]
      simp only [List.mem_append, List.mem_map] at hl
      rcases hl with ⟨q, _, rfl⟩ | ⟨a, _, rfl⟩
      · simp only [Leg.child, ne_eq, Option.some.injEq]
        rintro rfl
        simp only [RTree.ids, List.nodup_cons] at hnd
        exact hnd.1 hc
      · simp [Leg.child]
    obtain ⟨hfin, hsubs, hval⟩ := kids_value ld2 h2 dim i kids _ _ A fin subs hnd hAv hA' hk
    refine ⟨?_, ?_⟩
    · simp only [specNodes]
      refine List.Forall₂.cons ?_ hsubs
      simpa [LocalTo, specNode, RTree.id, RTree.kids] using hfin
    · intro bs rest S hrest hS σ
      simpa [treeBonds, RTree.kids] using hval bs rest S hrest hS σ
theorem kids_value (ld2 : Nat → List Nat) (h2 : ∀ i, (ld2 i).length = 2) (dim : VLeg → Nat)
    (i : Nat) (ks : List RTree) (A own : List Leg) (curV fin : Asg VLeg → R) (subs : List (Asg VLeg → R))
    (hnd : (i :: RTree.idsL ks).Nodup)
    (hAv : ∀ l ∈ A ++ own, ∀ c ∈ RTree.idsL ks, (vleg i l).child ≠ some c)
    (hcur : DependsOn (· ∈ (A ++ own ++ (blockL ld2 ks).map Leg.ax).map (vleg i)) curV)
    (hrun : KidsRun dim i ks (A ++ own ++ (blockL ld2 ks).map Leg.ax) A.length curV fin subs) :
    DependsOn (· ∈ (A ++ ks.map (fun k => Leg.bond i k.id) ++ own).map (vleg i)) fin ∧
    List.Forall₂ LocalTo (specNodesL ld2 i ks) subs ∧
    ∀ (bs : List (VLeg × VLeg)) (rest : List (Asg VLeg → R)) (S : VLeg → Prop),
      (∀ f ∈ rest, DependsOn S f) → Avoids (RTree.idsL ks) S →
      ∀ σ, netValue dim (bs ++ kidsBonds i ks) (fin :: subs ++ rest) σ = netValue dim bs (curV :: rest) σ := by
  cases ks with
  | nil =>
    simp only [KidsRun] at hrun
    obtain ⟨rfl, rfl⟩ := hrun
    refine ⟨?_, ?_, ?_⟩
    · simpa [blockL] using hcur
    · simp only [specNodesL]; exact List.Forall₂.nil
    · intro bs rest S _ _ σ
      simp [kidsBonds]
  | cons c cs =>
    obtain ⟨hndc, hndcs, hic, hdisj⟩ := nodup_idsL_cons hnd
    have hb : ((block ld2 c).map Leg.ax).length = 2 * c.size := by
      rw [List.length_map, block_length ld2 h2 c]
    have hs := splitChild_eq i A (own ++ (blockL ld2 cs).map Leg.ax) ((block ld2 c).map Leg.ax) c hb
    have hcur1 : A ++ own ++ (blockL ld2 (c :: cs)).map Leg.ax =
        A ++ (own ++ (blockL ld2 cs).map Leg.ax) ++ (block ld2 c).map Leg.ax := by
      simp [blockL]
    rw [hcur1] at hrun
    simp only [KidsRun, hs] at hrun
    obtain ⟨Q, Rm, sub, rest', hfac, hQ, hRm, hrec, hkids, rfl⟩ := hrun
    -- the recursion into the child
    have hrec' : RecRun dim c (some i)
        ((some i).toList.map (fun q => Leg.bond q c.id) ++ (block ld2 c).map Leg.ax) Rm sub := by
      simpa using hrec
    have hRm' : DependsOn (· ∈ ((some i).toList.map (fun q => Leg.bond q c.id) ++
        (block ld2 c).map Leg.ax).map (vleg c.id)) Rm := by
      simpa using hRm
    obtain ⟨hsubloc, hsubval⟩ := rec_value ld2 h2 dim c (some i) Rm sub hndc hRm' hrec'
    -- the remaining children
    have hA' : (A ++ [Leg.bond i c.id]).length = A.length + 1 := by simp
    have hcur2 : A ++ Leg.bond i c.id :: (own ++ (blockL ld2 cs).map Leg.ax) =
        (A ++ [Leg.bond i c.id]) ++ own ++ (blockL ld2 cs).map Leg.ax := by simp
    rw [← hA', hcur2] at hkids
    rw [hcur2] at hQ
    have hcid : c.id ∈ c.ids := by rw [ids_eq]; simp
    have hAv' : ∀ l ∈ (A ++ [Leg.bond i c.id]) ++ own, ∀ d ∈ RTree.idsL cs, (vleg i l).child ≠ some d := by
      intro l hl d hd
      simp only [List.mem_append, List.mem_singleton] at hl
      rcases hl with (hl | rfl) | hl
      · exact hAv l (by simp [hl]) d (by simp [RTree.idsL, hd])
      · rw [vleg_child]
        simp only [Leg.child, ne_eq, Option.some.injEq]
        rintro rfl
        exact hdisj _ hcid hd
      · exact hAv l (by simp [hl]) d (by simp [RTree.idsL, hd])
    obtain ⟨hfin, hrestloc, hrestval⟩ :=
      kids_value ld2 h2 dim i cs (A ++ [Leg.bond i c.id]) own Q fin rest' hndcs hAv' hQ hkids
    refine ⟨?_, ?_, ?_⟩
    · simpa using hfin
    · simp only [specNodesL]
      exact forall₂_append hsubloc hrestloc
    · intro bs rest S hrest hS σ
      -- what the finished tensors of the child's subtree read
      let S₂ : VLeg → Prop := fun l => S l ∨ (l.child = none ∨ ∃ d ∈ c.ids, l.child = some d)
      have hsubS : ∀ f ∈ sub ++ rest, DependsOn S₂ f := by
        intro f hf
        rcases List.mem_append.1 hf with hf | hf
        · obtain ⟨x, hx, hloc⟩ := forall₂_mem_right hsubloc f hf
          refine Ein.DependsOn.mono (show Ein.DependsOn _ f from hloc) ?_
          intro l hl
          obtain ⟨l0, hl0, rfl⟩ := List.mem_map.1 hl
          right
          rw [vleg_child]
          exact specNodes_child ld2 (some i) c x hx l0 hl0
        · exact Ein.DependsOn.mono (hrest f hf) (fun l hl => Or.inl hl)
      have hS₂ : Avoids (RTree.idsL cs) S₂ := by
        intro l hl d hd
        rcases hl with hl | hl | ⟨e, he, hl⟩
        · exact hS l hl d (by simp [RTree.idsL, hd])
        · simp [hl]
        · rw [hl]
          simp only [ne_eq, Option.some.injEq]
          rintro rfl
          exact hdisj _ he hd
      -- what the current tensor of the node reads after the split
      let S₁ : VLeg → Prop := fun l => S l ∨
        l ∈ ((A ++ [Leg.bond i c.id]) ++ own ++ (blockL ld2 cs).map Leg.ax).map (vleg i)
      have hQS : ∀ f ∈ Q :: rest, DependsOn S₁ f := by
        intro f hf
        rcases List.mem_cons.1 hf with rfl | hf
        · exact Ein.DependsOn.mono hQ (fun l hl => Or.inr hl)
        · exact Ein.DependsOn.mono (hrest f hf) (fun l hl => Or.inl hl)
      have hsubset : ∀ d ∈ RTree.idsL c.kids, d ∈ RTree.idsL (c :: cs) := by
        intro d hd
        simp only [RTree.idsL, List.mem_append]
        left; rw [ids_eq]; simp [hd]
      have hS₁ : Avoids (RTree.idsL c.kids) S₁ := by
        intro l hl d hd
        rcases hl with hl | hl
        · exact hS l hl d (hsubset d hd)
        · obtain ⟨l0, hl0, rfl⟩ := List.mem_map.1 hl
          simp only [List.mem_append, List.mem_singleton, List.mem_map] at hl0
          rcases hl0 with ((hl0 | rfl) | hl0) | ⟨a, _, rfl⟩
          · exact hAv l0 (by simp [hl0]) d (hsubset d hd)
          · rw [vleg_child]
            simp only [Leg.child, ne_eq, Option.some.injEq]
            rintro rfl
            have := hndc
            rw [ids_eq] at this
            exact (List.nodup_cons.1 this).1 hd
          · exact hAv l0 (by simp [hl0]) d (hsubset d hd)
          · simp [vleg, VLeg.child]
      have hq : ¬ S (VLeg.pEnd i c.id) := fun h => hS _ h c.id (by simp [RTree.idsL, hcid]) rfl
      have hr : ¬ S (VLeg.cEnd i c.id) := fun h => hS _ h c.id (by simp [RTree.idsL, hcid]) rfl
      have E1 := split_leaf_value dim bs curV Q Rm rest (VLeg.pEnd i c.id) (VLeg.cEnd i c.id) hfac hrest hq hr σ
      have E3 := hsubval (bs ++ [bondPair (i, c.id)]) (Q :: rest) S₁ hQS hS₁ σ
      have E5 := hrestval ((bs ++ [bondPair (i, c.id)]) ++ treeBonds c) (sub ++ rest) S₂ hsubS hS₂ σ
      have hb1 : bs ++ kidsBonds i (c :: cs) =
          ((bs ++ [bondPair (i, c.id)]) ++ treeBonds c) ++ kidsBonds i cs := by
        simp [kidsBonds]
      rw [hb1, ← E1]
      have P6 : (fin :: (sub ++ rest') ++ rest).Perm (fin :: rest' ++ (sub ++ rest)) := by
        simp only [List.cons_append, List.append_assoc]
        refine List.Perm.cons _ ?_
        rw [← List.append_assoc, ← List.append_assoc]
        exact List.Perm.append_right _ List.perm_append_comm
      rw [netValue_perm_leaves dim _ P6, E5]
      have P4 : (Q :: (sub ++ rest)).Perm (sub ++ Q :: rest) := List.perm_middle.symm
      rw [netValue_perm_leaves dim _ P4, E3]
      exact netValue_perm_leaves dim _ (List.Perm.swap _ _ _) σ
end

end

theorem from_tensor_legs' (t : RTree) (ld : Nat → Nat) :
    fromTensor t ld = specNodes (fun i => [ld i, t.size + ld i]) none t := by
  unfold fromTensor
  simp only
  rw [qrShape_eq, List.append_nil]
  exact rec_eq (fun i => [ld i, t.size + ld i]) (fun _ => rfl) t none

/-! ### the record of the recursion = the tree edges -/

mutual
theorem treeBonds_perm (t : RTree) : (treeBonds t).Perm (t.edges.map bondPair) := by
  cases t with
  | node i ks => simpa [treeBonds, RTree.edges] using kidsBonds_perm i ks
theorem kidsBonds_perm (i : Nat) (ks : List RTree) :
    (kidsBonds i ks).Perm ((ks.map (fun k => (i, k.id)) ++ RTree.edgesL ks).map bondPair) := by
  cases ks with
  | nil => simp [kidsBonds, RTree.edgesL]
  | cons c cs =>
    simp only [kidsBonds, RTree.edgesL, List.map_cons, List.map_append, List.cons_append]
    refine List.Perm.cons _ ?_
    have h1 := treeBonds_perm c
    have h2 := kidsBonds_perm i cs
    simp only [List.map_append] at h2
    refine (List.Perm.append h1 h2).trans ?_
    rw [← List.append_assoc, ← List.append_assoc]
    exact List.Perm.append_right _ List.perm_append_comm
end

mutual
theorem edges_snd_perm (t : RTree) : (t.edges.map (·.2)).Perm (RTree.idsL t.kids) := by
  cases t with
  | node i ks => simpa [RTree.edges, RTree.kids] using edgesL_snd_perm i ks
theorem edgesL_snd_perm (i : Nat) (ks : List RTree) :
    ((ks.map (fun k => (i, k.id)) ++ RTree.edgesL ks).map (·.2)).Perm (RTree.idsL ks) := by
  cases ks with
  | nil => simp [RTree.edgesL, RTree.idsL]
  | cons c cs =>
    simp only [RTree.edgesL, RTree.idsL, List.map_cons, List.map_append, List.cons_append]
    rw [ids_eq c]
    simp only [List.cons_append]
    refine List.Perm.cons _ ?_
    have h1 := edges_snd_perm c
    have h2 := edgesL_snd_perm i cs
    simp only [List.map_append] at h2
    refine List.Perm.trans ?_ (List.Perm.append h1 h2)
    rw [← List.append_assoc, ← List.append_assoc]
    exact List.Perm.append_right _ List.perm_append_comm
end

/-- with distinct identifiers no leg is bound twice by the record of tree edges -/
theorem edges_bonds_nodup (t : RTree) (hnd : t.ids.Nodup) :
    (Expr.pairLegs (t.edges.map bondPair)).Nodup := by
  have hs : (t.edges.map (·.2)).Nodup := by
    rw [(edges_snd_perm t).nodup_iff]
    rw [ids_eq] at hnd
    exact (List.nodup_cons.1 hnd).2
  have he : t.edges.Nodup := List.Nodup.of_map _ hs
  simp only [Expr.pairLegs, List.map_map]
  rw [List.nodup_append]
  refine ⟨?_, ?_, ?_⟩
  · refine List.Nodup.map_on ?_ he
    intro a _ b _ h
    simp only [Function.comp, bondPair, VLeg.pEnd.injEq] at h
    exact Prod.ext h.1 h.2
  · refine List.Nodup.map_on ?_ he
    intro a _ b _ h
    simp only [Function.comp, bondPair, VLeg.cEnd.injEq] at h
    exact Prod.ext h.1 h.2
  · intro x hx y hy hxy
    obtain ⟨a, _, rfl⟩ := List.mem_map.1 hx
    obtain ⟨b, _, rfl⟩ := List.mem_map.1 hy
    simp [bondPair] at hxy

/-! ### the labels of a node of the result -/

mutual
theorem specNodes_vlegs (ld2 : Nat → List Nat) (par : Option Nat) (t : RTree) (hnd : t.ids.Nodup)
    (hpar : ∀ q ∈ par, q ∉ t.ids) :
    ∀ x ∈ specNodes ld2 par t, x.legs.map (vleg x.id) =
      x.parent.toList.map (fun q => VLeg.cEnd q x.id) ++ x.children.map (fun k => VLeg.pEnd x.id k) ++
        (ld2 x.id).map VLeg.ax := by
  cases t with
  | node i kids =>
    intro x hx
    simp only [specNodes, List.mem_cons] at hx
    rcases hx with rfl | hx
    · have hq : ∀ q ∈ par, i ≠ q := by
        intro q hq e
        exact hpar q hq (by simp [RTree.ids, e])
      cases par with
      | none => simp [specNode, RTree.id, RTree.kids, vleg, Function.comp_def]
      | some q =>
        have := hq q rfl
        simp [specNode, RTree.id, RTree.kids, vleg, Function.comp_def, this]
    · exact specNodesL_vlegs ld2 i kids hnd x hx
theorem specNodesL_vlegs (ld2 : Nat → List Nat) (i : Nat) (ks : List RTree) (hnd : (i :: RTree.idsL ks).Nodup) :
    ∀ x ∈ specNodesL ld2 i ks, x.legs.map (vleg x.id) =
      x.parent.toList.map (fun q => VLeg.cEnd q x.id) ++ x.children.map (fun k => VLeg.pEnd x.id k) ++
        (ld2 x.id).map VLeg.ax := by
  cases ks with
  | nil => intro x hx; simp [specNodesL] at hx
  | cons c cs =>
    obtain ⟨hndc, hndcs, hic, _⟩ := nodup_idsL_cons hnd
    intro x hx
    simp only [specNodesL, List.mem_append] at hx
    rcases hx with hx | hx
    · exact specNodes_vlegs ld2 (some i) c hndc (by intro q hq; cases hq; exact hic) x hx
    · exact specNodesL_vlegs ld2 i cs hndcs x hx
end

/-- `from_tensor_value`, proved here: see `Props.lean` -/
theorem fromTensor_value {R : Type} [CommSemiring R] (t : RTree) (ld : Nat → Nat) (hnd : t.ids.Nodup)
    (dim : VLeg → Nat) (A : Asg VLeg → R) (out : List (Asg VLeg → R))
    (hA : DependsOn (· ∈ (qrShape (fun i => [ld i, t.size + ld i]) t []).map VLeg.ax) A)
    (hrun : FromTensorRun dim t ld A out) :
    List.Forall₂ LocalTo (fromTensor t ld) out ∧
    ∀ binds : List (VLeg × VLeg), binds.Perm (t.edges.map bondPair) →
      ∀ σ, netValue dim binds out σ = A σ := by
  have h2 : ∀ i, ((fun i => [ld i, t.size + ld i]) i).length = 2 := fun _ => rfl
  unfold FromTensorRun at hrun
  rw [qrShape_eq, List.append_nil] at hrun hA
  have hA' : DependsOn (· ∈ ((none : Option Nat).toList.map (fun q => Leg.bond q t.id) ++
      (block (fun i => [ld i, t.size + ld i]) t).map Leg.ax).map (vleg t.id)) A := by
    simpa [vleg, Function.comp_def] using hA
  obtain ⟨hloc, hval⟩ := rec_value _ h2 dim t none A out hnd hA' (by simpa using hrun)
  refine ⟨?_, ?_⟩
  · rw [from_tensor_legs']
    exact hloc
  · intro binds hb σ
    have h := hval [] [] (fun _ => False) (by simp) (by intro l hl; exact hl.elim) σ
    simp only [List.nil_append, List.append_nil] at h
    rw [netValue_single] at h
    rw [← h]
    unfold netValue
    have hp : binds.Perm (treeBonds t) := hb.trans (treeBonds_perm t).symm
    have hn : (Expr.pairLegs binds).Nodup :=
      (pairLegs_perm hb).nodup_iff.2 (edges_bonds_nodup t hnd)
    exact sumPairs_perm dim hp hn _ σ

end Ptn.C19
