import Ptn.C19.Model
/-! Model for property C19, second part (core Lean only): star, fork and binary-tree constructors.

* `gAddChild`            ↔ `TreeTensorNetwork.add_child_to_parent` for an arbitrary identifier type, now with
                           the tensor shapes (`ensure_shape_matching`) besides the leg-order bookkeeping
* `starInit`, `starAdd`  ↔ `StarTreeTensorNetwork.add_center_node`, `add_chain_node` / `_add_chain`
                           (`parent_leg=None`: first open leg of the parent) (`special_ttn/star.py`)
* `starConstCalls`, `starConst` ↔ `StarTreeTensorState.constant_product_state`
* `attachAt`, `starAddL`, `forkAddL` ↔ the same three methods with their optional argument `parent_leg`
* `forkAdd`              ↔ `ForkTreeTensorNetwork.add_main_chain_node`, `add_sub_chain_node` (`fttn.py`)
* `ftpsCalls`, `ftps`    ↔ `constant_ftps`
* `binLoop`, `binAddAll`, `binReplace`, `binGenerate` ↔ `add_all_nodes` (queue of `HelperNode`s),
                           `TreeTensorNetwork.replace_node`, `transform_phys_nodes`, `generate_binary_ttns`
                           (`binary.py`, `core/ttn.py`, `core/tree_structure.py`)

A tensor is its shape (`dims`, by axis of the array handed in) and the logical order of its legs
(`legs`: parent, children…, open…; entries are axes of the array handed in). -/
namespace Ptn.C19

structure GNode (ι : Type) where
  id : ι
  parent : Option ι
  children : List ι
  legs : List Nat
  dims : List Nat
deriving Repr, DecidableEq

def GNode.nvirt {ι : Type} (x : GNode ι) : Nat := (if x.parent.isSome then 1 else 0) + x.children.length

/-- `open_leg_to_child` -/
def GNode.toChild {ι : Type} (p : GNode ι) (cid : ι) (parentLeg : Nat) : GNode ι :=
  { p with legs := popInsert p.legs parentLeg p.nvirt, children := p.children ++ [cid] }

/-- `node.shape[k]`: dimension of the `k`-th leg in logical order -/
def GNode.shapeAt {ι : Type} (x : GNode ι) (k : Nat) : Option Nat := (x.legs[k]?).bind fun a => x.dims[a]?

def gFind {ι : Type} [DecidableEq ι] (nodes : List (GNode ι)) (i : ι) : Option (GNode ι) :=
  nodes.find? (fun x => decide (x.id = i))

/-- `add_child_to_parent(Node(cid), tensor of shape `shape`, childLeg, pid, parentLeg)`; `none` when the
    library raises (unknown parent, duplicate identifier, leg out of range / not open, dimension mismatch) -/
def gAddChild {ι : Type} [DecidableEq ι] (nodes : List (GNode ι)) (cid : ι) (shape : List Nat)
    (childLeg : Nat) (pid : ι) (parentLeg : Nat) : Option (List (GNode ι)) :=
  match gFind nodes pid with
  | none => none
  | some p =>
    if (gFind nodes cid).isSome then none
    else if shape.length ≤ childLeg then none
    else if parentLeg < p.nvirt ∨ p.legs.length ≤ parentLeg then none
    else if shape[childLeg]? ≠ p.shapeAt parentLeg then none
    else
      some ((nodes.map fun x => if x.id = pid then x.toChild cid parentLeg else x) ++
        [⟨cid, some pid, [], popInsert (List.range shape.length) childLeg 0, shape⟩])

/-- `add_child_to_parent(node, tensor, 0, parent_id, parent_node.nvirt_legs())`: what star and fork do
    with `parent_leg=None` -/
def attachFirstOpen {ι : Type} [DecidableEq ι] (nodes : List (GNode ι)) (cid : ι) (shape : List Nat)
    (pid : ι) : Option (List (GNode ι)) :=
  match gFind nodes pid with
  | none => none
  | some p => gAddChild nodes cid shape 0 pid p.nvirt

def rootNode {ι : Type} (i : ι) (shape : List Nat) : GNode ι :=
  ⟨i, none, [], List.range shape.length, shape⟩

/-! ## Star -/

inductive StarId where
  | center
  | chain (c j : Nat)
deriving Repr, DecidableEq

/-- `nodes` in dict order; `lens[c]` = `len(self.chains[c])` -/
structure Star where
  nodes : List (GNode StarId)
  lens : List Nat
deriving Repr, DecidableEq

def starInit (cshape : List Nat) : Star := ⟨[rootNode .center cshape], []⟩

/-- `add_chain_node(tensor, chain_index)` -/
def starAdd (st : Star) (c : Nat) (shape : List Nat) : Option Star :=
  match gFind st.nodes .center with
  | none => none
  | some ctr =>
    if ctr.legs.length < c then none            -- "Chain index is too high!"
    else if st.lens.length < c then none        -- "This is not the next chain index!"
    else if c = st.lens.length then
      (attachFirstOpen st.nodes (.chain c 0) shape .center).map fun ns => ⟨ns, st.lens ++ [1]⟩
    else
      match st.lens[c]? with
      | none => none
      | some len =>
        (attachFirstOpen st.nodes (.chain c len) shape (.chain c (len - 1))).map
          fun ns => ⟨ns, st.lens.set c (len + 1)⟩

def starRunFrom (st : Star) (calls : List (Nat × List Nat)) : Option Star :=
  calls.foldl (fun acc x => acc.bind fun s => starAdd s x.1 x.2) (some st)

def starRun (cshape : List Nat) (calls : List (Nat × List Nat)) : Option Star :=
  starRunFrom (starInit cshape) calls

/-- the calls of `constant_product_state(value, d, chain_length = L, num_chains = C)` -/
def starConstCalls (d L C : Nat) : List (Nat × List Nat) :=
  (List.range C).flatMap fun i => (List.range L).map fun j =>
    (i, if j = L - 1 then [1, d] else [1, 1, d])

def starConst (d L C : Nat) : Option Star :=
  starRun (List.replicate C 1 ++ [d]) (starConstCalls d L C)

/-! ## Fork -/

inductive ForkId where
  | main (i : Nat)
  | sub (i j : Nat)
deriving Repr, DecidableEq

/-- `subLens[i]` = `len(self.sub_chains[i])`; its length is `main_length()` -/
structure Fork where
  nodes : List (GNode ForkId)
  subLens : List Nat
deriving Repr, DecidableEq

inductive ForkCall where
  | main (shape : List Nat)
  | sub (i : Nat) (shape : List Nat)
deriving Repr, DecidableEq

def forkInit : Fork := ⟨[], []⟩

def forkAdd (st : Fork) : ForkCall → Option Fork
  | .main shape =>
    let m := st.subLens.length
    if m = 0 then
      (if st.nodes.isEmpty then some ⟨[rootNode (.main 0) shape], [0]⟩ else none)
    else
      (attachFirstOpen st.nodes (.main m) shape (.main (m - 1))).map fun ns => ⟨ns, st.subLens ++ [0]⟩
  | .sub i shape =>
    if st.subLens.length < i then none          -- "A subchain has to be attached to the main chain!"
    else
      match st.subLens[i]? with
      | none => none                            -- IndexError of `self.sub_chains[index]`
      | some len =>
        let pid : ForkId := if len = 0 then .main i else .sub i (len - 1)
        (attachFirstOpen st.nodes (.sub i len) shape pid).map fun ns => ⟨ns, st.subLens.set i (len + 1)⟩

def forkRunFrom (st : Fork) (calls : List ForkCall) : Option Fork :=
  calls.foldl (fun acc x => acc.bind fun s => forkAdd s x) (some st)

def forkRun (calls : List ForkCall) : Option Fork := forkRunFrom forkInit calls

/-- the calls of `constant_ftps(local_state of dimension d, width, height, bond_dim = bd)` -/
def ftpsCalls (d width height bd : Nat) : List ForkCall :=
  ((List.range height).map fun i =>
    ForkCall.main (if i = 0 ∨ i = height - 1 then [bd, bd, d] else [bd, bd, bd, d])) ++
  ((List.range height).flatMap fun i => (List.range (width - 1)).map fun j =>
    ForkCall.sub i (if j = width - 2 then [bd, d] else [bd, bd, d]))

def ftps (d width height bd : Nat) : Option Fork :=
  if width = 0 ∨ height = 0 ∨ bd = 0 then none     -- positivity checks
  else forkRun (ftpsCalls d width height bd)

/-! ## Binary tree -/

inductive BinId where
  | virt (level pos : Nat)
  | phys (k : Nat)
deriving Repr, DecidableEq

/-- the `while len(phys_nodes) != num_phys` loop of `add_all_nodes`; `queue` holds (level, position) of
    the `HelperNode`s; `fuel` bounds the number of passes -/
def binLoop (nphys bd : Nat) : Nat → List (GNode BinId) → List (Nat × Nat) →
    Option (List (GNode BinId) × List (Nat × Nat))
  | 0, _, _ => none
  | fuel + 1, nodes, queue =>
    if queue.length = nphys then some (nodes, queue)
    else
      match queue with
      | [] => none                                   -- `pop(0)` of an empty list
      | (l, p) :: rest =>
        if rest.length = nphys then some (nodes, rest)
        else
          let plegs : Nat × Nat := if l = 0 ∧ p = 0 then (0, 1) else (1, 2)   -- `parent_legs`
          let vshape := [bd, bd, bd, 1]
          match gAddChild nodes (.virt (l + 1) (2 * p)) vshape 0 (.virt l p) plegs.1 with
          | none => none
          | some ns =>
            match gAddChild ns (.virt (l + 1) (2 * p + 1)) vshape 0 (.virt l p) plegs.2 with
            | none => none
            | some ns2 => binLoop nphys bd fuel ns2 (rest ++ [(l + 1, 2 * p), (l + 1, 2 * p + 1)])

def binAddAll (nphys bd : Nat) : Option (List (GNode BinId) × List (Nat × Nat)) :=
  binLoop nphys bd (nphys + 1) [rootNode (.virt 0 0) [bd, bd, 1]] [(0, 0)]

/-- what `replace_node_in_neighbours(new, old)` does to the node `x`: children of the old node get the
    new parent, the old node's parent gets the new child in place of the old one -/
def replUpd (old : GNode BinId) (newId oldId : BinId) (x : GNode BinId) : GNode BinId :=
  if old.children.contains x.id ∧ x.id ≠ newId then { x with parent := some newId }
  else if some x.id = old.parent ∧ x.id ≠ newId then
    { x with children := x.children.map fun c => if c = oldId then newId else c }
  else x

/-- `replace_node(new_id, old_id, tensor)` -/
def binReplace (nodes : List (GNode BinId)) (newId oldId : BinId) (shape : List Nat) :
    Option (List (GNode BinId)) :=
  match gFind nodes oldId with
  | none => none
  | some old =>
    -- every neighbour's leg must keep its dimension (`new_node.shape[k] == old_node.shape[k]`)
    if (List.range old.nvirt).all (fun k => shape[k]? ≠ none ∧ shape[k]? = old.shapeAt k) then
      some ((nodes.map (replUpd old newId oldId)).filter (fun x => x.id ≠ oldId) ++
        [⟨newId, old.parent, old.children, List.range shape.length, shape⟩])
    else none

/-- `generate_binary_ttns(num_phys, bond_dim, phys_tensor of shape (bd, d))` -/
def binGenerate (nphys bd d : Nat) : Option (List (GNode BinId)) :=
  if nphys = 0 ∨ bd = 0 then none
  else
    match binAddAll nphys bd with
    | none => none
    | some (nodes, queue) =>
      (List.range queue.length).foldl
        (fun acc k => acc.bind fun ns =>
          match queue[k]? with
          | none => none
          | some lp => binReplace ns (.phys k) (.virt lp.1 lp.2) [bd, d]) (some nodes)

/-! ## Explicit `parent_leg` (optional argument of `add_chain_node`, `add_main_chain_node`, `add_sub_chain_node`) -/

/-- `if parent_leg is None: parent_leg = parent_node.nvirt_legs()` followed by
    `add_child_to_parent(node, tensor, 0, parent_id, parent_leg)`: what star and fork do with their optional
    argument `parent_leg` (the new node always offers its leg 0) -/
def attachAt {ι : Type} [DecidableEq ι] (nodes : List (GNode ι)) (cid : ι) (shape : List Nat)
    (pid : ι) (pl : Option Nat) : Option (List (GNode ι)) :=
  match gFind nodes pid with
  | none => none
  | some p => gAddChild nodes cid shape 0 pid (pl.getD p.nvirt)

/-- one call `add_chain_node(tensor, chain_index, parent_leg)`: chain index, shape, `parent_leg` (`none` = `None`) -/
abbrev StarCallL := Nat × List Nat × Option Nat

/-- `add_chain_node(tensor, chain_index, parent_leg)` (`_add_chain` for a new chain) -/
def starAddL (st : Star) (c : Nat) (shape : List Nat) (pl : Option Nat) : Option Star :=
  match gFind st.nodes .center with
  | none => none
  | some ctr =>
    if ctr.legs.length < c then none            -- "Chain index is too high!"
    else if st.lens.length < c then none        -- "This is not the next chain index!"
    else if c = st.lens.length then
      (attachAt st.nodes (.chain c 0) shape .center pl).map fun ns => ⟨ns, st.lens ++ [1]⟩
    else
      match st.lens[c]? with
      | none => none
      | some len =>
        (attachAt st.nodes (.chain c len) shape (.chain c (len - 1)) pl).map
          fun ns => ⟨ns, st.lens.set c (len + 1)⟩

def starRunFromL (st : Star) (calls : List StarCallL) : Option Star :=
  calls.foldl (fun acc x => acc.bind fun s => starAddL s x.1 x.2.1 x.2.2) (some st)

def starRunL (cshape : List Nat) (calls : List StarCallL) : Option Star :=
  starRunFromL (starInit cshape) calls

inductive ForkCallL where
  | main (shape : List Nat) (pl : Option Nat)
  | sub (i : Nat) (shape : List Nat) (pl : Option Nat)
deriving Repr, DecidableEq

/-- `add_main_chain_node(tensor, parent_leg)` (the argument is not looked at for the very first node, which
    becomes the root) and `add_sub_chain_node(tensor, subchain_index, parent_leg)` -/
def forkAddL (st : Fork) : ForkCallL → Option Fork
  | .main shape pl =>
    let m := st.subLens.length
    if m = 0 then
      (if st.nodes.isEmpty then some ⟨[rootNode (.main 0) shape], [0]⟩ else none)
    else
      (attachAt st.nodes (.main m) shape (.main (m - 1)) pl).map fun ns => ⟨ns, st.subLens ++ [0]⟩
  | .sub i shape pl =>
    if st.subLens.length < i then none          -- "A subchain has to be attached to the main chain!"
    else
      match st.subLens[i]? with
      | none => none                            -- IndexError of `self.sub_chains[index]`
      | some len =>
        let pid : ForkId := if len = 0 then .main i else .sub i (len - 1)
        (attachAt st.nodes (.sub i len) shape pid pl).map fun ns => ⟨ns, st.subLens.set i (len + 1)⟩

def forkRunFromL (st : Fork) (calls : List ForkCallL) : Option Fork :=
  calls.foldl (fun acc x => acc.bind fun s => forkAddL s x) (some st)

def forkRunL (calls : List ForkCallL) : Option Fork := forkRunFromL forkInit calls

end Ptn.C19
