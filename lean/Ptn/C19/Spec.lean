import Ptn.C19.Model
/-! Specification-side definitions for C19 (core Lean only): what the theorems of `Props.lean` compare the
model of the code against.  Nothing here is used by the driver. -/
namespace Ptn.C19

/-! ### Grid -/

def InGrid (rows cols : Nat) (c : Cell) : Prop := c.1 < rows ∧ c.2 < cols

instance (rows cols : Nat) (c : Cell) : Decidable (InGrid rows cols c) := by
  unfold InGrid; exact inferInstance

/-- Horizontally or vertically adjacent cells (distance one in exactly one coordinate). -/
def Adjacent (a b : Cell) : Prop :=
  (a.1 = b.1 ∧ (a.2 + 1 = b.2 ∨ b.2 + 1 = a.2)) ∨ (a.2 = b.2 ∧ (a.1 + 1 = b.1 ∨ b.1 + 1 = a.1))

instance (a b : Cell) : Decidable (Adjacent a b) := by
  unfold Adjacent; exact inferInstance

/-! ### Matrix-product chain: the specified structure -/

/-- parent of site `i` in the path graph `0 - 1 - … - (n-1)` rooted at `r` -/
def chainParent (r i : Nat) : Option Nat :=
  if i < r then some (i + 1) else if r < i then some (i - 1) else none

/-- children of site `i` (the root lists its left neighbour first) -/
def chainChildren (n r i : Nat) : List Nat :=
  if i < r then (if 0 < i then [i - 1] else [])
  else if r < i then (if i + 1 < n then [i + 1] else [])
  else (if 0 < r then [r - 1] else []) ++ (if r + 1 < n then [r + 1] else [])

/-- dict (insertion) order: the root, the sites to its left from right to left, the sites to its right -/
def chainOrder (n r : Nat) : List Nat :=
  r :: ((List.range r).reverse ++ List.range' (r + 1) (n - 1 - r))

/-- which axis of the input tensor of site `i` points to the neighbouring site `j` -/
def toward (i j : Nat) : Axis := if j < i then .left else .right

/-- the specified leg order of site `i`: the leg to the parent, the legs to the children, the open
    legs, each named by the axis of the input tensor `[left, right, open…]` it must be -/
def chainLegs (n r : Nat) (p : Nat → Nat) (i : Nat) : List Axis :=
  ((chainParent r i).toList ++ chainChildren n r i).map (toward i) ++ (List.range (p i)).map Axis.phys

/-! ### Trees -/

mutual
/-- identifiers of a tree (pre-order) -/
def RTree.ids : RTree → List Nat
  | .node i ks => i :: RTree.idsL ks
def RTree.idsL : List RTree → List Nat
  | [] => []
  | k :: ks => k.ids ++ RTree.idsL ks
end

mutual
/-- edges `(parent, child)` of a tree -/
def RTree.edges : RTree → List (Nat × Nat)
  | .node i ks => ks.map (fun k => (i, k.id)) ++ RTree.edgesL ks
def RTree.edgesL : List RTree → List (Nat × Nat)
  | [] => []
  | k :: ks => k.edges ++ RTree.edgesL ks
end

mutual
/-- the `TreeStructure` dict of a tree, `(identifier, children identifiers)`, in pre-order -/
def RTree.flat : RTree → List (Nat × List Nat)
  | .node i ks => (i, ks.map RTree.id) :: RTree.flatL ks
def RTree.flatL : List RTree → List (Nat × List Nat)
  | [] => []
  | k :: ks => k.flat ++ RTree.flatL ks
end

/-! ### `TTNO.from_tensor`: the specified result -/

/-- what the documentation promises for the node `t` (root of a subtree) with parent `par`: the
    reference tree's identifier, parent and children (in order), and a tensor whose legs are the bond to
    the parent, the bonds to the children in order, and the node's own two legs of the dense input
    (`leg_dict[id]` and `half + leg_dict[id]`) -/
def specNode (ld2 : Nat → List Nat) (par : Option Nat) (t : RTree) : FNode :=
  ⟨t.id, par, t.kids.map RTree.id,
   par.toList.map (fun q => Leg.bond q t.id) ++ t.kids.map (fun k => Leg.bond t.id k.id) ++
     (ld2 t.id).map Leg.ax⟩

mutual
/-- all nodes of the subtree in pre-order (the insertion order of the result) -/
def specNodes (ld2 : Nat → List Nat) : Option Nat → RTree → List FNode
  | par, .node i kids => specNode ld2 par (.node i kids) :: specNodesL ld2 i kids
def specNodesL (ld2 : Nat → List Nat) (i : Nat) : List RTree → List FNode
  | [] => []
  | k :: ks => specNodes ld2 (some i) k ++ specNodesL ld2 i ks
end

/-- the field term `-1 · g · B_i` and the coupling term `-1 · J · A_i A_j` in the code's convention
    `(Fraction(-1), symbol, {site: operator})` -/
def fieldTerm {α : Type} (i : α) : Term α := ⟨-1, .extMagn, [(i, .B)]⟩
def couplingTerm {α : Type} (e : α × α) : Term α := ⟨-1, .coupling, [(e.1, .A), (e.2, .A)]⟩

end Ptn.C19
