import Ptn.C19.Model
/-! Specification-side definitions for C19 (core Lean only): what the theorems of `Props.lean` compare the
model of the code against.  Nothing here is used by the driver. -/
namespace Ptn.C19

/-! ### Grid -/

def InGrid (rows cols : Nat) (c : Cell) : Prop := c.1 < rows ∧ c.2 < cols

instance (rows cols : Nat) (c : Cell) : Decidable (InGrid rows cols c) := by
  unfold InGrid; exact inferInstance

/-- Horizontally or vertically adjacent cells (distance one in exactly one coordinate). -/
def Adjacent (a b : Cell) : Prop :=
  (a.1 = b.1 ∧ (a.2 + 1 = b.2 ∨ b.2 + 1 = a.2)) ∨ (a.2 = b.2 ∧ (a.1 + 1 = b.1 ∨ b.1 + 1 = a.1))

instance (a b : Cell) : Decidable (Adjacent a b) := by
  unfold Adjacent; exact inferInstance

/-! ### Trees -/

mutual
/-- identifiers of a tree (pre-order) -/
def RTree.ids : RTree → List Nat
  | .node i ks => i :: RTree.idsL ks
def RTree.idsL : List RTree → List Nat
  | [] => []
  | k :: ks => k.ids ++ RTree.idsL ks
end

mutual
/-- edges `(parent, child)` of a tree -/
def RTree.edges : RTree → List (Nat × Nat)
  | .node i ks => ks.map (fun k => (i, k.id)) ++ RTree.edgesL ks
def RTree.edgesL : List RTree → List (Nat × Nat)
  | [] => []
  | k :: ks => k.edges ++ RTree.edgesL ks
end

mutual
/-- the `TreeStructure` dict of a tree, `(identifier, children identifiers)`, in pre-order -/
def RTree.flat : RTree → List (Nat × List Nat)
  | .node i ks => (i, ks.map RTree.id) :: RTree.flatL ks
def RTree.flatL : List RTree → List (Nat × List Nat)
  | [] => []
  | k :: ks => k.flat ++ RTree.flatL ks
end

/-- the field term `-1 · g · B_i` and the coupling term `-1 · J · A_i A_j` in the code's convention
    `(Fraction(-1), symbol, {site: operator})` -/
def fieldTerm {α : Type} (i : α) : Term α := ⟨-1, .extMagn, [(i, .B)]⟩
def couplingTerm {α : Type} (e : α × α) : Term α := ⟨-1, .coupling, [(e.1, .A), (e.2, .A)]⟩

end Ptn.C19
