import Ptn.C19.StarFork
/-! `constant_product_state` (star) and `constant_ftps` (fork): which calls they make (helper lemmas for
`star_const_structure_partial`, `ftps_structure_partial`). -/
namespace Ptn.C19

/-! ### star -/

theorem starConstCalls_shapes (d L C : Nat) :
    ∀ x ∈ starConstCalls d L C, x.1 < C ∧ (x.2 = [1, d] ∨ x.2 = [1, 1, d]) := by
  intro x hx
  simp only [starConstCalls, List.mem_flatMap, List.mem_map, List.mem_range] at hx
  obtain ⟨i, hi, j, _, rfl⟩ := hx
  refine ⟨hi, ?_⟩
  by_cases h : j = L - 1 <;> simp [h]

theorem cntC_starConst (d L C c : Nat) :
    cntC (starConstCalls d L C) c = if c < C then L else 0 := by
  unfold cntC starConstCalls
  induction C with
  | zero => simp
  | succ C ih =>
    rw [List.range_succ, List.flatMap_append, List.map_append, List.count_append, ih]
    simp only [List.flatMap_cons, List.flatMap_nil, List.append_nil, List.map_map]
    have : (List.map ((fun x : Nat × List Nat => x.1) ∘ fun j => (C, if j = L - 1 then [1, d] else [1, 1, d]))
        (List.range L)) = List.replicate L C := by
      rw [List.eq_replicate_iff]
      simp
    rw [this, List.count_replicate]
    by_cases h1 : c < C
    · have : ¬ C = c := by omega
      have h2 : c < C + 1 := by omega
      simp [h1, h2, this]
    · by_cases h2 : C = c
      · subst h2; simp
      · have h3 : ¬ c < C + 1 := by omega
        simp [h1, h2, h3]

/-! ### fork -/

def ftpsMains (d height bd : Nat) : List ForkCall :=
  (List.range height).map fun i =>
    ForkCall.main (if i = 0 ∨ i = height - 1 then [bd, bd, d] else [bd, bd, bd, d])

def ftpsSubs (d width bd n : Nat) : List ForkCall :=
  (List.range n).flatMap fun i => (List.range (width - 1)).map fun j =>
    ForkCall.sub i (if j = width - 2 then [bd, d] else [bd, bd, d])

theorem ftpsCalls_eq (d width height bd : Nat) :
    ftpsCalls d width height bd = ftpsMains d height bd ++ ftpsSubs d width bd height := rfl

theorem cntM_mains (l : List ForkCall) (h : ∀ x ∈ l, x.isMain = true) : cntM l = l.length := by
  unfold cntM
  rw [List.countP_eq_length]
  exact h

theorem cntM_subs (d width bd n : Nat) : cntM (ftpsSubs d width bd n) = 0 := by
  unfold cntM
  rw [List.countP_eq_zero]
  intro x hx
  simp only [ftpsSubs, List.mem_flatMap, List.mem_map] at hx
  obtain ⟨i, _, j, _, rfl⟩ := hx
  simp [ForkCall.isMain]

theorem cntS_mains (l : List ForkCall) (h : ∀ x ∈ l, x.isMain = true) (i : Nat) : cntS l i = 0 := by
  unfold cntS
  rw [List.countP_eq_zero]
  intro x hx
  have := h x hx
  cases x with
  | main _ => simp [ForkCall.isSub]
  | sub _ _ => simp [ForkCall.isMain] at this

theorem cntS_subs (d width bd n i : Nat) :
    cntS (ftpsSubs d width bd n) i = if i < n then width - 1 else 0 := by
  unfold cntS ftpsSubs
  induction n with
  | zero => simp
  | succ n ih =>
    rw [List.range_succ, List.flatMap_append, List.countP_append, ih]
    simp only [List.flatMap_cons, List.flatMap_nil, List.append_nil, List.countP_map]
    by_cases h2 : n = i
    · subst h2
      have : (List.countP ((ForkCall.isSub n) ∘ fun j =>
          ForkCall.sub n (if j = width - 2 then [bd, d] else [bd, bd, d])) (List.range (width - 1))) =
          (List.range (width - 1)).length := by
        rw [List.countP_eq_length]
        intro a _
        simp [ForkCall.isSub]
      rw [this]
      simp
    · have : (List.countP ((ForkCall.isSub i) ∘ fun j =>
          ForkCall.sub n (if j = width - 2 then [bd, d] else [bd, bd, d])) (List.range (width - 1))) = 0 := by
        rw [List.countP_eq_zero]
        intro a _
        simp [ForkCall.isSub, h2]
      rw [this]
      by_cases h1 : i < n
      · have h3 : i < n + 1 := by omega
        simp [h1, h3]
      · have h3 : ¬ i < n + 1 := by omega
        simp [h1, h3]

end Ptn.C19
