import Ptn.C19.ValueSpecialModel
import Ptn.C19.StarFork
import Ptn.C19.Binary
import Ptn.C19.ValueChain
/-! Value level for the star / fork / binary constructors (helper lemmas for `star_value`, `fork_value`,
`binary_value_partial`): a network grown by "attach the new tensor's leg 0 at the parent's first open leg" stores
every array untransposed, so every node tensor IS the input tensor as a labelled tensor, and its binding record is
one pair (parent's leg `neighbour_index(child)`, child's leg 0) per attachment, in the order of the calls. -/
namespace Ptn.C19

open Ptn.Ein

section
variable {ι : Type} [DecidableEq ι] {R : Type} [CommSemiring R]

/-- the input tensor of node `i` (a function of the index list in the order of the array's axes) as a labelled
tensor; labels = `(node, axis of the array handed in)` -/
def gSiteLeaf (T : ι → List Nat → R) (i : ι) (rank : Nat) : Asg (GLeg ι) → R :=
  fun σ => T i ((List.range rank).map fun a => σ (i, a))

/-- the node tensor as the library holds it: the input array transposed by the node's leg permutation, its `k`-th
leg labelled `lab k` -/
def gModelLeaf (T : ι → List Nat → R) (x : GNode ι) : Asg (GLeg ι) → R :=
  fun σ => T x.id ((List.range x.legs.length).map fun a => σ (x.lab (x.legs.idxOf a)))

omit [DecidableEq ι] [CommSemiring R] in
theorem gModelLeaf_ident (T : ι → List Nat → R) (x : GNode ι) (h : x.legs = List.range x.dims.length) :
    gModelLeaf T x = gSiteLeaf T x.id x.dims.length := by
  funext σ
  unfold gModelLeaf gSiteLeaf GNode.lab
  rw [h, List.length_range]
  congr 1
  apply List.map_congr_left
  intro a ha
  have := getD_map_idxOf id 0 (List.range x.dims.length) a ha
  rw [List.map_id] at this
  rw [this]; rfl

theorem filterMap_eq_map_of {α β : Type} (g : α → Option β) (h : α → β) (l : List α)
    (hl : ∀ a ∈ l, g a = some (h a)) : l.filterMap g = l.map h := by
  induction l with
  | nil => rfl
  | cons a l ih =>
    rw [List.filterMap_cons, hl a (by simp)]
    simp [ih (fun a ha => hl a (by simp [ha]))]

theorem range_getD_zero (m : Nat) : (List.range m).getD 0 0 = 0 := by
  cases m with
  | zero => rfl
  | succ m => simp [List.getD]

/-- the bond one attachment creates: the parent's leg at the position of the new child among the parent's
neighbours (`neighbour_index`), joined to the child's leg 0 -/
def opPair (r : ι) (rs : List Nat) (ops : List (AOp ι)) (o : AOp ι) : GLeg ι × GLeg ι :=
  ((nodeG r rs ops o.pid).lab ((nodeG r rs ops o.pid).nbrPos o.cid), (o.cid, 0))

theorem gRecord_closed (r : ι) (rs : List Nat) (ops : List (AOp ι)) (hg : GoodLog r ops) :
    gRecord (closedG r rs ops) = ops.map (opPair r rs ops) := by
  have hfind : ∀ q, q ∈ idsG r ops → gFind (closedG r rs ops) q = some (nodeG r rs ops q) := by
    intro q hq
    unfold closedG
    rw [gFind_map_id _ _ (nodeG_id r rs ops) q, if_pos hq]
  have hroot : (nodeG r rs ops r).parent = none := closed_root hg
  unfold gRecord
  generalize hN : gFind (closedG r rs ops) = F at hfind
  unfold closedG idsG
  rw [List.map_cons, List.filterMap_cons]
  simp only [hroot]
  rw [List.map_map, List.filterMap_map]
  apply filterMap_eq_map_of
  intro o ho
  have hp : (nodeG r rs ops o.cid).parent = some o.pid := closed_parent hg o ho
  simp only [Function.comp, hp]
  rw [hfind o.pid (hg.2 o ho)]
  have h0 := range_getD_zero (shapeOf r rs ops o.cid).length
  rw [List.getD_eq_getElem?_getD] at h0
  simp [opPair, GNode.lab, nodeG, h0]

/-- value of a network in closed form `closedG` (root `r`, attachments `ops`) -/
theorem closedG_value (r : ι) (rs : List Nat) (ops : List (AOp ι)) (hg : GoodLog r ops)
    (dim : GLeg ι → Nat) (T : ι → List Nat → R) :
    (∀ x ∈ closedG r rs ops, gModelLeaf T x = gSiteLeaf T x.id x.dims.length) ∧
    gRecord (closedG r rs ops) = ops.map (opPair r rs ops) ∧
    ∀ σ, netValue dim (gRecord (closedG r rs ops)) ((closedG r rs ops).map (gModelLeaf T)) σ =
      sumPairs dim (ops.map (opPair r rs ops))
        (fun τ => prodL ((idsG r ops).map fun i =>
          T i ((List.range (shapeOf r rs ops i).length).map fun a => τ (i, a)))) σ := by
  have hleaf : ∀ x ∈ closedG r rs ops, gModelLeaf T x = gSiteLeaf T x.id x.dims.length := by
    intro x hx
    apply gModelLeaf_ident
    obtain ⟨i, _, rfl⟩ := (mem_closedG r rs ops x).1 hx
    rfl
  refine ⟨hleaf, gRecord_closed r rs ops hg, fun σ => ?_⟩
  rw [gRecord_closed r rs ops hg, List.map_congr_left hleaf]
  unfold netValue closedG
  simp only [List.map_map]
  rfl

end
end Ptn.C19
