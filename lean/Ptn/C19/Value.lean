import Ptn.Common.EinsumNet
import Ptn.C19.FromTensor
/-! Value level for `TTNO.from_tensor` (helper definitions and lemmas for `from_tensor_value`).

`from_tensor_legs` says WHICH legs `_from_tensor_rec` splits off at which node.  Here the recursion is run on a
flat labelled tensor network (`Ptn.Ein.netValue`): it starts from one leaf - the dense input tensor, one label
`ax k` per axis of the INPUT (so the initial `np.transpose` is the identity on the function) - and every pass of
the `for child_id` loop replaces the current tensor of the node by two factors `Q`, `R` joined by a fresh bond,
GIVEN the contract of the external factorisation of that pass (`Q·R` contracts to the tensor that was split, `Q`
and `R` have the axes the leg model `splitChild` computes).  `RecRun` / `KidsRun` are literally
`fromTensorRec` / `fromTensorKids` with values attached. -/
namespace Ptn.C19

open Ptn.Ein

/-- labels of the flat network: an axis of the dense input, or one of the two ends of the bond created when
`c` was split off `p` -/
inductive VLeg where
  | ax (k : Nat)
  | pEnd (p c : Nat)
  | cEnd (p c : Nat)
deriving Repr, DecidableEq

/-- the label of the leg `l` of the leg model as seen from the node `owner` -/
def vleg (owner : Nat) : Leg → VLeg
  | .ax k => .ax k
  | .bond p c => if owner = p then .pEnd p c else .cEnd p c

/-- the child end of the edge a label belongs to (an edge is identified by its child) -/
def VLeg.child : VLeg → Option Nat
  | .ax _ => none
  | .pEnd _ c => some c
  | .cEnd _ c => some c

def Leg.child : Leg → Option Nat
  | .ax _ => none
  | .bond _ c => some c

theorem vleg_child (o : Nat) (l : Leg) : (vleg o l).child = l.child := by
  cases l with
  | ax k => rfl
  | bond p c => simp only [vleg]; split <;> rfl

/-- the bond of the tree edge `(p, c)`: parent end first -/
def bondPair (e : Nat × Nat) : VLeg × VLeg := (.pEnd e.1 e.2, .cEnd e.1 e.2)

mutual
/-- the binding record in the order in which the recursion creates the bonds -/
def treeBonds : RTree → List (VLeg × VLeg)
  | .node i ks => kidsBonds i ks
def kidsBonds (i : Nat) : List RTree → List (VLeg × VLeg)
  | [] => []
  | c :: cs => bondPair (i, c.id) :: (treeBonds c ++ kidsBonds i cs)
end

section
variable {R : Type} [CommSemiring R]

mutual
/-- `_from_tensor_rec` on the subtree `t` whose root currently holds the tensor `A` with legs `legs`: `out` are
the final node tensors of the subtree in dict order (`fromTensorRec` with values) -/
def RecRun (dim : VLeg → Nat) : RTree → Option Nat → List Leg → (Asg VLeg → R) → List (Asg VLeg → R) → Prop
  | .node i kids, par, legs, A, out =>
    ∃ fin subs, KidsRun dim i kids legs (if par.isSome then 1 else 0) A fin subs ∧ out = fin :: subs
/-- the `for child_id` loop (`fromTensorKids` with values): `curV` is the node's current tensor, `fin` its final
one, `subs` the final tensors of the children's subtrees.  One pass: SOME pair `Q`, `Rm` with the axes the leg
model computes (`splitChild`) that contracts over the new bond to the tensor that was split - the contract of
`tensor_qr_decomposition` / `tensor_svd` (+ `diag(S)·Vh`) / `truncated_tensor_svd` without truncation. -/
def KidsRun (dim : VLeg → Nat) (i : Nat) :
    List RTree → List Leg → Nat → (Asg VLeg → R) → (Asg VLeg → R) → List (Asg VLeg → R) → Prop
  | [], _, _, curV, fin, subs => fin = curV ∧ subs = []
  | c :: cs, cur, nv, curV, fin, subs =>
    ∃ (Q Rm : Asg VLeg → R) (sub rest : List (Asg VLeg → R)),
      (∀ τ, curV τ = sumPairs dim [bondPair (i, c.id)] (fun ρ => Q ρ * Rm ρ) τ) ∧
      DependsOn (· ∈ (splitChild i cur nv c).1.map (vleg i)) Q ∧
      DependsOn (· ∈ (splitChild i cur nv c).2.map (vleg c.id)) Rm ∧
      RecRun dim c (some i) (splitChild i cur nv c).2 Rm sub ∧
      KidsRun dim i cs (splitChild i cur nv c).1 (nv + 1) Q fin rest ∧
      subs = sub ++ rest
end

/-- a value-level run of `TTNO.from_tensor(reference_tree, tensor, leg_dict, mode)`: the recursion is started on
the transposed input `A` (labels: `ax k` = axis `k` of the tensor handed in, so the transposition by
`_get_qr_decomposition_shape` only fixes the ORDER in which the leg model lists the axes) and ends with the node
tensors `out` in dict order -/
def FromTensorRun (dim : VLeg → Nat) (t : RTree) (ld : Nat → Nat) (A : Asg VLeg → R)
    (out : List (Asg VLeg → R)) : Prop :=
  RecRun dim t none ((qrShape (fun i => [ld i, t.size + ld i]) t []).map Leg.ax) A out

/-- the tensor `f` reads only the legs the leg model lists for the node `x` -/
def LocalTo (x : FNode) (f : Asg VLeg → R) : Prop := DependsOn (· ∈ x.legs.map (vleg x.id)) f

/-- no label satisfying `S` belongs to an edge whose child end is in `ids` -/
def Avoids (ids : List Nat) (S : VLeg → Prop) : Prop := ∀ l, S l → ∀ c ∈ ids, l.child ≠ some c

theorem prodL_perm {xs ys : List R} (h : xs.Perm ys) : prodL xs = prodL ys := by
  induction h with
  | nil => rfl
  | cons x _ ih => simp [prodL, ih]
  | swap x y l => simp only [prodL]; rw [← mul_assoc, ← mul_assoc, mul_comm y x]
  | trans _ _ ih1 ih2 => rw [ih1, ih2]

/-- the order of the leaf tensors is irrelevant -/
theorem netValue_perm_leaves {L : Type} [DecidableEq L] (dim : L → Nat) (bs : List (L × L))
    {l₁ l₂ : List (Asg L → R)} (h : l₁.Perm l₂) (σ : Asg L) :
    netValue dim bs l₁ σ = netValue dim bs l₂ σ := by
  unfold netValue
  exact sumPairs_congr dim bs (fun τ => prodL_perm (h.map (fun f => f τ))) σ

theorem forall₂_append {α β : Type} {P : α → β → Prop} {a₁ a₂ : List α} {b₁ b₂ : List β}
    (h₁ : List.Forall₂ P a₁ b₁) (h₂ : List.Forall₂ P a₂ b₂) : List.Forall₂ P (a₁ ++ a₂) (b₁ ++ b₂) := by
  induction h₁ with
  | nil => exact h₂
  | cons h _ ih => exact List.Forall₂.cons h ih

theorem forall₂_mem_right {α β : Type} {P : α → β → Prop} {a : List α} {b : List β}
    (h : List.Forall₂ P a b) : ∀ y ∈ b, ∃ x ∈ a, P x y := by
  induction h with
  | nil => intro y hy; cases hy
  | cons h _ ih =>
    intro y hy
    rcases List.mem_cons.1 hy with rfl | hy
    · exact ⟨_, List.mem_cons_self, h⟩
    · obtain ⟨x, hx, hp⟩ := ih y hy
      exact ⟨x, List.mem_cons_of_mem _ hx, hp⟩

end

/-! ### which edges the legs of a node of the specification belong to -/

mutual
theorem specNodes_child (ld2 : Nat → List Nat) (par : Option Nat) (t : RTree) :
    ∀ x ∈ specNodes ld2 par t, ∀ l ∈ x.legs, l.child = none ∨ ∃ d ∈ t.ids, l.child = some d := by
  cases t with
  | node i kids =>
    intro x hx l hl
    simp only [specNodes, List.mem_cons] at hx
    rcases hx with rfl | hx
    · simp only [specNode, RTree.id, RTree.kids, List.mem_append, List.mem_map] at hl
      rcases hl with (⟨q, _, rfl⟩ | ⟨k, hk, rfl⟩) | ⟨a, _, rfl⟩
      · exact Or.inr ⟨i, by simp [RTree.ids], rfl⟩
      · refine Or.inr ⟨k.id, ?_, rfl⟩
        simp only [RTree.ids, List.mem_cons]
        exact Or.inr (id_mem_idsL kids k hk)
      · exact Or.inl rfl
    · rcases specNodesL_child ld2 i kids x hx l hl with h | ⟨d, hd, h⟩
      · exact Or.inl h
      · exact Or.inr ⟨d, by simp [RTree.ids, hd], h⟩
theorem specNodesL_child (ld2 : Nat → List Nat) (i : Nat) (ks : List RTree) :
    ∀ x ∈ specNodesL ld2 i ks, ∀ l ∈ x.legs, l.child = none ∨ ∃ d ∈ RTree.idsL ks, l.child = some d := by
  cases ks with
  | nil => intro x hx; simp [specNodesL] at hx
  | cons k ks =>
    intro x hx l hl
    simp only [specNodesL, List.mem_append] at hx
    rcases hx with hx | hx
    · rcases specNodes_child ld2 (some i) k x hx l hl with h | ⟨d, hd, h⟩
      · exact Or.inl h
      · exact Or.inr ⟨d, by simp [RTree.idsL, hd], h⟩
    · rcases specNodesL_child ld2 i ks x hx l hl with h | ⟨d, hd, h⟩
      · exact Or.inl h
      · exact Or.inr ⟨d, by simp [RTree.idsL, hd], h⟩
theorem id_mem_idsL (ks : List RTree) (k : RTree) (hk : k ∈ ks) : k.id ∈ RTree.idsL ks := by
  cases ks with
  | nil => cases hk
  | cons c cs =>
    simp only [RTree.idsL, List.mem_append]
    rcases List.mem_cons.1 hk with rfl | hk
    · left; cases k with
      | node j js => simp [RTree.id, RTree.ids]
    · exact Or.inr (id_mem_idsL cs k hk)
end

end Ptn.C19
