import Ptn.Common.EinsumNet
import Ptn.C19.Mps
import Ptn.C19.Value
import Ptn.C19.ValueModel
/-! Value level for `MatrixProductTree.from_tensor_list` (helper definitions and lemmas for `mps_chain_value`)
and zero padding of bonds (`pad_bond_value`).

Labels: `(site, axis name)` - the axis `left` / `right` / `phys k` of the INPUT tensor of the site.  The library
stores the input array and a leg permutation (`MNode.legs`); the node tensor it works with is the input transposed
by that permutation, its `k`-th logical leg is the input axis `legs[k]`, and the network binds the parent's leg
`neighbour_index(child)` to the child's leg `0`. -/
namespace Ptn.C19

open Ptn.Ein

section
variable {R : Type} [CommSemiring R]

/-- the input tensor of site `i` (a function of the index list in the order `[left, right, open…]`) as a
labelled tensor -/
def siteLeaf (n : Nat) (p : Nat → Nat) (T : Nat → List Nat → R) (i : Nat) : Asg CLeg → R :=
  fun σ => T i ((List.range (nlegsIn n p i)).map fun a => σ (i, axisName n i a))

/-- the node tensor as the library holds it: the input array transposed by the node's leg permutation
(`N[j₀, j₁, …] = T[idx]` with `idx[legs[k]] = j_k`), its `k`-th leg labelled `lab k` -/
def modelLeaf (n : Nat) (T : Nat → List Nat → R) (x : MNode) : Asg CLeg → R :=
  fun σ => T x.id ((List.range x.legs.length).map fun a => σ (x.lab n (x.legs.idxOf a)))

end

/-! ### generic list facts -/

theorem getD_map_idxOf {α β : Type} [DecidableEq α] (f : α → β) (d : β) (l : List α) (a : α) (h : a ∈ l) :
    (l.map f).getD (l.idxOf a) d = f a := by
  induction l with
  | nil => cases h
  | cons b l ih =>
    by_cases hb : b = a
    · subst hb; simp
    · have : a ∈ l := by
        rcases List.mem_cons.1 h with rfl | h
        · exact absurd rfl hb
        · exact h
      rw [List.idxOf_cons]
      have hb' : (b == a) = false := by simp [hb]
      simp only [hb', cond_false, List.map_cons, List.getD_cons_succ]
      exact ih this

theorem filterMap_map_some {α β γ : Type} (l : List α) (g : α → β) (f : β → Option γ) (h : α → γ)
    (hf : ∀ a ∈ l, f (g a) = some (h a)) : (l.map g).filterMap f = l.map h := by
  induction l with
  | nil => rfl
  | cons a l ih =>
    rw [List.map_cons, List.filterMap_cons, hf a (by simp)]
    simp only [List.map_cons]
    rw [ih (fun b hb => hf b (by simp [hb]))]

/-! ### the final state -/

theorem nodeAt_final (n r : Nat) (p : Nat → Nat) (i : Nat) :
    (nodeAt n r p 0 (n - 1) i).parent = chainParent r i ∧
    (nodeAt n r p 0 (n - 1) i).children = chainChildren n r i := by
  refine ⟨rfl, ?_⟩
  show (nodeAt n r p 0 (n - 1) i).children = chainChildren n r i
  unfold nodeAt chainChildren
  by_cases h1 : i < r
  · simp only [h1, if_true]
  · by_cases h2 : r < i
    · by_cases h3 : i + 1 < n
      · have a : i < n - 1 := by omega
        simp only [h1, h2, h3, a, if_true, if_false]
      · have a : ¬ i < n - 1 := by omega
        simp only [h1, h2, h3, a, if_true, if_false]
    · by_cases h3 : r + 1 < n
      · have a : r < n - 1 := by omega
        simp only [h1, h2, h3, a, if_true, if_false]
      · have a : ¬ r < n - 1 := by omega
        simp only [h1, h2, h3, a, if_false]

/-- the label of the leg of site `i` that points to its neighbour `j` -/
theorem lab_nbr (n r : Nat) (p : Nat → Nat) (i j : Nat) (hr : r < n) (hi : i < n) (hn : 2 ≤ n)
    (hj : j ∈ (chainParent r i).toList ++ chainChildren n r i) :
    (nodeAt n r p 0 (n - 1) i).lab n ((nodeAt n r p 0 (n - 1) i).nbrPos j) = (i, toward i j) := by
  unfold MNode.lab MNode.nbrPos
  rw [(nodeAt_final n r p i).1, (nodeAt_final n r p i).2]
  show (i, ((legsOf n r p i).map (axisName n i)).getD _ Axis.left) = _
  rw [legs_axis n r p i hr hi hn]
  unfold chainLegs
  congr 1
  have hlt : ((chainParent r i).toList ++ chainChildren n r i).idxOf j <
      (((chainParent r i).toList ++ chainChildren n r i).map (toward i)).length := by
    rw [List.length_map]; exact List.idxOf_lt_length_of_mem hj
  rw [List.getD_eq_getElem?_getD, List.getElem?_append_left hlt, ← List.getD_eq_getElem?_getD]
  exact getD_map_idxOf _ _ _ _ hj

theorem lab_zero (n r : Nat) (p : Nat → Nat) (i q : Nat) (hr : r < n) (hi : i < n) (hn : 2 ≤ n)
    (hq : chainParent r i = some q) :
    (nodeAt n r p 0 (n - 1) i).lab n 0 = (i, toward i q) := by
  have h := lab_nbr n r p i q hr hi hn (by simp [hq])
  have h0 : (nodeAt n r p 0 (n - 1) i).nbrPos q = 0 := by
    unfold MNode.nbrPos
    rw [(nodeAt_final n r p i).1, hq]
    simp
  rw [h0] at h
  exact h

theorem stRecord_final (n r : Nat) (p : Nat → Nat) (hn : 2 ≤ n) (hr : r < n) :
    stRecord n (stateAt n r p 0 (n - 1)) = (idsAt r 0 (n - 1)).tail.map (recPair r) := by
  unfold stRecord
  show ((idsAt r 0 (n - 1)).map (nodeAt n r p 0 (n - 1))).filterMap _ = _
  have hroot : (nodeAt n r p 0 (n - 1) r).parent = none := by simp [nodeAt]
  unfold idsAt
  rw [List.map_cons, List.filterMap_cons]
  simp only [hroot, List.tail_cons]
  apply filterMap_map_some
  intro i hi
  have hi' : i ≠ r ∧ i < n := by
    simp only [List.mem_append, List.mem_map, List.mem_range, List.mem_range'_1] at hi
    rcases hi with ⟨t, ht, rfl⟩ | h <;> omega
  by_cases hlt : i < r
  · have hpar : (nodeAt n r p 0 (n - 1) i).parent = some (i + 1) := by simp [nodeAt, hlt]
    simp only [hpar]
    rw [stateAt_find n r p 0 (n - 1) (i + 1) (by omega) (by omega) (by omega)]
    simp only [Option.map_some, nodeAt_id]
    rw [lab_nbr n r p (i + 1) i hr (by omega) hn, lab_zero n r p i (i + 1) hr hi'.2 hn]
    · simp [recPair, hlt, toward]
    · simp [chainParent, hlt]
    · unfold chainParent chainChildren
      by_cases h1 : i + 1 < r
      · simp [h1]
      · have : i + 1 = r := by omega
        subst this
        simp
  · have hgt : r < i := by omega
    have hpar : (nodeAt n r p 0 (n - 1) i).parent = some (i - 1) := by simp [nodeAt, hlt, hgt]
    simp only [hpar]
    rw [stateAt_find n r p 0 (n - 1) (i - 1) (by omega) (by omega) (by omega)]
    simp only [Option.map_some, nodeAt_id]
    rw [lab_nbr n r p (i - 1) i hr (by omega) hn, lab_zero n r p i (i - 1) hr hi'.2 hn]
    · have a : i - 1 < i := by omega
      have b : ¬ i < i - 1 := by omega
      simp [recPair, hlt, toward, a, b]
    · simp [chainParent, hlt, hgt]
    · unfold chainParent chainChildren
      by_cases h1 : r < i - 1
      · have a : ¬ i - 1 < r := by omega
        have b : i - 1 + 1 < n := by omega
        have c : i - 1 + 1 = i := by omega
        simp [h1, a, c, hi'.2]
      · have e : i - 1 = r := by omega
        have b : r + 1 < n := by omega
        have c : r + 1 = i := by omega
        rw [e]
        simp [c, hi'.2]

theorem mem_legsOf (n r : Nat) (p : Nat → Nat) (i a : Nat) (hr : r < n) (ha : a < nlegsIn n p i) :
    a ∈ legsOf n r p i := by
  unfold legsOf
  split
  · rename_i h
    have h1 : 0 < i := h.1
    have h2 : i + 1 < n := by omega
    have : nlegsIn n p i = 2 + p i := by
      unfold nlegsIn; simp [h1, h2]
    simp only [List.mem_cons, List.mem_range'_1]
    omega
  · exact List.mem_range.2 ha

section
variable {R : Type} [CommSemiring R]

omit [CommSemiring R] in
/-- in every rooting the node tensor the library holds IS the input tensor of the site (as a labelled tensor):
the leg permutation only permutes axes -/
theorem modelLeaf_final (n r : Nat) (p : Nat → Nat) (T : Nat → List Nat → R) (i : Nat) (hr : r < n) :
    modelLeaf n T (nodeAt n r p 0 (n - 1) i) = siteLeaf n p T i := by
  funext σ
  unfold modelLeaf siteLeaf
  show T i ((List.range (legsOf n r p i).length).map _) = _
  rw [legsOf_length n r p i hr]
  congr 1
  apply List.map_congr_left
  intro a ha
  congr 1
  unfold MNode.lab
  show (i, ((legsOf n r p i).map (axisName n i)).getD ((legsOf n r p i).idxOf a) Axis.left) = _
  rw [getD_map_idxOf _ _ _ _ (mem_legsOf n r p i a hr (List.mem_range.1 ha))]

end

/-! ### the record: orientation and order -/

def chainPair (i : Nat) : CLeg × CLeg := ((i, Axis.right), (i + 1, Axis.left))

theorem map_pred_range' (s m : Nat) : (List.range' (s + 1) m).map (· - 1) = List.range' s m := by
  induction m generalizing s with
  | zero => rfl
  | succ m ih => simp [List.range'_succ, ih]

theorem idsAt_tail_pairs (n r : Nat) :
    (idsAt r 0 (n - 1)).tail.map (recPair r) =
      ((List.range r).reverse.map chainPair).map Prod.swap ++ (List.range' r (n - 1 - r)).map chainPair := by
  have hids : (List.range (r - 0)).map (fun t => r - 1 - t) = (List.range r).reverse := by
    rw [List.range_eq_range' (n := r), List.reverse_range']
    simp
  unfold idsAt
  rw [List.tail_cons, hids, List.map_append]
  congr 1
  · rw [List.map_map]
    apply List.map_congr_left
    intro i hi
    have : i < r := by simpa using hi
    simp [recPair, chainPair, this]
  · rw [← map_pred_range' r, List.map_map]
    apply List.map_congr_left
    intro i hi
    have : r < i := by
      simp only [List.mem_range'_1] at hi; omega
    have a : ¬ i < r := by omega
    have b : i - 1 + 1 = i := by omega
    simp [recPair, chainPair, a, b]

theorem range_split (n r : Nat) (hr : r < n) :
    List.range n = List.range r ++ r :: List.range' (r + 1) (n - 1 - r) := by
  have e : n = r + ((n - 1 - r) + 1) := by omega
  conv => lhs; rw [e]
  rw [List.range_add, ← List.range'_eq_map_range, List.range'_succ]

theorem chainRecord_eq (n : Nat) : chainRecord n = (List.range (n - 1)).map chainPair := rfl

theorem chainRecord_nodup (n : Nat) : (Expr.pairLegs (chainRecord n)).Nodup := by
  rw [chainRecord_eq]
  simp only [Expr.pairLegs, List.map_map]
  rw [List.nodup_append]
  refine ⟨?_, ?_, ?_⟩
  · refine List.Nodup.map_on ?_ List.nodup_range
    intro a _ b _ h
    simpa [chainPair] using h
  · refine List.Nodup.map_on ?_ List.nodup_range
    intro a _ b _ h
    simpa [chainPair] using h
  · intro x hx y hy hxy
    obtain ⟨a, _, rfl⟩ := List.mem_map.1 hx
    obtain ⟨b, _, rfl⟩ := List.mem_map.1 hy
    simp [chainPair] at hxy

section
variable {R : Type} [CommSemiring R]

/-- the record of the rooted network sums like the chain record: orientation (equal dimensions) and order
(Fubini) are irrelevant -/
theorem chain_record_value (n r : Nat) (hr : r < n) (dim : CLeg → Nat)
    (hd : ∀ i, i + 1 < n → dim (i, Axis.right) = dim (i + 1, Axis.left)) (f : Asg CLeg → R) (σ : Asg CLeg) :
    sumPairs dim ((idsAt r 0 (n - 1)).tail.map (recPair r)) f σ = sumPairs dim (chainRecord n) f σ := by
  rw [idsAt_tail_pairs, sumPairs_append, sumPairs_orient, ← sumPairs_append]
  · have hp : ((List.range r).reverse.map chainPair ++ (List.range' r (n - 1 - r)).map chainPair).Perm
        (chainRecord n) := by
      rw [chainRecord_eq, ← List.map_append]
      apply List.Perm.map
      have e : n - 1 = r + (n - 1 - r) := by omega
      conv => rhs; rw [e]
      rw [List.range_add, ← List.range'_eq_map_range]
      exact List.Perm.append_right _ (List.reverse_perm _)
    have hn : (Expr.pairLegs ((List.range r).reverse.map chainPair ++
        (List.range' r (n - 1 - r)).map chainPair)).Nodup :=
      (pairLegs_perm hp).nodup_iff.2 (chainRecord_nodup n)
    exact sumPairs_perm dim hp hn f σ
  · intro q hq
    obtain ⟨i, hi, rfl⟩ := List.mem_map.1 hq
    have : i < r := by simpa using hi
    exact hd i (by omega)

theorem idsAt_perm_range (n r : Nat) (hr : r < n) : (idsAt r 0 (n - 1)).Perm (List.range n) := by
  have hids : (List.range (r - 0)).map (fun t => r - 1 - t) = (List.range r).reverse := by
    rw [List.range_eq_range' (n := r), List.reverse_range']
    simp
  unfold idsAt
  rw [hids, range_split n r hr]
  refine List.Perm.trans ?_ List.perm_middle.symm
  exact List.Perm.cons _ (List.Perm.append_right _ (List.reverse_perm _))

/-- `mps_chain_value`, proved here: see `Props.lean` -/
theorem chain_value (n r : Nat) (p : Nat → Nat) (hr : r < n) (hn : 2 ≤ n) (dim : CLeg → Nat)
    (hd : ∀ i, i + 1 < n → dim (i, Axis.right) = dim (i + 1, Axis.left)) (T : Nat → List Nat → R)
    (σ : Asg CLeg) :
    netValue dim (stRecord n (stateAt n r p 0 (n - 1)))
        ((stateAt n r p 0 (n - 1)).nodes.map (modelLeaf n T)) σ =
      netValue dim (chainRecord n) ((List.range n).map (siteLeaf n p T)) σ := by
  rw [stRecord_final n r p hn hr]
  have hl : (stateAt n r p 0 (n - 1)).nodes.map (modelLeaf n T) =
      (idsAt r 0 (n - 1)).map (siteLeaf n p T) := by
    show ((idsAt r 0 (n - 1)).map _).map _ = _
    rw [List.map_map]
    apply List.map_congr_left
    intro i _
    exact modelLeaf_final n r p T i hr
  rw [hl, netValue_perm_leaves dim _ ((idsAt_perm_range n r hr).map _)]
  unfold netValue
  exact chain_record_value n r hr dim hd _ σ

end

end Ptn.C19
