import Ptn.Common.EinsumNet
/-! Zero padding of bonds (helper lemmas for `pad_bond_value`): enlarging the range of bound indices changes
nothing when the summand vanishes at the extra index values. -/
namespace Ptn.C19

open Ptn.Ein Finset

variable {L : Type} [DecidableEq L] {R : Type} [CommSemiring R]

theorem sumR_zero (n : Nat) (g : Nat → R) (h : ∀ i, i < n → g i = 0) : sumR n g = 0 := by
  rw [sumR_eq]
  exact sum_eq_zero (fun i hi => h i (mem_range.1 hi))

/-- extra index values at which the summand vanishes contribute nothing -/
theorem sumR_pad (d D : Nat) (hdD : d ≤ D) (g : Nat → R) (h : ∀ i, d ≤ i → i < D → g i = 0) :
    sumR D g = sumR d g := by
  obtain ⟨k, rfl⟩ := Nat.exists_eq_add_of_le hdD
  induction k with
  | zero => rfl
  | succ k ih =>
    have e : d + (k + 1) = (d + k) + 1 := by omega
    rw [e, sumR_eq, sum_range_succ, ← sumR_eq, ih (by omega) (fun i h1 h2 => h i h1 (by omega)),
      h (d + k) (by omega) (by omega), add_zero]

/-- a sum all of whose evaluation points are zeros of the summand is zero -/
theorem sumPairs_eq_zero (dim : L → Nat) (ps : List (L × L)) (f : Asg L → R) (σ : Asg L)
    (h : ∀ τ : Asg L, (∀ l, l ∉ Expr.pairLegs ps → τ l = σ l) → f τ = 0) : sumPairs dim ps f σ = 0 := by
  induction ps generalizing σ with
  | nil => exact h σ (fun _ _ => rfl)
  | cons p ps ih =>
    obtain ⟨a, b⟩ := p
    simp only [sumPairs]
    apply sumR_zero
    intro i _
    apply ih
    intro τ hτ
    apply h
    intro l hl
    have hl' : l ≠ a ∧ l ≠ b ∧ l ∉ Expr.pairLegs ps := by
      simp only [Expr.pairLegs, List.map_cons, List.mem_append, List.mem_cons, not_or] at hl ⊢
      tauto
    rw [hτ l hl'.2.2]
    simp [upd, hl'.1, hl'.2.1]

/-- **padding**: the ranges of the bound indices may be enlarged from `dim` to `dim'` when the summand vanishes
wherever the common index of some bound pair lies in the added part of its range -/
theorem sumPairs_pad (dim dim' : L → Nat) (ps : List (L × L)) (hnd : (Expr.pairLegs ps).Nodup)
    (hle : ∀ p ∈ ps, dim p.1 ≤ dim' p.1) (f : Asg L → R)
    (hz : ∀ τ : Asg L, (∃ p ∈ ps, dim p.1 ≤ τ p.1 ∧ τ p.1 < dim' p.1 ∧ τ p.2 = τ p.1) → f τ = 0)
    (σ : Asg L) : sumPairs dim' ps f σ = sumPairs dim ps f σ := by
  induction ps generalizing σ with
  | nil => rfl
  | cons p ps ih =>
    obtain ⟨a, b⟩ := p
    have hnd' := (pairLegs_cons_perm (a, b) ps).nodup_iff.1 hnd
    simp only [List.nodup_cons, List.mem_cons, not_or] at hnd'
    obtain ⟨⟨_, ha⟩, hb, hnd''⟩ := hnd'
    have hih : ∀ σ', sumPairs dim' ps f σ' = sumPairs dim ps f σ' := fun σ' =>
      ih hnd'' (fun p hp => hle p (by simp [hp])) (fun τ ⟨p, hp, h⟩ => hz τ ⟨p, by simp [hp], h⟩) σ'
    simp only [sumPairs]
    rw [sumR_pad (dim a) (dim' a) (hle (a, b) (by simp))]
    · congr 1
      funext i
      exact hih _
    · intro i h1 h2
      apply sumPairs_eq_zero
      intro τ hτ
      apply hz
      refine ⟨(a, b), by simp, ?_⟩
      have e1 : τ a = i := by
        rw [hτ a ha]; unfold upd; by_cases h : a = b <;> simp [h]
      have e2 : τ b = i := by
        rw [hτ b hb]; simp [upd]
      simp only [e1, e2]
      exact ⟨h1, h2, trivial⟩

theorem prodL_eq_zero (xs : List R) (h : (0 : R) ∈ xs) : prodL xs = 0 := by
  induction xs with
  | nil => cases h
  | cons x xs ih =>
    rcases List.mem_cons.1 h with h | h
    · simp [prodL, ← h]
    · simp [prodL, ih h]

end Ptn.C19
