import Ptn.C19.ConstAccept
/-! The calls of star `constant_product_state` are accepted for all `d, L, C` (helper lemmas for
`star_const_structure`). -/
namespace Ptn.C19

def scShape (d L j : Nat) : List Nat := if j = L - 1 then [1, d] else [1, 1, d]

def scChain (d L i n : Nat) : List (Nat × List Nat) := (List.range n).map fun j => (i, scShape d L j)

theorem starConstCalls_succ (d L C : Nat) :
    starConstCalls d L (C + 1) = starConstCalls d L C ++ scChain d L C L := by
  unfold starConstCalls scChain scShape
  rw [List.range_succ, List.flatMap_append]
  simp

theorem scChain_succ (d L i n : Nat) : scChain d L i (n + 1) = scChain d L i n ++ [(i, scShape d L n)] := by
  unfold scChain
  rw [List.range_succ, List.map_append]
  rfl

theorem cntC_scChain (d L i n c : Nat) : cntC (scChain d L i n) c = if i = c then n else 0 := by
  induction n with
  | zero => simp [scChain, cntC]
  | succ n ih =>
    rw [scChain_succ, cntC_snoc, ih]
    by_cases h : i = c <;> simp [h]

theorem lens_len (done : List (Nat × List Nat)) (lens : List Nat) (n : Nat) (hl : LensInv done lens)
    (h : ∀ c, 0 < cntC done c ↔ c < n) : lens.length = n := by
  rcases Nat.lt_trichotomy lens.length n with h1 | h1 | h1
  · have := hl.big lens.length (Nat.le_refl _)
    have := (h lens.length).2 h1
    omega
  · exact h1
  · have := (hl.small n h1).2
    have := (h n).1 this
    omega

theorem starRunFrom_append (st : Star) (a b : List (Nat × List Nat)) :
    starRunFrom st (a ++ b) = (starRunFrom st a).bind fun s => starRunFrom s b := by
  unfold starRunFrom
  rw [List.foldl_append]
  cases h : List.foldl (fun acc x => acc.bind fun s => starAdd s x.1 x.2) (some st) a with
  | none => rw [foldl_bind_none]; rfl
  | some s => rfl

structure ScInv (d L C : Nat) (done : List (Nat × List Nat)) (st : Star) (nH : Nat) : Prop where
  inv : StarInv (List.replicate C 1 ++ [d]) done st
  shapes : ∀ o ∈ starOps done, ∀ c k, o.cid = StarId.chain c k → o.shape = scShape d L k
  heads : (childrenOf (starOps done) StarId.center).length = nH

theorem sc_cshape_get (d C i : Nat) (hi : i < C) : (List.replicate C 1 ++ [d])[i]? = some 1 := by
  rw [List.getElem?_append_left (by simpa using hi)]
  simp [hi]

theorem sc_step (d L C i j : Nat) (hi : i < C) (hj : j < L) (st : Star)
    (h : ScInv d L C (starConstCalls d L i ++ scChain d L i j) st (i + if j = 0 then 0 else 1)) :
    ∃ st', starAdd st i (scShape d L j) = some st' ∧
      ScInv d L C (starConstCalls d L i ++ scChain d L i (j + 1)) st' (i + 1) := by
  have hcnt : ∀ c, cntC (starConstCalls d L i ++ scChain d L i j) c =
      if c < i then L else if i = c then j else 0 := by
    intro c
    rw [cntC_append, cntC_starConst, cntC_scChain]
    by_cases h1 : c < i
    · have : ¬ i = c := by omega
      simp [h1, this]
    · simp [h1]
  generalize hdone : starConstCalls d L i ++ scChain d L i j = done at h hcnt
  obtain ⟨hinv, hshapes, hheads⟩ := h
  have hlens : st.lens.length = i + if j = 0 then 0 else 1 := by
    apply lens_len done st.lens _ hinv.2.2
    intro c
    rw [hcnt c]
    by_cases h1 : c < i
    · simp only [if_pos h1]; split <;> omega
    · by_cases h2 : i = c
      · subst h2; simp only [if_neg h1, if_true]; split <;> omega
      · simp only [if_neg h1, if_neg h2]; split <;> omega
  have hci : cntC done i = j := by rw [hcnt i]; simp
  have hsh0 : (scShape d L j)[0]? = some 1 := by unfold scShape; split <;> rfl
  have hacc : ∃ st', starAdd st i (scShape d L j) = some st' := by
    apply star_accept (List.replicate C 1 ++ [d]) done st i (scShape d L j) hinv
    · rw [hlens]; omega
    · simp; omega
    · unfold scShape; split <;> simp
    · intro e
      rw [hlens] at e
      have hj0 : j = 0 := by by_cases hj0 : j = 0; exact hj0; rw [if_neg hj0] at e; omega
      rw [hheads, hj0]
      simp only [if_true, Nat.add_zero]
      refine ⟨by simp; omega, ?_⟩
      rw [sc_cshape_get d C i hi]; exact hj0 ▸ hsh0
    · intro _ o ho hoc
      rw [hci] at hoc
      have := hshapes o ho i (j - 1) hoc
      have hne : ¬ j - 1 = L - 1 := by
        intro e
        have : 0 < j := by
          rcases Nat.eq_zero_or_pos j with h0 | h0
          · subst h0
            have hl0 : st.lens.length = i := by simpa using hlens
            omega
          · exact h0
        omega
      rw [this, hsh0]
      unfold scShape
      rw [if_neg hne]
      exact ⟨by simp, rfl⟩
  obtain ⟨st', hst'⟩ := hacc
  refine ⟨st', hst', ?_⟩
  have hstep := star_step _ done st st' i (scShape d L j) hinv hst'
  rw [scChain_succ, ← List.append_assoc, hdone]
  have hop : starOp done (i, scShape d L j) =
      ⟨.chain i j, scShape d L j, if j = 0 then .center else .chain i (j - 1)⟩ := by
    simp [starOp, hci]
  refine ⟨hstep, ?_, ?_⟩
  · intro o ho c k hoc
    rw [starOps_snoc, List.mem_append] at ho
    rcases ho with ho | ho
    · exact hshapes o ho c k hoc
    · simp only [List.mem_cons, List.not_mem_nil, or_false] at ho
      subst ho
      rw [hop] at hoc ⊢
      simp only [StarId.chain.injEq] at hoc
      rw [← hoc.2]
  · rw [starOps_snoc, childrenOf_snoc, List.length_append, hheads, hop]
    by_cases hj0 : j = 0
    · simp [hj0]
    · simp [hj0]

theorem starRunFrom_snoc (st : Star) (a : List (Nat × List Nat)) (x : Nat × List Nat) :
    starRunFrom st (a ++ [x]) = (starRunFrom st a).bind fun s => starAdd s x.1 x.2 := by
  rw [starRunFrom_append]
  congr 1

/-- one whole chain -/
theorem sc_chain (d L C i : Nat) (hi : i < C) (st0 : Star)
    (h0 : ScInv d L C (starConstCalls d L i) st0 i) (n : Nat) (hn : n ≤ L) :
    ∃ st', starRunFrom st0 (scChain d L i n) = some st' ∧
      ScInv d L C (starConstCalls d L i ++ scChain d L i n) st' (i + if n = 0 then 0 else 1) := by
  induction n with
  | zero => exact ⟨st0, rfl, by simpa [scChain] using h0⟩
  | succ n ih =>
    obtain ⟨s1, hr1, hi1⟩ := ih (by omega)
    obtain ⟨s2, hr2, hi2⟩ := sc_step d L C i n hi (by omega) s1 hi1
    refine ⟨s2, ?_, by simpa using hi2⟩
    rw [scChain_succ, starRunFrom_snoc, hr1]
    exact hr2

/-- all chains `0 … C'-1` -/
theorem sc_all (d L C : Nat) (hL : 0 < L) (C' : Nat) (hC : C' ≤ C) :
    ∃ st', starRunFrom (starInit (List.replicate C 1 ++ [d])) (starConstCalls d L C') = some st' ∧
      ScInv d L C (starConstCalls d L C') st' C' := by
  induction C' with
  | zero =>
    refine ⟨_, rfl, ?_, ?_, ?_⟩
    · simpa [starConstCalls] using starInv_init (List.replicate C 1 ++ [d])
    · intro o ho; simp [starConstCalls, starOps, starOpsAux] at ho
    · simp [starConstCalls, starOps, starOpsAux, childrenOf]
  | succ i ih =>
    obtain ⟨s1, hr1, hi1⟩ := ih (by omega)
    obtain ⟨s2, hr2, hi2⟩ := sc_chain d L C i (by omega) s1 hi1 L (Nat.le_refl _)
    refine ⟨s2, ?_, ?_⟩
    · rw [starConstCalls_succ, starRunFrom_append, hr1]; exact hr2
    · rw [starConstCalls_succ]
      have : ¬ L = 0 := by omega
      simpa [this] using hi2

theorem starConstCalls_zero (d C : Nat) : starConstCalls d 0 C = [] := by
  simp [starConstCalls]

/-- the calls of `constant_product_state` are accepted, for all parameters -/
theorem starConst_isSome (d L C : Nat) : ∃ st, starConst d L C = some st := by
  unfold starConst starRun
  rcases Nat.eq_zero_or_pos L with h | h
  · subst h
    rw [starConstCalls_zero]
    exact ⟨_, rfl⟩
  · obtain ⟨st, hst, _⟩ := sc_all d L C h C (Nat.le_refl _)
    exact ⟨st, hst⟩

end Ptn.C19
