import Ptn.C19.ValuePad
/-! Index shift and delta bonds (helper lemmas for `pad_front_value` and `constant_product_state_value`):
* `sumR_shift`: `Σ_{i<k+d} g i = Σ_{i<k} g i + Σ_{i<d} g (k+i)`;
* `sumPairs_comp`: a re-indexing of legs that are not bound commutes with the sum over the bound pairs;
* `sumPairs_pad_front`: new index values BEFORE the old ones, zeros there: same value;
* `sumPairs_delta`: a summand supported at common index 0 of every bond: the sum is its value there. -/
namespace Ptn.C19

open Ptn.Ein Finset

variable {L : Type} [DecidableEq L] {R : Type} [CommSemiring R]

theorem sumR_shift (k d : Nat) (g : Nat → R) :
    sumR (k + d) g = sumR k g + sumR d (fun i => g (k + i)) := by
  rw [sumR_eq, sumR_eq, sumR_eq, sum_range_add]

/-- the assignment with the indices of the legs `ls` moved up by `e` -/
def shiftOn (ls : List L) (e : L → Nat) (τ : Asg L) : Asg L := fun l => if l ∈ ls then τ l + e l else τ l

/-- the assignment with the indices of the legs `ls` set to `0` -/
def zeroOn (ls : List L) (τ : Asg L) : Asg L := fun l => if l ∈ ls then 0 else τ l

theorem sumPairs_comp (dim : L → Nat) (ps : List (L × L)) (S : Asg L → Asg L)
    (hS : ∀ τ l i, l ∈ Expr.pairLegs ps → S (upd τ l i) = upd (S τ) l i) (f : Asg L → R) (σ : Asg L) :
    sumPairs dim ps (fun τ => f (S τ)) σ = sumPairs dim ps f (S σ) := by
  induction ps generalizing σ with
  | nil => rfl
  | cons p ps ih =>
    obtain ⟨a, b⟩ := p
    have hm : ∀ l, l ∈ Expr.pairLegs ps → l ∈ Expr.pairLegs ((a, b) :: ps) := fun l hl =>
      (pairLegs_cons_perm (a, b) ps).mem_iff.2 (by simp [hl])
    have hma : a ∈ Expr.pairLegs ((a, b) :: ps) := (pairLegs_cons_perm (a, b) ps).mem_iff.2 (by simp)
    have hmb : b ∈ Expr.pairLegs ((a, b) :: ps) := (pairLegs_cons_perm (a, b) ps).mem_iff.2 (by simp)
    simp only [sumPairs]
    congr 1
    funext i
    rw [ih (fun τ l i hl => hS τ l i (hm l hl)), hS _ b i hmb, hS _ a i hma]

theorem pairLegs_cons_split (a b : L) (ps : List (L × L)) (hnd : (Expr.pairLegs ((a, b) :: ps)).Nodup) :
    a ∉ Expr.pairLegs ps ∧ b ∉ Expr.pairLegs ps ∧ (Expr.pairLegs ps).Nodup ∧
      ∀ x, x ∈ Expr.pairLegs ((a, b) :: ps) ↔ x = a ∨ x = b ∨ x ∈ Expr.pairLegs ps := by
  have hnd' := (pairLegs_cons_perm (a, b) ps).nodup_iff.1 hnd
  simp only [List.nodup_cons, List.mem_cons, not_or] at hnd'
  obtain ⟨⟨_, ha⟩, hb, hnd''⟩ := hnd'
  refine ⟨ha, hb, hnd'', fun x => ?_⟩
  rw [(pairLegs_cons_perm (a, b) ps).mem_iff]
  simp

/-- **front padding** at the level of the sum: the range of every bound index grows from `dim` to `e + dim`, the new
values come first; the summand `f'` vanishes when the common index of some pair is one of the new values, and is
the old summand `f` read at indices moved down by `e` elsewhere -/
theorem sumPairs_pad_front (dim dim' e : L → Nat) (ps : List (L × L)) (hnd : (Expr.pairLegs ps).Nodup)
    (hdim : ∀ p ∈ ps, dim' p.1 = e p.1 + dim p.1) (he : ∀ p ∈ ps, e p.2 = e p.1) (f f' : Asg L → R)
    (hz : ∀ τ : Asg L, (∃ p ∈ ps, τ p.1 < e p.1 ∧ τ p.2 = τ p.1) → f' τ = 0)
    (hs : ∀ τ : Asg L, f' (shiftOn (Expr.pairLegs ps) e τ) = f τ) (σ : Asg L) :
    sumPairs dim' ps f' σ = sumPairs dim ps f σ := by
  induction ps generalizing f' σ with
  | nil =>
    have : shiftOn (Expr.pairLegs ([] : List (L × L))) e σ = σ := by
      funext l; simp [shiftOn, Expr.pairLegs]
    simp only [sumPairs]
    rw [← hs σ, this]
  | cons p ps ih =>
    obtain ⟨a, b⟩ := p
    obtain ⟨ha, hb, hnd'', hmem⟩ := pairLegs_cons_split a b ps hnd
    have hdab : dim' a = e a + dim a := hdim (a, b) (by simp)
    have heab : e b = e a := he (a, b) (by simp)
    simp only [sumPairs]
    rw [hdab, sumR_shift, sumR_zero, zero_add]
    · congr 1
      funext i
      -- the shift of the two legs of this pair
      let S : Asg L → Asg L := shiftOn [a, b] e
      have hSσ : upd (upd σ a (e a + i)) b (e a + i) = S (upd (upd σ a i) b i) := by
        funext x
        simp only [S, shiftOn, List.mem_cons, List.not_mem_nil, or_false]
        by_cases hxb : x = b
        · subst hxb; simp [upd, heab, Nat.add_comm]
        · by_cases hxa : x = a
          · subst hxa; simp [upd, hxb, Nat.add_comm]
          · simp [upd, hxa, hxb]
      have hScomm : ∀ τ l j, l ∈ Expr.pairLegs ps → S (upd τ l j) = upd (S τ) l j := by
        intro τ l j hl
        have hla : l ≠ a := fun h => ha (h ▸ hl)
        have hlb : l ≠ b := fun h => hb (h ▸ hl)
        funext x
        simp only [S, shiftOn, List.mem_cons, List.not_mem_nil, or_false]
        by_cases hx : x = l
        · subst hx; simp [upd, hla, hlb]
        · simp [upd, hx, shiftOn]
      rw [hSσ, ← sumPairs_comp dim' ps S hScomm f']
      apply ih hnd'' (fun p hp => hdim p (by simp [hp])) (fun p hp => he p (by simp [hp]))
      · rintro τ ⟨p, hp, h1, h2⟩
        have hp1 : p.1 ∈ Expr.pairLegs ps := by
          simp only [Expr.pairLegs, List.mem_append, List.mem_map]; exact Or.inl ⟨p, hp, rfl⟩
        have hp2 : p.2 ∈ Expr.pairLegs ps := by
          simp only [Expr.pairLegs, List.mem_append, List.mem_map]; exact Or.inr ⟨p, hp, rfl⟩
        have e1 : S τ p.1 = τ p.1 := by
          have h1a : p.1 ≠ a := fun h => ha (h ▸ hp1)
          have h1b : p.1 ≠ b := fun h => hb (h ▸ hp1)
          simp [S, shiftOn, h1a, h1b]
        have e2 : S τ p.2 = τ p.2 := by
          have h1a : p.2 ≠ a := fun h => ha (h ▸ hp2)
          have h1b : p.2 ≠ b := fun h => hb (h ▸ hp2)
          simp [S, shiftOn, h1a, h1b]
        apply hz
        exact ⟨p, by simp [hp], by rw [e1]; exact h1, by rw [e1, e2]; exact h2⟩
      · intro τ
        rw [← hs τ]
        congr 1
        funext x
        simp only [S, shiftOn, List.mem_cons, List.not_mem_nil, or_false, hmem x]
        by_cases hxa : x = a
        · subst hxa; simp [ha]
        · by_cases hxb : x = b
          · subst hxb; simp [hb]
          · simp [hxa, hxb]
    · intro i hi
      apply sumPairs_eq_zero
      intro τ hτ
      apply hz
      refine ⟨(a, b), by simp, ?_⟩
      have e1 : τ a = i := by
        rw [hτ a ha]; unfold upd; by_cases h : a = b <;> simp [h]
      have e2 : τ b = i := by
        rw [hτ b hb]; simp [upd]
      simp only [e1, e2]
      exact ⟨hi, trivial⟩

theorem sumR_single_zero (n : Nat) (hn : 0 < n) (g : Nat → R) (h : ∀ i, 0 < i → i < n → g i = 0) :
    sumR n g = g 0 := by
  rw [sumR_pad 1 n hn g (fun i h1 h2 => h i h1 h2)]
  simp [sumR]

/-- **delta bonds**: a summand that vanishes unless the common index of every bound pair is `0` sums to its value
at index `0` on all bound legs, whatever the (positive) bond dimensions are -/
theorem sumPairs_delta (dim : L → Nat) (ps : List (L × L)) (hnd : (Expr.pairLegs ps).Nodup)
    (hpos : ∀ p ∈ ps, 0 < dim p.1) (f : Asg L → R)
    (hz : ∀ τ : Asg L, (∃ p ∈ ps, τ p.1 ≠ 0 ∧ τ p.2 = τ p.1) → f τ = 0) (σ : Asg L) :
    sumPairs dim ps f σ = f (zeroOn (Expr.pairLegs ps) σ) := by
  induction ps generalizing σ with
  | nil =>
    have : zeroOn (Expr.pairLegs ([] : List (L × L))) σ = σ := by
      funext l; simp [zeroOn, Expr.pairLegs]
    rw [this]; rfl
  | cons p ps ih =>
    obtain ⟨a, b⟩ := p
    obtain ⟨ha, hb, hnd'', hmem⟩ := pairLegs_cons_split a b ps hnd
    simp only [sumPairs]
    rw [sumR_single_zero (dim a) (hpos (a, b) (by simp))]
    · rw [ih hnd'' (fun p hp => hpos p (by simp [hp])) (fun τ ⟨p, hp, h⟩ => hz τ ⟨p, by simp [hp], h⟩)]
      congr 1
      funext x
      simp only [zeroOn, hmem x]
      by_cases hxb : x = b
      · subst hxb; simp [upd]
      · by_cases hxa : x = a
        · subst hxa; simp [upd, hxb]
        · simp [upd, hxa, hxb]
    · intro i hi _
      apply sumPairs_eq_zero
      intro τ hτ
      apply hz
      refine ⟨(a, b), by simp, ?_⟩
      have e1 : τ a = i := by
        rw [hτ a ha]; unfold upd; by_cases h : a = b <;> simp [h]
      have e2 : τ b = i := by
        rw [hτ b hb]; simp [upd]
      simp only [e1, e2]
      exact ⟨by omega, trivial⟩

/-- the tensor of a product-state node: the open-leg factor `v` at bond indices all `0`, zero elsewhere (also in
any zero padding of the bonds) -/
def deltaLeaf (bl : List L) (v : Asg L → R) : Asg L → R :=
  fun τ => if bl.all (fun l => τ l == 0) then v τ else 0

theorem prodL_forall₂ (xs ys : List R) (h : List.Forall₂ (· = ·) xs ys) : prodL xs = prodL ys := by
  induction h with
  | nil => rfl
  | cons h _ ih => simp [prodL, h, ih]

end Ptn.C19
