import Ptn.C19.ConstAcceptFork
/-! Invariant of the calls of `constant_ftps` and one accepted step (helper lemmas towards `ftps_structure`). -/
namespace Ptn.C19

def ftMainShape (d h bd k : Nat) : List Nat := if k = 0 ∨ k = h - 1 then [bd, bd, d] else [bd, bd, bd, d]
def ftSubShape (d w bd j : Nat) : List Nat := if j = w - 2 then [bd, d] else [bd, bd, d]

theorem ftMain_get (d h bd k n : Nat) (hn : n ≤ 1 ∨ (n ≤ 2 ∧ k ≠ 0 ∧ k ≠ h - 1)) :
    n < (ftMainShape d h bd k).length ∧ (ftMainShape d h bd k)[n]? = some bd := by
  unfold ftMainShape
  by_cases hc : k = 0 ∨ k = h - 1
  · rw [if_pos hc]
    have : n ≤ 1 := by omega
    rcases n with _ | _ | n
    · simp
    · simp
    · omega
  · rw [if_neg hc]
    have : n ≤ 2 := by omega
    rcases n with _ | _ | _ | n
    · simp
    · simp
    · simp
    · omega

theorem ftMain_head (d h bd k : Nat) :
    0 < (ftMainShape d h bd k).length ∧ (ftMainShape d h bd k)[0]? = some bd :=
  ftMain_get d h bd k 0 (Or.inl (by omega))

theorem ftSub_head (d w bd j : Nat) :
    0 < (ftSubShape d w bd j).length ∧ (ftSubShape d w bd j)[0]? = some bd := by
  unfold ftSubShape; split <;> simp

theorem ftSub_one (d w bd j : Nat) (hj : j + 2 < w) :
    1 < (ftSubShape d w bd j).length ∧ (ftSubShape d w bd j)[1]? = some bd := by
  unfold ftSubShape
  rw [if_neg (by omega)]
  simp

/-- what the closed form says about a state reached by calls of `constant_ftps`: number of bound legs and shape of
    every node -/
structure FtInv (d w h bd : Nat) (done : List ForkCall) (st : Fork) : Prop where
  inv : ForkInv [bd, bd, d] done st
  hM : cntM done < h
  nvM : ∀ k, k ≤ cntM done → (nodeG (ForkId.main 0) [bd, bd, d] (forkOps done) (ForkId.main k)).nvirt =
    (if k = 0 then 0 else 1) + (if k < cntM done then 1 else 0) + (if 0 < cntS done k then 1 else 0)
  shM : ∀ k, k ≤ cntM done →
    shapeOf (ForkId.main 0) [bd, bd, d] (forkOps done) (ForkId.main k) = ftMainShape d h bd k
  nvS : ∀ i j, j < cntS done i → (nodeG (ForkId.main 0) [bd, bd, d] (forkOps done) (ForkId.sub i j)).nvirt =
    1 + (if j + 1 < cntS done i then 1 else 0)
  shS : ∀ i j, j < cntS done i →
    shapeOf (ForkId.main 0) [bd, bd, d] (forkOps done) (ForkId.sub i j) = ftSubShape d w bd j

/-- the calls `constant_ftps` may make next -/
def FtOK (d w h bd : Nat) (done : List ForkCall) : ForkCall → Prop
  | .main sh => sh = ftMainShape d h bd (cntM done + 1) ∧ cntM done + 1 < h
  | .sub i sh => sh = ftSubShape d w bd (cntS done i) ∧ i ≤ cntM done ∧ cntS done i + 1 < w

/-- every call of the kind `constant_ftps` makes is accepted (acceptance half of the step) -/
theorem ft_step_accept (d w h bd : Nat) (done : List ForkCall) (st : Fork) (x : ForkCall)
    (hinv : FtInv d w h bd done st) (hx : FtOK d w h bd done x) :
    ∃ st', forkAdd st x = some st' ∧ ForkInv [bd, bd, d] (done ++ [x]) st' := by
  have hacc : ∃ st', forkAdd st x = some st' := by
    cases x with
    | main sh =>
      obtain ⟨rfl, hlt⟩ := hx
      have hnv := hinv.nvM (cntM done) (Nat.le_refl _)
      have hsh := hinv.shM (cntM done) (Nat.le_refl _)
      have hget := ftMain_get d h bd (cntM done)
        ((if cntM done = 0 then 0 else 1) + (if cntM done < cntM done then 1 else 0) +
          (if 0 < cntS done (cntM done) then 1 else 0))
        (by
          repeat' split
          all_goals omega)
      apply fork_accept [bd, bd, d] done st _ hinv.inv
      · intro i sh e; cases e
      · exact (ftMain_head d h bd _).1
      · simp only [forkOp]; rw [hnv, hsh]; exact hget.1
      · simp only [forkOp]; rw [hnv, hsh, hget.2]; exact (ftMain_head d h bd _).2
    | sub i sh =>
      obtain ⟨rfl, hi, hlt⟩ := hx
      apply fork_accept [bd, bd, d] done st _ hinv.inv
      · intro i' sh' e; cases e; exact hi
      · exact (ftSub_head d w bd _).1
      · simp only [forkOp]
        by_cases h0 : cntS done i = 0
        · rw [if_pos h0, hinv.nvM i hi, hinv.shM i hi]
          refine (ftMain_get d h bd i _ ?_).1
          have := hinv.hM
          repeat' split
          all_goals omega
        · rw [if_neg h0, hinv.nvS i (cntS done i - 1) (by omega), hinv.shS i (cntS done i - 1) (by omega),
            if_neg (by omega)]
          exact (ftSub_one d w bd _ (by omega)).1
      · simp only [forkOp]
        rw [(ftSub_head d w bd _).2]
        by_cases h0 : cntS done i = 0
        · rw [if_pos h0, hinv.nvM i hi, hinv.shM i hi]
          refine (ftMain_get d h bd i _ ?_).2.symm
          have := hinv.hM
          repeat' split
          all_goals omega
        · rw [if_neg h0, hinv.nvS i (cntS done i - 1) (by omega), hinv.shS i (cntS done i - 1) (by omega),
            if_neg (by omega)]
          exact (ftSub_one d w bd _ (by omega)).2.symm
  obtain ⟨st', hst'⟩ := hacc
  exact ⟨st', hst', fork_step _ done st st' x hinv.inv hst'⟩

end Ptn.C19
