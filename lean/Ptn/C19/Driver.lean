import Ptn.C19.Model
import Ptn.C19.Special
import Ptn.C19.ValueModel
import Ptn.C19.ValueSpecialModel
/-! Line-protocol handler for the C19 model (core Lean only).

  grid <rows> <cols>                → `i_j-k_l,…`              pair list of `_find_nn_pairs`
  mps <n> <r> <p0> … <p(n-1)>       → `id:parent:children:legs;…|L:…|R:…`   (`from_tensor_list`)
  leftmost <n> <p0> … <p(n-1)>      → same format (`from_tensor_list_leftmost_node_is_root`)
  ising <id:parent> …               → `coeff,sym,siteOp-siteOp;…`   tokens in dict (insertion) order
  isinggrid <rows> <cols>           → same, sites printed `i_j`
  qrshape <id:parent> … | <ld_0> …  → `a,b,…`  (`ld_k` = leg of the node with identifier `k`)
  fromtensor <id:parent> … | <ld…>  → `id:parent:children:legs;…`  legs `b<p>.<c>` or axis numbers
  star <cshape> <c>:<shape> …       → `id:parent:children:legs:dims;…` ids `C`, `<c>.<j>`; shapes `d,d,…` (`-` = scalar)
  starconst <d> <L> <C>             → same (`constant_product_state(·, d, chain_length L, num_chains C)`)
  fork m:<shape> s<i>:<shape> …     → same, ids `M<i>`, `S<i>.<j>`
  forkconst <d> <width> <height> <bd> → same (`constant_ftps`)
  binary <nphys> <bd> <d>           → same, ids `V<level>.<pos>`, `P<k>` (`generate_binary_ttns`)
  starl <cshape> <c>@<k>:<shape> …  → as `star`, every call with its `parent_leg` (`k` a number or `-` for `None`)
  forkl m@<k>:<shape> s<i>@<k>:<shape> … → as `fork`, with `parent_leg`
  mpsrec <n> <r> <p0> … <p(n-1)>    → `nodes id:lab,lab,…;… | rec a~b … | chain a~b …`  value level: per node (dict order)
                                       the labels of its legs in `(parent, children, open)` order (`<site>L`, `<site>R`,
                                       `<site>P<k>` = input axis left / right / k-th open), the binding record of the
                                       network (`stRecord`: parent's leg `neighbour_index(node)` ~ node's leg 0) and the
                                       specified chain record (`chainRecord`)
  starrec <cshape> <c>@<k>:<shape> … → `nodes id:lab,lab,…;… | rec a~b …`  value level of `starl`: per node (dict order) the
                                       labels of its legs in `(parent, children, open)` order (`<id>#<axis>` = axis of the
                                       array handed in) and the binding record `gRecord` (parent's leg
                                       `neighbour_index(node)` ~ node's leg 0)
  forkrec m@<k>:<shape> s<i>@<k>:<shape> … → the same for `forkl`
  starconstrec <d> <L> <C>          → the same for `starconst`
  forkconstrec <d> <width> <height> <bd> → the same for `forkconst`
  mpsdirect <n> <r> <p0> … | <step> … → as `mps`: `add_root` of site `r`, then the direct calls `L` / `Lf`
                                       (`attach_node_left_end`, `f` = `final=True`) and `R` (`attach_node_right_end`)
-/
namespace Ptn.C19

def natList (l : List Nat) : String := ",".intercalate (l.map toString)

def parseNats (l : List String) : Option (List Nat) := l.mapM String.toNat?

def showCell (c : Cell) : String := s!"{c.1}_{c.2}"

def showMNode (x : MNode) : String :=
  let p := match x.parent with
    | none => "-"
    | some q => toString q
  s!"{x.id}:{p}:{natList x.children}:{natList x.legs}"

def showMPT : Option MPT → String
  | none => "none"
  | some st => ";".intercalate (st.nodes.map showMNode) ++ s!"|L:{natList st.left}|R:{natList st.right}"

def showSym : Sym → String
  | .extMagn => "g"
  | .coupling => "J"

def showOp : Op → String
  | .A => "A"
  | .B => "B"

def showTerm {α : Type} (f : α → String) (t : Term α) : String :=
  s!"{t.coeff},{showSym t.sym}," ++ "-".intercalate (t.ops.map fun so => f so.1 ++ showOp so.2)

/-- tokens `id:parent` (parent `-1` for the root, which must come first; every other parent must have
    been listed before; identifiers distinct) -/
def parseTree (toks : List String) : Option (List (Nat × Option Nat)) := do
  let items ← toks.mapM fun tok =>
    match tok.splitOn ":" with
    | [a, b] =>
      match a.toNat?, b.toInt? with
      | some i, some p => if p = -1 then some (i, none) else if 0 ≤ p then some (i, some p.toNat) else none
      | _, _ => none
    | _ => none
  match items with
  | [] => none
  | (_, some _) :: _ => none
  | (r, none) :: rest =>
    let rec check (seen : List Nat) : List (Nat × Option Nat) → Bool
      | [] => true
      | (i, some p) :: tl => !seen.contains i && seen.contains p && check (i :: seen) tl
      | (_, none) :: _ => false
    if check [r] rest then some items else none

def flatOf (items : List (Nat × Option Nat)) : List (Nat × List Nat) :=
  items.map fun it => (it.1, (items.filter fun c => c.2 == some it.1).map (·.1))

def treeOf (items : List (Nat × Option Nat)) : Nat → Nat → RTree
  | 0, i => .node i []
  | fuel + 1, i => .node i (((items.filter fun c => c.2 == some i).map (·.1)).map (treeOf items fuel))

def showLeg : Leg → String
  | .ax k => toString k
  | .bond p c => s!"b{p}.{c}"

def showFNode (x : FNode) : String :=
  let p := match x.parent with
    | none => "-"
    | some q => toString q
  s!"{x.id}:{p}:{natList x.children}:" ++ ",".intercalate (x.legs.map showLeg)

def splitBar (l : List String) : Option (List String × List String) :=
  match l.span (· ≠ "|") with
  | (a, "|" :: b) => some (a, b)
  | _ => none

/-- leg dictionary: the `k`-th number is the leg of the node with identifier `k`; must be a
    permutation of `0 … n-1` over identifiers `0 … n-1`. -/
def parseLegDict (items : List (Nat × Option Nat)) (ld : List Nat) : Option (Nat → Nat) :=
  let n := items.length
  if ld.length = n ∧ (List.range n).all (fun k => ld.contains k) ∧ items.all (fun it => it.1 < n)
  then some fun i => ld.getD i 0 else none

def parseShape (t : String) : Option (List Nat) :=
  if t = "-" then some [] else (t.splitOn ",").mapM String.toNat?

def showGNode {ι : Type} (f : ι → String) (x : GNode ι) : String :=
  let p := match x.parent with
    | none => "-"
    | some q => f q
  s!"{f x.id}:{p}:{",".intercalate (x.children.map f)}:{natList x.legs}:{natList x.dims}"

def showGNodes {ι : Type} (f : ι → String) : Option (List (GNode ι)) → String
  | none => "none"
  | some ns => ";".intercalate (ns.map (showGNode f))

def showStarId : StarId → String
  | .center => "C"
  | .chain c j => s!"{c}.{j}"

def showForkId : ForkId → String
  | .main i => s!"M{i}"
  | .sub i j => s!"S{i}.{j}"

def showBinId : BinId → String
  | .virt l p => s!"V{l}.{p}"
  | .phys k => s!"P{k}"

def parseStarCall (t : String) : Option (Nat × List Nat) :=
  match t.splitOn ":" with
  | [a, b] => do
    let c ← a.toNat?
    let sh ← parseShape b
    pure (c, sh)
  | _ => none

def parseForkCall (t : String) : Option ForkCall :=
  match t.splitOn ":" with
  | [a, b] =>
    match parseShape b with
    | none => none
    | some sh =>
      if a = "m" then some (.main sh)
      else if a.startsWith "s" then (a.drop 1).toNat?.map fun i => .sub i sh
      else none
  | _ => none

def parseLegOpt (t : String) : Option (Option Nat) :=
  if t = "-" then some none else t.toNat?.map some

def parseStarCallL (t : String) : Option StarCallL :=
  match t.splitOn ":" with
  | [a, b] =>
    match a.splitOn "@" with
    | [ci, k] => do
      let c ← ci.toNat?
      let pl ← parseLegOpt k
      let sh ← parseShape b
      pure (c, sh, pl)
    | _ => none
  | _ => none

def parseForkCallL (t : String) : Option ForkCallL :=
  match t.splitOn ":" with
  | [a, b] =>
    match a.splitOn "@", parseShape b with
    | [w, k], some sh =>
      match parseLegOpt k with
      | none => none
      | some pl =>
        if w = "m" then some (.main sh pl)
        else if w.startsWith "s" then (w.drop 1).toNat?.map fun i => .sub i sh pl
        else none
    | _, _ => none
  | _ => none

def showAxis : Axis → String
  | .left => "L"
  | .right => "R"
  | .phys k => s!"P{k}"

def showCLeg (l : CLeg) : String := toString l.1 ++ showAxis l.2

def showCPairs (ps : List (CLeg × CLeg)) : String :=
  if ps.isEmpty then "-" else " ".intercalate (ps.map fun pr => showCLeg pr.1 ++ "~" ++ showCLeg pr.2)

def showMpsRec (n : Nat) : Option MPT → String
  | none => "none"
  | some st =>
    "nodes " ++ ";".intercalate (st.nodes.map fun x =>
        s!"{x.id}:" ++ ",".intercalate ((List.range x.legs.length).map fun k => showCLeg (x.lab n k))) ++
      " | rec " ++ showCPairs (stRecord n st) ++ " | chain " ++ showCPairs (chainRecord n)

def showGLeg {ι : Type} (f : ι → String) (l : GLeg ι) : String := f l.1 ++ "#" ++ toString l.2

def showGRec {ι : Type} [DecidableEq ι] (f : ι → String) : Option (List (GNode ι)) → String
  | none => "none"
  | some ns =>
    let ps := gRecord ns
    "nodes " ++ ";".intercalate (ns.map fun x =>
        f x.id ++ ":" ++ ",".intercalate ((List.range x.legs.length).map fun k => showGLeg f (x.lab k))) ++
      " | rec " ++ (if ps.isEmpty then "-" else
        " ".intercalate (ps.map fun pr => showGLeg f pr.1 ++ "~" ++ showGLeg f pr.2))

def parseStep (t : String) : Option (Bool × Bool) :=
  if t = "L" then some (true, false) else if t = "Lf" then some (true, true)
  else if t = "R" then some (false, false) else none

def handle (args : List String) : String :=
  match args with
  | "star" :: cs :: calls =>
    match parseShape cs, calls.mapM parseStarCall with
    | some cshape, some cl => showGNodes showStarId ((starRun cshape cl).map (·.nodes))
    | _, _ => "bad-op"
  | ["starconst", a, b, c] =>
    match a.toNat?, b.toNat?, c.toNat? with
    | some d, some l, some ch => showGNodes showStarId ((starConst d l ch).map (·.nodes))
    | _, _, _ => "bad-op"
  | "starrec" :: cs :: calls =>
    match parseShape cs, calls.mapM parseStarCallL with
    | some cshape, some cl => showGRec showStarId ((starRunL cshape cl).map (·.nodes))
    | _, _ => "bad-op"
  | "forkrec" :: calls =>
    match calls.mapM parseForkCallL with
    | some cl => showGRec showForkId ((forkRunL cl).map (·.nodes))
    | none => "bad-op"
  | ["starconstrec", a, b, c] =>
    match a.toNat?, b.toNat?, c.toNat? with
    | some d, some l, some ch => showGRec showStarId ((starConst d l ch).map (·.nodes))
    | _, _, _ => "bad-op"
  | ["forkconstrec", a, b, c, e] =>
    match a.toNat?, b.toNat?, c.toNat?, e.toNat? with
    | some d, some w, some h, some bd => showGRec showForkId ((ftps d w h bd).map (·.nodes))
    | _, _, _, _ => "bad-op"
  | "starl" :: cs :: calls =>
    match parseShape cs, calls.mapM parseStarCallL with
    | some cshape, some cl => showGNodes showStarId ((starRunL cshape cl).map (·.nodes))
    | _, _ => "bad-op"
  | "forkl" :: calls =>
    match calls.mapM parseForkCallL with
    | some cl => showGNodes showForkId ((forkRunL cl).map (·.nodes))
    | none => "bad-op"
  | "mpsdirect" :: a :: b :: rest =>
    match splitBar rest with
    | some (ps, steps) =>
      match a.toNat?, b.toNat?, parseNats ps, steps.mapM parseStep with
      | some n, some r, some pl, some sl =>
        if pl.length ≠ n then "bad-op" else showMPT (directRun n r (fun i => pl.getD i 0) sl)
      | _, _, _, _ => "bad-op"
    | none => "bad-op"
  | "fork" :: calls =>
    match calls.mapM parseForkCall with
    | some cl => showGNodes showForkId ((forkRun cl).map (·.nodes))
    | none => "bad-op"
  | ["forkconst", a, b, c, e] =>
    match a.toNat?, b.toNat?, c.toNat?, e.toNat? with
    | some d, some w, some h, some bd => showGNodes showForkId ((ftps d w h bd).map (·.nodes))
    | _, _, _, _ => "bad-op"
  | ["binary", a, b, c] =>
    match a.toNat?, b.toNat?, c.toNat? with
    | some n, some bd, some d => showGNodes showBinId (binGenerate n bd d)
    | _, _, _ => "bad-op"
  | ["grid", a, b] =>
    match a.toNat?, b.toNat? with
    | some rows, some cols =>
      ",".intercalate ((nnPairs rows cols).map fun pr => showCell pr.1 ++ "-" ++ showCell pr.2)
    | _, _ => "bad-op"
  | ["isinggrid", a, b] =>
    match a.toNat?, b.toNat? with
    | some rows, some cols => ";".intercalate ((isingGrid rows cols).map (showTerm showCell))
    | _, _ => "bad-op"
  | "mpsrec" :: a :: b :: ps =>
    match a.toNat?, b.toNat?, parseNats ps with
    | some n, some r, some pl =>
      if pl.length ≠ n then "bad-op" else showMpsRec n (fromTensorList n r (fun i => pl.getD i 0))
    | _, _, _ => "bad-op"
  | "mps" :: a :: b :: ps =>
    match a.toNat?, b.toNat?, parseNats ps with
    | some n, some r, some pl =>
      if pl.length ≠ n then "bad-op" else showMPT (fromTensorList n r (fun i => pl.getD i 0))
    | _, _, _ => "bad-op"
  | "leftmost" :: a :: ps =>
    match a.toNat?, parseNats ps with
    | some n, some pl =>
      if pl.length ≠ n then "bad-op" else showMPT (leftmost n (fun i => pl.getD i 0))
    | _, _ => "bad-op"
  | "ising" :: toks =>
    match parseTree toks with
    | some items => ";".intercalate ((isingTree (flatOf items)).map (showTerm toString))
    | none => "bad-op"
  | "qrshape" :: rest =>
    match splitBar rest with
    | some (toks, lds) =>
      match parseTree toks, parseNats lds with
      | some items, some ldl =>
        match parseLegDict items ldl, items with
        | some ld, (r, _) :: _ =>
          let half := items.length
          natList (qrShape (fun i => [ld i, half + ld i]) (treeOf items items.length r) [])
        | _, _ => "bad-op"
      | _, _ => "bad-op"
    | none => "bad-op"
  | "fromtensor" :: rest =>
    match splitBar rest with
    | some (toks, lds) =>
      match parseTree toks, parseNats lds with
      | some items, some ldl =>
        match parseLegDict items ldl, items with
        | some ld, (r, _) :: _ =>
          ";".intercalate ((fromTensor (treeOf items items.length r) ld).map showFNode)
        | _, _ => "bad-op"
      | _, _ => "bad-op"
    | none => "bad-op"
  | _ => "bad-op"

end Ptn.C19
