import Ptn.C19.Model
/-! Line-protocol handler for the C19 model (core Lean only). -/
namespace Ptn.C19
def handle (args : List String) : String := "bad-op"
end Ptn.C19
