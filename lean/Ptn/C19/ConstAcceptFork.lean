import Ptn.C19.ConstAccept
/-! Forward (acceptance) direction for the fork constructor and `constant_ftps` (helper lemmas for `ftps_structure`). -/
namespace Ptn.C19

section generic
variable {ι : Type} [DecidableEq ι]

theorem nvirt_snoc_old (r : ι) (rs : List Nat) (pre : List (AOp ι)) (o : AOp ι) (i : ι) (h : i ≠ o.cid) :
    (nodeG r rs (pre ++ [o]) i).nvirt = (nodeG r rs pre i).nvirt + (if o.pid = i then 1 else 0) := by
  unfold GNode.nvirt nodeG
  simp only
  unfold parentOf
  rw [find_cid_append pre o i h, childrenOf_snoc]
  by_cases h' : o.pid = i
  · simp [h']; omega
  · simp [h']

theorem shapeOf_snoc_old (r : ι) (rs : List Nat) (pre : List (AOp ι)) (o : AOp ι) (i : ι) (h : i ≠ o.cid) :
    shapeOf r rs (pre ++ [o]) i = shapeOf r rs pre i := by
  unfold shapeOf
  rw [find_cid_append pre o i h]

theorem nvirt_new (r : ι) (rs : List Nat) (pre : List (AOp ι)) (o : AOp ι) (hg : GoodLog r pre)
    (hc : o.cid ∉ idsG r pre) (hp : o.pid ∈ idsG r pre) :
    (nodeG r rs (pre ++ [o]) o.cid).nvirt = 1 := by
  have hc' : o.cid ∉ pre.map (·.cid) := fun e => hc (by simp [idsG, e])
  have h1 : parentOf (pre ++ [o]) o.cid = some o.pid := by
    unfold parentOf
    rw [find_cid_new pre o hc']
    rfl
  have h2 : childrenOf (pre ++ [o]) o.cid = [] := by
    rw [childrenOf_snoc, if_neg (fun (e : o.pid = o.cid) => hc (e ▸ hp)), List.append_nil]
    unfold childrenOf
    rw [List.map_eq_nil_iff, List.filter_eq_nil_iff]
    intro o' ho'
    simp only [decide_eq_true_eq]
    intro e
    have := hg.2 o' ho'
    rw [e] at this
    exact hc this
  simp [GNode.nvirt, nodeG, h1, h2]

theorem shapeOf_new (r : ι) (rs : List Nat) (pre : List (AOp ι)) (o : AOp ι) (hc : o.cid ∉ idsG r pre) :
    shapeOf r rs (pre ++ [o]) o.cid = o.shape := by
  have hc' : o.cid ∉ pre.map (·.cid) := fun e => hc (by simp [idsG, e])
  have hne : o.cid ≠ r := fun e => hc (by simp [idsG, e])
  unfold shapeOf
  rw [if_neg hne, find_cid_new pre o hc']
  rfl

end generic

/-! ### fork: which identifiers exist -/

theorem cntM_cons (x : ForkCall) (xs : List ForkCall) :
    cntM (x :: xs) = (if x.isMain then 1 else 0) + cntM xs := by
  unfold cntM
  rw [List.countP_cons]
  omega

theorem cntS_cons (x : ForkCall) (xs : List ForkCall) (i : Nat) :
    cntS (x :: xs) i = (if x.isSub i then 1 else 0) + cntS xs i := by
  unfold cntS
  rw [List.countP_cons]
  omega

theorem cntM_append (a b : List ForkCall) : cntM (a ++ b) = cntM a + cntM b := by
  unfold cntM; rw [List.countP_append]

theorem cntS_append (a b : List ForkCall) (i : Nat) : cntS (a ++ b) i = cntS a i + cntS b i := by
  unfold cntS; rw [List.countP_append]

theorem forkOpsAux_cids_main (p xs : List ForkCall) (k : Nat) :
    ForkId.main k ∈ (forkOpsAux p xs).map (·.cid) ↔ cntM p + 1 ≤ k ∧ k < cntM p + 1 + cntM xs := by
  induction xs generalizing p with
  | nil =>
    have : cntM [] = 0 := by simp [cntM]
    simp only [forkOpsAux, List.map_nil, List.not_mem_nil, this, false_iff]
    omega
  | cons x xs ih =>
    simp only [forkOpsAux, List.map_cons, List.mem_cons, ih]
    rw [cntM_snoc, cntM_cons]
    cases x with
    | main sh =>
      simp only [forkOp, ForkCall.isMain, if_true, ForkId.main.injEq]
      omega
    | sub i sh =>
      simp only [forkOp, ForkCall.isMain, Bool.false_eq_true, if_false, reduceCtorEq, false_or]
      omega

theorem forkOpsAux_cids_sub (p xs : List ForkCall) (i j : Nat) :
    ForkId.sub i j ∈ (forkOpsAux p xs).map (·.cid) ↔ cntS p i ≤ j ∧ j < cntS p i + cntS xs i := by
  induction xs generalizing p with
  | nil =>
    have : cntS [] i = 0 := by simp [cntS]
    simp only [forkOpsAux, List.map_nil, List.not_mem_nil, this, false_iff]
    omega
  | cons x xs ih =>
    simp only [forkOpsAux, List.map_cons, List.mem_cons, ih]
    rw [cntS_snoc, cntS_cons]
    cases x with
    | main sh =>
      simp only [forkOp, ForkCall.isSub, Bool.false_eq_true, if_false, reduceCtorEq, false_or]
      omega
    | sub i' sh =>
      by_cases h : i' = i
      · subst h
        simp only [forkOp, ForkCall.isSub, decide_true, if_true, ForkId.sub.injEq, true_and]
        omega
      · have h' : ¬ i = i' := fun e => h e.symm
        simp only [forkOp, ForkCall.isSub, h, decide_false, Bool.false_eq_true, if_false, ForkId.sub.injEq, h',
          false_and, false_or]
        omega

/-- `main k` exists after the root and the calls `done` iff `k ≤` number of main calls -/
theorem fork_main_mem_ids (done : List ForkCall) (k : Nat) :
    ForkId.main k ∈ idsG (ForkId.main 0) (forkOps done) ↔ k ≤ cntM done := by
  unfold idsG forkOps
  rw [List.mem_cons, forkOpsAux_cids_main]
  have : cntM [] = 0 := by simp [cntM]
  rw [this, ForkId.main.injEq]
  omega

/-- `sub i j` exists iff `j <` number of calls for sub-chain `i` -/
theorem fork_sub_mem_ids (done : List ForkCall) (i j : Nat) :
    ForkId.sub i j ∈ idsG (ForkId.main 0) (forkOps done) ↔ j < cntS done i := by
  unfold idsG forkOps
  rw [List.mem_cons, forkOpsAux_cids_sub]
  have : cntS [] i = 0 := by simp [cntS]
  rw [this]
  simp only [reduceCtorEq, false_or]
  omega

/-- **forward step**: a fork call is accepted in a state reached by the root and the calls `done` when
    * `add_main_chain_node`: the tensor has a leg 0 and the last main node `main (cntM done)` has an open leg, its first
      open leg having dimension `shape[0]`;
    * `add_sub_chain_node(i)`: `i` is an existing main index, the tensor has a leg 0 and the node the sub-chain
      continues from (`main i`, or the last node of sub-chain `i`) has an open leg, the first one of dimension `shape[0]`. -/
theorem fork_accept (rs : List Nat) (done : List ForkCall) (st : Fork) (call : ForkCall)
    (hinv : ForkInv rs done st)
    (hi : ∀ i sh, call = .sub i sh → i ≤ cntM done)
    (hsh : 0 < (forkOp done call).shape.length)
    (h2 : (nodeG (ForkId.main 0) rs (forkOps done) (forkOp done call).pid).nvirt <
      (shapeOf (ForkId.main 0) rs (forkOps done) (forkOp done call).pid).length)
    (h3 : (forkOp done call).shape[0]? = (shapeOf (ForkId.main 0) rs (forkOps done) (forkOp done call).pid)[
      (nodeG (ForkId.main 0) rs (forkOps done) (forkOp done call).pid).nvirt]?) :
    ∃ st', forkAdd st call = some st' := by
  obtain ⟨hn, hg, hl⟩ := hinv
  cases call with
  | main shape =>
    simp only [forkOp] at hsh h2 h3
    unfold forkAdd
    simp only
    have hm : ¬ st.subLens.length = 0 := by rw [hl.len]; omega
    rw [if_neg hm]
    have hm1 : st.subLens.length - 1 = cntM done := by rw [hl.len]; omega
    rw [hm1, hl.len, hn]
    obtain ⟨ns, hns⟩ := attach_accept (ForkId.main 0) rs (forkOps done) (ForkId.main (cntM done + 1))
      (ForkId.main (cntM done)) shape (by rw [fork_main_mem_ids]; omega) (by rw [fork_main_mem_ids]; omega) hsh h2 h3
    rw [hns]
    exact ⟨_, rfl⟩
  | sub i shape =>
    simp only [forkOp] at hsh h2 h3
    have hi' := hi i shape rfl
    unfold forkAdd
    simp only
    rw [if_neg (by rw [hl.len]; omega), hl.small i (by rw [hl.len]; omega)]
    simp only
    rw [hn]
    have hp : (if cntS done i = 0 then ForkId.main i else ForkId.sub i (cntS done i - 1)) ∈
        idsG (ForkId.main 0) (forkOps done) := by
      by_cases h0 : cntS done i = 0
      · rw [if_pos h0, fork_main_mem_ids]; exact hi'
      · rw [if_neg h0, fork_sub_mem_ids]; omega
    obtain ⟨ns, hns⟩ := attach_accept (ForkId.main 0) rs (forkOps done) (ForkId.sub i (cntS done i))
      (if cntS done i = 0 then ForkId.main i else ForkId.sub i (cntS done i - 1)) shape hp
      (by rw [fork_sub_mem_ids]; omega) hsh h2 h3
    rw [hns]
    exact ⟨_, rfl⟩

end Ptn.C19
