import Ptn.C19.ConstAcceptFtps
import Ptn.C19.Const
/-! `FtInv` is preserved by every call of `constant_ftps`; the whole call list is accepted (helper lemmas for
`ftps_structure`). -/
namespace Ptn.C19

theorem ft_pid_main (done : List ForkCall) (i : Nat) (sh : List Nat) (k : Nat) :
    (forkOp done (.sub i sh)).pid = ForkId.main k ↔ (cntS done i = 0 ∧ i = k) := by
  simp only [forkOp]
  by_cases h0 : cntS done i = 0
  · simp [h0]
  · simp [h0]

theorem ft_pid_sub (done : List ForkCall) (i : Nat) (sh : List Nat) (i' j : Nat) :
    (forkOp done (.sub i sh)).pid = ForkId.sub i' j ↔ (i = i' ∧ j + 1 = cntS done i) := by
  simp only [forkOp]
  by_cases h0 : cntS done i = 0
  · simp [h0]
  · simp [h0]; omega

/-- **one step**: a call of the kind `constant_ftps` makes is accepted and the invariant holds again -/
theorem ft_step (d w h bd : Nat) (done : List ForkCall) (st : Fork) (x : ForkCall)
    (hinv : FtInv d w h bd done st) (hx : FtOK d w h bd done x) :
    ∃ st', forkAdd st x = some st' ∧ FtInv d w h bd (done ++ [x]) st' := by
  obtain ⟨st', hst', hfi⟩ := ft_step_accept d w h bd done st x hinv hx
  refine ⟨st', hst', ?_⟩
  have hg : GoodLog (ForkId.main 0) (forkOps done) := hinv.inv.2.1
  have hbig := hinv.inv.2.2.big
  have hlen := hinv.inv.2.2.len
  cases x with
  | main sh =>
    obtain ⟨rfl, hlt⟩ := hx
    have hcM : cntM (done ++ [ForkCall.main (ftMainShape d h bd (cntM done + 1))]) = cntM done + 1 := by
      rw [cntM_snoc]; simp [ForkCall.isMain]
    have hcS : ∀ i, cntS (done ++ [ForkCall.main (ftMainShape d h bd (cntM done + 1))]) i = cntS done i := by
      intro i; rw [cntS_snoc]; simp [ForkCall.isSub]
    have hfresh : (forkOp done (ForkCall.main (ftMainShape d h bd (cntM done + 1)))).cid ∉
        idsG (ForkId.main 0) (forkOps done) := by
      show ForkId.main (cntM done + 1) ∉ _
      rw [fork_main_mem_ids]; omega
    have hpar : (forkOp done (ForkCall.main (ftMainShape d h bd (cntM done + 1)))).pid ∈
        idsG (ForkId.main 0) (forkOps done) := by
      show ForkId.main (cntM done) ∈ _
      rw [fork_main_mem_ids]; omega
    have hpid : (forkOp done (ForkCall.main (ftMainShape d h bd (cntM done + 1)))).pid = ForkId.main (cntM done) := rfl
    constructor
    · exact hfi
    · rw [hcM]; exact hlt
    · intro k hk
      rw [hcM] at hk ⊢
      rw [hcS, forkOps_snoc]
      by_cases hkn : k = cntM done + 1
      · subst hkn
        refine (nvirt_new (ForkId.main 0) _ _ _ hg hfresh hpar).trans ?_
        have := hbig (cntM done + 1) (by omega)
        rw [this]
        simp
      · refine (nvirt_snoc_old (ForkId.main 0) _ _ _ (ForkId.main k) (by
          show ForkId.main k ≠ ForkId.main (cntM done + 1)
          intro e; injection e with e; exact hkn e)).trans ?_
        rw [hinv.nvM k (by omega), hpid]
        simp only [ForkId.main.injEq]
        repeat' split
        all_goals omega
    · intro k hk
      rw [hcM] at hk
      rw [forkOps_snoc]
      by_cases hkn : k = cntM done + 1
      · subst hkn
        exact shapeOf_new (ForkId.main 0) _ _ _ hfresh
      · refine (shapeOf_snoc_old (ForkId.main 0) _ _ _ (ForkId.main k) (by
          show ForkId.main k ≠ ForkId.main (cntM done + 1)
          intro e; injection e with e; exact hkn e)).trans ?_
        exact hinv.shM k (by omega)
    · intro i j hj
      rw [hcS] at hj ⊢
      rw [forkOps_snoc]
      refine (nvirt_snoc_old (ForkId.main 0) _ _ _ (ForkId.sub i j) (by
        show ForkId.sub i j ≠ ForkId.main (cntM done + 1)
        intro e; cases e)).trans ?_
      rw [hinv.nvS i j hj, hpid]
      simp
    · intro i j hj
      rw [hcS] at hj
      rw [forkOps_snoc]
      refine (shapeOf_snoc_old (ForkId.main 0) _ _ _ (ForkId.sub i j) (by
        show ForkId.sub i j ≠ ForkId.main (cntM done + 1)
        intro e; cases e)).trans ?_
      exact hinv.shS i j hj
  | sub i sh =>
    obtain ⟨rfl, hi, hlt⟩ := hx
    have hcM : cntM (done ++ [ForkCall.sub i (ftSubShape d w bd (cntS done i))]) = cntM done := by
      rw [cntM_snoc]; simp [ForkCall.isMain]
    have hcS : ∀ i', cntS (done ++ [ForkCall.sub i (ftSubShape d w bd (cntS done i))]) i' =
        cntS done i' + (if i = i' then 1 else 0) := by
      intro i'; rw [cntS_snoc]
      by_cases e : i = i' <;> simp [ForkCall.isSub, e]
    have hfresh : (forkOp done (ForkCall.sub i (ftSubShape d w bd (cntS done i)))).cid ∉
        idsG (ForkId.main 0) (forkOps done) := by
      show ForkId.sub i (cntS done i) ∉ _
      rw [fork_sub_mem_ids]; omega
    have hpar : (forkOp done (ForkCall.sub i (ftSubShape d w bd (cntS done i)))).pid ∈
        idsG (ForkId.main 0) (forkOps done) := by
      show (if cntS done i = 0 then ForkId.main i else ForkId.sub i (cntS done i - 1)) ∈ _
      by_cases h0 : cntS done i = 0
      · rw [if_pos h0, fork_main_mem_ids]; exact hi
      · rw [if_neg h0, fork_sub_mem_ids]; omega
    constructor
    · exact hfi
    · rw [hcM]; exact hinv.hM
    · intro k hk
      rw [hcM] at hk ⊢
      rw [hcS, forkOps_snoc]
      refine (nvirt_snoc_old (ForkId.main 0) _ _ _ (ForkId.main k) (by
        show ForkId.main k ≠ ForkId.sub i (cntS done i)
        intro e; cases e)).trans ?_
      rw [hinv.nvM k hk]
      simp only [ft_pid_main]
      by_cases e : i = k
      · subst e
        simp only [and_true, if_true]
        repeat' split
        all_goals omega
      · simp [e]
    · intro k hk
      rw [hcM] at hk
      rw [forkOps_snoc]
      refine (shapeOf_snoc_old (ForkId.main 0) _ _ _ (ForkId.main k) (by
        show ForkId.main k ≠ ForkId.sub i (cntS done i)
        intro e; cases e)).trans ?_
      exact hinv.shM k hk
    · intro i' j hj
      rw [hcS] at hj ⊢
      rw [forkOps_snoc]
      by_cases hnew : i = i' ∧ j = cntS done i
      · obtain ⟨rfl, rfl⟩ := hnew
        refine (nvirt_new (ForkId.main 0) _ _ _ hg hfresh hpar).trans ?_
        simp
      · refine (nvirt_snoc_old (ForkId.main 0) _ _ _ (ForkId.sub i' j) (by
          show ForkId.sub i' j ≠ ForkId.sub i (cntS done i)
          intro e; injection e with e1 e2; exact hnew ⟨e1.symm, e2⟩)).trans ?_
        have hj' : j < cntS done i' := by
          by_cases e : i = i'
          · subst e; rw [if_pos rfl] at hj; omega
          · rw [if_neg e] at hj; omega
        rw [hinv.nvS i' j hj']
        simp only [ft_pid_sub]
        by_cases e : i = i'
        · subst e
          simp only [true_and, if_true]
          repeat' split
          all_goals omega
        · simp [e]
    · intro i' j hj
      rw [hcS] at hj
      rw [forkOps_snoc]
      by_cases hnew : i = i' ∧ j = cntS done i
      · obtain ⟨rfl, rfl⟩ := hnew
        exact shapeOf_new (ForkId.main 0) _ _ _ hfresh
      · refine (shapeOf_snoc_old (ForkId.main 0) _ _ _ (ForkId.sub i' j) (by
          show ForkId.sub i' j ≠ ForkId.sub i (cntS done i)
          intro e; injection e with e1 e2; exact hnew ⟨e1.symm, e2⟩)).trans ?_
        have hj' : j < cntS done i' := by
          by_cases e : i = i'
          · subst e; rw [if_pos rfl] at hj; omega
          · rw [if_neg e] at hj; omega
        exact hinv.shS i' j hj'

/-! ### a list of calls -/

/-- every call of `xs` is of the kind `constant_ftps` makes after `done` and the calls before it -/
def FtCompat (d w h bd : Nat) (done : List ForkCall) : List ForkCall → Prop
  | [] => True
  | x :: xs => FtOK d w h bd done x ∧ FtCompat d w h bd (done ++ [x]) xs

theorem ftCompat_append (d w h bd : Nat) (a b : List ForkCall) (done : List ForkCall) :
    FtCompat d w h bd done (a ++ b) ↔ FtCompat d w h bd done a ∧ FtCompat d w h bd (done ++ a) b := by
  induction a generalizing done with
  | nil => simp [FtCompat]
  | cons x a ih =>
    simp only [List.cons_append, FtCompat, ih, and_assoc, List.append_assoc, List.nil_append]

theorem ft_run (d w h bd : Nat) (xs done : List ForkCall) (st : Fork)
    (hinv : FtInv d w h bd done st) (hc : FtCompat d w h bd done xs) :
    ∃ st', forkRunFrom st xs = some st' ∧ FtInv d w h bd (done ++ xs) st' := by
  induction xs generalizing done st with
  | nil => exact ⟨st, rfl, by simpa using hinv⟩
  | cons x xs ih =>
    obtain ⟨hx, hrest⟩ := hc
    obtain ⟨st1, hs, hinv1⟩ := ft_step d w h bd done st x hinv hx
    obtain ⟨st', hrun, hinv'⟩ := ih (done ++ [x]) st1 hinv1 hrest
    refine ⟨st', ?_, by simpa [List.append_assoc] using hinv'⟩
    unfold forkRunFrom at hrun ⊢
    simp only [List.foldl_cons, Option.bind_some]
    rw [hs]
    exact hrun

/-! ### the calls of `constant_ftps` -/

theorem ft_compat_mains (d w h bd : Nat) : ∀ (n c : Nat) (done : List ForkCall), cntM done = c → c + n < h →
    FtCompat d w h bd done ((List.range n).map fun t => ForkCall.main (ftMainShape d h bd (c + 1 + t))) := by
  intro n
  induction n with
  | zero => intro c done _ _; simp [FtCompat]
  | succ n ih =>
    intro c done hc hlt
    rw [List.range_succ_eq_map]
    simp only [List.map_cons, List.map_map, FtCompat]
    refine ⟨⟨by subst hc; rfl, by omega⟩, ?_⟩
    have := ih (c + 1) (done ++ [ForkCall.main (ftMainShape d h bd (c + 1 + 0))])
      (by rw [cntM_snoc, hc]; simp [ForkCall.isMain]) (by omega)
    have el : List.map ((fun t => ForkCall.main (ftMainShape d h bd (c + 1 + t))) ∘ Nat.succ) (List.range n) =
        List.map (fun t => ForkCall.main (ftMainShape d h bd (c + 1 + 1 + t))) (List.range n) := by
      apply List.map_congr_left
      intro t _
      show ForkCall.main (ftMainShape d h bd (c + 1 + (t + 1))) = _
      rw [show c + 1 + (t + 1) = c + 1 + 1 + t by omega]
    rw [el]
    exact this

theorem ft_compat_row (d w h bd i : Nat) : ∀ (m c : Nat) (done : List ForkCall), cntS done i = c → i ≤ cntM done →
    c + m < w →
    FtCompat d w h bd done ((List.range m).map fun t => ForkCall.sub i (ftSubShape d w bd (c + t))) := by
  intro m
  induction m with
  | zero => intro c done _ _ _; simp [FtCompat]
  | succ m ih =>
    intro c done hc hi hlt
    rw [List.range_succ_eq_map]
    simp only [List.map_cons, List.map_map, FtCompat]
    refine ⟨⟨by subst hc; rfl, hi, by omega⟩, ?_⟩
    have := ih (c + 1) (done ++ [ForkCall.sub i (ftSubShape d w bd (c + 0))])
      (by rw [cntS_snoc, hc]; simp [ForkCall.isSub])
      (by rw [cntM_snoc]; simp [ForkCall.isMain]; exact hi) (by omega)
    have el : List.map ((fun t => ForkCall.sub i (ftSubShape d w bd (c + t))) ∘ Nat.succ) (List.range m) =
        List.map (fun t => ForkCall.sub i (ftSubShape d w bd (c + 1 + t))) (List.range m) := by
      apply List.map_congr_left
      intro t _
      show ForkCall.sub i (ftSubShape d w bd (c + (t + 1))) = _
      rw [show c + (t + 1) = c + 1 + t by omega]
    rw [el]
    exact this

theorem ftpsSubs_succ (d w bd n : Nat) :
    ftpsSubs d w bd (n + 1) = ftpsSubs d w bd n ++
      (List.range (w - 1)).map fun t => ForkCall.sub n (ftSubShape d w bd (0 + t)) := by
  unfold ftpsSubs
  rw [List.range_succ, List.flatMap_append]
  simp only [List.flatMap_cons, List.flatMap_nil, List.append_nil, Nat.zero_add]
  rfl

theorem ft_compat_subs (d w h bd : Nat) (done : List ForkCall) (hS0 : ∀ i, cntS done i = 0) (hw : 0 < w) :
    ∀ n, n ≤ cntM done + 1 → FtCompat d w h bd done (ftpsSubs d w bd n) := by
  intro n
  induction n with
  | zero => intro _; simp [ftpsSubs, FtCompat]
  | succ n ih =>
    intro hn
    rw [ftpsSubs_succ, ftCompat_append]
    refine ⟨ih (by omega), ?_⟩
    apply ft_compat_row
    · rw [cntS_append, hS0, cntS_subs, if_neg (Nat.lt_irrefl n)]
    · rw [cntM_append, cntM_subs]; omega
    · omega

theorem ftpsMains_succ (d h bd : Nat) :
    ftpsMains d (h + 1) bd = ForkCall.main [bd, bd, d] ::
      (List.range h).map fun t => ForkCall.main (ftMainShape d (h + 1) bd (0 + 1 + t)) := by
  unfold ftpsMains
  rw [List.range_succ_eq_map]
  simp only [List.map_cons, List.map_map]
  congr 1
  apply List.map_congr_left
  intro t _
  simp [ftMainShape, Nat.add_comm 1 t]

/-- the invariant holds after the root call -/
theorem ft_root (d w h bd : Nat) (hh : 0 < h) :
    FtInv d w h bd [] ⟨[rootNode (ForkId.main 0) [bd, bd, d]], [0]⟩ := by
  have c0 : cntM [] = 0 := by simp [cntM]
  have s0 : ∀ i, cntS [] i = 0 := by intro i; simp [cntS]
  constructor
  · refine ⟨?_, ?_, ?_⟩
    · simp [forkOps, forkOpsAux, closedG_nil]
    · simp [forkOps, forkOpsAux, goodLog_nil]
    · constructor
      · simp [cntM]
      · intro i hi
        have : i = 0 := by simpa using hi
        subst this
        simp [cntS]
      · intro i _; simp [cntS]
  · rw [c0]; exact hh
  · intro k hk
    rw [c0] at hk
    have : k = 0 := by omega
    subst this
    simp [forkOps, forkOpsAux, GNode.nvirt, nodeG, parentOf, childrenOf, cntM, cntS]
  · intro k hk
    rw [c0] at hk
    have : k = 0 := by omega
    subst this
    simp [shapeOf, ftMainShape]
  · intro i j hj; rw [s0] at hj; omega
  · intro i j hj; rw [s0] at hj; omega

/-- **`constant_ftps` completes** on the accepted range -/
theorem ftps_isSome (d w h bd : Nat) (hw : 0 < w) (hh : 0 < h) (hbd : 0 < bd) :
    ∃ st, ftps d w h bd = some st := by
  unfold ftps
  rw [if_neg (by omega)]
  obtain ⟨h', rfl⟩ : ∃ h', h = h' + 1 := ⟨h - 1, by omega⟩
  rw [ftpsCalls_eq, ftpsMains_succ]
  have hroot : forkAdd forkInit (ForkCall.main [bd, bd, d]) =
      some ⟨[rootNode (ForkId.main 0) [bd, bd, d]], [0]⟩ := by
    simp [forkAdd, forkInit]
  have hmains : ∀ x ∈ (List.range h').map (fun t => ForkCall.main (ftMainShape d (h' + 1) bd (0 + 1 + t))),
      x.isMain = true := by
    intro x hx
    simp only [List.mem_map] at hx
    obtain ⟨i, _, rfl⟩ := hx
    rfl
  have hcomp : FtCompat d w (h' + 1) bd []
      ((List.range h').map (fun t => ForkCall.main (ftMainShape d (h' + 1) bd (0 + 1 + t))) ++
        ftpsSubs d w bd (h' + 1)) := by
    rw [ftCompat_append]
    refine ⟨ft_compat_mains d w (h' + 1) bd h' 0 [] (by simp [cntM]) (by omega), ?_⟩
    apply ft_compat_subs d w (h' + 1) bd _ _ hw
    · rw [List.nil_append, cntM_mains _ hmains]; simp
    · intro i; rw [List.nil_append]; exact cntS_mains _ hmains i
  obtain ⟨st, hrun, _⟩ := ft_run d w (h' + 1) bd _ [] _ (ft_root d w (h' + 1) bd (by omega)) hcomp
  refine ⟨st, ?_⟩
  unfold forkRun forkRunFrom
  simp only [List.cons_append, List.foldl_cons, Option.bind_some]
  rw [hroot]
  exact hrun

end Ptn.C19
