import Ptn.C19.Spec
/-! Helper lemmas for C19. -/
namespace Ptn.C19

/-! ### Grid -/

theorem mem_cellPairs (rows cols i j : Nat) (a b : Cell) :
    (a, b) ∈ cellPairs rows cols i j ↔
      a = (i, j) ∧ ((i + 1 < rows ∧ b = (i + 1, j)) ∨ (j + 1 < cols ∧ b = (i, j + 1))) := by
  unfold cellPairs
  by_cases h1 : i < rows - 1 <;> by_cases h2 : j < cols - 1 <;> simp [h1, h2] <;> grind

theorem mem_nnPairs (rows cols : Nat) (a b : Cell) :
    (a, b) ∈ nnPairs rows cols ↔
      InGrid rows cols a ∧ InGrid rows cols b ∧ (b = (a.1 + 1, a.2) ∨ b = (a.1, a.2 + 1)) := by
  unfold nnPairs InGrid
  simp only [List.mem_flatMap, List.mem_range, mem_cellPairs]
  constructor
  · rintro ⟨i, hi, j, hj, rfl, h⟩
    rcases h with ⟨h, rfl⟩ | ⟨h, rfl⟩ <;> simp <;> omega
  · rintro ⟨ha, hb, h⟩
    refine ⟨a.1, ha.1, a.2, ha.2, rfl, ?_⟩
    rcases h with rfl | rfl
    · left; exact ⟨hb.1, rfl⟩
    · right; exact ⟨hb.2, rfl⟩

theorem nodup_cellPairs (rows cols i j : Nat) : (cellPairs rows cols i j).Nodup := by
  unfold cellPairs
  by_cases h1 : i < rows - 1 <;> by_cases h2 : j < cols - 1 <;> simp [h1, h2]

theorem fst_of_mem_cellPairs {rows cols i j : Nat} {x : Cell × Cell}
    (h : x ∈ cellPairs rows cols i j) : x.1 = (i, j) := by
  obtain ⟨a, b⟩ := x
  exact ((mem_cellPairs rows cols i j a b).1 h).1

theorem nodup_nnPairs (rows cols : Nat) : (nnPairs rows cols).Nodup := by
  unfold nnPairs
  rw [List.Nodup, List.pairwise_flatMap]
  constructor
  · intro i _
    rw [List.pairwise_flatMap]
    constructor
    · intro j _; exact nodup_cellPairs rows cols i j
    · refine List.Pairwise.imp ?_ (List.pairwise_lt_range (n := cols))
      intro j j' hlt x hx y hy hxy
      have h1 := fst_of_mem_cellPairs hx
      have h2 := fst_of_mem_cellPairs hy
      rw [hxy, h2] at h1
      simp at h1; omega
  · refine List.Pairwise.imp ?_ (List.pairwise_lt_range (n := rows))
    intro i i' hlt x hx y hy hxy
    simp only [List.mem_flatMap, List.mem_range] at hx hy
    obtain ⟨j, _, hx⟩ := hx
    obtain ⟨j', _, hy⟩ := hy
    have h1 := fst_of_mem_cellPairs hx
    have h2 := fst_of_mem_cellPairs hy
    rw [hxy, h2] at h1
    simp at h1; omega

end Ptn.C19

namespace Ptn.C19

/-! ### Ising term lists -/

theorem nearestNeighbours_append {α : Type} (l₁ l₂ : List (α × List α)) :
    nearestNeighbours (l₁ ++ l₂) = nearestNeighbours l₁ ++ nearestNeighbours l₂ := by
  simp [nearestNeighbours]

mutual
theorem flat_ids (t : RTree) : t.flat.map (·.1) = t.ids := by
  cases t with
  | node i ks => simp [RTree.flat, RTree.ids, flatL_ids ks]
theorem flatL_ids (ks : List RTree) : (RTree.flatL ks).map (·.1) = RTree.idsL ks := by
  cases ks with
  | nil => simp [RTree.flatL, RTree.idsL]
  | cons k ks => simp [RTree.flatL, RTree.idsL, flat_ids k, flatL_ids ks]
end

mutual
theorem flat_edges (t : RTree) : nearestNeighbours t.flat = t.edges := by
  cases t with
  | node i ks =>
    have := flatL_edges ks
    simp [RTree.flat, RTree.edges, nearestNeighbours] at this ⊢
    simp [this, Function.comp_def]
theorem flatL_edges (ks : List RTree) : nearestNeighbours (RTree.flatL ks) = RTree.edgesL ks := by
  cases ks with
  | nil => simp [RTree.flatL, RTree.edgesL, nearestNeighbours]
  | cons k ks =>
    simp [RTree.flatL, RTree.edgesL, nearestNeighbours_append, flat_edges k, flatL_edges ks]
end

theorem isingTree_eq {α : Type} (flat : List (α × List α)) :
    isingTree flat = (flat.map (·.1)).map fieldTerm ++ (nearestNeighbours flat).map couplingTerm := by
  unfold isingTree singleSiteTerms nnTerms hamFactor
  have h : ¬ ((-1 : Int) = 0) := by decide
  simp only [h, if_false]
  rfl

end Ptn.C19

namespace Ptn.C19

theorem mem_dedup {α : Type} [DecidableEq α] (a : α) (l : List α) : a ∈ dedup l ↔ a ∈ l := by
  induction l with
  | nil => simp [dedup]
  | cons b l ih =>
    unfold dedup
    by_cases h : b ∈ dedup l
    · simp only [h, if_true, List.mem_cons, ih]
      constructor
      · intro h'; exact Or.inr h'
      · rintro (rfl | h')
        · exact ih.1 h
        · exact h'
    · simp only [h, if_false, List.mem_cons, ih]

theorem nodup_dedup {α : Type} [DecidableEq α] (l : List α) : (dedup l).Nodup := by
  induction l with
  | nil => simp [dedup]
  | cons b l ih =>
    unfold dedup
    by_cases h : b ∈ dedup l
    · simpa [h] using ih
    · rw [if_neg h, List.nodup_cons]
      exact ⟨h, ih⟩

theorem isingPairs_eq {α : Type} [DecidableEq α] (pairs : List (α × α)) :
    isingPairs pairs =
      (dedup (pairs.flatMap fun pr => [pr.1, pr.2])).map fieldTerm ++ pairs.map couplingTerm := by
  unfold isingPairs singleSiteTerms nnTerms hamFactor
  have h : ¬ ((-1 : Int) = 0) := by decide
  simp only [h, if_false]
  rfl

theorem isingPairsSites_eq {α : Type} (sites : List α) (pairs : List (α × α)) :
    isingPairsSites sites pairs = sites.map fieldTerm ++ pairs.map couplingTerm := by
  unfold isingPairsSites singleSiteTerms nnTerms hamFactor
  have h : ¬ ((-1 : Int) = 0) := by decide
  simp only [h, if_false]
  rfl

theorem mem_gridCells (rows cols : Nat) (c : Cell) : c ∈ gridCells rows cols ↔ InGrid rows cols c := by
  obtain ⟨a, b⟩ := c
  simp only [gridCells, List.mem_flatMap, List.mem_range, List.mem_map, Prod.mk.injEq, InGrid]
  constructor
  · rintro ⟨i, hi, j, hj, rfl, rfl⟩; exact ⟨hi, hj⟩
  · rintro ⟨hi, hj⟩; exact ⟨a, hi, b, hj, rfl, rfl⟩

theorem gridCells_succ (rows cols : Nat) :
    gridCells (rows + 1) cols = gridCells rows cols ++ (List.range cols).map fun j => (rows, j) := by
  simp [gridCells, List.range_succ, List.flatMap_append]

theorem gridCells_nodup (rows cols : Nat) : (gridCells rows cols).Nodup := by
  induction rows with
  | zero => simp [gridCells]
  | succ r ih =>
    rw [gridCells_succ, List.nodup_append]
    refine ⟨ih, ?_, ?_⟩
    · rw [List.Nodup, List.pairwise_map]
      exact List.Pairwise.imp (fun hab h => hab (by simpa using h)) (List.nodup_range (n := cols))
    · intro x hx y hy hxy
      subst hxy
      have h1 := (mem_gridCells r cols x).1 hx
      simp only [List.mem_map, List.mem_range] at hy
      obtain ⟨b, _, rfl⟩ := hy
      exact Nat.lt_irrefl _ h1.1

/-- every cell of a grid with at least two cells occurs in some neighbour pair -/
theorem cell_in_some_pair (rows cols : Nat) (h : 2 ≤ rows * cols) (c : Cell)
    (hc : InGrid rows cols c) :
    ∃ pr ∈ nnPairs rows cols, c = pr.1 ∨ c = pr.2 := by
  obtain ⟨i, j⟩ := c
  simp only [InGrid] at hc
  by_cases h1 : i + 1 < rows
  · exact ⟨((i, j), (i + 1, j)), (mem_nnPairs _ _ _ _).2 ⟨hc, ⟨h1, hc.2⟩, Or.inl rfl⟩, Or.inl rfl⟩
  by_cases h2 : j + 1 < cols
  · exact ⟨((i, j), (i, j + 1)), (mem_nnPairs _ _ _ _).2 ⟨hc, ⟨hc.1, h2⟩, Or.inr rfl⟩, Or.inl rfl⟩
  by_cases h3 : 0 < i
  · refine ⟨((i - 1, j), (i, j)), (mem_nnPairs _ _ _ _).2 ⟨⟨by simp; omega, hc.2⟩, hc, Or.inl ?_⟩, Or.inr rfl⟩
    simp; omega
  by_cases h4 : 0 < j
  · refine ⟨((i, j - 1), (i, j)), (mem_nnPairs _ _ _ _).2 ⟨⟨hc.1, by simp; omega⟩, hc, Or.inr ?_⟩, Or.inr rfl⟩
    simp; omega
  exfalso
  have hr : rows = 1 := by omega
  have hcc : cols = 1 := by omega
  subst hr; subst hcc
  omega

end Ptn.C19
