import Ptn.C19.StarFork
/-! The optional argument `parent_leg` of `add_chain_node` / `add_main_chain_node` / `add_sub_chain_node`
(helper lemmas for `star_parent_leg_*`, `fork_parent_leg_*`):

* `popInsert_eq`      what `open_leg_to_child` does to the parent's leg order when the chosen leg is open;
* `gAddChild_spec`    one accepted `add_child_to_parent(child, tensor, 0, parent, k)`;
* `GNode.flat`, `*_flat`  forgetting dimensions and leg order: a run with arbitrary explicit legs is simulated by
                      the run with default legs on tensors whose dimensions are all `1`, with the same
                      identifiers, parents and children — so `star_structure` / `fork_structure` carry over. -/
namespace Ptn.C19

/-! ### the leg move -/

/-- `value = perm.pop(k); perm.insert(nv, value)` for an open leg `k` (`nv ≤ k`): the first `nv` legs
    (parent, children so far) stay, the chosen leg becomes the newest child leg, the remaining open legs keep
    their order. -/
theorem popInsert_eq : ∀ (nv : Nat) (l : List Nat) (k : Nat) (hk : k < l.length), nv ≤ k →
    popInsert l k nv = l.take nv ++ l[k] :: (l.drop nv).eraseIdx (k - nv)
  | 0, l, k, hk, _ => by
    unfold popInsert
    rw [List.getElem?_eq_getElem hk]
    simp
  | nv + 1, [], k, hk, _ => by simp at hk
  | nv + 1, a :: t, 0, _, h => by omega
  | nv + 1, a :: t, k + 1, hk, h => by
    have hk' : k < t.length := by simpa using hk
    have ih := popInsert_eq nv t k hk' (by omega)
    unfold popInsert at ih ⊢
    rw [List.getElem?_eq_getElem hk'] at ih
    rw [List.getElem?_eq_getElem hk]
    simp only [List.getElem_cons_succ, List.eraseIdx_cons_succ, List.insertIdx_succ_cons, List.take_succ_cons,
      List.drop_succ_cons, List.cons_append, Nat.add_sub_add_right] at ih ⊢
    rw [ih]

theorem popInsert_length (l : List Nat) (k nv : Nat) (hk : k < l.length) (h : nv ≤ k) :
    (popInsert l k nv).length = l.length := by
  rw [popInsert_eq nv l k hk h]
  simp only [List.length_append, List.length_take, List.length_cons, List.length_eraseIdx, List.length_drop]
  have : k - nv < l.length - nv := by omega
  rw [if_pos this]
  omega

theorem popInsert_zero_zero (n : Nat) : popInsert (List.range n) 0 0 = List.range n := by
  cases n with
  | zero => rfl
  | succ n => exact popInsert_self _ 0 (by simp)

/-! ### one attachment -/

variable {ι : Type} [DecidableEq ι]

theorem gFind_some {nodes : List (GNode ι)} {i : ι} {p : GNode ι} (h : gFind nodes i = some p) :
    p ∈ nodes ∧ p.id = i := by
  unfold gFind at h
  exact ⟨List.mem_of_find?_eq_some h, by simpa using List.find?_some h⟩

theorem gFind_none {nodes : List (GNode ι)} {i : ι} (h : gFind nodes i = none) :
    i ∉ nodes.map (·.id) := by
  unfold gFind at h
  rw [List.find?_eq_none] at h
  intro hm
  obtain ⟨x, hx, e⟩ := List.mem_map.1 hm
  exact h x hx (by simpa using e)

omit [DecidableEq ι] in
theorem eq_of_nodup_ids : ∀ (nodes : List (GNode ι)), (nodes.map (·.id)).Nodup →
    ∀ x y, x ∈ nodes → y ∈ nodes → x.id = y.id → x = y
  | [], _, _, _, hx, _, _ => by simp at hx
  | a :: t, hnd, x, y, hx, hy, e => by
    rw [List.map_cons, List.nodup_cons] at hnd
    rcases List.mem_cons.1 hx with rfl | hx' <;> rcases List.mem_cons.1 hy with rfl | hy'
    · rfl
    · exact absurd (List.mem_map.2 ⟨y, hy', e.symm⟩) hnd.1
    · exact absurd (List.mem_map.2 ⟨x, hx', e⟩) hnd.1
    · exact eq_of_nodup_ids t hnd.2 x y hx' hy' e

/-- One accepted `add_child_to_parent(Node(cid), tensor of shape `shape`, 0, pid, k)`: the parent `p` exists,
    `cid` is new, `k` is one of `p`'s open legs and has the dimension of the new tensor's leg 0; afterwards
    every node with identifier `pid` has the child `cid` appended and the leg `k` moved to the position behind
    its neighbours so far, every other node is untouched, and the new node (legs in the order of its array,
    leg 0 towards the parent) is appended. -/
theorem gAddChild_spec (nodes : List (GNode ι)) (cid : ι) (shape : List Nat) (pid : ι) (k : Nat)
    (ns : List (GNode ι)) (h : gAddChild nodes cid shape 0 pid k = some ns) :
    ∃ p, gFind nodes pid = some p ∧ gFind nodes cid = none ∧ 0 < shape.length ∧
      p.nvirt ≤ k ∧ k < p.legs.length ∧ shape[0]? = p.shapeAt k ∧
      ns = (nodes.map fun x => if x.id = pid then x.toChild cid k else x) ++
        [⟨cid, some pid, [], List.range shape.length, shape⟩] := by
  unfold gAddChild at h
  cases hp : gFind nodes pid with
  | none => rw [hp] at h; cases h
  | some p =>
    rw [hp] at h
    simp only at h
    cases hc : gFind nodes cid with
    | some c => rw [hc] at h; simp at h
    | none =>
      rw [hc] at h
      simp only [Option.isSome_none, Bool.false_eq_true, if_false] at h
      by_cases h1 : shape.length ≤ 0
      · rw [if_pos h1] at h; cases h
      rw [if_neg h1] at h
      by_cases h2 : k < p.nvirt ∨ p.legs.length ≤ k
      · rw [if_pos h2] at h; cases h
      rw [if_neg h2] at h
      by_cases h3 : shape[0]? ≠ p.shapeAt k
      · rw [if_pos h3] at h; cases h
      rw [if_neg h3] at h
      injection h with h
      refine ⟨p, rfl, rfl, by omega, by omega, by omega, by simpa using h3, ?_⟩
      rw [← h, popInsert_zero_zero]

theorem gAddChild_ids (nodes : List (GNode ι)) (cid : ι) (shape : List Nat) (pid : ι) (k : Nat)
    (ns : List (GNode ι)) (h : gAddChild nodes cid shape 0 pid k = some ns)
    (hnd : (nodes.map (·.id)).Nodup) :
    ns.map (·.id) = nodes.map (·.id) ++ [cid] ∧ (ns.map (·.id)).Nodup := by
  obtain ⟨p, _, hc, _, _, _, _, rfl⟩ := gAddChild_spec nodes cid shape pid k ns h
  have e : ((nodes.map fun x => if x.id = pid then x.toChild cid k else x) ++
      [(⟨cid, some pid, [], List.range shape.length, shape⟩ : GNode ι)]).map (·.id) =
      nodes.map (·.id) ++ [cid] := by
    rw [List.map_append, List.map_map]
    congr 1
    apply List.map_congr_left
    intro x _
    simp only [Function.comp]
    split <;> rfl
  refine ⟨e, ?_⟩
  rw [e, List.nodup_append]
  refine ⟨hnd, by simp, ?_⟩
  intro a ha b hb
  simp only [List.mem_cons, List.not_mem_nil, or_false] at hb
  subst hb
  exact fun e' => gFind_none hc (e' ▸ ha)

/-! ### forgetting dimensions and leg order -/

/-- the node with the same identifier, parent and children, legs in the default order and all dimensions `1` -/
def GNode.flat (x : GNode ι) : GNode ι :=
  ⟨x.id, x.parent, x.children, List.range x.legs.length, List.replicate x.legs.length 1⟩

/-- the shape with the same number of legs and all dimensions `1` -/
def ones (s : List Nat) : List Nat := List.replicate s.length 1

omit [DecidableEq ι] in
theorem flat_nvirt (x : GNode ι) : x.flat.nvirt = x.nvirt := rfl

theorem gFind_map_flat (nodes : List (GNode ι)) (i : ι) :
    gFind (nodes.map GNode.flat) i = (gFind nodes i).map GNode.flat := by
  unfold gFind
  induction nodes with
  | nil => rfl
  | cons a t ih =>
    simp only [List.map_cons, List.find?_cons]
    have : a.flat.id = a.id := rfl
    rw [this]
    by_cases h : a.id = i
    · simp [h]
    · simp only [h, decide_false]
      exact ih

omit [DecidableEq ι] in
theorem map_flat_ids (nodes : List (GNode ι)) : (nodes.map GNode.flat).map (·.id) = nodes.map (·.id) := by
  rw [List.map_map]; rfl

omit [DecidableEq ι] in
theorem flat_shapeAt (p : GNode ι) (k : Nat) (hk : k < p.legs.length) : p.flat.shapeAt k = some 1 := by
  unfold GNode.shapeAt GNode.flat
  simp [hk]

/-- an attachment at ANY open leg `k` of the parent is simulated, on the flattened network, by the attachment
    at the parent's first open leg -/
theorem gAddChild_flat (nodes : List (GNode ι)) (cid : ι) (shape : List Nat) (pid : ι) (k : Nat)
    (ns : List (GNode ι)) (p : GNode ι) (hnd : (nodes.map (·.id)).Nodup) (hp : gFind nodes pid = some p)
    (h : gAddChild nodes cid shape 0 pid k = some ns) :
    gAddChild (nodes.map GNode.flat) cid (ones shape) 0 pid p.nvirt = some (ns.map GNode.flat) := by
  obtain ⟨p', hp', hc, hs, hk1, hk2, _, rfl⟩ := gAddChild_spec nodes cid shape pid k ns h
  rw [hp] at hp'
  injection hp' with hp'
  subst hp'
  have hlen : (ones shape).length = shape.length := by simp [ones]
  unfold gAddChild
  rw [gFind_map_flat, hp, gFind_map_flat, hc]
  simp only [Option.map_some, Option.map_none, Option.isSome_none, Bool.false_eq_true, if_false]
  rw [if_neg (by omega)]
  have hfl : p.flat.legs.length = p.legs.length := by simp [GNode.flat]
  rw [flat_nvirt, if_neg (by omega)]
  have hd : (ones shape)[0]? = p.flat.shapeAt p.nvirt := by
    rw [flat_shapeAt p p.nvirt (by omega)]
    simp [ones, hs]
  rw [if_neg (by simpa using hd)]
  congr 1
  rw [List.map_append, List.map_map, List.map_map]
  congr 1
  · apply List.map_congr_left
    intro x hx
    simp only [Function.comp]
    have hid : x.flat.id = x.id := rfl
    rw [hid]
    by_cases hx' : x.id = pid
    · have : x = p := eq_of_nodup_ids nodes hnd x p hx (gFind_some hp).1 (hx'.trans (gFind_some hp).2.symm)
      subst this
      simp only [hx', if_true]
      unfold GNode.toChild
      simp only [GNode.flat, GNode.mk.injEq, true_and]
      have e1 : popInsert (List.range x.legs.length) x.nvirt x.nvirt = List.range x.legs.length :=
        popInsert_self _ _ (by simp; omega)
      have e2 : (popInsert x.legs k x.nvirt).length = x.legs.length := popInsert_length _ _ _ hk2 hk1
      have e0 : (⟨x.id, x.parent, x.children, List.range x.legs.length,
          List.replicate x.legs.length 1⟩ : GNode ι).nvirt = x.nvirt := rfl
      rw [e0, e1, e2]
      exact ⟨rfl, rfl⟩
    · simp only [hx', if_false]
  · simp only [List.map_cons, List.map_nil, GNode.flat, popInsert_zero_zero, List.length_range, ones]
    simp

/-! ### star -/

def Star.flat (st : Star) : Star := ⟨st.nodes.map GNode.flat, st.lens⟩

theorem attachAt_none (nodes : List (GNode ι)) (cid : ι) (shape : List Nat) (pid : ι) :
    attachAt nodes cid shape pid none = attachFirstOpen nodes cid shape pid := by
  unfold attachAt attachFirstOpen
  cases gFind nodes pid <;> rfl

/-- `parent_leg=None` is the call without the argument -/
theorem starAddL_none (st : Star) (c : Nat) (shape : List Nat) :
    starAddL st c shape none = starAdd st c shape := by
  unfold starAddL starAdd
  simp only [attachAt_none]

theorem attachAt_flat (nodes : List (GNode ι)) (cid : ι) (shape : List Nat) (pid : ι) (pl : Option Nat)
    (ns : List (GNode ι)) (hnd : (nodes.map (·.id)).Nodup) (h : attachAt nodes cid shape pid pl = some ns) :
    attachFirstOpen (nodes.map GNode.flat) cid (ones shape) pid = some (ns.map GNode.flat) ∧
    (ns.map (·.id)).Nodup := by
  unfold attachAt at h
  cases hp : gFind nodes pid with
  | none => rw [hp] at h; cases h
  | some p =>
    rw [hp] at h
    simp only at h
    unfold attachFirstOpen
    rw [gFind_map_flat, hp]
    simp only [Option.map_some, flat_nvirt]
    exact ⟨gAddChild_flat nodes cid shape pid _ ns p hnd hp h, (gAddChild_ids nodes cid shape pid _ ns h hnd).2⟩

theorem starAddL_flat (st st' : Star) (c : Nat) (shape : List Nat) (pl : Option Nat)
    (hnd : (st.nodes.map (·.id)).Nodup) (h : starAddL st c shape pl = some st') :
    starAdd st.flat c (ones shape) = some st'.flat ∧ (st'.nodes.map (·.id)).Nodup := by
  unfold starAddL at h
  unfold starAdd Star.flat
  simp only
  rw [gFind_map_flat]
  cases hc : gFind st.nodes StarId.center with
  | none => rw [hc] at h; cases h
  | some ctr =>
    rw [hc] at h
    simp only [Option.map_some] at h ⊢
    have hl : ctr.flat.legs.length = ctr.legs.length := by simp [GNode.flat]
    rw [hl]
    by_cases h1 : ctr.legs.length < c
    · rw [if_pos h1] at h; cases h
    rw [if_neg h1] at h ⊢
    by_cases h2 : st.lens.length < c
    · rw [if_pos h2] at h; cases h
    rw [if_neg h2] at h ⊢
    by_cases h3 : c = st.lens.length
    · rw [if_pos h3] at h ⊢
      cases ha : attachAt st.nodes (StarId.chain c 0) shape StarId.center pl with
      | none => rw [ha] at h; cases h
      | some ns =>
        rw [ha] at h
        obtain ⟨hf, hn⟩ := attachAt_flat _ _ _ _ _ ns hnd ha
        rw [hf]
        simp only [Option.map_some, Option.some.injEq] at h ⊢
        subst h
        exact ⟨rfl, hn⟩
    · rw [if_neg h3] at h ⊢
      cases hlen : st.lens[c]? with
      | none => rw [hlen] at h; cases h
      | some len =>
        rw [hlen] at h
        simp only at h ⊢
        cases ha : attachAt st.nodes (StarId.chain c len) shape (StarId.chain c (len - 1)) pl with
        | none => rw [ha] at h; cases h
        | some ns =>
          rw [ha] at h
          obtain ⟨hf, hn⟩ := attachAt_flat _ _ _ _ _ ns hnd ha
          rw [hf]
          simp only [Option.map_some, Option.some.injEq] at h ⊢
          subst h
          exact ⟨rfl, hn⟩

/-- the calls with `parent_leg` forgotten and every dimension replaced by `1` -/
def starSkel (calls : List StarCallL) : List (Nat × List Nat) := calls.map fun x => (x.1, ones x.2.1)

theorem starRunFromL_flat (calls : List StarCallL) : ∀ (st st' : Star), (st.nodes.map (·.id)).Nodup →
    starRunFromL st calls = some st' →
    starRunFrom st.flat (starSkel calls) = some st'.flat ∧ (st'.nodes.map (·.id)).Nodup := by
  induction calls with
  | nil =>
    intro st st' hnd h
    simp only [starRunFromL, List.foldl_nil, Option.some.injEq] at h
    subst h
    exact ⟨rfl, hnd⟩
  | cons x rest ih =>
    intro st st' hnd h
    unfold starRunFromL at h
    rw [List.foldl_cons] at h
    simp only [Option.bind_some] at h
    cases hs : starAddL st x.1 x.2.1 x.2.2 with
    | none =>
      rw [hs] at h
      have : ∀ l : List StarCallL, l.foldl (fun acc x => acc.bind fun s => starAddL s x.1 x.2.1 x.2.2) none = none := by
        intro l; induction l with
        | nil => rfl
        | cons _ _ ih' => simpa using ih'
      rw [this] at h; cases h
    | some st1 =>
      rw [hs] at h
      obtain ⟨hf, hn⟩ := starAddL_flat st st1 x.1 x.2.1 x.2.2 hnd hs
      obtain ⟨hr, hn'⟩ := ih st1 st' hn h
      refine ⟨?_, hn'⟩
      unfold starRunFrom starSkel
      rw [List.map_cons, List.foldl_cons]
      simp only [Option.bind_some]
      rw [hf]
      exact hr

/-! ### fork -/

def Fork.flat (st : Fork) : Fork := ⟨st.nodes.map GNode.flat, st.subLens⟩

def ForkCallL.skel : ForkCallL → ForkCall
  | .main shape _ => .main (ones shape)
  | .sub i shape _ => .sub i (ones shape)

def ForkCallL.default : ForkCall → ForkCallL
  | .main shape => .main shape none
  | .sub i shape => .sub i shape none

/-- `parent_leg=None` is the call without the argument -/
theorem forkAddL_none (st : Fork) (call : ForkCall) : forkAddL st (ForkCallL.default call) = forkAdd st call := by
  cases call <;> simp only [ForkCallL.default, forkAddL, forkAdd, attachAt_none]

theorem forkAddL_flat (st st' : Fork) (call : ForkCallL) (hnd : (st.nodes.map (·.id)).Nodup)
    (h : forkAddL st call = some st') :
    forkAdd st.flat call.skel = some st'.flat ∧ (st'.nodes.map (·.id)).Nodup := by
  obtain ⟨nodes, subLens⟩ := st
  simp only at hnd
  cases call with
  | main shape pl =>
    simp only [forkAddL] at h
    show forkAdd ⟨nodes.map GNode.flat, subLens⟩ (ForkCall.main (ones shape)) = some st'.flat ∧ _
    simp only [forkAdd]
    by_cases hm : subLens.length = 0
    · rw [if_pos hm] at h ⊢
      by_cases he : nodes.isEmpty = true
      · rw [if_pos he] at h
        have he' : (nodes.map GNode.flat).isEmpty = true := by
          rw [List.isEmpty_iff] at he ⊢; rw [he]; rfl
        rw [if_pos he']
        injection h with h
        subst h
        refine ⟨?_, by simp⟩
        simp [rootNode, GNode.flat, Fork.flat, ones]
      · rw [if_neg he] at h; cases h
    · rw [if_neg hm] at h ⊢
      cases ha : attachAt nodes (ForkId.main subLens.length) shape (ForkId.main (subLens.length - 1)) pl with
      | none => rw [ha] at h; cases h
      | some ns =>
        rw [ha] at h
        obtain ⟨hf, hn⟩ := attachAt_flat _ _ _ _ _ ns hnd ha
        rw [hf]
        simp only [Option.map_some, Option.some.injEq] at h ⊢
        subst h
        exact ⟨rfl, hn⟩
  | sub i shape pl =>
    simp only [forkAddL] at h
    show forkAdd ⟨nodes.map GNode.flat, subLens⟩ (ForkCall.sub i (ones shape)) = some st'.flat ∧ _
    simp only [forkAdd]
    by_cases h1 : subLens.length < i
    · rw [if_pos h1] at h; cases h
    rw [if_neg h1] at h ⊢
    cases hlen : subLens[i]? with
    | none => rw [hlen] at h; cases h
    | some len =>
      rw [hlen] at h
      simp only at h ⊢
      cases ha : attachAt nodes (ForkId.sub i len) shape (if len = 0 then ForkId.main i else ForkId.sub i (len - 1)) pl with
      | none => rw [ha] at h; cases h
      | some ns =>
        rw [ha] at h
        obtain ⟨hf, hn⟩ := attachAt_flat _ _ _ _ _ ns hnd ha
        rw [hf]
        simp only [Option.map_some, Option.some.injEq] at h ⊢
        subst h
        exact ⟨rfl, hn⟩

theorem forkRunFromL_flat (calls : List ForkCallL) : ∀ (st st' : Fork), (st.nodes.map (·.id)).Nodup →
    forkRunFromL st calls = some st' →
    forkRunFrom st.flat (calls.map ForkCallL.skel) = some st'.flat ∧ (st'.nodes.map (·.id)).Nodup := by
  induction calls with
  | nil =>
    intro st st' hnd h
    simp only [forkRunFromL, List.foldl_nil, Option.some.injEq] at h
    subst h
    exact ⟨rfl, hnd⟩
  | cons x rest ih =>
    intro st st' hnd h
    unfold forkRunFromL at h
    rw [List.foldl_cons] at h
    simp only [Option.bind_some] at h
    cases hs : forkAddL st x with
    | none =>
      rw [hs] at h
      have : ∀ l : List ForkCallL, l.foldl (fun acc x => acc.bind fun s => forkAddL s x) none = none := by
        intro l; induction l with
        | nil => rfl
        | cons _ _ ih' => simpa using ih'
      rw [this] at h; cases h
    | some st1 =>
      rw [hs] at h
      obtain ⟨hf, hn⟩ := forkAddL_flat st st1 x hnd hs
      obtain ⟨hr, hn'⟩ := ih st1 st' hn h
      refine ⟨?_, hn'⟩
      unfold forkRunFrom
      rw [List.map_cons, List.foldl_cons]
      simp only [Option.bind_some]
      rw [hf]
      exact hr

end Ptn.C19
