import Ptn.C19.Attach
/-! Star and fork constructors: every accepted call sequence yields the closed form of `Attach.lean` for an
explicit log of operations (helper lemmas for `star_structure`, `fork_structure`). -/
namespace Ptn.C19

/-! ### Star -/

/-- number of calls with chain index `c` -/
def cntC (calls : List (Nat × List Nat)) (c : Nat) : Nat := (calls.map (·.1)).count c

/-- what the call `add_chain_node(tensor of shape x.2, x.1)` attaches after the calls `pre`: the node
    `chain c j` with `j` = number of earlier calls with the same chain index, below the centre (`j = 0`)
    or below its predecessor on the chain -/
def starOp (pre : List (Nat × List Nat)) (x : Nat × List Nat) : AOp StarId :=
  ⟨.chain x.1 (cntC pre x.1), x.2,
   if cntC pre x.1 = 0 then .center else .chain x.1 (cntC pre x.1 - 1)⟩

def starOpsAux (pre : List (Nat × List Nat)) : List (Nat × List Nat) → List (AOp StarId)
  | [] => []
  | x :: xs => starOp pre x :: starOpsAux (pre ++ [x]) xs

def starOps (calls : List (Nat × List Nat)) : List (AOp StarId) := starOpsAux [] calls

theorem starOpsAux_append (p a b : List (Nat × List Nat)) :
    starOpsAux p (a ++ b) = starOpsAux p a ++ starOpsAux (p ++ a) b := by
  induction a generalizing p with
  | nil => simp [starOpsAux]
  | cons x a ih => simp [starOpsAux, ih, List.append_assoc]

theorem starOps_snoc (done : List (Nat × List Nat)) (x : Nat × List Nat) :
    starOps (done ++ [x]) = starOps done ++ [starOp done x] := by
  unfold starOps
  rw [starOpsAux_append]
  simp [starOpsAux]

theorem cntC_snoc (done : List (Nat × List Nat)) (c : Nat) (sh : List Nat) (c' : Nat) :
    cntC (done ++ [(c, sh)]) c' = cntC done c' + (if c = c' then 1 else 0) := by
  unfold cntC
  rw [List.map_append, List.count_append]
  simp [List.count_singleton]
  
/-- the bookkeeping list `chains` against the calls made so far -/
structure LensInv (done : List (Nat × List Nat)) (lens : List Nat) : Prop where
  small : ∀ c, c < lens.length → lens[c]? = some (cntC done c) ∧ 0 < cntC done c
  big : ∀ c, lens.length ≤ c → cntC done c = 0

def StarInv (cshape : List Nat) (done : List (Nat × List Nat)) (st : Star) : Prop :=
  st.nodes = closedG .center cshape (starOps done) ∧ GoodLog .center (starOps done) ∧
    LensInv done st.lens

theorem star_step (cshape : List Nat) (done : List (Nat × List Nat)) (st st' : Star) (c : Nat)
    (shape : List Nat) (hinv : StarInv cshape done st) (h : starAdd st c shape = some st') :
    StarInv cshape (done ++ [(c, shape)]) st' := by
  obtain ⟨hn, hg, hl⟩ := hinv
  unfold starAdd at h
  split at h
  · cases h
  · rename_i ctr _
    by_cases h1 : ctr.legs.length < c
    · rw [if_pos h1] at h; cases h
    rw [if_neg h1] at h
    by_cases h2 : st.lens.length < c
    · rw [if_pos h2] at h; cases h
    rw [if_neg h2] at h
    by_cases h3 : c = st.lens.length
    · -- a new chain
      rw [if_pos h3] at h
      have hc0 : cntC done c = 0 := hl.big c (by omega)
      cases hat : attachFirstOpen st.nodes (StarId.chain c 0) shape StarId.center with
      | none => rw [hat] at h; cases h
      | some ns =>
        rw [hat] at h
        simp only [Option.map_some, Option.some.injEq] at h
        subst h
        have hop : starOp done (c, shape) = ⟨.chain c 0, shape, .center⟩ := by
          simp [starOp, hc0]
        rw [hn] at hat
        have := attach_step StarId.center cshape (starOps done) ⟨.chain c 0, shape, .center⟩ ns hg hat
        refine ⟨?_, ?_, ?_⟩
        · rw [starOps_snoc, hop]; exact this.1
        · rw [starOps_snoc, hop]; exact this.2
        · constructor
          · intro c' hc'
            rw [cntC_snoc]
            simp only [List.length_append, List.length_cons, List.length_nil] at hc'
            by_cases hcc : c = c'
            · subst hcc
              rw [if_pos rfl, hc0, h3]
              simp
            · rw [if_neg hcc]
              have hlt : c' < st.lens.length := by omega
              rw [List.getElem?_append_left hlt]
              simpa using hl.small c' hlt
          · intro c' hc'
            rw [cntC_snoc]
            simp only [List.length_append, List.length_cons, List.length_nil] at hc'
            rw [if_neg (by omega), hl.big c' (by omega)]
    · -- the next node of an existing chain
      rw [if_neg h3] at h
      have hlt : c < st.lens.length := by omega
      obtain ⟨hget, hpos⟩ := hl.small c hlt
      rw [hget] at h
      simp only at h
      cases hat : attachFirstOpen st.nodes (StarId.chain c (cntC done c)) shape
          (StarId.chain c (cntC done c - 1)) with
      | none => rw [hat] at h; cases h
      | some ns =>
        rw [hat] at h
        simp only [Option.map_some, Option.some.injEq] at h
        subst h
        have hop : starOp done (c, shape) =
            ⟨.chain c (cntC done c), shape, .chain c (cntC done c - 1)⟩ := by
          have : ¬ cntC done c = 0 := by omega
          simp [starOp, this]
        rw [hn] at hat
        have := attach_step StarId.center cshape (starOps done)
          ⟨.chain c (cntC done c), shape, .chain c (cntC done c - 1)⟩ ns hg hat
        refine ⟨?_, ?_, ?_⟩
        · rw [starOps_snoc, hop]; exact this.1
        · rw [starOps_snoc, hop]; exact this.2
        · constructor
          · intro c' hc'
            rw [cntC_snoc]
            simp only [List.length_set] at hc'
            by_cases hcc : c = c'
            · subst hcc
              rw [if_pos rfl]
              simp [hlt]
            · rw [if_neg hcc, List.getElem?_set_ne hcc]
              simpa using hl.small c' hc'
          · intro c' hc'
            rw [cntC_snoc]
            simp only [List.length_set] at hc'
            rw [if_neg (by omega), hl.big c' hc']

theorem star_run_inv (cshape : List Nat) (rest done : List (Nat × List Nat)) (st st' : Star)
    (hinv : StarInv cshape done st) (h : starRunFrom st rest = some st') :
    StarInv cshape (done ++ rest) st' := by
  induction rest generalizing done st with
  | nil =>
    simp only [starRunFrom, List.foldl_nil, Option.some.injEq] at h
    subst h
    simpa using hinv
  | cons x xs ih =>
    unfold starRunFrom at h
    simp only [List.foldl_cons, Option.bind_some] at h
    cases hs : starAdd st x.1 x.2 with
    | none =>
      rw [hs, foldl_bind_none] at h
      cases h
    | some st1 =>
      rw [hs] at h
      have h1 := star_step cshape done st st1 x.1 x.2 hinv hs
      have := ih (done ++ [x]) st1 h1 h
      simpa [List.append_assoc] using this

theorem starInv_init (cshape : List Nat) : StarInv cshape [] (starInit cshape) := by
  refine ⟨?_, ?_, ?_⟩
  · simp [starInit, starOps, starOpsAux, closedG_nil]
  · simp [starOps, starOpsAux, goodLog_nil]
  · constructor
    · intro c hc; simp [starInit] at hc
    · intro c _; simp [cntC]

/-- every star operation attaches `chain c j` below the centre (`j = 0`) or below `chain c (j-1)` -/
def IsStarOp (o : AOp StarId) : Prop :=
  ∃ c j, o.cid = .chain c j ∧ o.pid = (if j = 0 then StarId.center else .chain c (j - 1))

theorem starOpsAux_form (p xs : List (Nat × List Nat)) : ∀ o ∈ starOpsAux p xs, IsStarOp o := by
  induction xs generalizing p with
  | nil => intro o ho; cases ho
  | cons x xs ih =>
    intro o ho
    simp only [starOpsAux, List.mem_cons] at ho
    rcases ho with rfl | ho
    · exact ⟨x.1, cntC p x.1, rfl, rfl⟩
    · exact ih _ o ho

theorem starOpsAux_shapes (p xs : List (Nat × List Nat)) :
    (starOpsAux p xs).map (·.shape) = xs.map (·.2) := by
  induction xs generalizing p with
  | nil => rfl
  | cons x xs ih => simp [starOpsAux, starOp, ih]

/-- first node of a chain -/
def StarId.isHead : StarId → Bool
  | .chain _ 0 => true
  | _ => false

/-- the readable content of the closed form for a star -/
theorem star_nodes_of_inv (cshape : List Nat) (calls : List (Nat × List Nat)) (st : Star)
    (hinv : StarInv cshape calls st) :
    st.nodes.map (·.id) = .center :: (starOps calls).map (·.cid) ∧
    (st.nodes.map (·.id)).Nodup ∧
    ∀ x ∈ st.nodes,
      x.legs = List.range x.dims.length ∧
      (x.id = .center → x.parent = none ∧ x.dims = cshape ∧
        x.children = ((starOps calls).map (·.cid)).filter StarId.isHead) ∧
      (∀ o ∈ starOps calls, x.id = o.cid → x.dims = o.shape) ∧
      (∀ c j, x.id = .chain c j →
        x.parent = some (if j = 0 then StarId.center else .chain c (j - 1)) ∧
        (0 < j → StarId.chain c (j - 1) ∈ st.nodes.map (·.id)) ∧
        (x.children = [] ∨ x.children = [.chain c (j + 1)]) ∧
        (StarId.chain c (j + 1) ∈ st.nodes.map (·.id) → x.children = [.chain c (j + 1)])) := by
  obtain ⟨hn, hg, _⟩ := hinv
  have hform := starOpsAux_form [] calls
  have hids : st.nodes.map (·.id) = idsG .center (starOps calls) := by
    rw [hn, closedG, List.map_map]
    exact List.map_id'' (fun i => rfl) _
  refine ⟨hids, hids ▸ hg.1, ?_⟩
  intro x hx
  rw [hn, mem_closedG] at hx
  obtain ⟨i, hi, rfl⟩ := hx
  refine ⟨rfl, ?_, ?_, ?_⟩
  · -- the centre
    intro hc
    have hc' : i = StarId.center := hc
    subst hc'
    refine ⟨closed_root hg, ?_, ?_⟩
    · show shapeOf StarId.center cshape (starOps calls) StarId.center = cshape
      exact closed_root_shape _ _ _
    show childrenOf (starOps calls) StarId.center = _
    unfold childrenOf
    rw [List.filter_map]
    congr 1
    apply List.filter_congr
    intro o ho
    obtain ⟨c, j, hc, hp⟩ := hform o ho
    simp only [Function.comp, hc, hp]
    cases j with
    | zero => simp [StarId.isHead]
    | succ j => simp [StarId.isHead]
  · intro o ho hio
    have hio' : i = o.cid := hio
    subst hio'
    exact closed_shape cshape hg o ho
  · intro c j hij
    have hij' : i = StarId.chain c j := hij
    subst hij'
    have hmem : StarId.chain c j ∈ (starOps calls).map (·.cid) := by
      simp only [idsG, List.mem_cons] at hi
      rcases hi with h | h
      · cases h
      · exact h
    obtain ⟨o, ho, hoc⟩ := List.mem_map.1 hmem
    obtain ⟨c', j', hc', hp'⟩ := hform o ho
    have hcj : c' = c ∧ j' = j := by
      rw [hoc] at hc'
      injection hc' with h1 h2
      exact ⟨h1.symm, h2.symm⟩
    obtain ⟨rfl, rfl⟩ := hcj
    have hpar : parentOf (starOps calls) (StarId.chain c' j') =
        some (if j' = 0 then StarId.center else .chain c' (j' - 1)) := by
      rw [← hoc, closed_parent hg o ho, hp']
    have hall : ∀ y ∈ childrenOf (starOps calls) (StarId.chain c' j'), y = StarId.chain c' (j' + 1) := by
      intro y hy
      obtain ⟨o2, ho2, hp2, hc2⟩ := (mem_childrenOf _ _ _).1 hy
      obtain ⟨c2, j2, hc2', hp2'⟩ := hform o2 ho2
      rw [hp2] at hp2'
      by_cases hj2 : j2 = 0
      · rw [if_pos hj2] at hp2'; cases hp2'
      · rw [if_neg hj2] at hp2'
        injection hp2' with h1 h2
        rw [← hc2, hc2', ← h1]
        congr 1
        omega
    refine ⟨hpar, ?_, nodup_all_eq _ _ (childrenOf_nodup hg _) hall, ?_⟩
    · intro hj
      rw [hids]
      have := hg.2 o ho
      rw [hp', if_neg (by omega)] at this
      exact this
    · intro hsucc
      rw [hids] at hsucc
      simp only [idsG, List.mem_cons] at hsucc
      rcases hsucc with h | h
      · cases h
      · obtain ⟨o3, ho3, hoc3⟩ := List.mem_map.1 h
        obtain ⟨c3, j3, hc3, hp3⟩ := hform o3 ho3
        rw [hoc3] at hc3
        injection hc3 with h1 h2
        subst h1; subst h2
        rw [if_neg (by omega)] at hp3
        have hin : StarId.chain c' (j' + 1) ∈ childrenOf (starOps calls) (StarId.chain c' j') :=
          (mem_childrenOf _ _ _).2 ⟨o3, ho3, by rw [hp3]; congr 1, hoc3⟩
        rcases nodup_all_eq _ _ (childrenOf_nodup hg _) hall with h0 | h1
        · show childrenOf (starOps calls) (StarId.chain c' j') = _
          rw [h0] at hin; cases hin
        · exact h1

/-! ### Fork -/

def ForkCall.isMain : ForkCall → Bool
  | .main _ => true
  | .sub _ _ => false

def ForkCall.isSub (i : Nat) : ForkCall → Bool
  | .main _ => false
  | .sub k _ => decide (k = i)

/-- number of main-chain calls / of calls for sub-chain `i` -/
def cntM (calls : List ForkCall) : Nat := calls.countP ForkCall.isMain
def cntS (calls : List ForkCall) (i : Nat) : Nat := calls.countP (ForkCall.isSub i)

/-- what a call attaches after the root `main 0` and the calls `pre`: `main m` below `main (m-1)`;
    `sub i j` (`j` = number of earlier calls for sub-chain `i`) below `main i` (`j = 0`) or `sub i (j-1)` -/
def forkOp (pre : List ForkCall) : ForkCall → AOp ForkId
  | .main sh => ⟨.main (cntM pre + 1), sh, .main (cntM pre)⟩
  | .sub i sh => ⟨.sub i (cntS pre i), sh, if cntS pre i = 0 then .main i else .sub i (cntS pre i - 1)⟩

def forkOpsAux (pre : List ForkCall) : List ForkCall → List (AOp ForkId)
  | [] => []
  | x :: xs => forkOp pre x :: forkOpsAux (pre ++ [x]) xs

def forkOps (calls : List ForkCall) : List (AOp ForkId) := forkOpsAux [] calls

theorem forkOpsAux_append (p a b : List ForkCall) :
    forkOpsAux p (a ++ b) = forkOpsAux p a ++ forkOpsAux (p ++ a) b := by
  induction a generalizing p with
  | nil => simp [forkOpsAux]
  | cons x a ih => simp [forkOpsAux, ih, List.append_assoc]

theorem forkOps_snoc (done : List ForkCall) (x : ForkCall) :
    forkOps (done ++ [x]) = forkOps done ++ [forkOp done x] := by
  unfold forkOps
  rw [forkOpsAux_append]
  simp [forkOpsAux]

theorem cntM_snoc (done : List ForkCall) (x : ForkCall) :
    cntM (done ++ [x]) = cntM done + (if x.isMain then 1 else 0) := by
  unfold cntM
  rw [List.countP_append]
  simp [List.countP_cons]

theorem cntS_snoc (done : List ForkCall) (x : ForkCall) (i : Nat) :
    cntS (done ++ [x]) i = cntS done i + (if x.isSub i then 1 else 0) := by
  unfold cntS
  rw [List.countP_append]
  simp [List.countP_cons]

/-- the bookkeeping list `sub_chains` against the calls made after the root was created -/
structure SubInv (done : List ForkCall) (subLens : List Nat) : Prop where
  len : subLens.length = cntM done + 1
  small : ∀ i, i < subLens.length → subLens[i]? = some (cntS done i)
  big : ∀ i, subLens.length ≤ i → cntS done i = 0

def ForkInv (rs : List Nat) (done : List ForkCall) (st : Fork) : Prop :=
  st.nodes = closedG (.main 0) rs (forkOps done) ∧ GoodLog (.main 0) (forkOps done) ∧
    SubInv done st.subLens

theorem fork_step (rs : List Nat) (done : List ForkCall) (st st' : Fork) (call : ForkCall)
    (hinv : ForkInv rs done st) (h : forkAdd st call = some st') :
    ForkInv rs (done ++ [call]) st' := by
  obtain ⟨hn, hg, hl⟩ := hinv
  cases call with
  | main shape =>
    unfold forkAdd at h
    simp only at h
    have hm : ¬ st.subLens.length = 0 := by rw [hl.len]; omega
    rw [if_neg hm] at h
    have hm1 : st.subLens.length - 1 = cntM done := by rw [hl.len]; omega
    rw [hm1, hl.len] at h
    cases hat : attachFirstOpen st.nodes (ForkId.main (cntM done + 1)) shape (ForkId.main (cntM done)) with
    | none => rw [hat] at h; cases h
    | some ns =>
      rw [hat] at h
      simp only [Option.map_some, Option.some.injEq] at h
      subst h
      rw [hn] at hat
      have := attach_step (ForkId.main 0) rs (forkOps done)
        ⟨.main (cntM done + 1), shape, .main (cntM done)⟩ ns hg hat
      refine ⟨?_, ?_, ?_⟩
      · rw [forkOps_snoc]; exact this.1
      · rw [forkOps_snoc]; exact this.2
      · constructor
        · rw [cntM_snoc]; simp [ForkCall.isMain, hl.len]
        · intro i hi
          rw [cntS_snoc]
          simp only [List.length_append, List.length_cons, List.length_nil] at hi
          simp only [ForkCall.isSub, Bool.false_eq_true, if_false, Nat.add_zero]
          by_cases hlt : i < st.subLens.length
          · rw [List.getElem?_append_left hlt]; exact hl.small i hlt
          · have : i = st.subLens.length := by omega
            subst this
            rw [hl.big _ (Nat.le_refl _)]
            simp
        · intro i hi
          rw [cntS_snoc]
          simp only [List.length_append, List.length_cons, List.length_nil] at hi
          simp only [ForkCall.isSub, Bool.false_eq_true, if_false, Nat.add_zero]
          exact hl.big i (by omega)
  | sub i shape =>
    unfold forkAdd at h
    simp only at h
    by_cases h1 : st.subLens.length < i
    · rw [if_pos h1] at h; cases h
    rw [if_neg h1] at h
    by_cases hlt : i < st.subLens.length
    · rw [hl.small i hlt] at h
      simp only at h
      cases hat : attachFirstOpen st.nodes (ForkId.sub i (cntS done i)) shape
          (if cntS done i = 0 then ForkId.main i else ForkId.sub i (cntS done i - 1)) with
      | none => rw [hat] at h; cases h
      | some ns =>
        rw [hat] at h
        simp only [Option.map_some, Option.some.injEq] at h
        subst h
        rw [hn] at hat
        have := attach_step (ForkId.main 0) rs (forkOps done)
          ⟨.sub i (cntS done i), shape,
            if cntS done i = 0 then ForkId.main i else ForkId.sub i (cntS done i - 1)⟩ ns hg hat
        refine ⟨?_, ?_, ?_⟩
        · rw [forkOps_snoc]; exact this.1
        · rw [forkOps_snoc]; exact this.2
        · constructor
          · rw [cntM_snoc]; simp [ForkCall.isMain, hl.len]
          · intro k hk
            rw [cntS_snoc]
            simp only [List.length_set] at hk
            by_cases hik : i = k
            · subst hik
              simp [ForkCall.isSub, hlt]
            · rw [List.getElem?_set_ne hik]
              simp [ForkCall.isSub, hik, hl.small k hk]
          · intro k hk
            rw [cntS_snoc]
            simp only [List.length_set] at hk
            have : ¬ i = k := by omega
            simp [ForkCall.isSub, this, hl.big k hk]
    · have : st.subLens[i]? = none := by
        rw [List.getElem?_eq_none_iff]; omega
      rw [this] at h
      cases h

theorem fork_run_inv (rs : List Nat) (rest done : List ForkCall) (st st' : Fork)
    (hinv : ForkInv rs done st) (h : forkRunFrom st rest = some st') :
    ForkInv rs (done ++ rest) st' := by
  induction rest generalizing done st with
  | nil =>
    simp only [forkRunFrom, List.foldl_nil, Option.some.injEq] at h
    subst h
    simpa using hinv
  | cons x xs ih =>
    unfold forkRunFrom at h
    simp only [List.foldl_cons, Option.bind_some] at h
    cases hs : forkAdd st x with
    | none =>
      rw [hs, foldl_bind_none] at h
      cases h
    | some st1 =>
      rw [hs] at h
      have h1 := fork_step rs done st st1 x hinv hs
      have := ih (done ++ [x]) st1 h1 h
      simpa [List.append_assoc] using this

/-- the first accepted call must create the root `main 0` -/
theorem fork_first (calls : List ForkCall) (st : Fork) (h : forkRun calls = some st) :
    calls = [] ∧ st = forkInit ∨
    ∃ rs rest, calls = ForkCall.main rs :: rest ∧
      forkRunFrom ⟨[rootNode (.main 0) rs], [0]⟩ rest = some st ∧
      ForkInv rs [] ⟨[rootNode (.main 0) rs], [0]⟩ := by
  cases calls with
  | nil =>
    left
    simp only [forkRun, forkRunFrom, List.foldl_nil, Option.some.injEq] at h
    exact ⟨rfl, h.symm⟩
  | cons x rest =>
    right
    unfold forkRun forkRunFrom at h
    simp only [List.foldl_cons, Option.bind_some] at h
    cases x with
    | sub i sh =>
      have : forkAdd forkInit (ForkCall.sub i sh) = none := by
        unfold forkAdd forkInit
        simp only [List.length_nil]
        by_cases hi : 0 < i
        · rw [if_pos hi]
        · rw [if_neg hi]; simp
      rw [this, foldl_bind_none] at h
      cases h
    | main rs =>
      have : forkAdd forkInit (ForkCall.main rs) = some ⟨[rootNode (.main 0) rs], [0]⟩ := by
        simp [forkAdd, forkInit]
      rw [this] at h
      refine ⟨rs, rest, rfl, h, ?_, ?_, ?_⟩
      · simp [forkOps, forkOpsAux, closedG_nil]
      · simp [forkOps, forkOpsAux, goodLog_nil]
      · constructor
        · simp [cntM]
        · intro i hi
          have : i = 0 := by simpa using hi
          subst this
          simp [cntS]
        · intro i _; simp [cntS]

/-- every fork operation attaches `main (m+1)` below `main m`, or `sub i j` below `main i` (`j = 0`) or
    below `sub i (j-1)` -/
def IsForkOp (o : AOp ForkId) : Prop :=
  (∃ m, o.cid = .main (m + 1) ∧ o.pid = .main m) ∨
  (∃ i j, o.cid = .sub i j ∧ o.pid = (if j = 0 then ForkId.main i else .sub i (j - 1)))

theorem forkOpsAux_form (p xs : List ForkCall) : ∀ o ∈ forkOpsAux p xs, IsForkOp o := by
  induction xs generalizing p with
  | nil => intro o ho; cases ho
  | cons x xs ih =>
    intro o ho
    simp only [forkOpsAux, List.mem_cons] at ho
    rcases ho with rfl | ho
    · cases x with
      | main sh => exact Or.inl ⟨cntM p, rfl, rfl⟩
      | sub i sh => exact Or.inr ⟨i, cntS p i, rfl, rfl⟩
    · exact ih _ o ho

/-- the readable content of the closed form for a fork -/
theorem fork_nodes_of_inv (rs : List Nat) (calls : List ForkCall) (st : Fork)
    (hinv : ForkInv rs calls st) :
    st.nodes.map (·.id) = .main 0 :: (forkOps calls).map (·.cid) ∧
    (st.nodes.map (·.id)).Nodup ∧
    st.subLens.length = cntM calls + 1 ∧
    (∀ i, i < st.subLens.length → st.subLens[i]? = some (cntS calls i)) ∧
    ∀ x ∈ st.nodes,
      x.legs = List.range x.dims.length ∧
      (∀ o ∈ forkOps calls, x.id = o.cid → x.dims = o.shape) ∧
      (∀ k, x.id = .main k →
        x.parent = (if k = 0 then none else some (ForkId.main (k - 1))) ∧
        (k = 0 → x.dims = rs) ∧
        (0 < k → ForkId.main (k - 1) ∈ st.nodes.map (·.id)) ∧
        (∀ ch ∈ x.children, ch = ForkId.main (k + 1) ∨ ch = ForkId.sub k 0) ∧ x.children.Nodup ∧
        (ForkId.main (k + 1) ∈ st.nodes.map (·.id) → ForkId.main (k + 1) ∈ x.children) ∧
        (ForkId.sub k 0 ∈ st.nodes.map (·.id) → ForkId.sub k 0 ∈ x.children)) ∧
      (∀ i j, x.id = .sub i j →
        x.parent = some (if j = 0 then ForkId.main i else .sub i (j - 1)) ∧
        (if j = 0 then ForkId.main i else ForkId.sub i (j - 1)) ∈ st.nodes.map (·.id) ∧
        (x.children = [] ∨ x.children = [.sub i (j + 1)]) ∧
        (ForkId.sub i (j + 1) ∈ st.nodes.map (·.id) → x.children = [.sub i (j + 1)])) := by
  obtain ⟨hn, hg, hl⟩ := hinv
  have hform := forkOpsAux_form [] calls
  have hids : st.nodes.map (·.id) = idsG (.main 0) (forkOps calls) := by
    rw [hn, closedG, List.map_map]
    exact List.map_id'' (fun i => rfl) _
  -- an identifier other than the root was attached by exactly one operation
  have hop : ∀ i, i ∈ idsG (ForkId.main 0) (forkOps calls) → i ≠ ForkId.main 0 →
      ∃ o ∈ forkOps calls, o.cid = i := by
    intro i hi hne
    simp only [idsG, List.mem_cons] at hi
    rcases hi with h | h
    · exact absurd h hne
    · obtain ⟨o, ho, hoc⟩ := List.mem_map.1 h
      exact ⟨o, ho, hoc⟩
  refine ⟨hids, hids ▸ hg.1, hl.len, hl.small, ?_⟩
  intro x hx
  rw [hn, mem_closedG] at hx
  obtain ⟨i, hi, rfl⟩ := hx
  refine ⟨rfl, ?_, ?_, ?_⟩
  · intro o ho hio
    have hio' : i = o.cid := hio
    subst hio'
    exact closed_shape rs hg o ho
  · intro k hik
    have hik' : i = ForkId.main k := hik
    subst hik'
    have hch : ∀ ch, ch ∈ childrenOf (forkOps calls) (ForkId.main k) →
        ch = ForkId.main (k + 1) ∨ ch = ForkId.sub k 0 := by
      intro ch hch
      obtain ⟨o2, ho2, hp2, hc2⟩ := (mem_childrenOf _ _ _).1 hch
      rcases hform o2 ho2 with ⟨m, hc, hp⟩ | ⟨i2, j2, hc, hp⟩
      · rw [hp2] at hp
        injection hp with h1
        left; rw [← hc2, hc, h1]
      · rw [hp2] at hp
        by_cases hj : j2 = 0
        · rw [if_pos hj] at hp
          injection hp with h1
          right; rw [← hc2, hc, hj, h1]
        · rw [if_neg hj] at hp; cases hp
    refine ⟨?_, ?_, ?_, hch, childrenOf_nodup hg _, ?_, ?_⟩
    · by_cases hk : k = 0
      · subst hk
        rw [if_pos rfl]
        exact closed_root hg
      · rw [if_neg hk]
        obtain ⟨o, ho, hoc⟩ := hop _ hi (by intro e; injection e with e; exact hk e)
        rcases hform o ho with ⟨m, hc, hp⟩ | ⟨i2, j2, hc, hp⟩
        · rw [hoc] at hc
          injection hc with h1
          show parentOf (forkOps calls) (ForkId.main k) = _
          rw [← hoc, closed_parent hg o ho, hp]
          congr 2
          omega
        · rw [hoc] at hc; cases hc
    · intro hk
      subst hk
      show shapeOf (ForkId.main 0) rs (forkOps calls) (ForkId.main 0) = rs
      exact closed_root_shape _ _ _
    · intro hk
      obtain ⟨o, ho, hoc⟩ := hop _ hi (by intro e; injection e with e; omega)
      rcases hform o ho with ⟨m, hc, hp⟩ | ⟨i2, j2, hc, hp⟩
      · rw [hoc] at hc
        injection hc with h1
        have := hg.2 o ho
        rw [hp] at this
        rw [hids]
        have e : k - 1 = m := by omega
        rw [e]; exact this
      · rw [hoc] at hc; cases hc
    · intro hsucc
      rw [hids] at hsucc
      obtain ⟨o, ho, hoc⟩ := hop _ hsucc (by intro e; injection e with e; omega)
      rcases hform o ho with ⟨m, hc, hp⟩ | ⟨i2, j2, hc, hp⟩
      · rw [hoc] at hc
        injection hc with h1
        have : m = k := by omega
        subst this
        exact (mem_childrenOf _ _ _).2 ⟨o, ho, hp, hoc⟩
      · rw [hoc] at hc; cases hc
    · intro hsub
      rw [hids] at hsub
      obtain ⟨o, ho, hoc⟩ := hop _ hsub (by intro e; cases e)
      rcases hform o ho with ⟨m, hc, hp⟩ | ⟨i2, j2, hc, hp⟩
      · rw [hoc] at hc; cases hc
      · rw [hoc] at hc
        injection hc with h1 h2
        subst h1; subst h2
        rw [if_pos rfl] at hp
        exact (mem_childrenOf _ _ _).2 ⟨o, ho, hp, hoc⟩
  · intro i2 j hij
    have hij' : i = ForkId.sub i2 j := hij
    subst hij'
    obtain ⟨o, ho, hoc⟩ := hop _ hi (by intro e; cases e)
    have hpid : o.pid = (if j = 0 then ForkId.main i2 else ForkId.sub i2 (j - 1)) := by
      rcases hform o ho with ⟨m, hc, hp⟩ | ⟨i3, j3, hc, hp⟩
      · rw [hoc] at hc; cases hc
      · rw [hoc] at hc
        injection hc with h1 h2
        subst h1; subst h2
        exact hp
    have hall : ∀ y ∈ childrenOf (forkOps calls) (ForkId.sub i2 j), y = ForkId.sub i2 (j + 1) := by
      intro y hy
      obtain ⟨o2, ho2, hp2, hc2⟩ := (mem_childrenOf _ _ _).1 hy
      rcases hform o2 ho2 with ⟨m, hc, hp⟩ | ⟨i3, j3, hc, hp⟩
      · rw [hp2] at hp; cases hp
      · rw [hp2] at hp
        by_cases hj : j3 = 0
        · rw [if_pos hj] at hp; cases hp
        · rw [if_neg hj] at hp
          injection hp with h1 h2
          rw [← hc2, hc, ← h1]
          congr 1
          omega
    refine ⟨?_, ?_, nodup_all_eq _ _ (childrenOf_nodup hg _) hall, ?_⟩
    · show parentOf (forkOps calls) (ForkId.sub i2 j) = _
      rw [← hoc, closed_parent hg o ho, hpid]
    · rw [hids, ← hpid]
      exact hg.2 o ho
    · intro hsucc
      rw [hids] at hsucc
      obtain ⟨o3, ho3, hoc3⟩ := hop _ hsucc (by intro e; cases e)
      have hin : ForkId.sub i2 (j + 1) ∈ childrenOf (forkOps calls) (ForkId.sub i2 j) := by
        rcases hform o3 ho3 with ⟨m, hc, hp⟩ | ⟨i3, j3, hc, hp⟩
        · rw [hoc3] at hc; cases hc
        · rw [hoc3] at hc
          injection hc with h1 h2
          subst h1; subst h2
          rw [if_neg (by omega)] at hp
          exact (mem_childrenOf _ _ _).2 ⟨o3, ho3, by rw [hp]; congr 1, hoc3⟩
      rcases nodup_all_eq _ _ (childrenOf_nodup hg _) hall with h0 | h1
      · show childrenOf (forkOps calls) (ForkId.sub i2 j) = _
        rw [h0] at hin; cases hin
      · exact h1

end Ptn.C19
