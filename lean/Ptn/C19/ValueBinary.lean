import Ptn.C19.ValueSpecial
/-! Closed form of the binding record of the binary tree `generate_binary_ttns` returns (helper lemmas for
`binary_record_closed` / `binary_value`): in heap (breadth-first) numbering `g = 0 … 2·nphys-2` (node `g` =
`binFinalId nphys g`) the record read off the final state is, IN THIS ORDER, one bond per `g = 1 … 2·nphys-2`:
the leg `neighbour_index(g)` of the parent `(g-1)/2` joined to leg `0` of `g`. -/
namespace Ptn.C19

open Ptn.Ein

theorem bin_gFind_of_mem {ι : Type} [DecidableEq ι] (nodes : List (GNode ι)) (hnd : (nodes.map (·.id)).Nodup)
    (x : GNode ι) (hx : x ∈ nodes) : gFind nodes x.id = some x := by
  unfold gFind
  induction nodes with
  | nil => cases hx
  | cons a l ih =>
    rw [List.map_cons, List.nodup_cons] at hnd
    rw [List.find?_cons]
    by_cases h : a.id = x.id
    · rcases List.mem_cons.1 hx with rfl | hx'
      · simp
      · exact absurd (h ▸ List.mem_map.2 ⟨x, hx', rfl⟩) hnd.1
    · simp only [h, decide_false]
      rcases List.mem_cons.1 hx with rfl | hx'
      · exact absurd rfl h
      · exact ih hnd.2 hx'

/-- the virtual node with heap index `h` of the finished tree -/
def binVNode (nphys bd h : Nat) : GNode BinId :=
  ⟨virtId h, parentH h, [binFinalId nphys (2 * h + 1), binFinalId nphys (2 * h + 2)],
    List.range (vshapeH bd h).length, vshapeH bd h⟩

/-- the physical node `k` (heap index `nphys - 1 + k`) of the finished tree -/
def binPNode (nphys bd d k : Nat) : GNode BinId := ⟨.phys k, parentH (nphys - 1 + k), [], [0, 1], [bd, d]⟩

theorem binFinal_eq (nphys bd d : Nat) :
    binFinal nphys bd d = (List.range (nphys - 1)).map (binVNode nphys bd) ++
      (List.range nphys).map (binPNode nphys bd d) := rfl

theorem binFinalId_inj (nphys g g' : Nat) (e : binFinalId nphys g = binFinalId nphys g') : g = g' := by
  unfold binFinalId at e
  split at e <;> split at e
  · exact virtId_inj _ _ e
  · unfold virtId at e; cases e
  · unfold virtId at e; cases e
  · injection e with e; omega

/-- `neighbour_index` of the node with heap index `g ≥ 1` in its parent `(g-1)/2`: the parent's own parent leg
comes first (absent for the root, i.e. for `g ≤ 2`), then the left child (`g` odd), then the right child -/
def binNbrIdx (g : Nat) : Nat := (if g ≤ 2 then 0 else 1) + (if g % 2 = 0 then 1 else 0)

/-- the bond of the node with heap index `g ≥ 1` -/
def binBond (nphys g : Nat) : GLeg BinId × GLeg BinId :=
  ((virtId ((g - 1) / 2), binNbrIdx g), (binFinalId nphys g, 0))

theorem binVNode_mem (nphys bd d p : Nat) (hp : p < nphys - 1) : binVNode nphys bd p ∈ binFinal nphys bd d := by
  rw [binFinal_eq]
  exact List.mem_append_left _ (List.mem_map.2 ⟨p, List.mem_range.2 hp, rfl⟩)

theorem binFinal_find_virt (nphys bd d p : Nat) (hp : p < nphys - 1) :
    gFind (binFinal nphys bd d) (virtId p) = some (binVNode nphys bd p) := by
  have hnd : ((binFinal nphys bd d).map (·.id)).Nodup := by
    rw [binFinal_ids]; exact binFinal_ids_nodup nphys
  exact bin_gFind_of_mem _ hnd (binVNode nphys bd p) (binVNode_mem nphys bd d p hp)

/-- `neighbour_index` computed on the parent node of the finished tree -/
theorem binVNode_nbrPos (nphys bd p g : Nat) (hp : p < nphys - 1) (hg : g = 2 * p + 1 ∨ g = 2 * p + 2) :
    (binVNode nphys bd p).nbrPos (binFinalId nphys g) = binNbrIdx g := by
  have h12 : binFinalId nphys (2 * p + 1) ≠ binFinalId nphys (2 * p + 2) := fun e => by
    have := binFinalId_inj _ _ _ e; omega
  unfold GNode.nbrPos binVNode binNbrIdx parentH
  by_cases h0 : p = 0
  · subst h0
    rcases hg with rfl | rfl
    · simp
    · have h12' : ¬ binFinalId nphys 1 = binFinalId nphys 2 := h12
      simp [h12']
  · have hpp : virtId ((p - 1) / 2) = binFinalId nphys ((p - 1) / 2) := by
      unfold binFinalId; rw [if_pos (by omega)]
    have hne : ∀ g', 2 * p + 1 ≤ g' → ¬ virtId ((p - 1) / 2) = binFinalId nphys g' := by
      intro g' hg' e
      rw [hpp] at e
      have := binFinalId_inj _ _ _ e; omega
    rcases hg with rfl | rfl
    · have a : ¬ (2 * p + 1 ≤ 2) := by omega
      have b : ¬ ((2 * p + 1) % 2 = 0) := by omega
      simp [h0, hne (2 * p + 1) (by omega), a]
    · have a : ¬ (2 * p + 2 ≤ 2) := by omega
      have b : (2 * p + 2) % 2 = 0 := by omega
      simp [h0, hne (2 * p + 2) (by omega), h12, a, b]

theorem binVNode_lab (nphys bd p k : Nat) (hk : k < 3) : (binVNode nphys bd p).lab k = (virtId p, k) := by
  unfold GNode.lab binVNode
  have : k < (vshapeH bd p).length := by rw [vshapeH_len]; split <;> omega
  simp [List.getD_eq_getElem?_getD, this]

theorem binNbrIdx_lt (g : Nat) : binNbrIdx g < 3 := by
  unfold binNbrIdx; split <;> split <;> omega

/-- one entry of `gRecord` -/
def binRecEntry {ι : Type} [DecidableEq ι] (nodes : List (GNode ι)) (x : GNode ι) : Option (GLeg ι × GLeg ι) :=
  match x.parent with
  | none => none
  | some q => (gFind nodes q).map fun pn => (pn.lab (pn.nbrPos x.id), x.lab 0)

theorem binGRecord_eq {ι : Type} [DecidableEq ι] (nodes : List (GNode ι)) :
    gRecord nodes = nodes.filterMap (binRecEntry nodes) := rfl

/-- the record entry of one non-root node of the finished tree -/
theorem binFinal_entry (nphys bd d g : Nat) (h1 : 1 ≤ g) (h2 : g ≤ 2 * nphys - 2) (x : GNode BinId)
    (hid : x.id = binFinalId nphys g) (hpar : x.parent = parentH g) (hleg : x.legs.getD 0 0 = 0) :
    binRecEntry (binFinal nphys bd d) x = some (binBond nphys g) := by
  unfold binRecEntry
  have hp : (g - 1) / 2 < nphys - 1 := by omega
  have hg : g = 2 * ((g - 1) / 2) + 1 ∨ g = 2 * ((g - 1) / 2) + 2 := by omega
  rw [hpar]
  unfold parentH
  rw [if_neg (by omega)]
  simp only
  rw [binFinal_find_virt nphys bd d _ hp, Option.map_some, hid, binVNode_nbrPos nphys bd _ g hp hg,
    binVNode_lab _ _ _ _ (binNbrIdx_lt g)]
  unfold binBond GNode.lab
  rw [hid, hleg]

/-- **closed form of the record** (exact, in dict order = heap order) -/
theorem gRecord_binFinal (nphys bd d : Nat) (hn : 2 ≤ nphys) :
    gRecord (binFinal nphys bd d) = (List.range' 1 (2 * nphys - 2)).map (binBond nphys) := by
  rw [binGRecord_eq]
  generalize hF : binRecEntry (binFinal nphys bd d) = F
  have hentry : ∀ g, 1 ≤ g → g ≤ 2 * nphys - 2 → ∀ x : GNode BinId, x.id = binFinalId nphys g →
      x.parent = parentH g → x.legs.getD 0 0 = 0 → F x = some (binBond nphys g) := by
    intro g h1 h2 x hid hpar hleg
    rw [← hF]
    exact binFinal_entry nphys bd d g h1 h2 x hid hpar hleg
  have hroot : F (binVNode nphys bd 0) = none := by
    rw [← hF]; rfl
  rw [binFinal_eq, List.filterMap_append]
  obtain ⟨m, rfl⟩ : ∃ m, nphys = m + 2 := ⟨nphys - 2, by omega⟩
  have e1 : m + 2 - 1 = m + 1 := by omega
  have e2 : 2 * (m + 2) - 2 = m + (m + 2) := by omega
  have hR : (List.range' 1 (m + (m + 2))).map (binBond (m + 2)) =
      (List.range m).map (fun j => binBond (m + 2) (j + 1)) ++
        (List.range (m + 2)).map (fun k => binBond (m + 2) (m + 1 + k)) := by
    rw [List.range'_eq_map_range, List.range_add]
    simp only [List.map_append, List.map_map]
    congr 1
    · apply List.map_congr_left
      intro j _
      simp only [Function.comp]
      rw [Nat.add_comm 1 j]
    · apply List.map_congr_left
      intro k _
      simp only [Function.comp]
      congr 1
      omega
  rw [e1, e2, hR, List.range_succ_eq_map, List.map_cons, List.filterMap_cons, hroot, List.map_map,
    List.filterMap_map, List.filterMap_map]
  simp only
  rw [filterMap_eq_map_of _ (fun j => binBond (m + 2) (j + 1)),
    filterMap_eq_map_of _ (fun k => binBond (m + 2) (m + 1 + k))]
  · intro k hk
    have hk' := List.mem_range.1 hk
    apply hentry (m + 1 + k) (by omega) (by omega)
    · simp only [binPNode, binFinalId]
      rw [if_neg (by omega)]
      congr 1
      omega
    · simp only [binPNode]
      congr 1
    · rfl
  · intro j hj
    have hj' := List.mem_range.1 hj
    apply hentry (j + 1) (by omega) (by omega)
    · simp only [Function.comp, binVNode, binFinalId]
      rw [if_pos (by omega)]
    · rfl
    · simp only [Function.comp, binVNode]
      rw [List.getD_eq_getElem?_getD]
      have : 0 < (vshapeH bd (j + 1)).length := by rw [vshapeH_len]; split <;> omega
      simp [this]

/-- number of legs of the node with heap index `g`: `(child, child, open)` for the root, `(parent, child, child,
open)` for the other virtual nodes, `(parent, physical)` for the sites -/
def binRank (nphys g : Nat) : Nat := if g = 0 then 3 else if g < nphys - 1 then 4 else 2

/-- the finished tree as a list over the heap indices `0 … 2·nphys-2` -/
theorem binFinal_heap {β : Type} (nphys bd d : Nat) (hn : 2 ≤ nphys) (f : BinId → Nat → β) :
    (binFinal nphys bd d).map (fun x => f x.id x.dims.length) =
      (List.range (2 * nphys - 1)).map fun g => f (binFinalId nphys g) (binRank nphys g) := by
  have e : 2 * nphys - 1 = (nphys - 1) + nphys := by omega
  rw [binFinal_eq, e, List.range_add, List.map_append, List.map_append, List.map_map, List.map_map, List.map_map]
  congr 1
  · apply List.map_congr_left
    intro h hh
    have hh' := List.mem_range.1 hh
    simp only [Function.comp, binVNode, binFinalId, binRank, vshapeH_len, if_pos hh']
  · apply List.map_congr_left
    intro k hk
    have hk' := List.mem_range.1 hk
    simp only [Function.comp, binPNode, binFinalId, binRank]
    rw [if_neg (by omega), if_neg (by omega), if_neg (by omega)]
    congr 2
    omega

end Ptn.C19
