import Ptn.C19.Spec
/-! Closed form of the matrix-product chain construction (helper lemmas for `mps_chain_structure`). -/
namespace Ptn.C19

/-! ### generic facts -/

theorem popInsert_self (l : List Nat) (i : Nat) (h : i < l.length) : popInsert l i i = l := by
  unfold popInsert
  rw [List.getElem?_eq_getElem h]
  simp only
  rw [List.insertIdx_eraseIdx_of_ge h (Nat.le_refl i)]
  induction l generalizing i with
  | nil => simp at h
  | cons a l ih =>
    cases i with
    | zero => simp [List.insertIdx]
    | succ i =>
      simp only [List.length_cons, Nat.add_lt_add_iff_right] at h
      simp only [List.getElem_cons_succ, List.insertIdx_succ_cons, List.eraseIdx_cons_succ]
      rw [ih i h]

theorem popInsert_range_one_zero (m : Nat) :
    popInsert (List.range (2 + m)) 1 0 = 1 :: 0 :: List.range' 2 m := by
  have : List.range (2 + m) = 0 :: 1 :: List.range' 2 m := by
    rw [List.range_eq_range', Nat.add_comm, List.range'_succ, List.range'_succ]
  rw [this]
  simp [popInsert, List.insertIdx]

theorem find_map_id (ids : List Nat) (f : Nat → MNode) (hf : ∀ i, (f i).id = i) (j : Nat) :
    (ids.map f).find? (fun x => x.id == j) = if j ∈ ids then some (f j) else none := by
  induction ids with
  | nil => simp
  | cons a ids ih =>
    simp only [List.map_cons, List.find?_cons, hf, List.mem_cons]
    by_cases h : a = j
    · subst h; simp
    · have h' : (a == j) = false := by simp [h]
      have h'' : ¬ j = a := fun e => h e.symm
      simp only [h', ih, h'', false_or]

/-- `addChild` on a state given as `ids.map f`: the result is `(ids ++ [cid]).map g` for any `g` that
    agrees with the update. -/
theorem addChild_closed (ids : List Nat) (f g : Nat → MNode) (root : Nat) (lf rt : List Nat)
    (cid nlegs cleg pid pleg : Nat)
    (hf : ∀ i, (f i).id = i) (hp : pid ∈ ids) (hc : cid ∉ ids)
    (h1 : cleg < nlegs) (h2 : (f pid).nvirt ≤ pleg) (h3 : pleg < (f pid).legs.length)
    (hg1 : ∀ i ∈ ids, g i = if i = pid then (f i).toChild cid pleg else f i)
    (hg2 : g cid = ⟨cid, some pid, [], popInsert (List.range nlegs) cleg 0⟩) :
    addChild ⟨ids.map f, root, lf, rt⟩ cid nlegs cleg pid pleg =
      some ⟨(ids ++ [cid]).map g, root, lf, rt⟩ := by
  unfold addChild MPT.find
  simp only [find_map_id ids f hf, hp, hc, if_true, if_false, Option.isSome_none, Bool.false_eq_true]
  have e1 : ¬ nlegs ≤ cleg := by omega
  have e2 : ¬ (pleg < (f pid).nvirt ∨ (f pid).legs.length ≤ pleg) := by omega
  simp only [e1, e2, if_false]
  congr 2
  rw [List.map_append, List.map_map]
  congr 1
  · apply List.map_congr_left
    intro i hi
    simp only [Function.comp, hf, hg1 i hi, beq_iff_eq]
  · simp [hg2]

/-! ### the closed form -/

/-- leg order of site `i` once it has been inserted (it never changes afterwards) -/
def legsOf (n r : Nat) (p : Nat → Nat) (i : Nat) : List Nat :=
  if 0 < i ∧ i < r then 1 :: 0 :: List.range' 2 (p i) else List.range (nlegsIn n p i)

/-- node `i` when the sites `lo … hi` (`lo ≤ r ≤ hi`) have been inserted around the root `r` -/
def nodeAt (n r : Nat) (p : Nat → Nat) (lo hi i : Nat) : MNode :=
  ⟨i,
   if i < r then some (i + 1) else if r < i then some (i - 1) else none,
   if i < r then (if lo < i then [i - 1] else [])
   else if r < i then (if i < hi then [i + 1] else [])
   else (if lo < r then [r - 1] else []) ++ (if r < hi then [r + 1] else []),
   legsOf n r p i⟩

def idsAt (r lo hi : Nat) : List Nat :=
  r :: ((List.range (r - lo)).map (fun t => r - 1 - t) ++ List.range' (r + 1) (hi - r))

def stateAt (n r : Nat) (p : Nat → Nat) (lo hi : Nat) : MPT :=
  ⟨(idsAt r lo hi).map (nodeAt n r p lo hi), r, List.range' lo (r - lo), List.range' (r + 1) (hi - r)⟩

theorem nodeAt_id (n r : Nat) (p : Nat → Nat) (lo hi i : Nat) : (nodeAt n r p lo hi i).id = i := rfl

theorem mem_idsAt (r lo hi i : Nat) (h1 : lo ≤ r) (h2 : r ≤ hi) :
    i ∈ idsAt r lo hi ↔ (lo ≤ i ∧ i ≤ hi) := by
  unfold idsAt
  simp only [List.mem_cons, List.mem_append, List.mem_map, List.mem_range, List.mem_range'_1]
  constructor
  · rintro (rfl | ⟨t, ht, rfl⟩ | h) <;> omega
  · intro h
    by_cases h1 : i = r
    · exact Or.inl h1
    · by_cases h2 : i < r
      · exact Or.inr (Or.inl ⟨r - 1 - i, by omega, by omega⟩)
      · exact Or.inr (Or.inr (by omega))

theorem idsAt_left (r lo : Nat) (h : lo < r) : idsAt r lo r = idsAt r (lo + 1) r ++ [lo] := by
  have e : r - lo = (r - (lo + 1)) + 1 := by omega
  have e2 : r - 1 - (r - (lo + 1)) = lo := by omega
  simp [idsAt, e, List.range_succ, e2]

theorem idsAt_right (r lo hi : Nat) (h : r ≤ hi) : idsAt r lo (hi + 1) = idsAt r lo hi ++ [hi + 1] := by
  have e : hi + 1 - r = (hi - r) + 1 := by omega
  have e2 : r + 1 + (hi - r) = hi + 1 := by omega
  simp [idsAt, e, List.range'_concat, e2]

theorem legsOf_length (n r : Nat) (p : Nat → Nat) (i : Nat) (hr : r < n) :
    (legsOf n r p i).length = nlegsIn n p i := by
  unfold legsOf nlegsIn
  split
  · rename_i h
    have h1 : 0 < i := h.1
    have h2 : i + 1 < n := by omega
    simp [h1, h2]; omega
  · simp

theorem toChild_eq (x : MNode) (cid pleg : Nat) (h : pleg = x.nvirt) (h2 : pleg < x.legs.length) :
    x.toChild cid pleg = ⟨x.id, x.parent, x.children ++ [cid], x.legs⟩ := by
  unfold MNode.toChild
  subst h
  rw [popInsert_self _ _ h2]

theorem stateAt_find (n r : Nat) (p : Nat → Nat) (lo hi i : Nat) (h1 : lo ≤ r) (h2 : r ≤ hi)
    (hi' : lo ≤ i ∧ i ≤ hi) :
    (stateAt n r p lo hi).find i = some (nodeAt n r p lo hi i) := by
  unfold MPT.find stateAt
  simp only
  rw [find_map_id _ _ (nodeAt_id n r p lo hi), if_pos ((mem_idsAt r lo hi i h1 h2).2 hi')]

/-- the child leg index used by the left loop is in range -/
theorem cleg_left_lt (n : Nat) (p : Nat → Nat) (s : Nat) (h : s + 1 < n) :
    (if (s == 0) = true then 0 else 1) < nlegsIn n p s := by
  unfold nlegsIn
  by_cases h0 : s = 0
  · subst h0; simp [h]; omega
  · have : 0 < s := by omega
    simp [h0, h, this]; omega

/-- leg order of a freshly attached left node -/
theorem legs_left (n r : Nat) (p : Nat → Nat) (s : Nat) (hs : s < r) (hr : r < n) :
    popInsert (List.range (nlegsIn n p s)) (if (s == 0) = true then 0 else 1) 0 = legsOf n r p s := by
  unfold legsOf nlegsIn
  by_cases h0 : s = 0
  · subst h0
    have : 1 < n := by omega
    simp only [beq_self_eq_true, if_true, Nat.lt_irrefl, false_and, if_false]
    rw [popInsert_self _ _ (by simp [this]; omega)]
  · have e : 0 < s ∧ s < r := by omega
    have e2 : ¬ (s == 0) = true := by simp [h0]
    have e3 : s + 1 < n := by omega
    have e4 : 0 < s := by omega
    simp only [e, e2, e3, if_true, and_self, Bool.false_eq_true, if_false]
    have : 1 + 1 + p s = 2 + p s := by omega
    rw [this, popInsert_range_one_zero]

/-- leg order of a freshly attached right node -/
theorem legs_right (n r : Nat) (p : Nat → Nat) (s : Nat) (hs : r < s) :
    popInsert (List.range (nlegsIn n p s)) 0 0 = legsOf n r p s := by
  have e : ¬ (0 < s ∧ s < r) := by omega
  unfold legsOf
  rw [if_neg e, popInsert_self]
  unfold nlegsIn
  have : 0 < s := by omega
  simp [this]; omega


/-- one pass of the left loop: site `lo` is attached when `lo + 1 … r` are present -/
theorem attachLeft_step (n r : Nat) (p : Nat → Nat) (lo : Nat) (hr : r < n) (hlo : lo < r) :
    attachLeft (stateAt n r p (lo + 1) r) lo (nlegsIn n p lo) (lo == 0) =
      some (stateAt n r p lo r) := by
  have hleft : lo :: List.range' (lo + 1) (r - (lo + 1)) = List.range' lo (r - lo) := by
    have : r - lo = (r - (lo + 1)) + 1 := by omega
    rw [this, List.range'_succ]
  -- the parent is the root (first pass) or the current left end; in both cases the same closed step
  have key : ∀ pid pleg, pid = lo + 1 → pleg = (nodeAt n r p (lo + 1) r (lo + 1)).nvirt →
      addChild (stateAt n r p (lo + 1) r) lo (nlegsIn n p lo) (if (lo == 0) = true then 0 else 1)
        pid pleg = some ⟨(idsAt r (lo + 1) r ++ [lo]).map (nodeAt n r p lo r), r,
          List.range' (lo + 1) (r - (lo + 1)), List.range' (r + 1) (r - r)⟩ := by
    intro pid pleg hpid hpleg
    subst hpid
    have hnv : (nodeAt n r p (lo + 1) r (lo + 1)).nvirt = if lo + 1 < r then 1 else 0 := by
      by_cases h : lo + 1 < r
      · simp [nodeAt, MNode.nvirt, h]
      · have : lo + 1 = r := by omega
        simp [nodeAt, MNode.nvirt, this]
    have hlen : pleg < (nodeAt n r p (lo + 1) r (lo + 1)).legs.length := by
      show pleg < (legsOf n r p (lo + 1)).length
      rw [legsOf_length n r p _ hr, hpleg, hnv]
      unfold nlegsIn
      by_cases h : lo + 1 < r
      · have : lo + 1 + 1 < n := by omega
        simp [h, this]; omega
      · simp [h]; omega
    refine addChild_closed (idsAt r (lo + 1) r) (nodeAt n r p (lo + 1) r) (nodeAt n r p lo r) r
      _ _ lo _ _ (lo + 1) pleg (nodeAt_id n r p (lo + 1) r)
      ((mem_idsAt r (lo + 1) r (lo + 1) (by omega) (by omega)).2 (by omega))
      (fun h => by have := (mem_idsAt r (lo + 1) r _ (by omega) (by omega)).1 h; omega)
      (cleg_left_lt n p lo (by omega)) (Nat.le_of_eq hpleg.symm) hlen ?_ ?_
    · intro i hi
      have hi' := (mem_idsAt r (lo + 1) r i (by omega) (by omega)).1 hi
      by_cases hik : i = lo + 1
      · subst hik
        rw [if_pos rfl, toChild_eq _ _ _ hpleg hlen]
        simp only [nodeAt, MNode.mk.injEq, true_and, and_true]
        by_cases h : lo + 1 < r
        · simp [h]
        · have : lo + 1 = r := by omega
          simp [this]
          rw [if_pos hlo]
          congr 1
          omega
      · rw [if_neg hik]
        simp only [nodeAt, MNode.mk.injEq, true_and, and_true]
        by_cases hir : i < r
        · have a : lo + 1 < i := by omega
          have b : lo < i := by omega
          simp [hir, a, b]
        · have : i = r := by omega
          subst this
          have a : lo + 1 < i := by omega
          have b : lo < i := by omega
          simp [a, b]
    · simp only [nodeAt, MNode.mk.injEq, true_and]
      refine ⟨?_, ?_, ?_⟩
      · simp [hlo]
      · simp [hlo]
      · exact (legs_left n r p lo hlo hr).symm
  unfold attachLeft
  by_cases h1 : lo + 1 = r
  · -- first pass: attach to the root, at leg `len(children)`
    have hl : (stateAt n r p (lo + 1) r).left = [] := by
      show List.range' (lo + 1) (r - (lo + 1)) = []
      have : r - (lo + 1) = 0 := by omega
      rw [this]; rfl
    have hfind := stateAt_find n r p (lo + 1) r r (by omega) (by omega) (by omega)
    have hroot : (stateAt n r p (lo + 1) r).root = r := rfl
    have hch : (nodeAt n r p (lo + 1) r r).children.length = 0 := by
      simp [nodeAt, h1]
    simp only [hl, List.head?_nil, hroot, hfind, Option.map_some, hch]
    have := key r 0 h1.symm (by simp [nodeAt, MNode.nvirt, h1])
    rw [this]
    simp only [Option.map_some, stateAt]
    rw [idsAt_left r lo hlo, ← hleft]
  · have hhead : (stateAt n r p (lo + 1) r).left.head? = some (lo + 1) := by
      show (List.range' (lo + 1) (r - (lo + 1))).head? = _
      rw [List.head?_range']
      have : ¬ r - (lo + 1) = 0 := by omega
      simp [this]
    simp only [hhead]
    have := key (lo + 1) 1 rfl (by
      have : lo + 1 < r := by omega
      simp [nodeAt, MNode.nvirt, this])
    rw [this]
    simp only [Option.map_some, stateAt]
    rw [idsAt_left r lo hlo, ← hleft]


/-- one pass of the right loop: site `hi + 1` is attached when `lo … hi` are present -/
theorem attachRight_step (n r : Nat) (p : Nat → Nat) (lo hi : Nat) (h1 : lo ≤ r) (h2 : r ≤ hi)
    (h3 : hi + 1 < n) (h4 : r < hi ∨ lo < r) :
    attachRight (stateAt n r p lo hi) (hi + 1) (nlegsIn n p (hi + 1)) =
      some (stateAt n r p lo (hi + 1)) := by
  have hr : r < n := by omega
  have hright : List.range' (r + 1) (hi - r) ++ [hi + 1] = List.range' (r + 1) (hi + 1 - r) := by
    have e : hi + 1 - r = (hi - r) + 1 := by omega
    rw [e, List.range'_concat]
    congr 2
    omega
  -- the parent is `hi` (the root when `hi = r`, else the right end); the connected leg is 1 = nvirt
  have hlast : (stateAt n r p lo hi).right.getLast? = if hi - r = 0 then none else some hi := by
    show (List.range' (r + 1) (hi - r)).getLast? = _
    rw [List.getLast?_range']
    by_cases h : hi - r = 0
    · simp [h]
    · rw [if_neg h, if_neg h]
      congr 1
      omega
  have hnv : (nodeAt n r p lo hi hi).nvirt = 1 := by
    by_cases h : r < hi
    · have a : ¬ hi < r := by omega
      simp [nodeAt, MNode.nvirt, h, a]
    · have : hi = r := by omega
      subst this
      have : lo < hi := by omega
      simp [nodeAt, MNode.nvirt, this]
  have hlen : 1 < (nodeAt n r p lo hi hi).legs.length := by
    show 1 < (legsOf n r p hi).length
    rw [legsOf_length n r p _ hr]
    unfold nlegsIn
    have : 0 < hi := by omega
    simp [this, h3]; omega
  have key := addChild_closed (idsAt r lo hi) (nodeAt n r p lo hi) (nodeAt n r p lo (hi + 1)) r
      (List.range' lo (r - lo)) (List.range' (r + 1) (hi - r)) (hi + 1) (nlegsIn n p (hi + 1)) 0 hi 1
      (nodeAt_id n r p lo hi)
      ((mem_idsAt r lo hi hi h1 h2).2 (by omega))
      (fun h => by have := (mem_idsAt r lo hi _ h1 h2).1 h; omega)
      (by unfold nlegsIn; simp; omega) (Nat.le_of_eq hnv) hlen
      (by
        intro i hi'
        have hi'' := (mem_idsAt r lo hi i h1 h2).1 hi'
        by_cases hik : i = hi
        · subst hik
          rw [if_pos rfl, toChild_eq _ _ _ hnv.symm hlen]
          simp only [nodeAt, MNode.mk.injEq, true_and, and_true]
          by_cases h : r < i
          · have a : ¬ i < r := by omega
            simp [h, a]
          · have : i = r := by omega
            subst this
            simp
        · rw [if_neg hik]
          simp only [nodeAt, MNode.mk.injEq, true_and, and_true]
          by_cases hir : i < r
          · simp [hir]
          · by_cases hri : r < i
            · have a : i < hi := by omega
              have b : i < hi + 1 := by omega
              simp [hir, hri, a, b]
            · have : i = r := by omega
              subst this
              have a : i < hi := by omega
              have b : i < hi + 1 := by omega
              simp [a, b])
      (by
        simp only [nodeAt, MNode.mk.injEq, true_and]
        have a : ¬ hi + 1 < r := by omega
        have b : r < hi + 1 := by omega
        refine ⟨?_, ?_, ?_⟩
        · simp [a, b]
        · simp [a, b]
        · exact (legs_right n r p (hi + 1) b).symm)
  have key' : addChild (stateAt n r p lo hi) (hi + 1) (nlegsIn n p (hi + 1)) 0 hi 1 = _ := key
  unfold attachRight
  rw [hlast]
  by_cases h : hi - r = 0
  · have e : (stateAt n r p lo hi).root = hi := by show r = hi; omega
    simp only [h, if_true, e]
    rw [key']
    simp only [Option.map_some, stateAt]
    rw [idsAt_right r lo hi h2, hright]
  · simp only [h, if_false]
    rw [key']
    simp only [Option.map_some, stateAt]
    rw [idsAt_right r lo hi h2, hright]

theorem addRoot_eq (n r : Nat) (p : Nat → Nat) : addRoot r (nlegsIn n p r) = stateAt n r p r r := by
  simp [addRoot, stateAt, idsAt, nodeAt, legsOf]

theorem leftLoop (n r : Nat) (p : Nat → Nat) (hr : r < n) (j : Nat) (hj : j ≤ r) :
    (List.range j).foldl
      (fun acc i => acc.bind fun st =>
        let site := r - 1 - i
        attachLeft st site (nlegsIn n p site) (site == 0)) (some (stateAt n r p r r)) =
      some (stateAt n r p (r - j) r) := by
  induction j with
  | zero => simp
  | succ j ih =>
    rw [List.range_succ, List.foldl_append, ih (by omega)]
    simp only [List.foldl_cons, List.foldl_nil, Option.bind_some]
    have e : r - j = (r - 1 - j) + 1 := by omega
    rw [e, attachLeft_step n r p (r - 1 - j) hr (by omega)]
    congr 2
    omega

theorem rightLoop (n r : Nat) (p : Nat → Nat) (lo hi0 : Nat) (h1 : lo ≤ r) (h2 : r ≤ hi0)
    (h4 : r < hi0 ∨ lo < r) (cnt : Nat) (hc : hi0 + cnt < n) :
    (List.range cnt).foldl
      (fun acc i => acc.bind fun st =>
        let site := hi0 + 1 + i
        attachRight st site (nlegsIn n p site)) (some (stateAt n r p lo hi0)) =
      some (stateAt n r p lo (hi0 + cnt)) := by
  induction cnt with
  | zero => simp
  | succ c ih =>
    rw [List.range_succ, List.foldl_append, ih (by omega)]
    simp only [List.foldl_cons, List.foldl_nil, Option.bind_some]
    have e : hi0 + 1 + c = (hi0 + c) + 1 := by omega
    rw [e, attachRight_step n r p lo (hi0 + c) h1 (by omega) (by omega) (by omega)]
    congr 2


theorem leftmost_first (n : Nat) (p : Nat → Nat) (hn : 2 ≤ n) :
    addChild (stateAt n 0 p 0 0) 1 (nlegsIn n p 1) 0 0 0 =
      some ⟨(idsAt 0 0 0 ++ [1]).map (nodeAt n 0 p 0 1), 0, List.range' 0 (0 - 0),
        List.range' (0 + 1) (0 - 0)⟩ := by
  refine addChild_closed (idsAt 0 0 0) (nodeAt n 0 p 0 0) (nodeAt n 0 p 0 1) 0 _ _ 1 _ 0 0 0
    (nodeAt_id n 0 p 0 0) (by simp [idsAt]) (by simp [idsAt]) (by unfold nlegsIn; simp; omega)
    (by simp [nodeAt, MNode.nvirt]) ?_ ?_ ?_
  · show 0 < (legsOf n 0 p 0).length
    rw [legsOf_length n 0 p 0 (by omega)]
    unfold nlegsIn
    have : 0 + 1 < n := by omega
    simp [this]; omega
  · intro i hi
    have : i = 0 := by simpa [idsAt] using hi
    subst this
    rw [if_pos rfl, toChild_eq _ _ _ (by simp [nodeAt, MNode.nvirt])]
    · simp [nodeAt]
    · show 0 < (legsOf n 0 p 0).length
      rw [legsOf_length n 0 p 0 (by omega)]
      unfold nlegsIn
      have : 0 + 1 < n := by omega
      simp [this]; omega
  · simp only [nodeAt, MNode.mk.injEq, true_and]
    refine ⟨by simp, by simp, ?_⟩
    exact (legs_right n 0 p 1 (by omega)).symm

/-- closed form of the whole construction -/
theorem fromTensorList_closed (n r : Nat) (p : Nat → Nat) (hn : 2 ≤ n) (hr : r < n) :
    fromTensorList n r p = some (stateAt n r p 0 (n - 1)) := by
  unfold fromTensorList
  rw [if_neg (by omega)]
  by_cases h0 : r = 0
  · subst h0
    rw [if_pos rfl]
    unfold leftmost
    rw [if_neg (by omega)]
    simp only
    rw [addRoot_eq, if_pos (by omega), leftmost_first n p hn]
    simp only [Option.map_some]
    have hst : (⟨(idsAt 0 0 0 ++ [1]).map (nodeAt n 0 p 0 1), 0, List.range' 0 (0 - 0),
        List.range' (0 + 1) (0 - 0) ++ [1]⟩ : MPT) = stateAt n 0 p 0 1 := by
      simp [stateAt, idsAt]
    rw [hst]
    have hfun : (fun (acc : Option MPT) (i : Nat) => acc.bind fun st =>
          attachRight st (i + 2) (nlegsIn n p (i + 2))) =
        (fun acc i => acc.bind fun st =>
          let site := 1 + 1 + i
          attachRight st site (nlegsIn n p site)) := by
      funext acc i
      have : i + 2 = 1 + 1 + i := by omega
      rw [this]
    rw [hfun, rightLoop n 0 p 0 1 (by omega) (by omega) (by omega) (n - 2) (by omega)]
    congr 2
    omega
  · rw [if_neg h0]
    simp only
    rw [addRoot_eq, leftLoop n r p hr r (Nat.le_refl r), Nat.sub_self,
      rightLoop n r p 0 r (by omega) (by omega) (by omega) (n - r - 1) (by omega)]
    congr 2
    omega

/-! ### reading the specification off the closed form -/

theorem axisName_inner (n i a : Nat) (h0 : 0 < i) (h1 : i + 1 < n) :
    axisName n i a = if a = 0 then .left else if a = 1 then .right else .phys (a - 2) := by
  unfold axisName
  rw [if_pos ⟨h0, h1⟩]

theorem axisName_first (n a : Nat) (h1 : 1 < n) :
    axisName n 0 a = if a = 0 then .right else .phys (a - 1) := by
  unfold axisName
  have e : ¬ (0 < 0 ∧ 0 + 1 < n) := by omega
  have e2 : 0 + 1 < n := by omega
  rw [if_neg e, if_neg (Nat.lt_irrefl 0), if_pos e2]

theorem axisName_last (n i a : Nat) (h0 : 0 < i) (h1 : ¬ i + 1 < n) :
    axisName n i a = if a = 0 then .left else .phys (a - 1) := by
  unfold axisName
  have e : ¬ (0 < i ∧ i + 1 < n) := by omega
  rw [if_neg e, if_pos h0]

theorem map_phys_shift (f : Nat → Axis) (k m : Nat) (h : ∀ a, f (k + a) = Axis.phys a) :
    ((List.range m).map (k + ·)).map f = (List.range m).map Axis.phys := by
  rw [List.map_map]
  apply List.map_congr_left
  intro a _
  exact h a

theorem axis_inner (n i m : Nat) (h0 : 0 < i) (h1 : i + 1 < n) :
    (List.range (2 + m)).map (axisName n i) = .left :: .right :: (List.range m).map Axis.phys := by
  rw [List.range_add, List.map_append, map_phys_shift _ 2 m]
  · have : List.range 2 = [0, 1] := by decide
    rw [this]
    simp [axisName_inner n i _ h0 h1]
  · intro a
    rw [axisName_inner n i _ h0 h1, if_neg (by omega), if_neg (by omega)]
    congr 1
    omega

theorem axis_inner_swapped (n i m : Nat) (h0 : 0 < i) (h1 : i + 1 < n) :
    (1 :: 0 :: List.range' 2 m).map (axisName n i) =
      .right :: .left :: (List.range m).map Axis.phys := by
  rw [List.range'_eq_map_range, List.map_cons, List.map_cons, map_phys_shift _ 2 m]
  · simp [axisName_inner n i _ h0 h1]
  · intro a
    rw [axisName_inner n i _ h0 h1, if_neg (by omega), if_neg (by omega)]
    congr 1
    omega

theorem axis_first (n m : Nat) (h1 : 1 < n) :
    (List.range (1 + m)).map (axisName n 0) = .right :: (List.range m).map Axis.phys := by
  rw [List.range_add, List.map_append, map_phys_shift _ 1 m]
  · have : List.range 1 = [0] := by decide
    rw [this]
    simp [axisName_first n _ h1]
  · intro a
    rw [axisName_first n _ h1, if_neg (by omega)]
    congr 1
    omega

theorem axis_last (n i m : Nat) (h0 : 0 < i) (h1 : ¬ i + 1 < n) :
    (List.range (1 + m)).map (axisName n i) = .left :: (List.range m).map Axis.phys := by
  rw [List.range_add, List.map_append, map_phys_shift _ 1 m]
  · have : List.range 1 = [0] := by decide
    rw [this]
    simp [axisName_last n i _ h0 h1]
  · intro a
    rw [axisName_last n i _ h0 h1, if_neg (by omega)]
    congr 1
    omega

theorem legs_axis (n r : Nat) (p : Nat → Nat) (i : Nat) (hr : r < n) (hi : i < n) (hn : 2 ≤ n) :
    (legsOf n r p i).map (axisName n i) = chainLegs n r p i := by
  unfold legsOf chainLegs chainParent chainChildren nlegsIn toward
  by_cases h1 : i < r
  · by_cases h2 : 0 < i
    · -- inner site left of the root: input `[left, right, open…]`, stored `[right, left, open…]`
      have a : i + 1 < n := by omega
      have b : ¬ i + 1 < i := by omega
      have c : i - 1 < i := by omega
      rw [if_pos ⟨h2, h1⟩, axis_inner_swapped n i _ h2 a]
      simp [h1, h2, b, c]
    · have e : i = 0 := by omega
      subst e
      have a : 0 + 1 < n := by omega
      rw [if_neg (by omega), if_neg (Nat.lt_irrefl 0), if_pos a, Nat.zero_add,
        axis_first n _ (by omega)]
      simp [h1]
  · by_cases h2 : r < i
    · have z : 0 < i := by omega
      have c : i - 1 < i := by omega
      have b : ¬ i + 1 < i := by omega
      rw [if_neg (by omega), if_pos z]
      by_cases h3 : i + 1 < n
      · rw [if_pos h3, axis_inner n i _ z h3]
        simp [h1, h2, h3, b, c]
      · rw [if_neg h3, Nat.add_zero, axis_last n i _ z h3]
        simp [h1, h2, h3, c]
    · have e : i = r := by omega
      subst e
      rw [if_neg (by omega)]
      by_cases h3 : 0 < i <;> by_cases h4 : i + 1 < n
      · have c : i - 1 < i := by omega
        have b : ¬ i + 1 < i := by omega
        rw [if_pos h3, if_pos h4, axis_inner n i _ h3 h4]
        simp [h3, h4, b, c]
      · have c : i - 1 < i := by omega
        rw [if_pos h3, if_neg h4, Nat.add_zero, axis_last n i _ h3 h4]
        simp [h3, h4, c]
      · have z : i = 0 := by omega
        subst z
        rw [if_neg h3, if_pos h4, Nat.zero_add, axis_first n _ (by omega)]
        simp [h4]
      · omega

theorem nodup_reverse' {α : Type} (l : List α) (h : l.Nodup) : l.reverse.Nodup := by
  rw [List.Nodup, List.pairwise_reverse]
  exact List.Pairwise.imp (fun hab => Ne.symm hab) h

end Ptn.C19
