import Ptn.C14.Final
/-! The DFS augmentation `__add_augmenting_path`:
 * `dfs_total`  — the recursion depth never exceeds the fuel (distances strictly increase along the
                  recursion and are bounded by `inf_dist`),
 * `dfs_mono`   — matched left vertices stay matched,
 * `dfs_fail`   — a failed call proves that no layered path to NIL starts at its argument, and it
                  destroys no such path elsewhere: the completeness half needed for
                  "a successful BFS phase augments at least once". -/
namespace Ptn.C14

section
variable (g : Graph)

/-- all distances the algorithm reads are at most `inf` -/
def AllLe (s : HK) : Prop := ∀ x, Valid g x → s.dist x ≤ g.inf

theorem Frame.allLe {u : Nat} {s s' : HK} {r : Bool} (hf : Frame g u s r s') (h : AllLe g s) :
    AllLe g s' := by
  intro x hx
  rcases hf.dist x with h1 | ⟨_, h2, _⟩
  · rw [h1]; exact h x hx
  · rw [h2]; exact Nat.le_refl _

/-! ### matched left vertices stay matched -/

theorem dfsLoop_mono (rec : Option Nat → HK → Option (Bool × HK))
    (hrec : ∀ x s r s', rec x s = some (r, s') → ∀ a, s.mU a ≠ none → s'.mU a ≠ none) (u : Nat) :
    ∀ (vs : List Nat) (sk : HK) (r : Bool) (s' : HK), dfsLoop g rec u vs sk = some (r, s') →
      ∀ a, sk.mU a ≠ none → s'.mU a ≠ none := by
  intro vs
  induction vs with
  | nil =>
    intro sk r s' h a ha
    simp only [dfsLoop, Option.some.injEq, Prod.mk.injEq] at h
    obtain ⟨_, rfl⟩ := h
    exact ha
  | cons v vs ih =>
    intro sk r s' h a ha
    simp only [dfsLoop] at h
    split at h
    · split at h
      · exact absurd h (by simp)
      · rename_i s1 hr
        simp only [Option.some.injEq, Prod.mk.injEq] at h
        obtain ⟨_, rfl⟩ := h
        by_cases hau : a = u
        · subst hau; simp
        · simp only [upd_ne _ _ hau]; exact hrec _ _ _ _ hr a ha
      · rename_i s1 hr
        exact ih s1 r s' h a (hrec _ _ _ _ hr a ha)
    · exact ih sk r s' h a ha

theorem dfs_mono : ∀ (f : Nat) (x : Option Nat) (s : HK) (r : Bool) (s' : HK),
    dfs g f x s = some (r, s') → ∀ a, s.mU a ≠ none → s'.mU a ≠ none := by
  intro f
  induction f with
  | zero =>
    intro x s r s' h
    cases x with
    | none => simp only [dfs, Option.some.injEq, Prod.mk.injEq] at h; obtain ⟨_, rfl⟩ := h; exact fun _ h => h
    | some u => simp [dfs] at h
  | succ f ih =>
    intro x s r s' h
    cases x with
    | none => simp only [dfs, Option.some.injEq, Prod.mk.injEq] at h; obtain ⟨_, rfl⟩ := h; exact fun _ h => h
    | some u => simp only [dfs] at h; exact dfsLoop_mono g (dfs g f) ih u _ s r s' h

/-- a successful call matches its argument -/
theorem dfs_true_matched (f u : Nat) (s s' : HK) (hs : Consistent g s)
    (h : dfs g f (some u) s = some (true, s')) : s'.mU u ≠ none := by
  obtain ⟨b, hb, _⟩ := (dfs_aug g f u s s' hs h).new
  rw [hb]; simp

/-! ### fuel -/

theorem dfsLoop_total (f : Nat)
    (ih : ∀ (x : Option Nat) (s : HK), AllLe g s → (∀ v w, s.mV v = some w → w < g.nU) →
      Valid g x → g.inf + 1 ≤ f + s.dist x → ∃ r s', dfs g f x s = some (r, s'))
    (u : Nat) :
    ∀ (vs : List Nat) (sk : HK), AllLe g sk → (∀ v w, sk.mV v = some w → w < g.nU) →
      g.inf ≤ f + sk.dist (some u) → ∃ r s', dfsLoop g (dfs g f) u vs sk = some (r, s') := by
  intro vs
  induction vs with
  | nil => intro sk _ _ _; exact ⟨_, _, rfl⟩
  | cons v vs ihl =>
    intro sk hle hmV hfuel
    simp only [dfsLoop]
    split
    · rename_i hcond
      have hval : Valid g (sk.mV v) := by
        cases hx : sk.mV v with
        | none => trivial
        | some w => exact hmV v w hx
      obtain ⟨r, s1, hr⟩ := ih (sk.mV v) sk hle hmV hval (by omega)
      rw [hr]
      cases r with
      | true => exact ⟨_, _, rfl⟩
      | false =>
        simp only
        have hfx := dfs_frame g f _ _ _ _ hr
        cases hx : sk.mV v with
        | none => rw [hx] at hfx; exact absurd hfx.1 (by simp)
        | some w =>
          rw [hx] at hfx
          have hfx : Frame g w sk false s1 := hfx
          apply ihl s1 (hfx.allLe g hle)
          · rw [(hfx.fail rfl).2]; exact hmV
          · rcases hfx.dist (some u) with h1 | ⟨_, h2, _⟩
            · rw [h1]; exact hfuel
            · rw [h2]; omega
    · exact ihl sk hle hmV hfuel

theorem dfs_total : ∀ (f : Nat) (x : Option Nat) (s : HK), AllLe g s →
    (∀ v w, s.mV v = some w → w < g.nU) → Valid g x → g.inf + 1 ≤ f + s.dist x →
    ∃ r s', dfs g f x s = some (r, s') := by
  intro f
  induction f with
  | zero =>
    intro x s hle _ hx hfuel
    cases x with
    | none => exact ⟨_, _, rfl⟩
    | some u => have := hle (some u) hx; omega
  | succ f ih =>
    intro x s hle hmV hx hfuel
    cases x with
    | none => exact ⟨_, _, rfl⟩
    | some u =>
      simp only [dfs]
      exact dfsLoop_total g f ih u (g.nbrU u) s hle hmV (by omega)

/-! ### layered paths and completeness of the DFS -/

/-- A path to NIL that the DFS accepts in state `s`: each step goes from a left vertex `u` over an
    edge `(u, v)` to the partner of `v` (or NIL), one layer further. -/
inductive Path (s : HK) : Option Nat → Prop
  | nil : Path s none
  | step (u v : Nat) : v ∈ g.nbrU u → s.dist (s.mV v) = s.dist (some u) + 1 → Path s (s.mV v) →
      Path s (some u)

/-- `sk` differs from `s` only in distances of vertices from which no path starts. -/
structure PathPres (s sk : HK) : Prop where
  mU : sk.mU = s.mU
  mV : sk.mV = s.mV
  dist : ∀ y, sk.dist y ≠ s.dist y → ¬ Path g s y

theorem PathPres.refl (s : HK) : PathPres g s s := ⟨rfl, rfl, fun _ h => absurd rfl h⟩

theorem PathPres.path {s sk : HK} (h : PathPres g s sk) {y : Option Nat} (hp : Path g s y) :
    Path g sk y := by
  induction hp with
  | nil => exact Path.nil
  | step u v hv hc hp ih =>
    have hu : Path g s (some u) := Path.step u v hv hc hp
    have e1 : sk.dist (some u) = s.dist (some u) :=
      Classical.byContradiction fun hne => h.dist _ hne hu
    have e2 : sk.dist (s.mV v) = s.dist (s.mV v) :=
      Classical.byContradiction fun hne => h.dist _ hne hp
    have e3 : sk.mV v = s.mV v := congrFun h.mV v
    apply Path.step u v hv
    · rw [e3, e1, e2]; exact hc
    · rw [e3]; exact ih

theorem PathPres.trans {s sk s1 : HK} (h1 : PathPres g s sk) (h2 : PathPres g sk s1) :
    PathPres g s s1 := by
  refine ⟨h2.mU.trans h1.mU, h2.mV.trans h1.mV, ?_⟩
  intro y hne hp
  by_cases hk : sk.dist y = s.dist y
  · exact h2.dist y (by rw [hk]; exact hne) (h1.path g hp)
  · exact h1.dist y hk hp

theorem dfsLoop_fail (rec : Option Nat → HK → Option (Bool × HK))
    (hrec : ∀ x s s1, rec x s = some (false, s1) → ¬ Path g s x ∧ PathPres g s s1)
    (u : Nat) (s : HK) :
    ∀ (vs : List Nat) (sk s' : HK), (∀ v ∈ vs, v ∈ g.nbrU u) → PathPres g s sk →
      dfsLoop g rec u vs sk = some (false, s') →
      (∀ v ∈ vs, ¬ (s.dist (s.mV v) = s.dist (some u) + 1 ∧ Path g s (s.mV v))) ∧
      s'.mU = s.mU ∧ s'.mV = s.mV ∧ ∀ y, y ≠ some u → s'.dist y ≠ s.dist y → ¬ Path g s y := by
  intro vs
  induction vs with
  | nil =>
    intro sk s' _ hpp h
    simp only [dfsLoop, Option.some.injEq, Prod.mk.injEq, true_and] at h
    subst h
    refine ⟨by simp, hpp.mU, hpp.mV, ?_⟩
    intro y hy hne
    simp only [upd_ne _ _ hy] at hne
    exact hpp.dist y hne
  | cons v vs ih =>
    intro sk s' hvs hpp h
    have hvs' : ∀ b ∈ vs, b ∈ g.nbrU u := fun b hb => hvs b (List.mem_cons_of_mem _ hb)
    simp only [dfsLoop] at h
    split at h
    · rename_i hcond
      split at h
      · exact absurd h (by simp)
      · simp at h
      · rename_i s1 hr
        obtain ⟨hnp, hpp1⟩ := hrec _ _ _ hr
        obtain ⟨h1, h2⟩ := ih s1 s' hvs' (hpp.trans g hpp1) h
        refine ⟨?_, h2⟩
        intro b hb
        rcases List.mem_cons.1 hb with rfl | hb
        · rintro ⟨_, hp⟩
          apply hnp
          rw [congrFun hpp.mV b]
          exact hpp.path g hp
        · exact h1 b hb
    · rename_i hcond
      obtain ⟨h1, h2⟩ := ih sk s' hvs' hpp h
      refine ⟨?_, h2⟩
      intro b hb
      rcases List.mem_cons.1 hb with rfl | hb
      · rintro ⟨hc, hp⟩
        apply hcond
        have hu : Path g s (some u) := Path.step u b (hvs b (List.mem_cons_self ..)) hc hp
        have e1 : sk.dist (some u) = s.dist (some u) :=
          Classical.byContradiction fun hne => hpp.dist _ hne hu
        have e2 : sk.dist (s.mV b) = s.dist (s.mV b) :=
          Classical.byContradiction fun hne => hpp.dist _ hne hp
        rw [congrFun hpp.mV b, e1, e2]; exact hc
      · exact h1 b hb

/-- A failed call certifies that no layered path starts at its argument and destroys none. -/
theorem dfs_fail : ∀ (f : Nat) (x : Option Nat) (s s1 : HK), dfs g f x s = some (false, s1) →
    ¬ Path g s x ∧ PathPres g s s1 := by
  intro f
  induction f with
  | zero =>
    intro x s s1 h
    cases x with
    | none => simp [dfs] at h
    | some u => simp [dfs] at h
  | succ f ih =>
    intro x s s1 h
    cases x with
    | none => simp [dfs] at h
    | some u =>
      simp only [dfs] at h
      obtain ⟨h1, e1, e2, h2⟩ := dfsLoop_fail g (dfs g f) ih u s (g.nbrU u) s s1 (fun _ h => h)
        (PathPres.refl g s) h
      have hnp : ¬ Path g s (some u) := by
        intro hp
        cases hp with
        | step _ v hv hc hp' => exact h1 v hv ⟨hc, hp'⟩
      refine ⟨hnp, e1, e2, ?_⟩
      intro y hne
      by_cases hy : y = some u
      · subst hy; exact hnp
      · exact h2 y hy hne

end
end Ptn.C14
