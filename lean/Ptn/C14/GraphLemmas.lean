import Ptn.C14.Spec
/-! Graph construction: `mkGraph` yields a well-formed graph whose edges are the given entries. -/
namespace Ptn.C14

theorem addTo_length (l : List (List Nat)) (i x : Nat) : (addTo l i x).length = l.length := by
  unfold addTo; split <;> simp

theorem addTo_getD (l : List (List Nat)) (i x j : Nat) :
    (addTo l i x).getD j [] =
      if j = i ∧ i < l.length ∧ x ∉ l.getD i [] then l.getD i [] ++ [x] else l.getD j [] := by
  unfold addTo
  by_cases hx : x ∈ l.getD i []
  · rw [if_pos hx, if_neg (fun h => h.2.2 hx)]
  · rw [if_neg hx]
    by_cases hji : j = i
    · subst hji
      by_cases hlt : j < l.length
      · rw [if_pos ⟨rfl, hlt, hx⟩]
        simp [List.getD_eq_getElem?_getD, hlt]
      · rw [if_neg (fun h => hlt h.2.1)]
        simp [List.getD_eq_getElem?_getD, hlt]
    · rw [if_neg (fun h => hji h.1)]
      have : ¬ i = j := fun h => hji h.symm
      simp [List.getD_eq_getElem?_getD, this]

theorem mem_addTo_getD (l : List (List Nat)) (i x j y : Nat) :
    y ∈ (addTo l i x).getD j [] ↔ y ∈ l.getD j [] ∨ (j = i ∧ y = x ∧ i < l.length) := by
  rw [addTo_getD]
  by_cases hc : j = i ∧ i < l.length ∧ x ∉ l.getD i []
  · rw [if_pos hc]
    rcases hc with ⟨rfl, hlt, hx⟩
    simp [hlt]
  · rw [if_neg hc]
    constructor
    · exact Or.inl
    · rintro (h | ⟨rfl, rfl, hlt⟩)
      · exact h
      · have : y ∈ l.getD j [] := by
          apply Classical.byContradiction
          intro hn
          exact hc ⟨rfl, hlt, hn⟩
        exact this

theorem nodup_addTo_getD (l : List (List Nat)) (i x j : Nat) (h : (l.getD j []).Nodup) :
    ((addTo l i x).getD j []).Nodup := by
  rw [addTo_getD]
  split
  · rename_i hc
    rcases hc with ⟨rfl, _, hx⟩
    rw [List.nodup_append]
    refine ⟨h, by simp, ?_⟩
    intro a ha b hb
    simp at hb
    subst hb
    intro hab
    exact hx (hab ▸ ha)
  · exact h

theorem addEdge_nU (g : Graph) (u v : Nat) : (g.addEdge u v).nU = g.nU := rfl
theorem addEdge_nV (g : Graph) (u v : Nat) : (g.addEdge u v).nV = g.nV := rfl

theorem mem_nbrU_addEdge (g : Graph) (u v a b : Nat) :
    b ∈ (g.addEdge u v).nbrU a ↔ b ∈ g.nbrU a ∨ (a = u ∧ b = v ∧ u < g.adjU.length) := by
  simp only [Graph.nbrU, Graph.addEdge]; exact mem_addTo_getD ..

theorem mem_nbrV_addEdge (g : Graph) (u v a b : Nat) :
    a ∈ (g.addEdge u v).nbrV b ↔ a ∈ g.nbrV b ∨ (b = v ∧ a = u ∧ v < g.adjV.length) := by
  simp only [Graph.nbrV, Graph.addEdge]; exact mem_addTo_getD ..

/-- The invariant of the construction loop: everything in `WF` except positivity. -/
structure Graph.WF0 (g : Graph) : Prop where
  lenU : g.adjU.length = g.nU
  lenV : g.adjV.length = g.nV
  sym : ∀ u v, v ∈ g.nbrU u ↔ u ∈ g.nbrV v
  rng : ∀ u v, v ∈ g.nbrU u → u < g.nU ∧ v < g.nV
  nodupU : ∀ u, (g.nbrU u).Nodup
  nodupV : ∀ v, (g.nbrV v).Nodup

theorem empty_wf0 (nU nV : Nat) : (Graph.empty nU nV).WF0 := by
  have hU : ∀ u, (Graph.empty nU nV).nbrU u = [] := by
    intro u; simp [Graph.nbrU, Graph.empty, List.getD_eq_getElem?_getD, List.getElem?_replicate]
    split <;> rfl
  have hV : ∀ v, (Graph.empty nU nV).nbrV v = [] := by
    intro v; simp [Graph.nbrV, Graph.empty, List.getD_eq_getElem?_getD, List.getElem?_replicate]
    split <;> rfl
  refine ⟨by simp [Graph.empty], by simp [Graph.empty], ?_, ?_, ?_, ?_⟩
  · intro u v; simp [hU, hV]
  · intro u v h; simp [hU] at h
  · intro u; simp [hU]
  · intro v; simp [hV]

theorem addEdge_wf0 (g : Graph) (h : g.WF0) (u v : Nat) (hu : u < g.nU) (hv : v < g.nV) :
    (g.addEdge u v).WF0 := by
  refine ⟨?_, ?_, ?_, ?_, ?_, ?_⟩
  · simp [Graph.addEdge, addTo_length, h.lenU]
  · simp [Graph.addEdge, addTo_length, h.lenV]
  · intro a b
    rw [mem_nbrU_addEdge, mem_nbrV_addEdge, h.sym a b, h.lenU, h.lenV]
    constructor
    · rintro (h1 | ⟨rfl, rfl, _⟩)
      · exact Or.inl h1
      · exact Or.inr ⟨rfl, rfl, hv⟩
    · rintro (h1 | ⟨rfl, rfl, _⟩)
      · exact Or.inl h1
      · exact Or.inr ⟨rfl, rfl, hu⟩
  · intro a b hab
    rw [mem_nbrU_addEdge] at hab
    rcases hab with h1 | ⟨rfl, rfl, _⟩
    · exact h.rng a b h1
    · exact ⟨hu, hv⟩
  · intro a; simp only [Graph.nbrU, Graph.addEdge]; exact nodup_addTo_getD _ _ _ _ (h.nodupU a)
  · intro b; simp only [Graph.nbrV, Graph.addEdge]; exact nodup_addTo_getD _ _ _ _ (h.nodupV b)

theorem addEdges_spec (es : List (Nat × Nat)) : ∀ (g g' : Graph), g.WF0 → addEdges g es = some g' →
    g'.WF0 ∧ g'.nU = g.nU ∧ g'.nV = g.nV ∧ (∀ p ∈ es, p.1 < g.nU ∧ p.2 < g.nV) ∧
    (∀ u v, v ∈ g'.nbrU u ↔ v ∈ g.nbrU u ∨ (u, v) ∈ es) := by
  induction es with
  | nil =>
    intro g g' h heq
    simp only [addEdges, Option.some.injEq] at heq
    subst heq
    exact ⟨h, rfl, rfl, by simp, by simp⟩
  | cons e es ih =>
    intro g g' h heq
    obtain ⟨u, v⟩ := e
    simp only [addEdges] at heq
    split at heq
    · rename_i hr
      have := ih (g.addEdge u v) g' (addEdge_wf0 g h u v hr.1 hr.2) heq
      obtain ⟨w, e1, e2, hall, hmem⟩ := this
      rw [addEdge_nU] at e1
      rw [addEdge_nV] at e2
      refine ⟨w, e1, e2, ?_, ?_⟩
      · intro p hp
        rcases List.mem_cons.1 hp with rfl | hp
        · exact hr
        · exact hall p hp
      · intro a b
        rw [hmem, mem_nbrU_addEdge, h.lenU]
        constructor
        · rintro ((h1 | ⟨rfl, rfl, _⟩) | h2)
          · exact Or.inl h1
          · exact Or.inr (List.mem_cons_self ..)
          · exact Or.inr (List.mem_cons_of_mem _ h2)
        · rintro (h1 | h2)
          · exact Or.inl (Or.inl h1)
          · rcases List.mem_cons.1 h2 with h3 | h3
            · simp only [Prod.mk.injEq] at h3
              exact Or.inl (Or.inr ⟨h3.1, h3.2, h3.1 ▸ hr.1⟩)
            · exact Or.inr h3
    · exact absurd heq (by simp)

theorem addEdges_none (es : List (Nat × Nat)) : ∀ (g : Graph),
    (∀ p ∈ es, p.1 < g.nU ∧ p.2 < g.nV) → (addEdges g es).isSome := by
  induction es with
  | nil => intro g _; simp [addEdges]
  | cons e es ih =>
    intro g h
    obtain ⟨u, v⟩ := e
    have hr := h (u, v) (List.mem_cons_self ..)
    simp only [addEdges, hr.1, hr.2, and_self, if_true]
    apply ih
    intro p hp
    exact h p (List.mem_cons_of_mem _ hp)

theorem Graph.WF0.toWF {g : Graph} (h : g.WF0) (hU : 0 < g.nU) (hV : 0 < g.nV) : g.WF :=
  ⟨hU, hV, h.lenU, h.lenV, h.sym, h.rng, h.nodupU, h.nodupV⟩

theorem Graph.WF.nbrU_eq_nil {g : Graph} (h : g.WF) {u : Nat} (hu : g.nU ≤ u) : g.nbrU u = [] := by
  cases hl : g.nbrU u with
  | nil => rfl
  | cons v vs =>
    have := (h.rng u v (by rw [hl]; exact List.mem_cons_self ..)).1
    omega

end Ptn.C14
