import Ptn.C14.Termination
/-! Helper lemmas for C14 (core Lean only).  The bulk lives in
`Spec` (vocabulary), `Duality` (weak duality), `GraphLemmas` (construction), `Explore`
(alternating-path exploration), `Koenig` (cover loop), `Matching` (Hopcroft-Karp matching invariant), `Bfs` (layering, closure),
`Final` (exit state of the outer loop), `Dfs` (fuel, completeness of the DFS), `Termination`. -/
namespace Ptn.C14

theorem mem_edges (g : Graph) (u v : Nat) : (u, v) ∈ g.edges ↔ u < g.nU ∧ v ∈ g.nbrU u := by
  simp only [Graph.edges, List.mem_flatMap, List.mem_range, List.mem_map, Prod.mk.injEq]
  constructor
  · rintro ⟨a, ha, b, hb, rfl, rfl⟩; exact ⟨ha, hb⟩
  · rintro ⟨h1, h2⟩; exact ⟨u, h1, v, h2, rfl, rfl⟩

theorem certificateOk_iff (g : Graph) (M : List (Nat × Nat)) (cu cv : List Nat) :
    certificateOk g M cu cv = true ↔
      (∀ p ∈ M, p.2 ∈ g.nbrU p.1) ∧ (M.map Prod.fst).Nodup ∧ (M.map Prod.snd).Nodup ∧
      (∀ p ∈ g.edges, p.1 ∈ cu ∨ p.2 ∈ cv) ∧ (∀ u ∈ cu, u < g.nU) ∧ (∀ v ∈ cv, v < g.nV) ∧
      cu.length + cv.length = M.length := by
  simp only [certificateOk, Bool.and_eq_true, List.all_eq_true, List.contains_eq_mem,
    decide_eq_true_eq, Bool.or_eq_true]
  constructor
  · rintro ⟨⟨⟨⟨⟨⟨a, b⟩, c⟩, d⟩, e⟩, f⟩, h⟩; exact ⟨a, b, c, d, e, f, h⟩
  · rintro ⟨a, b, c, d, e, f, h⟩; exact ⟨⟨⟨⟨⟨⟨a, b⟩, c⟩, d⟩, e⟩, f⟩, h⟩

end Ptn.C14
