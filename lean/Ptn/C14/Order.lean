import Ptn.C14.Koenig
/-! Iteration-order independence of the Koenig part of `minimum_vertex_cover` (core Lean only):
the loop over the start set gives the same pair for every enumeration of the start set, and
`sorted(list(s))` does not depend on the enumeration of `s`. -/
namespace Ptn.C14

/-! ### strictly ascending lists are determined by their members -/

theorem sorted_ext {l₁ l₂ : List Nat} (h₁ : l₁.Pairwise (· < ·)) (h₂ : l₂.Pairwise (· < ·))
    (h : ∀ x, x ∈ l₁ ↔ x ∈ l₂) : l₁ = l₂ := by
  have hp : l₁.Perm l₂ :=
    (List.perm_ext_iff_of_nodup (nodup_of_sorted h₁) (nodup_of_sorted h₂)).2 h
  exact List.Perm.eq_of_pairwise (le := fun a b => a < b)
    (fun a b _ _ hab hba => absurd hab (Nat.lt_asymm hba)) h₁ h₂ hp

/-! ### `sorted(…)` -/

theorem insertSorted_perm (x : Nat) (l : List Nat) : (insertSorted x l).Perm (x :: l) := by
  induction l with
  | nil => exact List.Perm.refl _
  | cons y ys ih =>
    simp only [insertSorted]
    split
    · exact List.Perm.refl _
    · exact ((List.Perm.cons y ih).trans (List.Perm.swap x y ys))

theorem pySorted_perm (l : List Nat) : (pySorted l).Perm l := by
  induction l with
  | nil => exact List.Perm.refl _
  | cons x xs ih =>
    show (insertSorted x (pySorted xs)).Perm (x :: xs)
    exact (insertSorted_perm x _).trans (List.Perm.cons x ih)

theorem insertSorted_sorted (x : Nat) (l : List Nat) (h : l.Pairwise (· ≤ ·)) :
    (insertSorted x l).Pairwise (· ≤ ·) := by
  induction l with
  | nil => simp [insertSorted]
  | cons y ys ih =>
    rw [List.pairwise_cons] at h
    simp only [insertSorted]
    split
    · rename_i hxy
      rw [List.pairwise_cons]
      refine ⟨?_, List.pairwise_cons.2 h⟩
      intro b hb
      rcases List.mem_cons.1 hb with rfl | hb
      · exact hxy
      · exact Nat.le_trans hxy (h.1 b hb)
    · rename_i hxy
      rw [List.pairwise_cons]
      refine ⟨?_, ih h.2⟩
      intro b hb
      rcases List.mem_cons.1 ((insertSorted_perm x ys).subset hb) with rfl | hb
      · omega
      · exact h.1 b hb

theorem pySorted_sorted (l : List Nat) : (pySorted l).Pairwise (· ≤ ·) := by
  induction l with
  | nil => simp [pySorted]
  | cons x xs ih => exact insertSorted_sorted x _ ih

/-- Sorting any enumeration of a duplicate-free ascending list gives that list back. -/
theorem pySorted_eq_of_perm {l s : List Nat} (hs : s.Pairwise (· < ·)) (hp : l.Perm s) :
    pySorted l = s := by
  have h1 : (pySorted l).Perm s := (pySorted_perm l).trans hp
  have h2 : s.Pairwise (· ≤ ·) := hs.imp (fun h => Nat.le_of_lt h)
  exact List.Perm.eq_of_pairwise (le := fun a b => a ≤ b)
    (fun a b _ _ hab hba => Nat.le_antisymm hab hba) (pySorted_sorted l) h2 h1

/-! ### the concrete enumeration policies are enumerations -/

theorem rotate1_perm (l : List Nat) : (rotate1 l).Perm l := by
  cases l with
  | nil => exact List.Perm.refl _
  | cons x xs => exact List.perm_append_comm (l₁ := xs) (l₂ := [x])

theorem oddsFirst_perm (l : List Nat) : (oddsFirst l).Perm l :=
  List.filter_append_perm _ l

theorem policy_perm (k : Nat) (l : List Nat) : (policy k l).Perm l := by
  unfold policy
  split
  · exact List.Perm.refl _
  · exact List.reverse_perm l
  · exact rotate1_perm l
  · exact oddsFirst_perm l
  · exact (rotate1_perm _).trans ((List.reverse_perm _).trans (oddsFirst_perm l))

/-! ### the loop over the start set -/

section
variable (g : Graph) (M : List (Nat × Nat))

theorem coverLoop_none_iff : ∀ (us : List Nat) (c : List Nat × List Nat),
    coverLoop g M us c = none ↔ ∃ u ∈ us, explore g M g.exploreFuel u ⟨[], []⟩ = none := by
  intro us
  induction us with
  | nil => intro c; simp [coverLoop]
  | cons u us ih =>
    intro c
    obtain ⟨cu, cv⟩ := c
    simp only [coverLoop]
    cases hst : explore g M g.exploreFuel u ⟨[], []⟩ with
    | none => simp [hst]
    | some st =>
      simp only [ih, List.mem_cons, exists_eq_or_imp, hst]
      simp

theorem ZU_congr {us us' : List Nat} (h : ∀ x, x ∈ us ↔ x ∈ us') (x : Nat) :
    ZU g M us x ↔ ZU g M us' x := by
  constructor
  · rintro ⟨u, hu, r⟩; exact ⟨u, (h u).1 hu, r⟩
  · rintro ⟨u, hu, r⟩; exact ⟨u, (h u).2 hu, r⟩

theorem ZV_congr {us us' : List Nat} (h : ∀ x, x ∈ us ↔ x ∈ us') (y : Nat) :
    ZV g M us y ↔ ZV g M us' y := by
  constructor
  · rintro ⟨u, hu, r⟩; exact ⟨u, (h u).1 hu, r⟩
  · rintro ⟨u, hu, r⟩; exact ⟨u, (h u).2 hu, r⟩

/-- The `for u in alist` loop computes the same pair of sets for any two enumerations of the same
    start set (repetitions allowed), including the case that a fuel runs out. -/
theorem coverLoop_congr {us us' cu cv : List Nat} (h : ∀ x, x ∈ us ↔ x ∈ us')
    (hcu : cu.Pairwise (· < ·)) (hcv : cv.Pairwise (· < ·)) :
    coverLoop g M us (cu, cv) = coverLoop g M us' (cu, cv) := by
  cases h1 : coverLoop g M us (cu, cv) with
  | none =>
    obtain ⟨u, hu, hn⟩ := (coverLoop_none_iff g M us _).1 h1
    exact ((coverLoop_none_iff g M us' _).2 ⟨u, (h u).1 hu, hn⟩).symm
  | some r1 =>
    cases h2 : coverLoop g M us' (cu, cv) with
    | none =>
      obtain ⟨u, hu, hn⟩ := (coverLoop_none_iff g M us' _).1 h2
      rw [(coverLoop_none_iff g M us _).2 ⟨u, (h u).2 hu, hn⟩] at h1
      exact absurd h1 (by simp)
    | some r2 =>
      obtain ⟨a1, b1⟩ := r1
      obtain ⟨a2, b2⟩ := r2
      obtain ⟨m1, n1, s1, t1, _⟩ := coverLoop_spec g M _ _ _ _ _ h1
      obtain ⟨m2, n2, s2, t2, _⟩ := coverLoop_spec g M _ _ _ _ _ h2
      have e1 : a1 = a2 := sorted_ext (s1 hcu) (s2 hcu) (fun x => by
        rw [m1, m2, ZU_congr g M h])
      have e2 : b1 = b2 := sorted_ext (t1 hcv) (t2 hcv) (fun y => by
        rw [n1, n2, ZV_congr g M h])
      rw [e1, e2]

end
end Ptn.C14

namespace Ptn.C14

/-- A valid enumeration policy: every set is enumerated completely and without repetition. -/
def SetOrder.Valid (o : SetOrder) : Prop :=
  (∀ s, (o.alist s).Perm s) ∧ (∀ s, (o.ucover s).Perm s) ∧ (∀ s, (o.vcover s).Perm s)

theorem SetOrder.asc_valid : SetOrder.asc.Valid :=
  ⟨fun _ => List.Perm.refl _, fun _ => List.Perm.refl _, fun _ => List.Perm.refl _⟩

/-- The cover part for an arbitrary enumeration of the three sets equals the ascending one.
    Hypotheses are only needed at the sets that actually occur: the start set may even be
    enumerated with repetitions, the two result sets are enumerated exactly once each. -/
theorem coverOfOrd_eq (o : SetOrder) (g : Graph) (M : List (Nat × Nat))
    (ha : ∀ x, x ∈ o.alist (freeLeft g M) ↔ x ∈ freeLeft g M)
    (hu : ∀ cu cv, coverOf g M = .ok (cu, cv) → (o.ucover cu).Perm cu)
    (hv : ∀ cu cv, coverOf g M = .ok (cu, cv) → (o.vcover cv).Perm cv) :
    coverOfOrd o g M = coverOf g M := by
  have hloop := coverLoop_congr g M (cu := List.range g.nU) (cv := []) ha
    List.pairwise_lt_range (by simp)
  unfold coverOfOrd
  rw [hloop]
  cases hc : coverLoop g M (freeLeft g M) (List.range g.nU, []) with
  | none => simp [coverOf, hc]
  | some r =>
    obtain ⟨cu, cv⟩ := r
    obtain ⟨_, _, s1, t1, _⟩ := coverLoop_spec g M _ _ _ _ _ hc
    have hsu := s1 List.pairwise_lt_range
    have hsv := t1 (by simp)
    by_cases hlen : cu.length + cv.length = M.length
    · have hok : coverOf g M = .ok (cu, cv) := by simp [coverOf, hc, hlen]
      simp only [hlen, if_true]
      rw [pySorted_eq_of_perm hsu (hu cu cv hok), pySorted_eq_of_perm hsv (hv cu cv hok), hok]
    · simp [coverOf, hc, hlen]

theorem minimumVertexCoverOrd_eq (o : SetOrder) (ho : o.Valid) (g : Graph) :
    minimumVertexCoverOrd o g = minimumVertexCover g := by
  unfold minimumVertexCoverOrd minimumVertexCover
  cases hopcroftKarp g with
  | error e => rfl
  | ok M =>
    simp only
    rw [coverOfOrd_eq o g M (fun x => (ho.1 _).mem_iff) (fun cu _ _ => ho.2.1 cu)
      (fun _ cv _ => ho.2.2 cv)]

end Ptn.C14
