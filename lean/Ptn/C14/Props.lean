import Ptn.C14.Model
import Ptn.C14.Lemmas
import Ptn.C14.Canonical
/-! Property theorems for C14 (bipartite vertex cover).  Only property theorems and non-vacuity
examples live here; helper lemmas are in `Lemmas.lean` and the files it imports.

Vocabulary (`Spec.lean`): `g.edge u v` (`v` listed in `adj_u[u]`), `g.WF` (what the constructor
establishes), `IsMatching E M` (pairs are edges, no left / right vertex twice), `IsCover E cu cv`
(every edge has its left end in `cu` or its right end in `cv`).  All statements hold for every
graph: there is no bound on the number of vertices or edges. -/
namespace Ptn.C14

/-! ### (a) weak duality — independent of the algorithm -/

/-- L5: a matching is never larger than a vertex cover. -/
theorem weak_duality (E : Nat → Nat → Prop) (M : List (Nat × Nat)) (cu cv : List Nat)
    (hM : IsMatching E M) (hC : IsCover E cu cv) : M.length ≤ cu.length + cv.length :=
  weak_duality_aux E M cu cv hM hC

/-- If a matching and a cover have the same size, the matching is maximum and the cover minimum
    ("hence no smaller cover exists"). -/
theorem tight_pair_optimal (E : Nat → Nat → Prop) (M : List (Nat × Nat)) (cu cv : List Nat)
    (hM : IsMatching E M) (hC : IsCover E cu cv) (heq : cu.length + cv.length = M.length) :
    (∀ M', IsMatching E M' → M'.length ≤ M.length) ∧
    (∀ cu' cv', IsCover E cu' cv' → cu.length + cv.length ≤ cu'.length + cv'.length) := by
  constructor
  · intro M' hM'
    have := weak_duality E M' cu cv hM' hC
    omega
  · intro cu' cv' hC'
    have := weak_duality E M cu' cv' hM hC'
    omega

/-! ### graph construction -/

/-- `BipartiteGraph(num_u, num_v, edges)` succeeds exactly on non-empty sides and in-range entries … -/
theorem mkGraph_isSome_iff (nU nV : Nat) (es : List (Nat × Nat)) :
    (mkGraph nU nV es).isSome ↔ 0 < nU ∧ 0 < nV ∧ ∀ p ∈ es, p.1 < nU ∧ p.2 < nV := by
  unfold mkGraph
  by_cases h0 : nU = 0 ∨ nV = 0
  · rw [if_pos h0]
    simp only [Option.isSome_none, Bool.false_eq_true, false_iff]
    rintro ⟨h1, h2, _⟩
    omega
  · rw [if_neg h0]
    constructor
    · intro h
      cases hr : addEdges (Graph.empty nU nV) es with
      | none => rw [hr] at h; simp at h
      | some g' =>
        have := (addEdges_spec es _ g' (empty_wf0 nU nV) hr).2.2.2.1
        exact ⟨by omega, by omega, this⟩
    · rintro ⟨_, _, h⟩
      exact addEdges_none es _ h

/-- … and then yields a well-formed graph whose edges are exactly the given entries (a repeated
    entry counts once: adjacency lists are duplicate-free). -/
theorem mkGraph_spec (nU nV : Nat) (es : List (Nat × Nat)) (g : Graph)
    (h : mkGraph nU nV es = some g) :
    g.WF ∧ g.nU = nU ∧ g.nV = nV ∧ ∀ u v, g.edge u v ↔ (u, v) ∈ es := by
  unfold mkGraph at h
  split at h
  · exact absurd h (by simp)
  · rename_i h0
    obtain ⟨w, e1, e2, _, hmem⟩ := addEdges_spec es _ g (empty_wf0 nU nV) h
    have e1' : g.nU = nU := e1
    have e2' : g.nV = nV := e2
    refine ⟨w.toWF (by omega) (by omega), e1', e2', ?_⟩
    intro u v
    unfold Graph.edge
    rw [hmem]
    have : (Graph.empty nU nV).nbrU u = [] := by
      have := (empty_wf0 nU nV).rng u
      cases hl : (Graph.empty nU nV).nbrU u with
      | nil => rfl
      | cons b t =>
        exfalso
        simp [Graph.nbrU, Graph.empty, List.getD_eq_getElem?_getD, List.getElem?_replicate] at hl
        split at hl <;> simp at hl
    simp [this]

/-! ### checker-style theorem -/

/-- The decidable certificate evaluated by the driver on every model output is sound: it implies
    that `M` is a maximum matching and `(cu, cv)` a minimum vertex cover of existing vertices. -/
theorem certificate_sound (g : Graph) (hg : g.WF) (M : List (Nat × Nat)) (cu cv : List Nat)
    (h : certificateOk g M cu cv = true) :
    IsMatching g.edge M ∧ IsCover g.edge cu cv ∧
    (∀ u ∈ cu, u < g.nU) ∧ (∀ v ∈ cv, v < g.nV) ∧ cu.length + cv.length = M.length ∧
    (∀ M', IsMatching g.edge M' → M'.length ≤ M.length) ∧
    (∀ cu' cv', IsCover g.edge cu' cv' → cu.length + cv.length ≤ cu'.length + cv'.length) := by
  obtain ⟨h1, h2, h3, h4, h5, h6, h7⟩ := (certificateOk_iff g M cu cv).1 h
  have hM : IsMatching g.edge M := ⟨h1, h2, h3⟩
  have hC : IsCover g.edge cu cv := by
    intro u v huv
    exact h4 (u, v) ((mem_edges g u v).2 ⟨(hg.rng u v huv).1, huv⟩)
  obtain ⟨o1, o2⟩ := tight_pair_optimal g.edge M cu cv hM hC h7
  exact ⟨hM, hC, h5, h6, h7, o1, o2⟩

/-! ### (b) the Koenig construction -/

/-- For *every* valid matching `M` (maximum or not): if the cover part of `minimum_vertex_cover`
    returns normally, the two lists are strictly ascending, contain only existing vertices, touch
    every edge, and - because the code's own `assert` passed - have combined size `|M|`; hence `M`
    is maximum and the cover minimum. -/
theorem cover_ok_sound (g : Graph) (hg : g.WF) (M : List (Nat × Nat)) (hM : IsMatching g.edge M)
    (cu cv : List Nat) (h : coverOf g M = .ok (cu, cv)) :
    IsCover g.edge cu cv ∧ (∀ u ∈ cu, u < g.nU) ∧ (∀ v ∈ cv, v < g.nV) ∧
    cu.Pairwise (· < ·) ∧ cv.Pairwise (· < ·) ∧ cu.length + cv.length = M.length ∧
    (∀ M', IsMatching g.edge M' → M'.length ≤ M.length) ∧
    (∀ cu' cv', IsCover g.edge cu' cv' → cu.length + cv.length ≤ cu'.length + cv'.length) := by
  unfold coverOf at h
  split at h
  · exact absurd h (by simp)
  · rename_i cu0 cv0 hloop
    split at h
    · rename_i hlen
      simp only [Except.ok.injEq, Prod.mk.injEq] at h
      obtain ⟨rfl, rfl⟩ := h
      obtain ⟨_, _, s1, s2, _, hC, r1, r2⟩ := coverLoop_cover g M hg hM hloop
      obtain ⟨o1, o2⟩ := tight_pair_optimal g.edge M _ _ hM hC hlen
      exact ⟨hC, r1, r2, s1, s2, hlen, o1, o2⟩
    · exact absurd h (by simp)

/-- The exploration fuel `num_u + 1` is never exhausted (for any list `M` whatsoever). -/
theorem explore_fuel_suffices (g : Graph) (hg : g.WF) (M : List (Nat × Nat)) :
    coverOf g M ≠ .error .fuelExplore := by
  unfold coverOf
  obtain ⟨c', hc⟩ := coverLoop_total g M hg (freeLeft g M) (List.range g.nU, [])
    (fun u hu => ((mem_freeLeft g M u).1 hu).1)
  rw [hc]
  obtain ⟨cu, cv⟩ := c'
  simp only
  split <;> simp

/-- Koenig: if `M` is a valid matching and some set `R` of left vertices contains every free left
    vertex and is closed in the sense that every edge leaving `R` ends in a *matched* right vertex
    whose partner is again in `R` (this is exactly what a BFS that reports "no augmenting path"
    leaves behind, `R` = the left vertices with finite distance: see `bfs_false_closed`), then the
    cover part of `minimum_vertex_cover` returns normally - fuel suffices and the `assert` passes -
    and the result touches every edge, contains only existing vertices and has combined size
    `|M|`. -/
theorem koenig_cover (g : Graph) (hg : g.WF) (M : List (Nat × Nat)) (hM : IsMatching g.edge M)
    (R : Nat → Prop)
    (hfree : ∀ u, u < g.nU → (∀ v, (u, v) ∉ M) → R u)
    (hclosed : ∀ u v, R u → g.edge u v → ∃ w, (w, v) ∈ M ∧ R w) :
    ∃ cu cv, coverOf g M = .ok (cu, cv) ∧
      IsCover g.edge cu cv ∧ (∀ u ∈ cu, u < g.nU) ∧ (∀ v ∈ cv, v < g.nV) ∧
      cu.length + cv.length = M.length := by
  obtain ⟨c', hc⟩ := coverLoop_total g M hg (freeLeft g M) (List.range g.nU, [])
    (fun u hu => ((mem_freeLeft g M u).1 hu).1)
  obtain ⟨cu, cv⟩ := c'
  have hsize : cu.length + cv.length = M.length := by
    apply coverLoop_size g M hg hM hc R
    · intro u hu
      obtain ⟨h1, h2⟩ := (mem_freeLeft g M u).1 hu
      exact hfree u h1 (fun v hv => h2 (u, v) hv rfl)
    · intro u v hR huv
      obtain ⟨w, hw, _⟩ := hclosed u v hR huv
      exact ⟨w, hw⟩
    · intro u v w hR huv hw
      obtain ⟨w', hw', hRw'⟩ := hclosed u v hR huv
      rw [hM.left_unique hw hw']; exact hRw'
  obtain ⟨_, _, _, _, _, hC, r1, r2⟩ := coverLoop_cover g M hg hM hc
  refine ⟨cu, cv, ?_, hC, r1, r2, hsize⟩
  unfold coverOf
  rw [hc]
  simp [hsize]

/-! ### (c) the matching of Hopcroft-Karp is valid -/

/-- The invariant: `(matched_pairs_u, matched_pairs_v)` describe pairwise vertex-disjoint edges
    (`Consistent`), and every top-level augmentation attempt `add_augmenting_path(u)` from a free
    left vertex - successful or not, with any fuel - preserves it. -/
theorem hk_augment_preserves (g : Graph) (f u : Nat) (s s' : HK) (r : Bool)
    (hs : Consistent g s) (hfree : s.mU u = none) (h : dfs g f (some u) s = some (r, s')) :
    Consistent g s' :=
  dfs_consistent g f u s s' r hs hfree h

/-- The matching returned by `HopcroftKarp(graph)()` consists of edges of the graph and uses no
    vertex twice (for every graph, well-formed or not). -/
theorem hk_matching_valid (g : Graph) (M : List (Nat × Nat)) (h : hopcroftKarp g = .ok M) :
    IsMatching g.edge M := by
  unfold hopcroftKarp at h
  split at h
  · exact absurd h (by simp)
  · rename_i s hrun
    simp only [Except.ok.injEq] at h
    subst h
    exact collect_isMatching g s (hkLoop_consistent g _ _ s (init_consistent g) hrun)

/-! ### (d) what a BFS without augmenting path leaves behind -/

/-- For a consistent matching the BFS terminates within its fuel, and if it reports "no path"
    (`dist[NIL] = inf`) the set `R` of left vertices with finite distance contains every free left
    vertex and every edge leaving `R` ends in a matched right vertex whose partner is in `R`:
    the hypotheses of `koenig_cover`. -/
theorem bfs_false_closed (g : Graph) (hg : g.WF) (s : HK) (hs : Consistent g s) :
    ∃ d, bfs g s = some d ∧
      (d none = g.inf →
        (∀ u, u < g.nU → s.mU u = none → d (some u) < g.inf) ∧
        (∀ u v, u < g.nU → d (some u) < g.inf → g.edge u v →
          ∃ w, s.mV v = some w ∧ s.mU w = some v ∧ w < g.nU ∧ d (some w) < g.inf)) := by
  obtain ⟨d, hd, hfin⟩ := bfs_spec g s (hs.mV_lt hg)
  refine ⟨d, hd, ?_⟩
  intro hnil
  constructor
  · intro u hu hfree
    have := hfin.inv.free u hu hfree
    simp only [Graph.inf] at this ⊢
    omega
  · intro u v hu hfu huv
    have hcl := hfin.closed u hu hfu (by simp only; omega) v huv
    simp only at hcl
    cases hx : s.mV v with
    | none => rw [hx, hnil] at hcl; omega
    | some w =>
      rw [hx] at hcl
      exact ⟨w, rfl, hs.bwd v w hx, hs.mV_lt hg v w hx, hcl⟩

/-! ### (e) termination -/

/-- `hk_phase_progress`: in a consistent state, if the BFS reaches NIL (`dist[NIL] != inf`, the
    `while` condition is true) then the phase that follows runs within the DFS fuel, keeps the
    matching consistent and makes it strictly larger. -/
theorem hk_phase_progress (g : Graph) (hg : g.WF) (s : HK) (hs : Consistent g s)
    (d : Option Nat → Nat) (hb : bfs g s = some d) (hnil : d none ≠ g.inf) :
    ∃ s', phase g (List.range g.nU) { s with dist := d } = some s' ∧ Consistent g s' ∧
      (collect s.mU g.nU).length < (collect s'.mU g.nU).length := by
  obtain ⟨d', hd', hfin⟩ := bfs_spec g s (hs.mV_lt hg)
  rw [hb] at hd'
  cases hd'
  have hnil' : d none < g.inf := by
    have := hfin.inv.le none trivial
    simp only at this
    omega
  obtain ⟨u, hu, hfree, hp⟩ := bfs_path g s.mU s.mV d hfin hnil'
  obtain ⟨s1, hph, hs1, _, hmono, hprog⟩ := phase_spec g hg (List.range g.nU)
    { s with dist := d } (fun a ha => List.mem_range.1 ha) (hs.of_eq rfl rfl)
    (fun x hx => hfin.inv.le x hx)
  refine ⟨s1, hph, hs1, ?_⟩
  obtain ⟨a, ha, ha1, ha2⟩ := hprog ⟨u, List.mem_range.2 hu, hfree, hp⟩
  have h1 := cntFree_lt hmono ha1 ha2 g.nU ha
  have h2 := collect_length s.mU g.nU
  have h3 := collect_length s1.mU g.nU
  simp only at h1
  omega

/-- `HopcroftKarp(graph)()` returns normally: none of the fuels (BFS queue, DFS depth, outer loop)
    is ever exhausted. -/
theorem hk_terminates (g : Graph) (hg : g.WF) : ∃ M, hopcroftKarp g = .ok M := by
  obtain ⟨s, hs⟩ := hkRun_total g hg
  exact ⟨collect s.mU g.nU, by simp [hopcroftKarp, hs]⟩

/-! ### the whole function -/

/-- Every normal exit of `minimum_vertex_cover` is correct - the internal matching is valid and
    maximum, the two lists are ascending, contain only existing vertices, touch every edge, have
    combined size `|M|`, and no smaller cover exists.  (Uses only (a), (c) and the cover half of
    (b): it does not depend on the termination argument.) -/
theorem mvc_ok_correct (g : Graph) (hg : g.WF) (M : List (Nat × Nat)) (cu cv : List Nat)
    (h : minimumVertexCover g = .ok (M, cu, cv)) :
    IsMatching g.edge M ∧ IsCover g.edge cu cv ∧ (∀ u ∈ cu, u < g.nU) ∧ (∀ v ∈ cv, v < g.nV) ∧
    cu.Pairwise (· < ·) ∧ cv.Pairwise (· < ·) ∧ cu.length + cv.length = M.length ∧
    (∀ M', IsMatching g.edge M' → M'.length ≤ M.length) ∧
    (∀ cu' cv', IsCover g.edge cu' cv' → cu.length + cv.length ≤ cu'.length + cv'.length) := by
  unfold minimumVertexCover at h
  split at h
  · exact absurd h (by simp)
  · rename_i M0 hM0
    split at h
    · exact absurd h (by simp)
    · rename_i c hc
      simp only [Except.ok.injEq, Prod.mk.injEq] at h
      obtain ⟨rfl, rfl, rfl⟩ := h
      have hM := hk_matching_valid g M0 hM0
      obtain ⟨a, b, c', d, e, f, o1, o2⟩ := cover_ok_sound g hg M0 hM c.1 c.2 hc
      exact ⟨hM, a, b, c', d, e, f, o1, o2⟩

/-- C14 for the model, every well-formed graph: `minimum_vertex_cover` returns normally (no fuel is
    exhausted, its `assert` never fails - `mvc_assert_never_fails`), and the result is as stated
    in `mvc_ok_correct`. -/
theorem mvc_correct (g : Graph) (hg : g.WF) :
    ∃ M cu cv, minimumVertexCover g = .ok (M, cu, cv) ∧ hopcroftKarp g = .ok M ∧
      IsMatching g.edge M ∧ IsCover g.edge cu cv ∧ (∀ u ∈ cu, u < g.nU) ∧ (∀ v ∈ cv, v < g.nV) ∧
      cu.Pairwise (· < ·) ∧ cv.Pairwise (· < ·) ∧ cu.length + cv.length = M.length ∧
      (∀ M', IsMatching g.edge M' → M'.length ≤ M.length) ∧
      (∀ cu' cv', IsCover g.edge cu' cv' → cu.length + cv.length ≤ cu'.length + cv'.length) := by
  obtain ⟨s, hrun⟩ := hkRun_total g hg
  have hM0 : hopcroftKarp g = .ok (collect s.mU g.nU) := by simp [hopcroftKarp, hrun]
  have hM := hk_matching_valid g _ hM0
  obtain ⟨hs, hb, hnil⟩ := hkLoop_final g _ _ s (init_consistent g) hrun
  obtain ⟨hfree, hclosed⟩ := final_closure g hg s hs hb hnil
  obtain ⟨cu, cv, hc, _⟩ := koenig_cover g hg _ hM _ hfree hclosed
  have hmvc : minimumVertexCover g = .ok (collect s.mU g.nU, cu, cv) := by
    simp [minimumVertexCover, hM0, hc]
  exact ⟨_, cu, cv, hmvc, hM0, mvc_ok_correct g hg _ cu cv hmvc⟩

/-- No error exit is possible: no fuel of the model is ever exhausted (so the fuels are not a
    restriction of the model) and the `assert` of `minimum_vertex_cover` never fails. -/
theorem mvc_no_error (g : Graph) (hg : g.WF) (e : Err) : minimumVertexCover g ≠ .error e := by
  obtain ⟨M, cu, cv, h, _⟩ := mvc_correct g hg
  rw [h]; simp

theorem mvc_assert_never_fails (g : Graph) (hg : g.WF) :
    minimumVertexCover g ≠ .error .assertion := mvc_no_error g hg _

/-- The same, end to end from the constructor arguments: for non-empty sides and in-range entries
    (repeated entries and isolated vertices allowed) the graph is built and the returned lists touch
    every *entry*, contain only vertices below `nU` / `nV`, and have the size of a maximum matching
    of the entries; any other cover of the entries is at least as large. -/
theorem mvc_correct_input (nU nV : Nat) (es : List (Nat × Nat)) (hU : 0 < nU) (hV : 0 < nV)
    (hes : ∀ p ∈ es, p.1 < nU ∧ p.2 < nV) :
    ∃ g M cu cv, mkGraph nU nV es = some g ∧ minimumVertexCover g = .ok (M, cu, cv) ∧
      (∀ p ∈ M, p ∈ es) ∧ (M.map Prod.fst).Nodup ∧ (M.map Prod.snd).Nodup ∧
      (∀ p ∈ es, p.1 ∈ cu ∨ p.2 ∈ cv) ∧ (∀ u ∈ cu, u < nU) ∧ (∀ v ∈ cv, v < nV) ∧
      cu.Nodup ∧ cv.Nodup ∧ cu.length + cv.length = M.length ∧
      (∀ M' : List (Nat × Nat), (∀ p ∈ M', p ∈ es) → (M'.map Prod.fst).Nodup →
        (M'.map Prod.snd).Nodup → M'.length ≤ M.length) ∧
      (∀ cu' cv' : List Nat, (∀ p ∈ es, p.1 ∈ cu' ∨ p.2 ∈ cv') →
        cu.length + cv.length ≤ cu'.length + cv'.length) := by
  have hsome := (mkGraph_isSome_iff nU nV es).2 ⟨hU, hV, hes⟩
  cases hg0 : mkGraph nU nV es with
  | none => rw [hg0] at hsome; simp at hsome
  | some g =>
    obtain ⟨hg, e1, e2, hedge⟩ := mkGraph_spec nU nV es g hg0
    obtain ⟨M, cu, cv, hmvc, _, hM, hC, r1, r2, s1, s2, hsz, o1, o2⟩ := mvc_correct g hg
    refine ⟨g, M, cu, cv, rfl, hmvc, ?_, hM.left, hM.right, ?_, ?_, ?_, nodup_of_sorted s1,
      nodup_of_sorted s2, hsz, ?_, ?_⟩
    · rintro ⟨u, v⟩ hp; exact (hedge u v).1 (hM.edges _ hp)
    · rintro ⟨u, v⟩ hp; exact hC u v ((hedge u v).2 hp)
    · intro u hu; rw [← e1]; exact r1 u hu
    · intro v hv; rw [← e2]; exact r2 v hv
    · intro M' h1 h2 h3
      exact o1 M' ⟨fun p hp => (hedge p.1 p.2).2 (h1 p hp), h2, h3⟩
    · intro cu' cv' h
      exact o2 cu' cv' (fun u v huv => h (u, v) ((hedge u v).1 huv))

/-! ### (f) iteration order of the Python sets

`minimumVertexCoverOrd o g` is `minimum_vertex_cover` with the enumeration order of its three sets
(`for u in alist`, `list(u_cover)`, `list(v_cover)`) given by `o`; the functions used everywhere
above are the instance "ascending".  The returned pair of lists - order inside the lists included,
because of the final `sorted` - and every error exit are the same for all enumerations. -/

/-- The `for u in alist` loop: any two enumerations of the same start set (repetitions allowed,
    any start set, any list `M`, any graph) produce the same `(u_cover, v_cover)`, and run out of
    fuel in the same cases. -/
theorem koenig_start_order_independent (g : Graph) (M : List (Nat × Nat)) (us us' : List Nat)
    (h : ∀ x, x ∈ us ↔ x ∈ us') :
    coverLoop g M us (List.range g.nU, []) = coverLoop g M us' (List.range g.nU, []) :=
  coverLoop_congr g M h List.pairwise_lt_range (by simp)

/-- `sorted(list(s))` does not depend on the order in which the set `s` is enumerated. -/
theorem sorted_enumeration_independent (s l : List Nat) (hs : s.Pairwise (· < ·)) (hl : l.Perm s) :
    pySorted l = s :=
  pySorted_eq_of_perm hs hl

/-- Goal 1: for every graph (well-formed or not) and every enumeration order of the three sets,
    `minimum_vertex_cover` returns exactly what the ascending-order model returns: the same
    internal matching, the same two lists (same order inside the lists), the same error exit. -/
theorem mvc_order_independent (o : SetOrder) (ho : o.Valid) (g : Graph) :
    minimumVertexCoverOrd o g = minimumVertexCover g :=
  minimumVertexCoverOrd_eq o ho g

/-- The same with hypotheses only at the sets that occur in the run: the start set may be
    enumerated in any order (even with repetitions), the two result sets in any order. -/
theorem mvc_order_independent_at (o : SetOrder) (g : Graph) (M : List (Nat × Nat)) (cu cv : List Nat)
    (h : minimumVertexCover g = .ok (M, cu, cv))
    (ha : ∀ x, x ∈ o.alist (freeLeft g M) ↔ x ∈ freeLeft g M)
    (hu : (o.ucover cu).Perm cu) (hv : (o.vcover cv).Perm cv) :
    minimumVertexCoverOrd o g = .ok (M, cu, cv) := by
  obtain ⟨hM, hc⟩ := mvc_ok_unfold h
  unfold minimumVertexCoverOrd
  rw [hM]
  simp only
  rw [coverOfOrd_eq o g M ha
    (fun a b hab => by rw [hc] at hab; cases hab; exact hu)
    (fun a b hab => by rw [hc] at hab; cases hab; exact hv), hc]

/-- Hence `mvc_correct` holds for every iteration order Python may choose. -/
theorem mvc_correct_any_order (o : SetOrder) (ho : o.Valid) (g : Graph) (hg : g.WF) :
    ∃ M cu cv, minimumVertexCoverOrd o g = .ok (M, cu, cv) ∧ hopcroftKarp g = .ok M ∧
      IsMatching g.edge M ∧ IsCover g.edge cu cv ∧ (∀ u ∈ cu, u < g.nU) ∧ (∀ v ∈ cv, v < g.nV) ∧
      cu.Pairwise (· < ·) ∧ cv.Pairwise (· < ·) ∧ cu.length + cv.length = M.length ∧
      (∀ M', IsMatching g.edge M' → M'.length ≤ M.length) ∧
      (∀ cu' cv', IsCover g.edge cu' cv' → cu.length + cv.length ≤ cu'.length + cv'.length) := by
  rw [mvc_order_independent o ho g]
  exact mvc_correct g hg

/-! ### (g) order of the adjacency lists (order of the constructor's edge list)

The adjacency lists are Python lists; their order is the order of first appearance in the edge
list given to the constructor, and it does influence which maximum matching Hopcroft-Karp finds
(see the example below).  It influences neither the size of the matching nor - which is more than
the property asks - the returned cover. -/

/-- Goal 2: two well-formed graphs with the same edge relation (adjacency lists in any order, even
    different `num_u` / `num_v` as long as the edges agree) get matchings of the same size. -/
theorem hk_matching_maximum_order_independent (g g' : Graph) (hg : g.WF) (hg' : g'.WF)
    (hE : ∀ u v, g.edge u v ↔ g'.edge u v) (M M' : List (Nat × Nat))
    (h : hopcroftKarp g = .ok M) (h' : hopcroftKarp g' = .ok M') : M.length = M'.length := by
  obtain ⟨M0, _, _, _, h0, hM0, _, _, _, _, _, _, o0, _⟩ := mvc_correct g hg
  obtain ⟨M1, _, _, _, h1, hM1, _, _, _, _, _, _, o1, _⟩ := mvc_correct g' hg'
  rw [h] at h0; cases h0
  rw [h'] at h1; cases h1
  have a := o0 M' (hM1.congr (fun u v => (hE u v).2))
  have b := o1 M (hM0.congr (fun u v => (hE u v).1))
  omega

/-- The returned cover is the extreme minimum cover: every cover of the same (minimum) size has
    its left part inside the returned left part and contains the returned right part. -/
theorem koenig_cover_extremal (g : Graph) (hg : g.WF) (M : List (Nat × Nat)) (cu cv : List Nat)
    (h : minimumVertexCover g = .ok (M, cu, cv)) (cu' cv' : List Nat)
    (hC : IsCover g.edge cu' cv') (hsz : cu'.length + cv'.length = M.length)
    (hr : ∀ x ∈ cu', x < g.nU) :
    (∀ x, x ∈ cu' → x ∈ cu) ∧ (∀ y, y ∈ cv → y ∈ cv') := by
  obtain ⟨hM0, hc⟩ := mvc_ok_unfold h
  have hM := hk_matching_valid g M hM0
  obtain ⟨hl, _⟩ := coverOf_ok hc
  obtain ⟨hcu, hcv, _⟩ := coverLoop_cover g M hg hM hl
  obtain ⟨e1, e2⟩ := koenig_extremal g M hg hM cu' cv' hC hsz
  exact ⟨fun x hx => (hcu x).2 ⟨hr x hx, fun hz => e1 x hz hx⟩, fun y hy => e2 y ((hcv y).1 hy)⟩

/-- The cover part gives the same pair for *any* two valid matchings of two graphs with the same
    left side and the same edges for which it returns normally. -/
theorem koenig_cover_canonical (g g' : Graph) (hg : g.WF) (hg' : g'.WF) (hn : g.nU = g'.nU)
    (hE : ∀ u v, g.edge u v ↔ g'.edge u v) (M M' : List (Nat × Nat))
    (hM : IsMatching g.edge M) (hM' : IsMatching g'.edge M') (cu cv cu' cv' : List Nat)
    (h : coverOf g M = .ok (cu, cv)) (h' : coverOf g' M' = .ok (cu', cv')) :
    cu = cu' ∧ cv = cv' := by
  obtain ⟨a1, a2⟩ := coverOf_dominates g g' hg hg' hn hE M M' hM hM' h h'
  obtain ⟨b1, b2⟩ := coverOf_dominates g' g hg' hg hn.symm (fun u v => (hE u v).symm) M' M hM' hM h' h
  obtain ⟨_, _, _, s1, s2, _⟩ := cover_ok_sound g hg M hM cu cv h
  obtain ⟨_, _, _, t1, t2, _⟩ := cover_ok_sound g' hg' M' hM' cu' cv' h'
  exact ⟨sorted_ext s1 t1 (fun x => ⟨b1 x, a1 x⟩), sorted_ext s2 t2 (fun y => ⟨a2 y, b2 y⟩)⟩

/-- The pair of lists returned by `minimum_vertex_cover` is determined by the graph (left side
    size and edge set) alone: it depends neither on the order of the adjacency lists nor on which
    maximum matching was found.  Only the internal matching may differ (its size may not). -/
theorem mvc_cover_graph_determined (g g' : Graph) (hg : g.WF) (hg' : g'.WF) (hn : g.nU = g'.nU)
    (hE : ∀ u v, g.edge u v ↔ g'.edge u v) (M M' : List (Nat × Nat)) (cu cv cu' cv' : List Nat)
    (h : minimumVertexCover g = .ok (M, cu, cv)) (h' : minimumVertexCover g' = .ok (M', cu', cv')) :
    cu = cu' ∧ cv = cv' ∧ M.length = M'.length := by
  obtain ⟨hM0, hc⟩ := mvc_ok_unfold h
  obtain ⟨hM0', hc'⟩ := mvc_ok_unfold h'
  obtain ⟨e1, e2⟩ := koenig_cover_canonical g g' hg hg' hn hE M M' (hk_matching_valid g M hM0)
    (hk_matching_valid g' M' hM0') cu cv cu' cv' hc hc'
  exact ⟨e1, e2, hk_matching_maximum_order_independent g g' hg hg' hE M M' hM0 hM0'⟩

/-- End to end from the constructor arguments: two entry lists with the same members (any order,
    any repetitions) give the same returned cover and matchings of the same size, for every
    enumeration order of the sets. -/
theorem mvc_input_order_independent (nU nV : Nat) (es es' : List (Nat × Nat)) (hU : 0 < nU)
    (hV : 0 < nV) (hes : ∀ p ∈ es, p.1 < nU ∧ p.2 < nV) (hmem : ∀ p, p ∈ es ↔ p ∈ es')
    (o o' : SetOrder) (ho : o.Valid) (ho' : o'.Valid) :
    ∃ g g' M M' cu cv, mkGraph nU nV es = some g ∧ mkGraph nU nV es' = some g' ∧
      minimumVertexCoverOrd o g = .ok (M, cu, cv) ∧ minimumVertexCoverOrd o' g' = .ok (M', cu, cv) ∧
      M.length = M'.length := by
  have hes' : ∀ p ∈ es', p.1 < nU ∧ p.2 < nV := fun p hp => hes p ((hmem p).2 hp)
  have hsome := (mkGraph_isSome_iff nU nV es).2 ⟨hU, hV, hes⟩
  have hsome' := (mkGraph_isSome_iff nU nV es').2 ⟨hU, hV, hes'⟩
  cases hg0 : mkGraph nU nV es with
  | none => rw [hg0] at hsome; simp at hsome
  | some g =>
    cases hg0' : mkGraph nU nV es' with
    | none => rw [hg0'] at hsome'; simp at hsome'
    | some g' =>
      obtain ⟨hg, e1, _, hedge⟩ := mkGraph_spec nU nV es g hg0
      obtain ⟨hg', e1', _, hedge'⟩ := mkGraph_spec nU nV es' g' hg0'
      obtain ⟨M, cu, cv, hmvc, _⟩ := mvc_correct g hg
      obtain ⟨M', cu', cv', hmvc', _⟩ := mvc_correct g' hg'
      have hE : ∀ u v, g.edge u v ↔ g'.edge u v := fun u v => by
        rw [hedge, hedge', hmem]
      obtain ⟨rfl, rfl, hlen⟩ := mvc_cover_graph_determined g g' hg hg' (by rw [e1, e1']) hE
        M M' cu cv cu' cv' hmvc hmvc'
      refine ⟨g, g', M, M', cu, cv, rfl, rfl, ?_, ?_, hlen⟩
      · rw [mvc_order_independent o ho g]; exact hmvc
      · rw [mvc_order_independent o' ho' g']; exact hmvc'

/-! ### Non-vacuity: concrete instances -/

/-- the 3x3 "path" graph 0-0, 1-0, 1-1, 2-1, 2-2 with a duplicated entry and an isolated vertex -/
def exGraph : Graph := (mkGraph 3 4 [(0, 0), (1, 0), (1, 1), (1, 0), (2, 1), (2, 2)]).getD (Graph.empty 1 1)

example : mkGraph 3 4 [(0, 0), (1, 0), (1, 1), (1, 0), (2, 1), (2, 2)] = some exGraph := by decide
example : exGraph.adjU = [[0], [0, 1], [1, 2]] ∧ exGraph.adjV = [[0, 1], [1, 2], [2], []] := by decide
example : mkGraph 2 2 [(0, 2)] = none ∧ mkGraph 0 2 [] = none := by decide
-- hypotheses of `mvc_correct_input`
example : ∀ p ∈ [(0, 0), (1, 0), (1, 1), (1, 0), (2, 1), (2, 2)], p.1 < 3 ∧ p.2 < 4 := by decide
example : minimumVertexCover exGraph = .ok ([(0, 0), (1, 1), (2, 2)], [0, 1, 2], []) := by rfl
example : certificateOk exGraph [(0, 0), (1, 1), (2, 2)] [0, 1, 2] [] = true := by decide
-- a matching/cover pair for which hypotheses of `weak_duality` / `tight_pair_optimal` hold
example : IsMatching exGraph.edge [(0, 0), (1, 1), (2, 2)] :=
  ⟨by decide, by decide, by decide⟩
example : IsCover exGraph.edge [1, 2] [0] := by
  intro u v h
  rw [(mkGraph_spec 3 4 [(0, 0), (1, 0), (1, 1), (1, 0), (2, 1), (2, 2)] exGraph (by decide)).2.2.2 u v] at h
  simp only [List.mem_cons, Prod.mk.injEq, List.not_mem_nil, or_false] at h
  rcases h with h | h | h | h | h | h <;> simp [h.1, h.2]
-- the cover part on a maximum matching
example : coverOf exGraph [(0, 0), (1, 1), (2, 2)] = .ok ([0, 1, 2], []) := by rfl
-- a non-maximum matching makes the code's own assert fail (hence the closure hypothesis)
example : coverOf exGraph [(1, 0), (2, 1)] = .error .assertion := by rfl


/-- `K_{2,1}`: one left vertex stays free; the closure hypotheses of `koenig_cover` hold with
    `R` = both left vertices (both are reachable: 1 is free, 0 via the matched edge). -/
def exStar : Graph := (mkGraph 2 1 [(0, 0), (1, 0)]).getD (Graph.empty 1 1)

example : IsMatching exStar.edge [(0, 0)] := ⟨by decide, by decide, by decide⟩
example : (∀ u, u < exStar.nU → (∀ v, (u, v) ∉ [(0, 0)]) → (fun _ => True) u) ∧
    (∀ u v, (fun _ : Nat => True) u → exStar.edge u v → ∃ w, (w, v) ∈ [(0, 0)] ∧ (fun _ => True) w) := by
  refine ⟨fun _ _ _ => trivial, ?_⟩
  intro u v _ h
  rw [(mkGraph_spec 2 1 [(0, 0), (1, 0)] exStar (by decide)).2.2.2 u v] at h
  simp only [List.mem_cons, Prod.mk.injEq, List.not_mem_nil, or_false] at h
  refine ⟨0, ?_, trivial⟩
  rcases h with h | h <;> simp [h.2]
example : minimumVertexCover exStar = .ok ([(0, 0)], [], [0]) := by rfl
-- hypotheses of `hk_augment_preserves` / `bfs_false_closed` / `hk_phase_progress`: the initial
-- state is consistent and vertex 1 is free; the BFS on the initial state of `exStar` finds a path
-- (dist[NIL] = 1), the final BFS does not (dist[NIL] = inf = 3)
example : Consistent exStar HK.init ∧ HK.init.mU 1 = none := ⟨init_consistent _, rfl⟩
example : (bfs exStar HK.init).map (fun d => (d none, d (some 0), d (some 1))) = some (1, 0, 0) := by rfl
example : (hkRun exStar).toOption.map (fun s => (s.mU 0, s.mU 1, s.mV 0, s.dist none, s.dist (some 0), s.dist (some 1)))
    = some (some 0, none, some 0, 3, 1, 0) := by rfl

/-! ### Non-vacuity for (f) and (g) -/

/-- an enumeration policy different from "ascending" at all three sites -/
def exOrder : SetOrder := ⟨List.reverse, rotate1, oddsFirst⟩

example : exOrder.Valid := ⟨List.reverse_perm, rotate1_perm, oddsFirst_perm⟩
example : ∀ k, (⟨policy k, policy (k + 1), policy (k + 2)⟩ : SetOrder).Valid :=
  fun k => ⟨policy_perm k, policy_perm (k + 1), policy_perm (k + 2)⟩

/-- two free left vertices (1 and 4) whose explorations are disjoint; the cover uses both sides -/
def exTwoFree : Graph :=
  (mkGraph 5 3 [(0, 0), (1, 0), (2, 1), (3, 1), (3, 2), (4, 1)]).getD (Graph.empty 1 1)

example : mkGraph 5 3 [(0, 0), (1, 0), (2, 1), (3, 1), (3, 2), (4, 1)] = some exTwoFree := by decide
example : hopcroftKarp exTwoFree = .ok [(0, 0), (2, 1), (3, 2)] := by rfl
example : freeLeft exTwoFree [(0, 0), (2, 1), (3, 2)] = [1, 4] ∧
    exOrder.alist [1, 4] = [4, 1] := by decide
-- the two starts visit different vertices, so the intermediate values of `u_cover` / `v_cover`
-- do depend on the order; the final ones do not
example : explore exTwoFree [(0, 0), (2, 1), (3, 2)] exTwoFree.exploreFuel 1 ⟨[], []⟩ = some ⟨[1, 0], [0]⟩ ∧
    explore exTwoFree [(0, 0), (2, 1), (3, 2)] exTwoFree.exploreFuel 4 ⟨[], []⟩ = some ⟨[4, 2], [1]⟩ := by
  constructor <;> rfl
example : coverLoop exTwoFree [(0, 0), (2, 1), (3, 2)] [1, 4] (List.range 5, []) = some ([3], [0, 1]) ∧
    coverLoop exTwoFree [(0, 0), (2, 1), (3, 2)] [4, 1, 4] (List.range 5, []) = some ([3], [0, 1]) := by
  constructor <;> rfl
example : exOrder.ucover [0, 1, 2, 3] = [1, 2, 3, 0] ∧ pySorted [1, 2, 3, 0] = [0, 1, 2, 3] ∧
    exOrder.vcover [0, 1, 2, 3] = [1, 3, 0, 2] ∧ pySorted [1, 3, 0, 2, 3] = [0, 1, 2, 3, 3] := by decide
example : minimumVertexCover exTwoFree = .ok ([(0, 0), (2, 1), (3, 2)], [3], [0, 1]) ∧
    minimumVertexCoverOrd exOrder exTwoFree = .ok ([(0, 0), (2, 1), (3, 2)], [3], [0, 1]) := by
  constructor <;> rfl
-- hypotheses of `mvc_order_independent_at`
example : (∀ x, x ∈ exOrder.alist [1, 4] ↔ x ∈ [1, 4]) ∧ (exOrder.ucover [3]).Perm [3] ∧
    (exOrder.vcover [0, 1]).Perm [0, 1] :=
  ⟨fun _ => (List.reverse_perm [1, 4]).mem_iff, rotate1_perm [3], oddsFirst_perm [0, 1]⟩
-- an enumeration that is *not* valid changes the result (the hypothesis is needed)
example : minimumVertexCoverOrd ⟨fun _ => [1], id, id⟩ exTwoFree = .error .assertion := by rfl

/-- The order of the adjacency lists does change the internal matching … -/
def exFork : Graph := (mkGraph 1 2 [(0, 0), (0, 1)]).getD (Graph.empty 1 1)
def exFork' : Graph := (mkGraph 1 2 [(0, 1), (0, 0), (0, 1)]).getD (Graph.empty 1 1)

example : mkGraph 1 2 [(0, 0), (0, 1)] = some exFork ∧
    mkGraph 1 2 [(0, 1), (0, 0), (0, 1)] = some exFork' := by decide
example : exFork.adjU = [[0, 1]] ∧ exFork'.adjU = [[1, 0]] := by decide
-- … hypotheses of `hk_matching_maximum_order_independent` / `mvc_cover_graph_determined` /
-- `mvc_input_order_independent`:
example : ∀ p : Nat × Nat, p ∈ [(0, 0), (0, 1)] ↔ p ∈ [(0, 1), (0, 0), (0, 1)] := by
  intro p
  simp only [List.mem_cons, List.not_mem_nil, or_false]
  constructor
  · rintro (h | h) <;> simp [h]
  · rintro (h | h | h) <;> simp [h]
example : exFork.nU = exFork'.nU ∧ ∀ u v, exFork.edge u v ↔ exFork'.edge u v := by
  refine ⟨rfl, fun u v => ?_⟩
  rw [(mkGraph_spec 1 2 [(0, 0), (0, 1)] exFork (by decide)).2.2.2 u v,
    (mkGraph_spec 1 2 [(0, 1), (0, 0), (0, 1)] exFork' (by decide)).2.2.2 u v]
  simp only [List.mem_cons, List.not_mem_nil, or_false]
  constructor
  · rintro (h | h) <;> simp [h]
  · rintro (h | h | h) <;> simp [h]
-- … the matchings differ, their size and the returned cover do not
example : minimumVertexCover exFork = .ok ([(0, 0)], [0], []) ∧
    minimumVertexCover exFork' = .ok ([(0, 1)], [0], []) := by
  constructor <;> rfl
-- hypotheses of `koenig_cover_extremal` on `exGraph` (returned `([0,1,2], [])`): another minimum
-- cover is `([1,2], [0])`, its left part is inside `[0,1,2]` and it contains the right part `[]`
example : [1, 2].length + [0].length = [(0, 0), (1, 1), (2, 2)].length ∧ ∀ x ∈ [1, 2], x < exGraph.nU := by
  decide
-- hypotheses of `koenig_cover_canonical`: two different maximum matchings of `exFork`
example : IsMatching exFork.edge [(0, 0)] ∧ IsMatching exFork.edge [(0, 1)] :=
  ⟨⟨by decide, by decide, by decide⟩, ⟨by decide, by decide, by decide⟩⟩
example : coverOf exFork [(0, 0)] = .ok ([0], []) ∧ coverOf exFork [(0, 1)] = .ok ([0], []) := by
  constructor <;> rfl

end Ptn.C14
