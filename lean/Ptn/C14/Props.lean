import Ptn.C14.Model
import Ptn.C14.Lemmas
/-! Property theorems for C14 (bipartite vertex cover).  Only property theorems and non-vacuity
examples live here; helper lemmas are in `Lemmas.lean` and the files it imports.

Vocabulary (`Spec.lean`): `g.edge u v` (`v` listed in `adj_u[u]`), `g.WF` (what the constructor
establishes), `IsMatching E M` (pairs are edges, no left / right vertex twice), `IsCover E cu cv`
(every edge has its left end in `cu` or its right end in `cv`).  All statements hold for every
graph: there is no bound on the number of vertices or edges. -/
namespace Ptn.C14

/-! ### (a) weak duality — independent of the algorithm -/

/-- L5: a matching is never larger than a vertex cover. -/
theorem weak_duality (E : Nat → Nat → Prop) (M : List (Nat × Nat)) (cu cv : List Nat)
    (hM : IsMatching E M) (hC : IsCover E cu cv) : M.length ≤ cu.length + cv.length :=
  weak_duality_aux E M cu cv hM hC

/-- If a matching and a cover have the same size, the matching is maximum and the cover minimum
    ("hence no smaller cover exists"). -/
theorem tight_pair_optimal (E : Nat → Nat → Prop) (M : List (Nat × Nat)) (cu cv : List Nat)
    (hM : IsMatching E M) (hC : IsCover E cu cv) (heq : cu.length + cv.length = M.length) :
    (∀ M', IsMatching E M' → M'.length ≤ M.length) ∧
    (∀ cu' cv', IsCover E cu' cv' → cu.length + cv.length ≤ cu'.length + cv'.length) := by
  constructor
  · intro M' hM'
    have := weak_duality E M' cu cv hM' hC
    omega
  · intro cu' cv' hC'
    have := weak_duality E M cu' cv' hM hC'
    omega

/-! ### graph construction -/

/-- `BipartiteGraph(num_u, num_v, edges)` succeeds exactly on non-empty sides and in-range entries … -/
theorem mkGraph_isSome_iff (nU nV : Nat) (es : List (Nat × Nat)) :
    (mkGraph nU nV es).isSome ↔ 0 < nU ∧ 0 < nV ∧ ∀ p ∈ es, p.1 < nU ∧ p.2 < nV := by
  unfold mkGraph
  by_cases h0 : nU = 0 ∨ nV = 0
  · rw [if_pos h0]
    simp only [Option.isSome_none, Bool.false_eq_true, false_iff]
    rintro ⟨h1, h2, _⟩
    omega
  · rw [if_neg h0]
    constructor
    · intro h
      cases hr : addEdges (Graph.empty nU nV) es with
      | none => rw [hr] at h; simp at h
      | some g' =>
        have := (addEdges_spec es _ g' (empty_wf0 nU nV) hr).2.2.2.1
        exact ⟨by omega, by omega, this⟩
    · rintro ⟨_, _, h⟩
      exact addEdges_none es _ h

/-- … and then yields a well-formed graph whose edges are exactly the given entries (a repeated
    entry counts once: adjacency lists are duplicate-free). -/
theorem mkGraph_spec (nU nV : Nat) (es : List (Nat × Nat)) (g : Graph)
    (h : mkGraph nU nV es = some g) :
    g.WF ∧ g.nU = nU ∧ g.nV = nV ∧ ∀ u v, g.edge u v ↔ (u, v) ∈ es := by
  unfold mkGraph at h
  split at h
  · exact absurd h (by simp)
  · rename_i h0
    obtain ⟨w, e1, e2, _, hmem⟩ := addEdges_spec es _ g (empty_wf0 nU nV) h
    have e1' : g.nU = nU := e1
    have e2' : g.nV = nV := e2
    refine ⟨w.toWF (by omega) (by omega), e1', e2', ?_⟩
    intro u v
    unfold Graph.edge
    rw [hmem]
    have : (Graph.empty nU nV).nbrU u = [] := by
      have := (empty_wf0 nU nV).rng u
      cases hl : (Graph.empty nU nV).nbrU u with
      | nil => rfl
      | cons b t =>
        exfalso
        simp [Graph.nbrU, Graph.empty, List.getD_eq_getElem?_getD, List.getElem?_replicate] at hl
        split at hl <;> simp at hl
    simp [this]

/-! ### checker-style theorem -/

/-- The decidable certificate evaluated by the driver on every model output is sound: it implies
    that `M` is a maximum matching and `(cu, cv)` a minimum vertex cover of existing vertices. -/
theorem certificate_sound (g : Graph) (hg : g.WF) (M : List (Nat × Nat)) (cu cv : List Nat)
    (h : certificateOk g M cu cv = true) :
    IsMatching g.edge M ∧ IsCover g.edge cu cv ∧
    (∀ u ∈ cu, u < g.nU) ∧ (∀ v ∈ cv, v < g.nV) ∧ cu.length + cv.length = M.length ∧
    (∀ M', IsMatching g.edge M' → M'.length ≤ M.length) ∧
    (∀ cu' cv', IsCover g.edge cu' cv' → cu.length + cv.length ≤ cu'.length + cv'.length) := by
  obtain ⟨h1, h2, h3, h4, h5, h6, h7⟩ := (certificateOk_iff g M cu cv).1 h
  have hM : IsMatching g.edge M := ⟨h1, h2, h3⟩
  have hC : IsCover g.edge cu cv := by
    intro u v huv
    exact h4 (u, v) ((mem_edges g u v).2 ⟨(hg.rng u v huv).1, huv⟩)
  obtain ⟨o1, o2⟩ := tight_pair_optimal g.edge M cu cv hM hC h7
  exact ⟨hM, hC, h5, h6, h7, o1, o2⟩

/-! ### (b) the Koenig construction -/

/-- For *every* valid matching `M` (maximum or not): if the cover part of `minimum_vertex_cover`
    returns normally, the two lists are strictly ascending, contain only existing vertices, touch
    every edge, and - because the code's own `assert` passed - have combined size `|M|`; hence `M`
    is maximum and the cover minimum. -/
theorem cover_ok_sound (g : Graph) (hg : g.WF) (M : List (Nat × Nat)) (hM : IsMatching g.edge M)
    (cu cv : List Nat) (h : coverOf g M = .ok (cu, cv)) :
    IsCover g.edge cu cv ∧ (∀ u ∈ cu, u < g.nU) ∧ (∀ v ∈ cv, v < g.nV) ∧
    cu.Pairwise (· < ·) ∧ cv.Pairwise (· < ·) ∧ cu.length + cv.length = M.length ∧
    (∀ M', IsMatching g.edge M' → M'.length ≤ M.length) ∧
    (∀ cu' cv', IsCover g.edge cu' cv' → cu.length + cv.length ≤ cu'.length + cv'.length) := by
  unfold coverOf at h
  split at h
  · exact absurd h (by simp)
  · rename_i cu0 cv0 hloop
    split at h
    · rename_i hlen
      simp only [Except.ok.injEq, Prod.mk.injEq] at h
      obtain ⟨rfl, rfl⟩ := h
      obtain ⟨_, _, s1, s2, _, hC, r1, r2⟩ := coverLoop_cover g M hg hM hloop
      obtain ⟨o1, o2⟩ := tight_pair_optimal g.edge M _ _ hM hC hlen
      exact ⟨hC, r1, r2, s1, s2, hlen, o1, o2⟩
    · exact absurd h (by simp)

/-- The exploration fuel `num_u + 1` is never exhausted (for any list `M` whatsoever). -/
theorem explore_fuel_suffices (g : Graph) (hg : g.WF) (M : List (Nat × Nat)) :
    coverOf g M ≠ .error .fuelExplore := by
  unfold coverOf
  obtain ⟨c', hc⟩ := coverLoop_total g M hg (freeLeft g M) (List.range g.nU, [])
    (fun u hu => ((mem_freeLeft g M u).1 hu).1)
  rw [hc]
  obtain ⟨cu, cv⟩ := c'
  simp only
  split <;> simp

/-- Koenig: if `M` is a valid matching and some set `R` of left vertices contains every free left
    vertex and is closed in the sense that every edge leaving `R` ends in a *matched* right vertex
    whose partner is again in `R` (this is exactly what a BFS that reports "no augmenting path"
    leaves behind, `R` = the left vertices with finite distance: see `bfs_false_closed`), then the
    cover part of `minimum_vertex_cover` returns normally - fuel suffices and the `assert` passes -
    and the result touches every edge, contains only existing vertices and has combined size
    `|M|`. -/
theorem koenig_cover (g : Graph) (hg : g.WF) (M : List (Nat × Nat)) (hM : IsMatching g.edge M)
    (R : Nat → Prop)
    (hfree : ∀ u, u < g.nU → (∀ v, (u, v) ∉ M) → R u)
    (hclosed : ∀ u v, R u → g.edge u v → ∃ w, (w, v) ∈ M ∧ R w) :
    ∃ cu cv, coverOf g M = .ok (cu, cv) ∧
      IsCover g.edge cu cv ∧ (∀ u ∈ cu, u < g.nU) ∧ (∀ v ∈ cv, v < g.nV) ∧
      cu.length + cv.length = M.length := by
  obtain ⟨c', hc⟩ := coverLoop_total g M hg (freeLeft g M) (List.range g.nU, [])
    (fun u hu => ((mem_freeLeft g M u).1 hu).1)
  obtain ⟨cu, cv⟩ := c'
  have hsize : cu.length + cv.length = M.length := by
    apply coverLoop_size g M hg hM hc R
    · intro u hu
      obtain ⟨h1, h2⟩ := (mem_freeLeft g M u).1 hu
      exact hfree u h1 (fun v hv => h2 (u, v) hv rfl)
    · intro u v hR huv
      obtain ⟨w, hw, _⟩ := hclosed u v hR huv
      exact ⟨w, hw⟩
    · intro u v w hR huv hw
      obtain ⟨w', hw', hRw'⟩ := hclosed u v hR huv
      rw [hM.left_unique hw hw']; exact hRw'
  obtain ⟨_, _, _, _, _, hC, r1, r2⟩ := coverLoop_cover g M hg hM hc
  refine ⟨cu, cv, ?_, hC, r1, r2, hsize⟩
  unfold coverOf
  rw [hc]
  simp [hsize]

/-! ### Non-vacuity: concrete instances -/

/-- the 3x3 "path" graph 0-0, 1-0, 1-1, 2-1, 2-2 with a duplicated entry and an isolated vertex -/
def exGraph : Graph := (mkGraph 3 4 [(0, 0), (1, 0), (1, 1), (1, 0), (2, 1), (2, 2)]).getD (Graph.empty 1 1)

example : mkGraph 3 4 [(0, 0), (1, 0), (1, 1), (1, 0), (2, 1), (2, 2)] = some exGraph := by decide
example : exGraph.adjU = [[0], [0, 1], [1, 2]] ∧ exGraph.adjV = [[0, 1], [1, 2], [2], []] := by decide
example : mkGraph 2 2 [(0, 2)] = none ∧ mkGraph 0 2 [] = none := by decide
example : minimumVertexCover exGraph = .ok ([(0, 0), (1, 1), (2, 2)], [0, 1, 2], []) := by rfl
example : certificateOk exGraph [(0, 0), (1, 1), (2, 2)] [0, 1, 2] [] = true := by decide
-- a matching/cover pair for which hypotheses of `weak_duality` / `tight_pair_optimal` hold
example : IsMatching exGraph.edge [(0, 0), (1, 1), (2, 2)] :=
  ⟨by decide, by decide, by decide⟩
example : IsCover exGraph.edge [1, 2] [0] := by
  intro u v h
  rw [(mkGraph_spec 3 4 [(0, 0), (1, 0), (1, 1), (1, 0), (2, 1), (2, 2)] exGraph (by decide)).2.2.2 u v] at h
  simp only [List.mem_cons, Prod.mk.injEq, List.not_mem_nil, or_false] at h
  rcases h with h | h | h | h | h | h <;> simp [h.1, h.2]
-- the cover part on a maximum matching
example : coverOf exGraph [(0, 0), (1, 1), (2, 2)] = .ok ([0, 1, 2], []) := by rfl
-- a non-maximum matching makes the code's own assert fail (hence the closure hypothesis)
example : coverOf exGraph [(1, 0), (2, 1)] = .error .assertion := by rfl

end Ptn.C14
