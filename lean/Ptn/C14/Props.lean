import Ptn.C14.Model
/-! Property theorems for C14. Only property theorems and non-vacuity examples live here. -/
namespace Ptn.C14
end Ptn.C14
