import Ptn.C14.Model
/-! Line-protocol handler for the C14 model (core Lean only). -/
namespace Ptn.C14
def handle (args : List String) : String := "bad-op"
end Ptn.C14
