import Ptn.C14.Model
/-! Line-protocol handler for the C14 model (core Lean only).

  graph <nU> <nV> <u:v> …   → `AU=<l>|<l>|…;AV=<l>|<l>|…` adjacency lists (`l` = comma separated), or `assert`
  match <nU> <nV> <u:v> …   → `M=<u:v,…>` the matching of `HopcroftKarp(graph)()`
  cover <nU> <nV> <u:v> …   → `M=<u:v,…>;U=<u,…>;V=<v,…>;cert=<0|1>` for `minimum_vertex_cover`
                               (`cert` = the decidable certificate of `Props.certificate_sound`)
  coverord <ka> <ku> <kv> <nU> <nV> <u:v> …  → as `cover`, computed by `minimumVertexCoverOrd` with the enumeration
                               policies `policy ka / ku / kv` (0 ascending, 1 reversed, 2 rotated, 3 odd keys first,
                               ≥4 a mix) for `for u in alist`, `list(u_cover)`, `list(v_cover)`
                               (`Props.mvc_order_independent`: the same line as `cover` for every choice)
  errors: `assert` (graph construction), `assert-cover` (the assert of minimum_vertex_cover),
          `fuel-bfs`, `fuel-dfs`, `fuel-outer`, `fuel-explore` (a fuel ran out: never expected)
-/
namespace Ptn.C14

def parseEdge (t : String) : Option (Nat × Nat) :=
  match t.splitOn ":" with
  | [a, b] =>
    match a.toNat?, b.toNat? with
    | some u, some v => some (u, v)
    | _, _ => none
  | _ => none

def parseEdges : List String → Option (List (Nat × Nat))
  | [] => some []
  | t :: ts =>
    match parseEdge t, parseEdges ts with
    | some e, some es => some (e :: es)
    | _, _ => none

def showNats (l : List Nat) : String := ",".intercalate (l.map toString)
def showPairs (l : List (Nat × Nat)) : String := ",".intercalate (l.map fun p => s!"{p.1}:{p.2}")

def Err.show : Err → String
  | .fuelBfs => "fuel-bfs"
  | .fuelDfs => "fuel-dfs"
  | .fuelOuter => "fuel-outer"
  | .fuelExplore => "fuel-explore"
  | .assertion => "assert-cover"

def withGraph (a b : String) (es : List String) (k : Graph → String) : String :=
  match a.toNat?, b.toNat?, parseEdges es with
  | some nU, some nV, some edges =>
    match mkGraph nU nV edges with
    | none => "assert"
    | some g => k g
  | _, _, _ => "bad-op"

def handle (args : List String) : String :=
  match args with
  | "graph" :: a :: b :: es =>
    withGraph a b es fun g =>
      "AU=" ++ "|".intercalate (g.adjU.map showNats) ++ ";AV=" ++ "|".intercalate (g.adjV.map showNats)
  | "match" :: a :: b :: es =>
    withGraph a b es fun g =>
      match hopcroftKarp g with
      | .error e => e.show
      | .ok M => "M=" ++ showPairs M
  | "cover" :: a :: b :: es =>
    withGraph a b es fun g =>
      match minimumVertexCover g with
      | .error e => e.show
      | .ok (M, cu, cv) =>
        s!"M={showPairs M};U={showNats cu};V={showNats cv};cert={if certificateOk g M cu cv then 1 else 0}"
  | "coverord" :: ka :: ku :: kv :: a :: b :: es =>
    match ka.toNat?, ku.toNat?, kv.toNat? with
    | some ka, some ku, some kv =>
      withGraph a b es fun g =>
        match minimumVertexCoverOrd ⟨policy ka, policy ku, policy kv⟩ g with
        | .error e => e.show
        | .ok (M, cu, cv) =>
          s!"M={showPairs M};U={showNats cu};V={showNats cv};cert={if certificateOk g M cu cv then 1 else 0}"
    | _, _, _ => "bad-op"
  | _ => "bad-op"

end Ptn.C14
