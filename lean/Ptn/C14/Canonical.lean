import Ptn.C14.Order
/-! The Koenig cover is canonical (core Lean only): among all minimum covers the pair returned by
the cover part of `minimum_vertex_cover` has the largest left part and the smallest right part;
hence it does not depend on *which* maximum matching Hopcroft-Karp found, nor on the order of the
adjacency lists. -/
namespace Ptn.C14

theorem subset_of_nodup_length_le : ∀ (l₁ l₂ : List Nat), l₁.Nodup → l₁ ⊆ l₂ →
    l₂.length ≤ l₁.length → l₂ ⊆ l₁ := by
  intro l₁
  induction l₁ with
  | nil =>
    intro l₂ _ _ hlen x hx
    cases l₂ with
    | nil => exact hx
    | cons a t => simp at hlen
  | cons a t ih =>
    intro l₂ hnd hsub hlen x hx
    rw [List.nodup_cons] at hnd
    have ha : a ∈ l₂ := hsub (List.mem_cons_self ..)
    have hsub' : t ⊆ l₂.erase a := by
      intro y hy
      have hya : y ≠ a := fun h => hnd.1 (h ▸ hy)
      exact (List.mem_erase_of_ne hya).2 (hsub (List.mem_cons_of_mem _ hy))
    have hlen' : (l₂.erase a).length ≤ t.length := by
      rw [List.length_erase_of_mem ha]
      simp only [List.length_cons] at hlen
      omega
    have := ih (l₂.erase a) hnd.2 hsub' hlen'
    by_cases hxa : x = a
    · subst hxa; exact List.mem_cons_self ..
    · exact List.mem_cons_of_mem _ (this ((List.mem_erase_of_ne hxa).2 hx))

/-- A cover as small as a matching consists of one end of every matching edge: every left cover
    vertex is matched, and every right cover vertex is matched to a left vertex outside the cover. -/
theorem tight_cover_ends {E : Nat → Nat → Prop} {M : List (Nat × Nat)} {cu cv : List Nat}
    (hM : IsMatching E M) (hC : IsCover E cu cv) (hsz : cu.length + cv.length = M.length) :
    (∀ x ∈ cu, ∃ e ∈ M, e.1 = x) ∧ (∀ y ∈ cv, ∃ e ∈ M, e.2 = y ∧ e.1 ∉ cu) := by
  let p : Nat × Nat → Bool := fun e => decide (e.1 ∈ cu)
  have hsplit := length_filter_split p M
  have hndA : ((M.filter p).map Prod.fst).Nodup := (List.filter_sublist.map Prod.fst).nodup hM.left
  have hsubA : (M.filter p).map Prod.fst ⊆ cu := by
    intro u hu
    rcases List.mem_map.1 hu with ⟨e, he, rfl⟩
    have := (List.mem_filter.1 he).2
    simpa [p] using this
  have hndB : ((M.filter (fun a => !p a)).map Prod.snd).Nodup :=
    (List.filter_sublist.map Prod.snd).nodup hM.right
  have hsubB : (M.filter (fun a => !p a)).map Prod.snd ⊆ cv := by
    intro v hv
    rcases List.mem_map.1 hv with ⟨e, he, rfl⟩
    have hmem := List.mem_filter.1 he
    have hnot : e.1 ∉ cu := by simpa [p] using hmem.2
    rcases hC e.1 e.2 (hM.edges e hmem.1) with h | h
    · exact absurd h hnot
    · exact h
  have hA := hndA.length_le_of_subset hsubA
  have hB := hndB.length_le_of_subset hsubB
  simp only [List.length_map] at hA hB
  have hA' : cu.length ≤ ((M.filter p).map Prod.fst).length := by
    simp only [List.length_map]; omega
  have hB' : cv.length ≤ ((M.filter (fun a => !p a)).map Prod.snd).length := by
    simp only [List.length_map]; omega
  have hcuA := subset_of_nodup_length_le _ _ hndA hsubA hA'
  have hcvB := subset_of_nodup_length_le _ _ hndB hsubB hB'
  constructor
  · intro x hx
    obtain ⟨e, he, rfl⟩ := List.mem_map.1 (hcuA hx)
    exact ⟨e, (List.mem_filter.1 he).1, rfl⟩
  · intro y hy
    obtain ⟨e, he, rfl⟩ := List.mem_map.1 (hcvB hy)
    have hmem := List.mem_filter.1 he
    exact ⟨e, hmem.1, rfl, by simpa [p] using hmem.2⟩

theorem IsMatching.congr {E E' : Nat → Nat → Prop} {M : List (Nat × Nat)} (h : IsMatching E M)
    (hE : ∀ u v, E u v → E' u v) : IsMatching E' M :=
  ⟨fun p hp => hE _ _ (h.edges p hp), h.left, h.right⟩

theorem IsCover.congr {E E' : Nat → Nat → Prop} {cu cv : List Nat} (h : IsCover E cu cv)
    (hE : ∀ u v, E' u v → E u v) : IsCover E' cu cv :=
  fun u v huv => h u v (hE u v huv)

section
variable (g : Graph) (M : List (Nat × Nat)) (hg : g.WF) (hM : IsMatching g.edge M)
include hg hM

/-- Every vertex reached by the exploration avoids / belongs to every minimum cover: left
    vertices reached from the free left vertices are in no minimum cover, right vertices reached
    are in every minimum cover. -/
theorem koenig_extremal (cu' cv' : List Nat) (hC : IsCover g.edge cu' cv')
    (hsz : cu'.length + cv'.length = M.length) :
    (∀ x, ZU g M (freeLeft g M) x → x ∉ cu') ∧ (∀ y, ZV g M (freeLeft g M) y → y ∈ cv') := by
  obtain ⟨hL, hR⟩ := tight_cover_ends hM hC hsz
  have hfree : ∀ u ∈ freeLeft g M, u ∉ cu' := by
    intro u hu hin
    obtain ⟨e, he, he1⟩ := hL u hin
    exact ((mem_freeLeft g M u).1 hu).2 e he he1
  have hclos : ∀ u v w, u ∉ cu' → v ∈ g.nbrU u → (w, v) ∈ M → w ∉ cu' := by
    intro u v w hu hv hw
    have hvc : v ∈ cv' := by
      rcases hC u v hv with h | h
      · exact absurd h hu
      · exact h
    obtain ⟨e, he, he2, he1⟩ := hR v hvc
    obtain ⟨a, b⟩ := e
    simp only at he2 he1
    subst he2
    rw [hM.left_unique hw he]
    exact he1
  obtain ⟨z1, z2⟩ := Z_prov g M hg hM (fun u => u ∉ cu') hfree hclos
  refine ⟨fun x hx => (z1 x hx).2.1, ?_⟩
  intro y hy
  obtain ⟨u, hu, huy⟩ := z2 y hy
  rcases hC u y huy with h | h
  · exact absurd h (z1 u hu).2.1
  · exact h

end

/-- Unfolding a normal return of the cover part. -/
theorem coverOf_ok {g : Graph} {M : List (Nat × Nat)} {cu cv : List Nat}
    (h : coverOf g M = .ok (cu, cv)) :
    coverLoop g M (freeLeft g M) (List.range g.nU, []) = some (cu, cv) ∧
      cu.length + cv.length = M.length := by
  unfold coverOf at h
  split at h
  · exact absurd h (by simp)
  · rename_i cu0 cv0 hloop
    split at h
    · rename_i hlen
      simp only [Except.ok.injEq, Prod.mk.injEq] at h
      obtain ⟨rfl, rfl⟩ := h
      exact ⟨hloop, hlen⟩
    · exact absurd h (by simp)

/-- One half of canonicity: the result for `(g, M)` dominates the result for `(g', M')`. -/
theorem coverOf_dominates (g g' : Graph) (hg : g.WF) (hg' : g'.WF) (hn : g.nU = g'.nU)
    (hE : ∀ u v, g.edge u v ↔ g'.edge u v) (M M' : List (Nat × Nat))
    (hM : IsMatching g.edge M) (hM' : IsMatching g'.edge M') {cu cv cu' cv' : List Nat}
    (h : coverOf g M = .ok (cu, cv)) (h' : coverOf g' M' = .ok (cu', cv')) :
    (∀ x, x ∈ cu' → x ∈ cu) ∧ (∀ y, y ∈ cv → y ∈ cv') := by
  obtain ⟨hl, hlen⟩ := coverOf_ok h
  obtain ⟨hl', hlen'⟩ := coverOf_ok h'
  obtain ⟨hcu, hcv, _, _, _, hC, _, _⟩ := coverLoop_cover g M hg hM hl
  obtain ⟨_, _, _, _, _, hC', hr', _⟩ := coverLoop_cover g' M' hg' hM' hl'
  -- both matchings are maximum for the common edge relation
  have hC'g : IsCover g.edge cu' cv' := hC'.congr (fun u v => (hE u v).1)
  have hM'g : IsMatching g.edge M' := hM'.congr (fun u v => (hE u v).2)
  have o1 := weak_duality_aux g.edge M' cu cv hM'g hC
  have o2 := weak_duality_aux g.edge M cu' cv' hM hC'g
  have hsz : cu'.length + cv'.length = M.length := by omega
  obtain ⟨e1, e2⟩ := koenig_extremal g M hg hM cu' cv' hC'g hsz
  constructor
  · intro x hx
    exact (hcu x).2 ⟨hn ▸ hr' x hx, fun hz => e1 x hz hx⟩
  · intro y hy
    exact e2 y ((hcv y).1 hy)

end Ptn.C14

namespace Ptn.C14

/-- Unfolding a normal return of `minimum_vertex_cover`. -/
theorem mvc_ok_unfold {g : Graph} {M : List (Nat × Nat)} {cu cv : List Nat}
    (h : minimumVertexCover g = .ok (M, cu, cv)) :
    hopcroftKarp g = .ok M ∧ coverOf g M = .ok (cu, cv) := by
  unfold minimumVertexCover at h
  split at h
  · exact absurd h (by simp)
  · rename_i M0 hM0
    split at h
    · exact absurd h (by simp)
    · rename_i c hc
      simp only [Except.ok.injEq, Prod.mk.injEq] at h
      obtain ⟨rfl, rfl, rfl⟩ := h
      exact ⟨hM0, hc⟩

end Ptn.C14
