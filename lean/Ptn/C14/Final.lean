import Ptn.C14.Bfs
/-! Glue: the state in which the outer Hopcroft-Karp loop exits, and the closure it provides for
the Koenig construction. -/
namespace Ptn.C14

theorem Consistent.mV_lt {g : Graph} (hg : g.WF) {s : HK} (hs : Consistent g s) :
    ∀ v w, s.mV v = some w → w < g.nU := by
  intro v w h
  exact (hg.rng w v (hs.fwd w v (hs.bwd v w h)).1).1

/-- The exit state of the outer loop: a consistent matching together with the distances of a BFS
    that did not reach NIL. -/
theorem hkLoop_final (g : Graph) : ∀ (f : Nat) (s0 s : HK), Consistent g s0 →
    hkLoop g f s0 = .ok s →
    Consistent g s ∧ (∃ sp, bfs g sp = some s.dist ∧ sp.mU = s.mU ∧ sp.mV = s.mV) ∧
      s.dist none = g.inf := by
  intro f
  induction f with
  | zero => intro s0 s _ h; simp [hkLoop] at h
  | succ f ih =>
    intro s0 s hs h
    simp only [hkLoop] at h
    split at h
    · exact absurd h (by simp)
    · rename_i d hb
      split at h
      · split at h
        · exact absurd h (by simp)
        · rename_i s1 hp
          exact ih s1 s (phase_consistent g _ { s0 with dist := d } s1 (hs.of_eq rfl rfl) hp) h
      · rename_i hnil
        simp only [Except.ok.injEq] at h
        subst h
        exact ⟨hs.of_eq rfl rfl, ⟨s0, hb, rfl, rfl⟩, by simpa using hnil⟩

/-- The closure delivered by the final BFS, phrased for the collected matching. -/
theorem final_closure (g : Graph) (hg : g.WF) (s : HK) (hs : Consistent g s)
    (hb : ∃ sp, bfs g sp = some s.dist ∧ sp.mU = s.mU ∧ sp.mV = s.mV)
    (hnil : s.dist none = g.inf) :
    let M := collect s.mU g.nU
    let R : Nat → Prop := fun u => u < g.nU ∧ s.dist (some u) < g.inf
    (∀ u, u < g.nU → (∀ v, (u, v) ∉ M) → R u) ∧
    (∀ u v, R u → g.edge u v → ∃ w, (w, v) ∈ M ∧ R w) := by
  intro M R
  obtain ⟨sp, hbfs, e1, e2⟩ := hb
  obtain ⟨d, hd, hfin⟩ := bfs_spec g sp (by rw [e2]; exact hs.mV_lt hg)
  rw [hbfs] at hd
  cases hd
  rw [e1, e2] at hfin
  have hinfpos : 0 < g.inf := by simp [Graph.inf]
  constructor
  · intro u hu hnm
    refine ⟨hu, ?_⟩
    have : s.mU u = none := by
      cases hx : s.mU u with
      | none => rfl
      | some v => exact absurd ((mem_collect _ _ _ _).2 ⟨hu, hx⟩) (hnm v)
    have := hfin.inv.free u hu this
    simp only at this
    omega
  · rintro u v ⟨hu, hfu⟩ huv
    have hcl := hfin.closed u hu hfu (by simp only; omega) v huv
    simp only at hcl
    cases hx : s.mV v with
    | none => rw [hx, hnil] at hcl; omega
    | some w =>
      rw [hx] at hcl
      have hw : w < g.nU := hs.mV_lt hg v w hx
      exact ⟨w, (mem_collect _ _ _ _).2 ⟨hw, hs.bwd v w hx⟩, hw, hcl⟩

end Ptn.C14
