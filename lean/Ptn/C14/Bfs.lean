import Ptn.C14.Matching
/-! The BFS layering `__connect_unmatched_vertices`:
 * finite distances are contiguous, hence at most `num_u - 1` at left vertices and never equal to
   `inf_dist` when assigned,
 * every vertex enters the queue at most once, hence the queue fuel suffices,
 * when the queue is empty every finite left vertex below the NIL layer has only neighbours whose
   partner (or NIL) is finite: the closure used by the Koenig construction. -/
namespace Ptn.C14

/-- Pigeonhole: if every value `0..k` is attained at some index below `n` then `k < n`. -/
theorem pigeon (n k : Nat) (d : Nat → Nat) (h : ∀ j, j ≤ k → ∃ u, u < n ∧ d u = j) : k < n := by
  classical
  let f : Nat → Nat := fun j => if hj : j ≤ k then Classical.choose (h j hj) else 0
  have hf : ∀ j, j ≤ k → f j < n ∧ d (f j) = j := by
    intro j hj
    simp only [f, hj, dif_pos]
    exact Classical.choose_spec (h j hj)
  have hnd : ((List.range (k + 1)).map f).Nodup := by
    rw [List.Nodup, List.pairwise_map]
    apply List.Pairwise.imp_of_mem _ List.pairwise_lt_range
    intro a b ha hb hab heq
    have ha' : a ≤ k := by have := List.mem_range.1 ha; omega
    have hb' : b ≤ k := by have := List.mem_range.1 hb; omega
    have e1 := (hf a ha').2
    have e2 := (hf b hb').2
    rw [heq] at e1
    omega
  have hsub : ∀ x ∈ (List.range (k + 1)).map f, x < n := by
    intro x hx
    obtain ⟨j, hj, rfl⟩ := List.mem_map.1 hx
    have : j ≤ k := by have := List.mem_range.1 hj; omega
    exact (hf j this).1
  have := nodup_lt_length_le hnd hsub
  simp at this
  omega

section
variable (g : Graph)

/-- keys of `dist` that the algorithm uses -/
def Valid : Option Nat → Prop
  | none => True
  | some u => u < g.nU

/-- number of left vertices `< n` whose distance is `inf` -/
def cntInf (d : Option Nat → Nat) : Nat → Nat
  | 0 => 0
  | n + 1 => cntInf d n + (if d (some n) = g.inf then 1 else 0)

theorem cntInf_upd_ge (d : Option Nat → Nat) (a c : Nat) : ∀ n, n ≤ a →
    cntInf g (upd d (some a) c) n = cntInf g d n := by
  intro n
  induction n with
  | zero => intro _; rfl
  | succ n ih =>
    intro h
    have hne : some n ≠ some a := by intro he; cases he; omega
    simp only [cntInf, ih (by omega), upd_ne _ _ hne]

theorem cntInf_upd_none (d : Option Nat → Nat) (c : Nat) : ∀ n,
    cntInf g (upd d none c) n = cntInf g d n := by
  intro n
  induction n with
  | zero => rfl
  | succ n ih => simp only [cntInf, ih, upd_ne _ _ (show some n ≠ none by simp)]

theorem cntInf_upd_lt (d : Option Nat → Nat) (a c : Nat) (hd : d (some a) = g.inf) (hc : c ≠ g.inf) :
    ∀ n, a < n → cntInf g (upd d (some a) c) n + 1 = cntInf g d n := by
  intro n
  induction n with
  | zero => intro h; omega
  | succ n ih =>
    intro h
    by_cases han : a = n
    · subst han
      simp only [cntInf, cntInf_upd_ge g d a c a (Nat.le_refl _), upd_same, hd, hc, if_true, if_false]
    · have hne : some n ≠ some a := by intro he; cases he; omega
      simp only [cntInf, upd_ne _ _ hne]
      have := ih (by omega)
      omega

/-- termination measure of the queue loop -/
def mu (st : BfsSt) : Nat :=
  st.queue.length + cntInf g st.dist g.nU + (if st.dist none = g.inf then 1 else 0)

variable (mU mV : Nat → Option Nat)

structure BInv (st : BfsSt) : Prop where
  qvalid : ∀ x ∈ st.queue, Valid g x
  le : ∀ x, Valid g x → st.dist x ≤ g.inf
  contig : ∀ x, Valid g x → st.dist x < g.inf → ∀ k, k < st.dist x →
    ∃ a, a < g.nU ∧ st.dist (some a) = k
  free : ∀ a, a < g.nU → mU a = none → st.dist (some a) = 0
  nilpos : 0 < st.dist none
  /-- layer 0 consists of free vertices only -/
  zero : ∀ a, a < g.nU → st.dist (some a) = 0 → mU a = none
  /-- every finite positive layer entry has a predecessor one layer below -/
  pred : ∀ x, Valid g x → 0 < st.dist x → st.dist x < g.inf →
    ∃ a, a < g.nU ∧ ∃ v ∈ g.nbrU a, mV v = x ∧ st.dist (some a) + 1 = st.dist x

/-- finite distances at left vertices are below `num_u` -/
theorem BInv.bound {st : BfsSt} (h : BInv g mU mV st) {a : Nat} (ha : a < g.nU)
    (hfin : st.dist (some a) < g.inf) : st.dist (some a) < g.nU := by
  apply pigeon g.nU (st.dist (some a)) (fun u => st.dist (some u))
  intro j hj
  by_cases hja : j = st.dist (some a)
  · exact ⟨a, ha, hja.symm⟩
  · exact h.contig (some a) ha hfin j (by omega)

def Closed (st : BfsSt) (a : Nat) : Prop :=
  st.dist (some a) < st.dist none → ∀ v ∈ g.nbrU a, st.dist (mV v) < g.inf

/-- every finite left vertex (except `ex`, the one being scanned) is queued or closed -/
def Prog (ex : Option Nat) (st : BfsSt) : Prop :=
  ∀ a, a < g.nU → some a ≠ ex → st.dist (some a) < g.inf → some a ∈ st.queue ∨ Closed g mV st a

/-- what a scan may change -/
structure Step (st st' : BfsSt) : Prop where
  keep : ∀ y, st.dist y < g.inf → st'.dist y = st.dist y
  nilLe : st'.dist none ≤ st.dist none
  pre : st.queue <+: st'.queue
  fresh : ∀ y, st'.dist y < g.inf → st.dist y < g.inf ∨ y ∈ st'.queue

theorem Step.refl (st : BfsSt) : Step g st st :=
  ⟨fun _ _ => rfl, Nat.le_refl _, List.prefix_rfl, fun _ h => Or.inl h⟩

theorem Step.trans {a b c : BfsSt} (h1 : Step g a b) (h2 : Step g b c) : Step g a c := by
  refine ⟨?_, Nat.le_trans h2.nilLe h1.nilLe, h1.pre.trans h2.pre, ?_⟩
  · intro y hy
    have e1 := h1.keep y hy
    rw [h2.keep y (by rw [e1]; exact hy), e1]
  · intro y hy
    rcases h2.fresh y hy with h | h
    · rcases h1.fresh y h with h' | h'
      · exact Or.inl h'
      · exact Or.inr (h2.pre.subset h')
    · exact Or.inr h

theorem Prog.step {ex : Option Nat} {st st' : BfsSt} (hp : Prog g mV ex st) (hs : Step g st st') :
    Prog g mV ex st' := by
  intro a ha hne hfin
  rcases hs.fresh _ hfin with h | h
  · rcases hp a ha hne h with h1 | h1
    · exact Or.inl (hs.pre.subset h1)
    · right
      intro hlt v hv
      have e1 := hs.keep _ h
      have hlt' : st.dist (some a) < st.dist none := by
        rw [← e1]; exact Nat.lt_of_lt_of_le hlt hs.nilLe
      have := h1 hlt' v hv
      rw [hs.keep _ this]; exact this
  · exact Or.inl h

/-- one assignment `dist[w] = dist[u] + 1; queue.put(w)` -/
theorem set_step {st : BfsSt} (hI : BInv g mU mV st) {u : Nat} (hu : u < g.nU)
    (hfin : st.dist (some u) < g.inf) {w : Option Nat} (hw : Valid g w) (hinf : st.dist w = g.inf)
    {v : Nat} (hv : v ∈ g.nbrU u) (hvw : mV v = w) :
    let st' : BfsSt := ⟨upd st.dist w (st.dist (some u) + 1), st.queue ++ [w]⟩
    BInv g mU mV st' ∧ mu g st' = mu g st ∧ Step g st st' ∧ st'.dist w < g.inf := by
  intro st'
  have hb := hI.bound g mU mV hu hfin
  have hnew : st.dist (some u) + 1 < g.inf := by simp only [Graph.inf]; omega
  have huw : some u ≠ w := by intro he; rw [← he] at hinf; omega
  refine ⟨⟨?_, ?_, ?_, ?_, ?_, ?_, ?_⟩, ?_, ⟨?_, ?_, ?_, ?_⟩, ?_⟩
  · intro x hx
    simp only [st', List.mem_append, List.mem_singleton] at hx
    rcases hx with hx | rfl
    · exact hI.qvalid x hx
    · exact hw
  · intro x hx
    by_cases hxw : x = w
    · subst hxw; simp only [st', upd_same]; omega
    · simp only [st', upd_ne _ _ hxw]; exact hI.le x hx
  · intro x hx hxfin k hk
    have wit : ∀ k, (∃ a, a < g.nU ∧ st.dist (some a) = k) → k < g.inf →
        ∃ a, a < g.nU ∧ st'.dist (some a) = k := by
      rintro k ⟨a, ha, hak⟩ hkf
      refine ⟨a, ha, ?_⟩
      have : some a ≠ w := by intro he; rw [← he, hak] at hinf; omega
      simp only [st', upd_ne _ _ this]; exact hak
    by_cases hxw : x = w
    · subst hxw
      simp only [st', upd_same] at hk
      by_cases hku : k = st.dist (some u)
      · exact wit k ⟨u, hu, hku.symm⟩ (by omega)
      · exact wit k (hI.contig (some u) hu hfin k (by omega)) (by omega)
    · simp only [st', upd_ne _ _ hxw] at hxfin hk
      exact wit k (hI.contig x hx hxfin k hk) (by omega)
  · intro a ha hfree
    have h0 := hI.free a ha hfree
    have : some a ≠ w := by
      intro he; rw [← he, h0] at hinf; simp only [Graph.inf] at hinf; omega
    simp only [st', upd_ne _ _ this]; exact h0
  · by_cases hn : (none : Option Nat) = w
    · subst hn; simp only [st', upd_same]; omega
    · simp only [st', upd_ne _ _ hn]; exact hI.nilpos
  · intro a ha h0
    by_cases haw : some a = w
    · subst haw; simp only [st', upd_same] at h0; omega
    · simp only [st', upd_ne _ _ haw] at h0; exact hI.zero a ha h0
  · intro x hx hpos hxfin
    have wit : ∀ a, a < g.nU → st.dist (some a) < g.inf → st'.dist (some a) = st.dist (some a) := by
      intro a _ hfa
      have : some a ≠ w := by intro he; rw [← he] at hinf; omega
      simp only [st', upd_ne _ _ this]
    by_cases hxw : x = w
    · subst hxw
      refine ⟨u, hu, v, hv, hvw, ?_⟩
      rw [wit u hu hfin]; simp [st']
    · simp only [st', upd_ne _ _ hxw] at hpos hxfin ⊢
      obtain ⟨a, ha, v', hv', hm, hd⟩ := hI.pred x hx hpos hxfin
      refine ⟨a, ha, v', hv', hm, ?_⟩
      have hfa : st.dist (some a) < g.inf := by omega
      have := wit a ha hfa
      simp only [st'] at this
      rw [this]; exact hd
  · -- measure
    simp only [mu, st', List.length_append, List.length_singleton]
    cases w with
    | none =>
      simp only [upd_same, cntInf_upd_none, hinf, if_true]
      rw [if_neg (by omega)]
      omega
    | some a =>
      have ha : a < g.nU := hw
      have := cntInf_upd_lt g st.dist a (st.dist (some u) + 1) hinf (by omega) g.nU ha
      simp only [upd_ne _ _ (show (none : Option Nat) ≠ some a by simp)]
      omega
  · intro y hy
    have : y ≠ w := by intro he; rw [he] at hy; omega
    simp only [st', upd_ne _ _ this]
  · by_cases hn : (none : Option Nat) = w
    · subst hn; simp only [st', upd_same]; omega
    · simp only [st', upd_ne _ _ hn]; exact Nat.le_refl _
  · exact List.prefix_append _ _
  · intro y hy
    by_cases hyw : y = w
    · subst hyw; right; simp [st']
    · simp only [st', upd_ne _ _ hyw] at hy; exact Or.inl hy
  · simp only [st', upd_same]; exact hnew

theorem scan_spec (hmV : ∀ v w, mV v = some w → w < g.nU) {u : Nat} (hu : u < g.nU) :
    ∀ (vs : List Nat) (st : BfsSt), (∀ v ∈ vs, v ∈ g.nbrU u) → BInv g mU mV st →
      st.dist (some u) < g.inf →
      let st' := bfsScan g mV (some u) vs st
      BInv g mU mV st' ∧ mu g st' = mu g st ∧ Step g st st' ∧ ∀ v ∈ vs, st'.dist (mV v) < g.inf := by
  intro vs
  induction vs with
  | nil =>
    intro st _ hI _
    exact ⟨hI, rfl, Step.refl g st, by simp⟩
  | cons v vs ih =>
    intro st hvs hI hfin
    have hvs' : ∀ b ∈ vs, b ∈ g.nbrU u := fun b hb => hvs b (List.mem_cons_of_mem _ hb)
    have hw : Valid g (mV v) := by
      cases hx : mV v with
      | none => trivial
      | some w => exact hmV v w hx
    simp only [bfsScan]
    split
    · rename_i hinf
      obtain ⟨hI1, hm1, hs1, hf1⟩ := set_step g mU mV hI hu hfin hw hinf
        (hvs v (List.mem_cons_self ..)) rfl
      have hfin1 : (⟨upd st.dist (mV v) (st.dist (some u) + 1), st.queue ++ [mV v]⟩ : BfsSt).dist (some u)
          < g.inf := by
        rw [hs1.keep _ hfin]; exact hfin
      obtain ⟨hI2, hm2, hs2, hall⟩ := ih _ hvs' hI1 hfin1
      refine ⟨hI2, hm2.trans hm1, hs1.trans g hs2, ?_⟩
      intro b hb
      rcases List.mem_cons.1 hb with rfl | hb
      · rw [hs2.keep _ hf1]; exact hf1
      · exact hall b hb
    · rename_i hinf
      obtain ⟨hI2, hm2, hs2, hall⟩ := ih st hvs' hI hfin
      refine ⟨hI2, hm2, hs2, ?_⟩
      intro b hb
      rcases List.mem_cons.1 hb with rfl | hb
      · have : st.dist (mV b) < g.inf := by
          have := hI.le _ hw; omega
        rw [hs2.keep _ this]; exact this
      · exact hall b hb

/-- what holds when the queue has run empty -/
structure BFinal (d : Option Nat → Nat) : Prop where
  inv : BInv g mU mV ⟨d, []⟩
  closed : ∀ a, a < g.nU → d (some a) < g.inf → Closed g mV ⟨d, []⟩ a

theorem bfsLoop_spec (hmV : ∀ v w, mV v = some w → w < g.nU) :
    ∀ (f : Nat) (st : BfsSt), BInv g mU mV st → Prog g mV none st → mu g st ≤ f →
      ∃ d, bfsLoop g mV f st = some d ∧ BFinal g mU mV d := by
  intro f
  induction f with
  | zero =>
    intro st hI hP hmu
    obtain ⟨dist, queue⟩ := st
    have : queue = [] := by
      cases queue with
      | nil => rfl
      | cons x q => simp [mu] at hmu
    subst this
    refine ⟨dist, by simp [bfsLoop], hI, ?_⟩
    intro a ha hfin
    rcases hP a ha (by simp) hfin with h | h
    · simp at h
    · exact h
  | succ f ih =>
    intro st hI hP hmu
    obtain ⟨dist, queue⟩ := st
    cases queue with
    | nil =>
      refine ⟨dist, by simp [bfsLoop], hI, ?_⟩
      intro a ha hfin
      rcases hP a ha (by simp) hfin with h | h
      · simp at h
      · exact h
    | cons x q =>
      -- the state after `queue.get()`
      have hIpop : BInv g mU mV ⟨dist, q⟩ :=
        ⟨fun y hy => hI.qvalid y (List.mem_cons_of_mem _ hy), hI.le, hI.contig, hI.free, hI.nilpos,
          hI.zero, hI.pred⟩
      have hmupop : mu g ⟨dist, q⟩ ≤ f := by
        simp only [mu, List.length_cons] at hmu ⊢; omega
      have hPpop : Prog g mV x ⟨dist, q⟩ := by
        intro a ha hne hfin
        rcases hP a ha (by simp) hfin with h | h
        · rcases List.mem_cons.1 h with h | h
          · exact absurd h hne
          · exact Or.inl h
        · exact Or.inr h
      simp only [bfsLoop]
      split
      · rename_i hguard
        cases x with
        | none => exact absurd hguard (Nat.lt_irrefl _)
        | some u =>
          have hu : u < g.nU := hI.qvalid (some u) (List.mem_cons_self ..)
          have hfin : dist (some u) < g.inf := by
            have := hI.le none trivial
            exact Nat.lt_of_lt_of_le hguard this
          obtain ⟨hI2, hm2, hs2, hall⟩ := scan_spec g mU mV hmV hu (g.nbrU u) ⟨dist, q⟩
            (fun _ h => h) hIpop hfin
          apply ih _ hI2
          · intro a ha _ hfa
            by_cases hau : a = u
            · subst hau
              right
              intro _ v hv
              exact hall v hv
            · exact (hPpop.step g mV hs2) a ha (by simp [hau]) hfa
          · show mu g (bfsScan g mV (some u) (g.nbrU u) ⟨dist, q⟩) ≤ f
            rw [hm2]; exact hmupop
      · rename_i hguard
        apply ih _ hIpop _ hmupop
        intro a ha _ hfa
        by_cases hax : some a = x
        · subst hax
          right
          intro hlt
          exact absurd hlt hguard
        · exact hPpop a ha hax hfa

/-! ### initialisation -/

theorem bfsInit_fold (dist0 : Option Nat → Nat) : ∀ n,
    let st := (List.range n).foldl (fun (st : BfsSt) u =>
      if mU u = none then ⟨upd st.dist (some u) 0, st.queue ++ [some u]⟩
      else ⟨upd st.dist (some u) g.inf, st.queue⟩) ⟨dist0, []⟩
    (∀ x, x ∈ st.queue ↔ ∃ u, u < n ∧ mU u = none ∧ x = some u) ∧
    (∀ u, u < n → st.dist (some u) = if mU u = none then 0 else g.inf) ∧
    (∀ u, n ≤ u → st.dist (some u) = dist0 (some u)) ∧
    st.queue.length + cntInf g st.dist n = n := by
  intro n
  induction n with
  | zero => simp [cntInf]
  | succ n ih =>
    simp only [List.range_succ, List.foldl_append, List.foldl_cons, List.foldl_nil]
    obtain ⟨h1, h2, h3, h4⟩ := ih
    generalize (List.range n).foldl _ _ = st at h1 h2 h3 h4 ⊢
    by_cases hf : mU n = none
    · simp only [hf, if_true]
      refine ⟨?_, ?_, ?_, ?_⟩
      · intro x
        simp only [List.mem_append, List.mem_singleton, h1]
        constructor
        · rintro (⟨u, hu, hm, rfl⟩ | rfl)
          · exact ⟨u, by omega, hm, rfl⟩
          · exact ⟨n, by omega, hf, rfl⟩
        · rintro ⟨u, hu, hm, rfl⟩
          by_cases hun : u = n
          · right; rw [hun]
          · left; exact ⟨u, by omega, hm, rfl⟩
      · intro u hu
        by_cases hun : u = n
        · subst hun; simp [hf]
        · rw [upd_ne _ _ (by simp [hun])]; exact h2 u (by omega)
      · intro u hu
        rw [upd_ne _ _ (by intro he; cases he; omega)]; exact h3 u (by omega)
      · simp only [List.length_append, List.length_singleton, cntInf, upd_same,
          cntInf_upd_ge g st.dist n 0 n (Nat.le_refl _)]
        have : (0 : Nat) ≠ g.inf := by simp [Graph.inf]
        simp only [this, if_false]
        omega
    · simp only [hf, if_false]
      refine ⟨?_, ?_, ?_, ?_⟩
      · intro x
        simp only [h1]
        constructor
        · rintro ⟨u, hu, hm, rfl⟩; exact ⟨u, by omega, hm, rfl⟩
        · rintro ⟨u, hu, hm, rfl⟩
          have : u ≠ n := by intro he; subst he; exact hf hm
          exact ⟨u, by omega, hm, rfl⟩
      · intro u hu
        by_cases hun : u = n
        · subst hun; simp [hf]
        · rw [upd_ne _ _ (by simp [hun])]; exact h2 u (by omega)
      · intro u hu
        rw [upd_ne _ _ (by intro he; cases he; omega)]; exact h3 u (by omega)
      · simp only [cntInf, upd_same, cntInf_upd_ge g st.dist n g.inf n (Nat.le_refl _), if_true]
        omega

theorem bfsInit_spec (dist0 : Option Nat → Nat) :
    BInv g mU mV (bfsInit g mU dist0) ∧ Prog g mV none (bfsInit g mU dist0) ∧
    mu g (bfsInit g mU dist0) = g.nU + 1 := by
  obtain ⟨h1, h2, _, h4⟩ := bfsInit_fold g mU dist0 g.nU
  simp only [bfsInit]
  generalize (List.range g.nU).foldl _ _ = st at h1 h2 h4 ⊢
  have hd : ∀ u, u < g.nU → upd st.dist none g.inf (some u) = if mU u = none then 0 else g.inf := by
    intro u hu; rw [upd_ne _ _ (by simp)]; exact h2 u hu
  have hinfpos : 0 < g.inf := by simp [Graph.inf]
  refine ⟨⟨?_, ?_, ?_, ?_, ?_, ?_, ?_⟩, ?_, ?_⟩
  · intro x hx
    obtain ⟨u, hu, _, rfl⟩ := (h1 x).1 hx
    exact hu
  · intro x hx
    dsimp only
    cases x with
    | none => simp
    | some u => rw [hd u hx]; split <;> omega
  · intro x hx hfin k hk
    dsimp only at hfin hk ⊢
    cases x with
    | none => simp at hfin
    | some u =>
      rw [hd u hx] at hfin hk
      split at hk
      · omega
      · rename_i hm; simp [hm] at hfin
  · intro a ha hm
    dsimp only
    rw [hd a ha, if_pos hm]
  · dsimp only; simp only [upd_same]; exact hinfpos
  · intro a ha h0
    dsimp only at h0
    rw [hd a ha] at h0
    split at h0
    · assumption
    · omega
  · intro x hx hpos hfin
    dsimp only at hpos hfin
    cases x with
    | none => simp at hfin
    | some u =>
      rw [hd u hx] at hfin hpos
      split at hpos
      · omega
      · rename_i hm; simp [hm] at hfin
  · intro a ha _ hfin
    left
    show some a ∈ st.queue
    rw [h1]
    refine ⟨a, ha, ?_, rfl⟩
    dsimp only at hfin
    rw [hd a ha] at hfin
    split at hfin
    · assumption
    · omega
  · simp only [mu, upd_same, cntInf_upd_none, if_true]
    omega

/-- The BFS terminates within its fuel and its result satisfies `BFinal`. -/
theorem bfs_spec (s : HK) (hmV : ∀ v w, s.mV v = some w → w < g.nU) :
    ∃ d, bfs g s = some d ∧ BFinal g s.mU s.mV d := by
  obtain ⟨hI, hP, hmu⟩ := bfsInit_spec g s.mU s.mV s.dist
  exact bfsLoop_spec g s.mU s.mV hmV g.bfsFuel _ hI hP (by rw [hmu]; simp [Graph.bfsFuel])

end
end Ptn.C14
