import Ptn.C14.Spec
/-! Weak duality for bipartite graphs (L5 of DESIGN.md), independent of any algorithm. -/
namespace Ptn.C14

theorem length_filter_split {α : Type} (p : α → Bool) (l : List α) :
    l.length = (l.filter p).length + (l.filter (fun a => !p a)).length := by
  induction l with
  | nil => rfl
  | cons a t ih =>
    by_cases h : p a <;> simp [h] <;> omega

/-- `|M| ≤ |C|` for every matching `M` and every vertex cover `C = (cu, cv)`. -/
theorem weak_duality_aux (E : Nat → Nat → Prop) (M : List (Nat × Nat)) (cu cv : List Nat)
    (hM : IsMatching E M) (hC : IsCover E cu cv) : M.length ≤ cu.length + cv.length := by
  let p : Nat × Nat → Bool := fun e => decide (e.1 ∈ cu)
  have hsplit := length_filter_split p M
  have h1 : (M.filter p).length ≤ cu.length := by
    have hnd : ((M.filter p).map Prod.fst).Nodup :=
      (List.filter_sublist.map Prod.fst).nodup hM.left
    have hsub : (M.filter p).map Prod.fst ⊆ cu := by
      intro u hu
      rcases List.mem_map.1 hu with ⟨e, he, rfl⟩
      have := (List.mem_filter.1 he).2
      simpa [p] using this
    have := hnd.length_le_of_subset hsub
    simpa using this
  have h2 : (M.filter (fun a => !p a)).length ≤ cv.length := by
    have hnd : ((M.filter (fun a => !p a)).map Prod.snd).Nodup :=
      (List.filter_sublist.map Prod.snd).nodup hM.right
    have hsub : (M.filter (fun a => !p a)).map Prod.snd ⊆ cv := by
      intro v hv
      rcases List.mem_map.1 hv with ⟨e, he, rfl⟩
      have hmem := List.mem_filter.1 he
      have hnot : e.1 ∉ cu := by simpa [p] using hmem.2
      rcases hC e.1 e.2 (hM.edges e hmem.1) with h | h
      · exact absurd h hnot
      · exact h
    have := hnd.length_le_of_subset hsub
    simpa using this
  omega

end Ptn.C14
