import Ptn.C14.GraphLemmas
/-! The alternating-path exploration `_explore_alternating_paths`:
 * completion  — every vertex added during a call has all its relevant neighbours added when the
                 call returns (`explore_post`),
 * provenance  — every visited vertex was reached along an alternating path (`explore_prov`),
 * totality    — the fuel `num_u + 1` is never exhausted (`explore_total`). -/
namespace Ptn.C14

/-- Both visited lists are only appended to. -/
def Vis.Le (a b : Vis) : Prop := a.uVis <+: b.uVis ∧ a.vVis <+: b.vVis

theorem Vis.Le.refl (a : Vis) : a.Le a := ⟨List.prefix_rfl, List.prefix_rfl⟩
theorem Vis.Le.trans {a b c : Vis} (h1 : a.Le b) (h2 : b.Le c) : a.Le c :=
  ⟨h1.1.trans h2.1, h1.2.trans h2.2⟩

section
variable (g : Graph) (M : List (Nat × Nat))

/-- All unmatched edges at the visited left vertex `u` lead to visited right vertices. -/
def UDone (st : Vis) (u : Nat) : Prop := ∀ v ∈ g.nbrU u, (u, v) ∉ M → v ∈ st.vVis
/-- The matched partner (if any, searched in `adj_v[v]`) of the visited right vertex is visited. -/
def VDone (st : Vis) (v : Nat) : Prop := ∀ u ∈ g.nbrV v, (u, v) ∈ M → u ∈ st.uVis

theorem UDone.mono {a b : Vis} (h : a.Le b) {u : Nat} (hd : UDone g M a u) : UDone g M b u :=
  fun v hv hm => h.2.subset (hd v hv hm)
theorem VDone.mono {a b : Vis} (h : a.Le b) {v : Nat} (hd : VDone g M a v) : VDone g M b v :=
  fun u hu hm => h.1.subset (hd u hu hm)

/-- Postcondition of a call: lists grew, and every *new* vertex is done. -/
def Post (a b : Vis) : Prop :=
  a.Le b ∧ (∀ u ∈ b.uVis, u ∉ a.uVis → UDone g M b u) ∧ (∀ v ∈ b.vVis, v ∉ a.vVis → VDone g M b v)

theorem Post.refl (a : Vis) : Post g M a a :=
  ⟨Vis.Le.refl a, fun _ h hn => absurd h hn, fun _ h hn => absurd h hn⟩

theorem Post.trans {a b c : Vis} (h1 : Post g M a b) (h2 : Post g M b c) : Post g M a c := by
  refine ⟨h1.1.trans h2.1, ?_, ?_⟩
  · intro u hu hn
    by_cases hb : u ∈ b.uVis
    · exact (h1.2.1 u hb hn).mono g M h2.1
    · exact h2.2.1 u hu hb
  · intro v hv hn
    by_cases hb : v ∈ b.vVis
    · exact (h1.2.2 v hb hn).mono g M h2.1
    · exact h2.2.2 v hv hb

/-! ### completion -/

theorem exploreInner_post (rec : Nat → Vis → Option Vis)
    (hrec : ∀ u st st', rec u st = some st' → Post g M st st' ∧ u ∈ st'.uVis) (v : Nat) :
    ∀ (us : List Nat) (st st' : Vis), exploreInner rec M v us st = some st' →
      Post g M st st' ∧ ∀ u ∈ us, (u, v) ∈ M → u ∈ st'.uVis := by
  intro us
  induction us with
  | nil =>
    intro st st' h
    simp only [exploreInner, Option.some.injEq] at h
    subst h
    exact ⟨Post.refl g M st, by simp⟩
  | cons u us ih =>
    intro st st' h
    simp only [exploreInner] at h
    split at h
    · rename_i hm
      split at h
      · exact absurd h (by simp)
      · rename_i st1 h1
        obtain ⟨p1, hu1⟩ := hrec u st st1 h1
        obtain ⟨p2, hrest⟩ := ih st1 st' h
        refine ⟨p1.trans g M p2, ?_⟩
        intro a ha ham
        rcases List.mem_cons.1 ha with rfl | ha
        · exact p2.1.1.subset hu1
        · exact hrest a ha ham
    · rename_i hm
      obtain ⟨p2, hrest⟩ := ih st st' h
      refine ⟨p2, ?_⟩
      intro a ha ham
      rcases List.mem_cons.1 ha with rfl | ha
      · exact absurd ham hm
      · exact hrest a ha ham

theorem exploreOuter_post (rec : Nat → Vis → Option Vis)
    (hrec : ∀ u st st', rec u st = some st' → Post g M st st' ∧ u ∈ st'.uVis) (u : Nat) :
    ∀ (vs : List Nat) (st st' : Vis), exploreOuter g rec M u vs st = some st' →
      Post g M st st' ∧ ∀ v ∈ vs, (u, v) ∉ M → v ∈ st'.vVis := by
  intro vs
  induction vs with
  | nil =>
    intro st st' h
    simp only [exploreOuter, Option.some.injEq] at h
    subst h
    exact ⟨Post.refl g M st, by simp⟩
  | cons v vs ih =>
    intro st st' h
    simp only [exploreOuter] at h
    split at h
    · rename_i hm
      split at h
      · rename_i hv
        obtain ⟨p2, hrest⟩ := ih st st' h
        refine ⟨p2, ?_⟩
        intro b hb hbm
        rcases List.mem_cons.1 hb with rfl | hb
        · exact p2.1.2.subset hv
        · exact hrest b hb hbm
      · rename_i hv
        split at h
        · exact absurd h (by simp)
        · rename_i st1 h1
          obtain ⟨p1, hin⟩ := exploreInner_post g M rec hrec v _ _ _ h1
          obtain ⟨p2, hrest⟩ := ih st1 st' h
          -- the step `st → st + v → st1`
          have p01 : Post g M st st1 := by
            refine ⟨⟨p1.1.1, (List.prefix_append _ _).trans p1.1.2⟩, ?_, ?_⟩
            · intro a ha hna
              exact p1.2.1 a ha hna
            · intro b hb hnb
              by_cases hbv : b = v
              · subst hbv
                intro a ha ham
                exact hin a ha ham
              · apply p1.2.2 b hb
                simp [hnb, hbv]
          refine ⟨p01.trans g M p2, ?_⟩
          intro b hb hbm
          rcases List.mem_cons.1 hb with rfl | hb
          · apply p2.1.2.subset
            apply p1.1.2.subset
            simp
          · exact hrest b hb hbm
    · rename_i hm
      obtain ⟨p2, hrest⟩ := ih st st' h
      refine ⟨p2, ?_⟩
      intro b hb hbm
      rcases List.mem_cons.1 hb with rfl | hb
      · exact absurd hbm hm
      · exact hrest b hb hbm

theorem explore_post : ∀ (f u : Nat) (st st' : Vis), explore g M f u st = some st' →
    Post g M st st' ∧ u ∈ st'.uVis := by
  intro f
  induction f with
  | zero =>
    intro u st st' h
    rw [explore] at h
    split at h
    · rename_i hu
      simp only [Option.some.injEq] at h; subst h
      exact ⟨Post.refl g M st, hu⟩
    · exact absurd h (by simp)
  | succ f ih =>
    intro u st st' h
    rw [explore] at h
    split at h
    · rename_i hu
      simp only [Option.some.injEq] at h; subst h
      exact ⟨Post.refl g M st, hu⟩
    · rename_i hu
      obtain ⟨p1, hall⟩ := exploreOuter_post g M (explore g M f) ih u _ _ _ h
      have hu' : u ∈ st'.uVis := p1.1.1.subset (by simp)
      refine ⟨⟨⟨(List.prefix_append _ _).trans p1.1.1, p1.1.2⟩, ?_, ?_⟩, hu'⟩
      · intro a ha hna
        by_cases hau : a = u
        · subst hau
          intro v hv hvm
          exact hall v hv hvm
        · apply p1.2.1 a ha
          simp [hna, hau]
      · intro b hb hnb
        exact p1.2.2 b hb hnb

/-! ### provenance -/

/-- `R` is closed along (edge, then matched edge); `u0` is the start vertex. -/
structure Prov (R : Nat → Prop) (u0 : Nat) (st : Vis) : Prop where
  nodup : st.uVis.Nodup
  left : ∀ u ∈ st.uVis, u < g.nU ∧ R u ∧ (u = u0 ∨ ∃ v ∈ st.vVis, (u, v) ∈ M)
  right : ∀ v ∈ st.vVis, ∃ u ∈ st.uVis, v ∈ g.nbrU u

def Pre (R : Nat → Prop) (u0 : Nat) (u : Nat) (st : Vis) : Prop :=
  u < g.nU ∧ R u ∧ (u = u0 ∨ ∃ v ∈ st.vVis, (u, v) ∈ M)

theorem Pre.mono {R : Nat → Prop} {u0 u : Nat} {a b : Vis} (h : a.Le b) (hp : Pre g M R u0 u a) :
    Pre g M R u0 u b := by
  refine ⟨hp.1, hp.2.1, ?_⟩
  rcases hp.2.2 with h1 | ⟨v, hv, hm⟩
  · exact Or.inl h1
  · exact Or.inr ⟨v, h.2.subset hv, hm⟩

variable (R : Nat → Prop) (u0 : Nat)

theorem exploreInner_prov (hg : g.WF)
    (hclos : ∀ u v w, R u → v ∈ g.nbrU u → (w, v) ∈ M → R w)
    (rec : Nat → Vis → Option Vis)
    (hrec : ∀ u st st', Prov g M R u0 st → Pre g M R u0 u st → rec u st = some st' →
      Prov g M R u0 st' ∧ st.Le st')
    (v : Nat) :
    ∀ (us : List Nat) (st st' : Vis), (∀ u ∈ us, u ∈ g.nbrV v) → Prov g M R u0 st → v ∈ st.vVis →
      exploreInner rec M v us st = some st' → Prov g M R u0 st' ∧ st.Le st' := by
  intro us
  induction us with
  | nil =>
    intro st st' _ hp _ h
    simp only [exploreInner, Option.some.injEq] at h
    subst h
    exact ⟨hp, Vis.Le.refl _⟩
  | cons u us ih =>
    intro st st' hus hp hv h
    have hus' : ∀ a ∈ us, a ∈ g.nbrV v := fun a ha => hus a (List.mem_cons_of_mem _ ha)
    simp only [exploreInner] at h
    split at h
    · rename_i hm
      split at h
      · exact absurd h (by simp)
      · rename_i st1 h1
        have hedge : v ∈ g.nbrU u := (hg.sym u v).2 (hus u (List.mem_cons_self ..))
        obtain ⟨w, hw, hwv⟩ := hp.right v hv
        have hRw : R w := (hp.left w hw).2.1
        have hpre : Pre g M R u0 u st :=
          ⟨(hg.rng u v hedge).1, hclos w v u hRw hwv hm, Or.inr ⟨v, hv, hm⟩⟩
        obtain ⟨hp1, hle1⟩ := hrec u st st1 hp hpre h1
        obtain ⟨hp2, hle2⟩ := ih st1 st' hus' hp1 (hle1.2.subset hv) h
        exact ⟨hp2, hle1.trans hle2⟩
    · exact ih st st' hus' hp hv h

theorem exploreOuter_prov (hg : g.WF)
    (hclos : ∀ u v w, R u → v ∈ g.nbrU u → (w, v) ∈ M → R w)
    (rec : Nat → Vis → Option Vis)
    (hrec : ∀ u st st', Prov g M R u0 st → Pre g M R u0 u st → rec u st = some st' →
      Prov g M R u0 st' ∧ st.Le st')
    (u : Nat) :
    ∀ (vs : List Nat) (st st' : Vis), (∀ v ∈ vs, v ∈ g.nbrU u) → Prov g M R u0 st → u ∈ st.uVis →
      exploreOuter g rec M u vs st = some st' → Prov g M R u0 st' ∧ st.Le st' := by
  intro vs
  induction vs with
  | nil =>
    intro st st' _ hp _ h
    simp only [exploreOuter, Option.some.injEq] at h
    subst h
    exact ⟨hp, Vis.Le.refl _⟩
  | cons v vs ih =>
    intro st st' hvs hp hu h
    have hvs' : ∀ b ∈ vs, b ∈ g.nbrU u := fun b hb => hvs b (List.mem_cons_of_mem _ hb)
    simp only [exploreOuter] at h
    split at h
    · rename_i hm
      split at h
      · exact ih st st' hvs' hp hu h
      · rename_i hv
        split at h
        · exact absurd h (by simp)
        · rename_i st1 h1
          have hp0 : Prov g M R u0 { st with vVis := st.vVis ++ [v] } := by
            refine ⟨hp.nodup, ?_, ?_⟩
            · intro a ha
              obtain ⟨h1, h2, h3⟩ := hp.left a ha
              refine ⟨h1, h2, ?_⟩
              rcases h3 with h3 | ⟨b, hb, hbm⟩
              · exact Or.inl h3
              · exact Or.inr ⟨b, by simp [hb], hbm⟩
            · intro b hb
              simp only [List.mem_append, List.mem_singleton] at hb
              rcases hb with hb | rfl
              · exact hp.right b hb
              · exact ⟨u, hu, hvs b (List.mem_cons_self ..)⟩
          have hle0 : st.Le { st with vVis := st.vVis ++ [v] } :=
            ⟨List.prefix_rfl, List.prefix_append _ _⟩
          obtain ⟨hp1, hle1⟩ := exploreInner_prov g M R u0 hg hclos rec hrec v (g.nbrV v) _ st1
            (fun _ h => h) hp0 (by simp) h1
          obtain ⟨hp2, hle2⟩ := ih st1 st' hvs' hp1 (hle1.1.subset hu) h
          exact ⟨hp2, (hle0.trans hle1).trans hle2⟩
    · exact ih st st' hvs' hp hu h

theorem explore_prov (hg : g.WF)
    (hclos : ∀ u v w, R u → v ∈ g.nbrU u → (w, v) ∈ M → R w) :
    ∀ (f u : Nat) (st st' : Vis), Prov g M R u0 st → Pre g M R u0 u st →
      explore g M f u st = some st' → Prov g M R u0 st' ∧ st.Le st' := by
  intro f
  induction f with
  | zero =>
    intro u st st' hp _ h
    rw [explore] at h
    split at h
    · simp only [Option.some.injEq] at h; subst h
      exact ⟨hp, Vis.Le.refl _⟩
    · exact absurd h (by simp)
  | succ f ih =>
    intro u st st' hp hpre h
    rw [explore] at h
    split at h
    · simp only [Option.some.injEq] at h; subst h
      exact ⟨hp, Vis.Le.refl _⟩
    · rename_i hu
      have hp0 : Prov g M R u0 { st with uVis := st.uVis ++ [u] } := by
        refine ⟨?_, ?_, ?_⟩
        · rw [List.nodup_append]
          refine ⟨hp.nodup, by simp, ?_⟩
          intro a ha b hb
          simp only [List.mem_singleton] at hb
          subst hb
          intro hab
          exact hu (hab ▸ ha)
        · intro a ha
          simp only [List.mem_append, List.mem_singleton] at ha
          rcases ha with ha | rfl
          · exact hp.left a ha
          · exact hpre
        · intro b hb
          obtain ⟨a, ha, hab⟩ := hp.right b hb
          exact ⟨a, by simp [ha], hab⟩
      have hle0 : st.Le { st with uVis := st.uVis ++ [u] } :=
        ⟨List.prefix_append _ _, List.prefix_rfl⟩
      obtain ⟨hp1, hle1⟩ := exploreOuter_prov g M R u0 hg hclos (explore g M f) ih u (g.nbrU u) _ st'
        (fun _ h => h) hp0 (by simp) h
      exact ⟨hp1, hle0.trans hle1⟩

/-! ### totality -/

theorem nodup_lt_length_le {l : List Nat} {n : Nat} (hnd : l.Nodup) (hlt : ∀ x ∈ l, x < n) :
    l.length ≤ n := by
  have := hnd.length_le_of_subset (l₂ := List.range n) (fun x hx => List.mem_range.2 (hlt x hx))
  simpa using this

end

section
variable (g : Graph) (M : List (Nat × Nat)) (u0 : Nat)

/-- Provenance with the trivial closed set. -/
abbrev Prov0 := Prov g M (fun _ => True) u0
abbrev Pre0 := Pre g M (fun _ => True) u0

theorem exploreInner_total (hg : g.WF) (f : Nat)
    (ih : ∀ (u : Nat) (st : Vis), Prov0 g M u0 st → Pre0 g M u0 u st →
      g.nU + 1 ≤ f + st.uVis.length → ∃ st', explore g M f u st = some st')
    (v : Nat) :
    ∀ (us : List Nat) (st : Vis), (∀ u ∈ us, u ∈ g.nbrV v) → Prov0 g M u0 st → v ∈ st.vVis →
      g.nU + 1 ≤ f + st.uVis.length → ∃ st', exploreInner (explore g M f) M v us st = some st' := by
  intro us
  induction us with
  | nil => intro st _ _ _ _; exact ⟨st, rfl⟩
  | cons u us ihl =>
    intro st hus hp hv hlen
    have hus' : ∀ a ∈ us, a ∈ g.nbrV v := fun a ha => hus a (List.mem_cons_of_mem _ ha)
    simp only [exploreInner]
    split
    · rename_i hm
      have hedge : v ∈ g.nbrU u := (hg.sym u v).2 (hus u (List.mem_cons_self ..))
      have hpre : Pre0 g M u0 u st := ⟨(hg.rng u v hedge).1, trivial, Or.inr ⟨v, hv, hm⟩⟩
      obtain ⟨st1, h1⟩ := ih u st hp hpre hlen
      rw [h1]
      obtain ⟨hp1, hle1⟩ := explore_prov g M (fun _ => True) u0 hg (fun _ _ _ _ _ _ => trivial)
        f u st st1 hp hpre h1
      have := hle1.1.length_le
      exact ihl st1 hus' hp1 (hle1.2.subset hv) (by omega)
    · exact ihl st hus' hp hv hlen

theorem exploreOuter_total (hg : g.WF) (f : Nat)
    (ih : ∀ (u : Nat) (st : Vis), Prov0 g M u0 st → Pre0 g M u0 u st →
      g.nU + 1 ≤ f + st.uVis.length → ∃ st', explore g M f u st = some st')
    (u : Nat) :
    ∀ (vs : List Nat) (st : Vis), (∀ v ∈ vs, v ∈ g.nbrU u) → Prov0 g M u0 st → u ∈ st.uVis →
      g.nU + 1 ≤ f + st.uVis.length →
      ∃ st', exploreOuter g (explore g M f) M u vs st = some st' := by
  intro vs
  induction vs with
  | nil => intro st _ _ _ _; exact ⟨st, rfl⟩
  | cons v vs ihl =>
    intro st hvs hp hu hlen
    have hvs' : ∀ b ∈ vs, b ∈ g.nbrU u := fun b hb => hvs b (List.mem_cons_of_mem _ hb)
    simp only [exploreOuter]
    split
    · split
      · exact ihl st hvs' hp hu hlen
      · rename_i hv
        have hp0 : Prov0 g M u0 { st with vVis := st.vVis ++ [v] } := by
          refine ⟨hp.nodup, ?_, ?_⟩
          · intro a ha
            obtain ⟨h1, h2, h3⟩ := hp.left a ha
            refine ⟨h1, h2, ?_⟩
            rcases h3 with h3 | ⟨b, hb, hbm⟩
            · exact Or.inl h3
            · exact Or.inr ⟨b, by simp [hb], hbm⟩
          · intro b hb
            simp only [List.mem_append, List.mem_singleton] at hb
            rcases hb with hb | rfl
            · exact hp.right b hb
            · exact ⟨u, hu, hvs b (List.mem_cons_self ..)⟩
        obtain ⟨st1, h1⟩ := exploreInner_total g M u0 hg f ih v (g.nbrV v)
          { st with vVis := st.vVis ++ [v] } (fun _ h => h) hp0 (by simp) hlen
        rw [h1]
        obtain ⟨hp1, hle1⟩ := exploreInner_prov g M (fun _ => True) u0 hg
          (fun _ _ _ _ _ _ => trivial) (explore g M f)
          (explore_prov g M (fun _ => True) u0 hg (fun _ _ _ _ _ _ => trivial) f)
          v (g.nbrV v) _ st1 (fun _ h => h) hp0 (by simp) h1
        have hl : st.uVis.length ≤ st1.uVis.length := hle1.1.length_le
        exact ihl st1 hvs' hp1 (hle1.1.subset hu) (by omega)
    · exact ihl st hvs' hp hu hlen

/-- The recursion depth of the exploration never exceeds the fuel. -/
theorem explore_total (hg : g.WF) : ∀ (f u : Nat) (st : Vis), Prov0 g M u0 st → Pre0 g M u0 u st →
    g.nU + 1 ≤ f + st.uVis.length → ∃ st', explore g M f u st = some st' := by
  intro f
  induction f with
  | zero =>
    intro u st hp hpre hlen
    rw [explore]
    split
    · exact ⟨st, rfl⟩
    · exfalso
      have := nodup_lt_length_le hp.nodup (fun x hx => (hp.left x hx).1)
      omega
  | succ f ih =>
    intro u st hp hpre hlen
    rw [explore]
    split
    · exact ⟨st, rfl⟩
    · rename_i hu
      have hp0 : Prov0 g M u0 { st with uVis := st.uVis ++ [u] } := by
        refine ⟨?_, ?_, ?_⟩
        · rw [List.nodup_append]
          refine ⟨hp.nodup, by simp, ?_⟩
          intro a ha b hb
          simp only [List.mem_singleton] at hb
          subst hb
          intro hab
          exact hu (hab ▸ ha)
        · intro a ha
          simp only [List.mem_append, List.mem_singleton] at ha
          rcases ha with ha | rfl
          · exact hp.left a ha
          · exact hpre
        · intro b hb
          obtain ⟨a, ha, hab⟩ := hp.right b hb
          exact ⟨a, by simp [ha], hab⟩
      exact exploreOuter_total g M u0 hg f ih u (g.nbrU u) _ (fun _ h => h) hp0 (by simp)
        (by simp; omega)

end
end Ptn.C14
