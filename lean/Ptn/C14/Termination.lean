import Ptn.C14.Dfs
/-! Termination of Hopcroft-Karp within the fuels of the model:
a BFS that reaches NIL leaves a layered path from a free left vertex; the phase that follows
therefore augments at least once (`phase_spec`), the number of free left vertices strictly
decreases, and the outer loop runs at most `num_u + 1` times. -/
namespace Ptn.C14

/-- number of free left vertices below `n` -/
def cntFree (mU : Nat → Option Nat) : Nat → Nat
  | 0 => 0
  | n + 1 => cntFree mU n + (if mU n = none then 1 else 0)

theorem cntFree_le (mU : Nat → Option Nat) : ∀ n, cntFree mU n ≤ n := by
  intro n
  induction n with
  | zero => simp [cntFree]
  | succ n ih => simp only [cntFree]; split <;> omega

theorem cntFree_mono {mU mU' : Nat → Option Nat} (h : ∀ a, mU a ≠ none → mU' a ≠ none) :
    ∀ n, cntFree mU' n ≤ cntFree mU n := by
  intro n
  induction n with
  | zero => simp [cntFree]
  | succ n ih =>
    simp only [cntFree]
    by_cases h1 : mU n = none
    · simp only [h1, if_true]; split <;> omega
    · simp only [h1, h n h1, if_false]; omega

theorem cntFree_lt {mU mU' : Nat → Option Nat} (h : ∀ a, mU a ≠ none → mU' a ≠ none)
    {a : Nat} (h1 : mU a = none) (h2 : mU' a ≠ none) : ∀ n, a < n → cntFree mU' n < cntFree mU n := by
  intro n
  induction n with
  | zero => intro h; omega
  | succ n ih =>
    intro han
    simp only [cntFree]
    by_cases hn : a = n
    · subst hn
      have := cntFree_mono h a
      simp only [h1, h2, if_true, if_false]; omega
    · have := ih (by omega)
      by_cases h3 : mU n = none
      · simp only [h3, if_true]; split <;> omega
      · simp only [h3, h n h3, if_false]; omega

theorem collect_length (mU : Nat → Option Nat) : ∀ n, (collect mU n).length + cntFree mU n = n := by
  intro n
  induction n with
  | zero => simp [collect, cntFree]
  | succ n ih =>
    simp only [collect, List.range_succ, List.filterMap_append, List.length_append, cntFree] at ih ⊢
    cases h : mU n with
    | none => simp [h]; omega
    | some v => simp [h]; omega

section
variable (g : Graph)

/-- One phase (`for u in range(num_u): if free: add_augmenting_path(u)`) never runs out of DFS
    fuel, keeps the matching consistent, keeps matched left vertices matched, and matches a new left
    vertex whenever a layered path starts at a free left vertex. -/
theorem phase_spec (hg : g.WF) : ∀ (us : List Nat) (s : HK), (∀ u ∈ us, u < g.nU) →
    Consistent g s → AllLe g s →
    ∃ s', phase g us s = some s' ∧ Consistent g s' ∧ AllLe g s' ∧
      (∀ a, s.mU a ≠ none → s'.mU a ≠ none) ∧
      ((∃ u, u ∈ us ∧ s.mU u = none ∧ Path g s (some u)) →
        ∃ a, a < g.nU ∧ s.mU a = none ∧ s'.mU a ≠ none) := by
  intro us
  induction us with
  | nil =>
    intro s _ hs hle
    exact ⟨s, rfl, hs, hle, fun _ h => h, by rintro ⟨u, hu, _⟩; simp at hu⟩
  | cons u us ih =>
    intro s hus hs hle
    have hus' : ∀ a ∈ us, a < g.nU := fun a ha => hus a (List.mem_cons_of_mem _ ha)
    have hu : u < g.nU := hus u (List.mem_cons_self ..)
    simp only [phase]
    split
    · rename_i hfree
      obtain ⟨r, s1, hd⟩ := dfs_total g g.dfsFuel (some u) s hle (hs.mV_lt hg) hu
        (by simp [Graph.dfsFuel, Graph.inf]; omega)
      rw [hd]
      simp only
      have hfr : Frame g u s r s1 := dfs_frame g _ _ _ _ _ hd
      have hs1 : Consistent g s1 := dfs_consistent g _ u s s1 r hs hfree hd
      have hmono1 := dfs_mono g _ _ _ _ _ hd
      obtain ⟨s', hp, hs', hle', hmono', hprog'⟩ := ih s1 hus' hs1 (hfr.allLe g hle)
      refine ⟨s', hp, hs', hle', fun a ha => hmono' a (hmono1 a ha), ?_⟩
      rintro ⟨w, hw, hwfree, hwp⟩
      cases r with
      | true =>
        exact ⟨u, hu, hfree, hmono' u (dfs_true_matched g _ u s s1 hs hd)⟩
      | false =>
        obtain ⟨hnp, hpp⟩ := dfs_fail g _ _ _ _ hd
        have hwu : w ≠ u := by intro he; subst he; exact hnp hwp
        have hw' : w ∈ us := by
          rcases List.mem_cons.1 hw with h | h
          · exact absurd h hwu
          · exact h
        obtain ⟨a, ha, ha1, ha2⟩ := hprog' ⟨w, hw', by rw [hpp.mU]; exact hwfree, hpp.path g hwp⟩
        exact ⟨a, ha, by rw [hpp.mU] at ha1; exact ha1, ha2⟩
    · rename_i hmatched
      obtain ⟨s', hp, hs', hle', hmono', hprog'⟩ := ih s hus' hs hle
      refine ⟨s', hp, hs', hle', hmono', ?_⟩
      rintro ⟨w, hw, hwfree, hwp⟩
      have hw' : w ∈ us := by
        rcases List.mem_cons.1 hw with h | h
        · subst h; exact absurd hwfree hmatched
        · exact h
      exact hprog' ⟨w, hw', hwfree, hwp⟩

/-- A BFS that reaches NIL leaves a layered path from some free left vertex to NIL. -/
theorem bfs_path (mU mV : Nat → Option Nat) (d : Option Nat → Nat) (hfin : BFinal g mU mV d)
    (hnil : d none < g.inf) :
    ∃ u, u < g.nU ∧ mU u = none ∧ Path g ⟨mU, mV, d⟩ (some u) := by
  have key : ∀ (n : Nat) (x : Option Nat), Valid g x → d x = n → d x < g.inf →
      Path g ⟨mU, mV, d⟩ x → ∃ u, u < g.nU ∧ mU u = none ∧ Path g ⟨mU, mV, d⟩ (some u) := by
    intro n
    induction n using Nat.strongRecOn with
    | _ n ih =>
      intro x hx hdx hfx hp
      by_cases hpos : 0 < d x
      · obtain ⟨a, ha, v, hv, hm, hda⟩ := hfin.inv.pred x hx hpos hfx
        simp only at hda
        have hpa : Path g ⟨mU, mV, d⟩ (some a) := by
          apply Path.step a v hv
          · simp only [hm]; omega
          · simp only [hm]; exact hp
        exact ih (d (some a)) (by omega) (some a) ha rfl (by omega) hpa
      · cases x with
        | none => have := hfin.inv.nilpos; simp only at this; omega
        | some a =>
          have h0 : d (some a) = 0 := by omega
          exact ⟨a, hx, hfin.inv.zero a hx h0, hp⟩
  exact key (d none) none trivial rfl hnil Path.nil

/-- `hk_phase_progress`: the outer loop terminates within fuel `free + 1`. -/
theorem hkLoop_total (hg : g.WF) : ∀ (f : Nat) (s : HK), Consistent g s →
    cntFree s.mU g.nU + 1 ≤ f → ∃ s', hkLoop g f s = .ok s' := by
  intro f
  induction f with
  | zero => intro s _ h; omega
  | succ f ih =>
    intro s hs hf
    simp only [hkLoop]
    obtain ⟨d, hd, hfin⟩ := bfs_spec g s (hs.mV_lt hg)
    rw [hd]
    simp only
    split
    · rename_i hnil
      have hnil' : d none < g.inf := by
        have := hfin.inv.le none trivial
        simp only at this
        omega
      obtain ⟨u, hu, hfree, hp⟩ := bfs_path g s.mU s.mV d hfin hnil'
      obtain ⟨s1, hph, hs1, _, hmono, hprog⟩ := phase_spec g hg (List.range g.nU)
        { s with dist := d } (fun a ha => List.mem_range.1 ha) (hs.of_eq rfl rfl)
        (fun x hx => hfin.inv.le x hx)
      rw [hph]
      simp only
      obtain ⟨a, ha, ha1, ha2⟩ := hprog ⟨u, List.mem_range.2 hu, hfree, hp⟩
      have := cntFree_lt hmono ha1 ha2 g.nU ha
      simp only at this
      exact ih s1 hs1 (by omega)
    · exact ⟨_, rfl⟩

theorem hkRun_total (hg : g.WF) : ∃ s, hkRun g = .ok s := by
  apply hkLoop_total g hg _ _ (init_consistent g)
  have := cntFree_le HK.init.mU g.nU
  simp only [Graph.outerFuel]
  omega

end
end Ptn.C14
