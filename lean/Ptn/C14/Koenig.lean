import Ptn.C14.Explore
import Ptn.C14.Duality
/-! The Koenig construction of `minimum_vertex_cover`: the returned pair touches every edge
(for *every* valid matching), and under the closure delivered by a failed BFS its size is `|M|`. -/
namespace Ptn.C14

/-! ### ascending-list sets -/

theorem mem_setInsert (x y : Nat) (l : List Nat) : y ∈ setInsert x l ↔ y = x ∨ y ∈ l := by
  induction l with
  | nil => simp [setInsert]
  | cons a t ih =>
    simp only [setInsert]
    split
    · simp
    · split
      · rename_i h; subst h; simp
      · simp only [List.mem_cons, ih]
        constructor
        · rintro (h | h | h) <;> simp [h]
        · rintro (h | h | h) <;> simp [h]

theorem sorted_setInsert (x : Nat) (l : List Nat) (h : l.Pairwise (· < ·)) :
    (setInsert x l).Pairwise (· < ·) := by
  induction l with
  | nil => simp [setInsert]
  | cons a t ih =>
    rw [List.pairwise_cons] at h
    simp only [setInsert]
    split
    · rename_i hxa
      rw [List.pairwise_cons]
      refine ⟨?_, List.pairwise_cons.2 h⟩
      intro b hb
      rcases List.mem_cons.1 hb with rfl | hb
      · exact hxa
      · exact Nat.lt_trans hxa (h.1 b hb)
    · split
      · exact List.pairwise_cons.2 h
      · rename_i h1 h2
        rw [List.pairwise_cons]
        refine ⟨?_, ih h.2⟩
        intro b hb
        rcases (mem_setInsert x b t).1 hb with rfl | hb
        · omega
        · exact h.1 b hb

theorem mem_foldl_setInsert (l c : List Nat) (y : Nat) :
    y ∈ l.foldl (fun c v => setInsert v c) c ↔ y ∈ c ∨ y ∈ l := by
  induction l generalizing c with
  | nil => simp
  | cons a t ih =>
    simp only [List.foldl_cons, ih, mem_setInsert, List.mem_cons]
    constructor
    · rintro ((h | h) | h) <;> simp [h]
    · rintro (h | h | h) <;> simp [h]

theorem sorted_foldl_setInsert (l c : List Nat) (h : c.Pairwise (· < ·)) :
    (l.foldl (fun c v => setInsert v c) c).Pairwise (· < ·) := by
  induction l generalizing c with
  | nil => exact h
  | cons a t ih => exact ih _ (sorted_setInsert a c h)

theorem nodup_of_sorted {l : List Nat} (h : l.Pairwise (· < ·)) : l.Nodup :=
  h.imp (fun hab => Nat.ne_of_lt hab)

/-! ### matchings as lists -/

theorem map_nodup_inj {α β : Type} (f : α → β) : ∀ (l : List α), (l.map f).Nodup →
    ∀ a ∈ l, ∀ b ∈ l, f a = f b → a = b := by
  intro l
  induction l with
  | nil => intro _ a ha; simp at ha
  | cons x t ih =>
    intro h a ha b hb hab
    rw [List.map_cons, List.nodup_cons] at h
    rcases List.mem_cons.1 ha with ha | ha
    · rcases List.mem_cons.1 hb with hb | hb
      · rw [ha, hb]
      · exfalso; apply h.1; rw [← ha, hab]; exact List.mem_map.2 ⟨b, hb, rfl⟩
    · rcases List.mem_cons.1 hb with hb | hb
      · exfalso; apply h.1; rw [← hb, ← hab]; exact List.mem_map.2 ⟨a, ha, rfl⟩
      · exact ih h.2 a ha b hb hab

theorem IsMatching.right_unique {E : Nat → Nat → Prop} {M : List (Nat × Nat)} (h : IsMatching E M)
    {u v v' : Nat} (h1 : (u, v) ∈ M) (h2 : (u, v') ∈ M) : v = v' := by
  have := map_nodup_inj Prod.fst M h.left _ h1 _ h2 rfl
  exact (Prod.mk.inj this).2

theorem IsMatching.left_unique {E : Nat → Nat → Prop} {M : List (Nat × Nat)} (h : IsMatching E M)
    {u u' v : Nat} (h1 : (u, v) ∈ M) (h2 : (u', v) ∈ M) : u = u' := by
  have := map_nodup_inj Prod.snd M h.right _ h1 _ h2 rfl
  exact (Prod.mk.inj this).1

theorem mem_freeLeft (g : Graph) (M : List (Nat × Nat)) (u : Nat) :
    u ∈ freeLeft g M ↔ u < g.nU ∧ ∀ p ∈ M, p.1 ≠ u := by
  simp [freeLeft]

/-! ### the loop over the free left vertices -/

section
variable (g : Graph) (M : List (Nat × Nat))

/-- Left vertices visited from one of the starts `us`. -/
def ZU (us : List Nat) (x : Nat) : Prop :=
  ∃ u ∈ us, ∃ st, explore g M g.exploreFuel u ⟨[], []⟩ = some st ∧ x ∈ st.uVis
/-- Right vertices visited from one of the starts `us`. -/
def ZV (us : List Nat) (y : Nat) : Prop :=
  ∃ u ∈ us, ∃ st, explore g M g.exploreFuel u ⟨[], []⟩ = some st ∧ y ∈ st.vVis

theorem coverLoop_spec : ∀ (us cu cv cu' cv' : List Nat),
    coverLoop g M us (cu, cv) = some (cu', cv') →
    (∀ x, x ∈ cu' ↔ x ∈ cu ∧ ¬ ZU g M us x) ∧ (∀ y, y ∈ cv' ↔ y ∈ cv ∨ ZV g M us y) ∧
    (cu.Pairwise (· < ·) → cu'.Pairwise (· < ·)) ∧ (cv.Pairwise (· < ·) → cv'.Pairwise (· < ·)) ∧
    (∀ u ∈ us, ∃ st, explore g M g.exploreFuel u ⟨[], []⟩ = some st) := by
  intro us
  induction us with
  | nil =>
    intro cu cv cu' cv' h
    simp only [coverLoop, Option.some.injEq, Prod.mk.injEq] at h
    obtain ⟨rfl, rfl⟩ := h
    simp [ZU, ZV]
  | cons u us ih =>
    intro cu cv cu' cv' h
    simp only [coverLoop] at h
    split at h
    · exact absurd h (by simp)
    · rename_i st hst
      obtain ⟨h1, h2, h3, h4, h5⟩ := ih _ _ _ _ h
      have hZU : ∀ x, ZU g M (u :: us) x ↔ x ∈ st.uVis ∨ ZU g M us x := by
        intro x
        constructor
        · rintro ⟨a, ha, s, hs, hx⟩
          rcases List.mem_cons.1 ha with rfl | ha
          · rw [hst] at hs; cases hs; exact Or.inl hx
          · exact Or.inr ⟨a, ha, s, hs, hx⟩
        · rintro (hx | ⟨a, ha, s, hs, hx⟩)
          · exact ⟨u, List.mem_cons_self .., st, hst, hx⟩
          · exact ⟨a, List.mem_cons_of_mem _ ha, s, hs, hx⟩
      have hZV : ∀ y, ZV g M (u :: us) y ↔ y ∈ st.vVis ∨ ZV g M us y := by
        intro y
        constructor
        · rintro ⟨a, ha, s, hs, hy⟩
          rcases List.mem_cons.1 ha with rfl | ha
          · rw [hst] at hs; cases hs; exact Or.inl hy
          · exact Or.inr ⟨a, ha, s, hs, hy⟩
        · rintro (hy | ⟨a, ha, s, hs, hy⟩)
          · exact ⟨u, List.mem_cons_self .., st, hst, hy⟩
          · exact ⟨a, List.mem_cons_of_mem _ ha, s, hs, hy⟩
      refine ⟨?_, ?_, ?_, ?_, ?_⟩
      · intro x
        rw [h1, hZU]
        simp only [List.mem_filter, List.contains_eq_mem, Bool.not_eq_eq_eq_not, Bool.not_true,
          decide_eq_false_iff_not, not_or]
        constructor
        · rintro ⟨⟨a, b⟩, c⟩; exact ⟨a, b, c⟩
        · rintro ⟨a, b, c⟩; exact ⟨⟨a, b⟩, c⟩
      · intro y
        rw [h2, hZV, mem_foldl_setInsert]
        constructor
        · rintro ((h | h) | h) <;> simp [h]
        · rintro (h | h | h) <;> simp [h]
      · intro hnd
        exact h3 (hnd.sublist List.filter_sublist)
      · intro hs
        exact h4 (sorted_foldl_setInsert _ _ hs)
      · intro a ha
        rcases List.mem_cons.1 ha with rfl | ha
        · exact ⟨st, hst⟩
        · exact h5 a ha

theorem coverLoop_total (hg : g.WF) : ∀ (us : List Nat) (c : List Nat × List Nat),
    (∀ u ∈ us, u < g.nU) → ∃ c', coverLoop g M us c = some c' := by
  intro us
  induction us with
  | nil => intro c _; exact ⟨c, rfl⟩
  | cons u us ih =>
    intro c hus
    obtain ⟨cu, cv⟩ := c
    simp only [coverLoop]
    have hp : Prov0 g M u ⟨[], []⟩ := ⟨by simp, by simp, by simp⟩
    have hpre : Pre0 g M u u ⟨[], []⟩ := ⟨hus u (List.mem_cons_self ..), trivial, Or.inl rfl⟩
    obtain ⟨st, hst⟩ := explore_total g M u hg g.exploreFuel u ⟨[], []⟩ hp hpre
      (by simp [Graph.exploreFuel])
    rw [hst]
    exact ih _ (fun a ha => hus a (List.mem_cons_of_mem _ ha))

end

/-! ### facts about the visited sets for the starts `freeLeft g M` -/

section
variable (g : Graph) (M : List (Nat × Nat)) (hg : g.WF) (hM : IsMatching g.edge M)
include hg hM
set_option linter.unusedSectionVars false

theorem ZU_unmatched_edge {u v : Nat} (hu : ZU g M (freeLeft g M) u) (hv : v ∈ g.nbrU u)
    (hm : (u, v) ∉ M) : ZV g M (freeLeft g M) v := by
  obtain ⟨a, ha, st, hst, hx⟩ := hu
  have hpost := (explore_post g M _ _ _ _ hst).1
  exact ⟨a, ha, st, hst, hpost.2.1 u hx (by simp) v hv hm⟩

theorem ZV_partner {u v : Nat} (hv : ZV g M (freeLeft g M) v) (hm : (u, v) ∈ M) :
    ZU g M (freeLeft g M) u := by
  obtain ⟨a, ha, st, hst, hy⟩ := hv
  have hpost := (explore_post g M _ _ _ _ hst).1
  have hedge : v ∈ g.nbrU u := hM.edges (u, v) hm
  exact ⟨a, ha, st, hst, hpost.2.2 v hy (by simp) u ((hg.sym u v).1 hedge) hm⟩

theorem Z_prov (R : Nat → Prop) (hfree : ∀ u ∈ freeLeft g M, R u)
    (hclos : ∀ u v w, R u → v ∈ g.nbrU u → (w, v) ∈ M → R w) :
    (∀ u, ZU g M (freeLeft g M) u →
      u < g.nU ∧ R u ∧ (u ∈ freeLeft g M ∨ ∃ v, ZV g M (freeLeft g M) v ∧ (u, v) ∈ M)) ∧
    (∀ v, ZV g M (freeLeft g M) v → ∃ u, ZU g M (freeLeft g M) u ∧ v ∈ g.nbrU u) := by
  have key : ∀ a ∈ freeLeft g M, ∀ st, explore g M g.exploreFuel a ⟨[], []⟩ = some st →
      Prov g M R a st := by
    intro a ha st hst
    have hp : Prov g M R a ⟨[], []⟩ := ⟨by simp, by simp, by simp⟩
    have hpre : Pre g M R a a ⟨[], []⟩ :=
      ⟨((mem_freeLeft g M a).1 ha).1, hfree a ha, Or.inl rfl⟩
    exact (explore_prov g M R a hg hclos _ _ _ _ hp hpre hst).1
  constructor
  · rintro u ⟨a, ha, st, hst, hx⟩
    obtain ⟨h1, h2, h3⟩ := (key a ha st hst).left u hx
    refine ⟨h1, h2, ?_⟩
    rcases h3 with rfl | ⟨v, hv, hm⟩
    · exact Or.inl ha
    · exact Or.inr ⟨v, ⟨a, ha, st, hst, hv⟩, hm⟩
  · rintro v ⟨a, ha, st, hst, hy⟩
    obtain ⟨u, hu, huv⟩ := (key a ha st hst).right v hy
    exact ⟨u, ⟨a, ha, st, hst, hu⟩, huv⟩

theorem ZU_matched_edge {u v : Nat} (hu : ZU g M (freeLeft g M) u) (hm : (u, v) ∈ M) :
    ZV g M (freeLeft g M) v := by
  have := (Z_prov g M hg hM (fun _ => True) (fun _ _ => trivial) (fun _ _ _ _ _ _ => trivial)).1 u hu
  rcases this.2.2 with hf | ⟨v', hv', hm'⟩
  · exact absurd rfl (((mem_freeLeft g M u).1 hf).2 (u, v) hm)
  · rw [hM.right_unique hm hm']; exact hv'

/-- Result of the cover loop: membership characterisation and the cover property. -/
theorem coverLoop_cover {cu cv : List Nat}
    (h : coverLoop g M (freeLeft g M) (List.range g.nU, []) = some (cu, cv)) :
    (∀ x, x ∈ cu ↔ x < g.nU ∧ ¬ ZU g M (freeLeft g M) x) ∧
    (∀ y, y ∈ cv ↔ ZV g M (freeLeft g M) y) ∧
    cu.Pairwise (· < ·) ∧ cv.Pairwise (· < ·) ∧
    (∀ u ∈ freeLeft g M, ZU g M (freeLeft g M) u) ∧
    IsCover g.edge cu cv ∧ (∀ u ∈ cu, u < g.nU) ∧ (∀ v ∈ cv, v < g.nV) := by
  obtain ⟨h1, h2, h3, h4, h5⟩ := coverLoop_spec g M _ _ _ _ _ h
  have hcu : ∀ x, x ∈ cu ↔ x < g.nU ∧ ¬ ZU g M (freeLeft g M) x := by
    intro x; rw [h1]; simp
  have hcv : ∀ y, y ∈ cv ↔ ZV g M (freeLeft g M) y := by
    intro y; rw [h2]; simp
  have hfree : ∀ u ∈ freeLeft g M, ZU g M (freeLeft g M) u := by
    intro u hu
    obtain ⟨st, hst⟩ := h5 u hu
    exact ⟨u, hu, st, hst, (explore_post g M _ _ _ _ hst).2⟩
  refine ⟨hcu, hcv, h3 List.pairwise_lt_range, h4 (by simp), hfree, ?_, ?_, ?_⟩
  · intro u v huv
    have huv' : v ∈ g.nbrU u := huv
    by_cases hz : ZU g M (freeLeft g M) u
    · right
      rw [hcv]
      by_cases hm : (u, v) ∈ M
      · exact ZU_matched_edge g M hg hM hz hm
      · exact ZU_unmatched_edge g M hg hM hz huv' hm
    · left
      rw [hcu]
      exact ⟨(hg.rng u v huv').1, hz⟩
  · intro u hu; exact ((hcu u).1 hu).1
  · intro v hv
    obtain ⟨u, _, huv⟩ :=
      (Z_prov g M hg hM (fun _ => True) (fun _ _ => trivial) (fun _ _ _ _ _ _ => trivial)).2 v
        ((hcv v).1 hv)
    exact (hg.rng u v huv).2

/-- Under the closure conditions the cover has exactly `|M|` elements. -/
theorem coverLoop_size {cu cv : List Nat}
    (h : coverLoop g M (freeLeft g M) (List.range g.nU, []) = some (cu, cv))
    (R : Nat → Prop) (hfreeR : ∀ u ∈ freeLeft g M, R u)
    (hclos1 : ∀ u v, R u → v ∈ g.nbrU u → ∃ w, (w, v) ∈ M)
    (hclos2 : ∀ u v w, R u → v ∈ g.nbrU u → (w, v) ∈ M → R w) :
    cu.length + cv.length = M.length := by
  obtain ⟨hcu, hcv, hndu, hsv, hfree, _, _, _⟩ := coverLoop_cover g M hg hM h
  obtain ⟨hZ3, hZ4⟩ := Z_prov g M hg hM R hfreeR hclos2
  let p : Nat × Nat → Bool := fun e => decide (e.1 ∈ cu)
  have hsplit := length_filter_split p M
  -- left part
  have hperm1 : cu.Perm ((M.filter p).map Prod.fst) := by
    rw [List.perm_ext_iff_of_nodup (nodup_of_sorted hndu) ((List.filter_sublist.map Prod.fst).nodup hM.left)]
    intro x
    constructor
    · intro hx
      have hx' := (hcu x).1 hx
      have hnf : x ∉ freeLeft g M := fun hf => hx'.2 (hfree x hf)
      rw [mem_freeLeft] at hnf
      have : ∃ q ∈ M, q.1 = x := by
        apply Classical.byContradiction
        intro hne
        apply hnf
        refine ⟨hx'.1, ?_⟩
        intro q hq hq1
        exact hne ⟨q, hq, hq1⟩
      obtain ⟨q, hq, hq1⟩ := this
      apply List.mem_map.2
      refine ⟨q, List.mem_filter.2 ⟨hq, ?_⟩, hq1⟩
      simp [p, hq1, hx]
    · intro hx
      obtain ⟨q, hq, hq1⟩ := List.mem_map.1 hx
      have := (List.mem_filter.1 hq).2
      simp only [p, decide_eq_true_eq] at this
      rw [← hq1]; exact this
  -- right part
  have hperm2 : cv.Perm ((M.filter (fun a => !p a)).map Prod.snd) := by
    rw [List.perm_ext_iff_of_nodup (nodup_of_sorted hsv)
      ((List.filter_sublist.map Prod.snd).nodup hM.right)]
    intro y
    constructor
    · intro hy
      have hzy := (hcv y).1 hy
      obtain ⟨u, hzu, huy⟩ := hZ4 y hzy
      obtain ⟨w, hw⟩ := hclos1 u y (hZ3 u hzu).2.1 huy
      have hzw : ZU g M (freeLeft g M) w := ZV_partner g M hg hM hzy hw
      apply List.mem_map.2
      refine ⟨(w, y), List.mem_filter.2 ⟨hw, ?_⟩, rfl⟩
      have : w ∉ cu := fun hc => ((hcu w).1 hc).2 hzw
      simp [p, this]
    · intro hy
      obtain ⟨q, hq, hq2⟩ := List.mem_map.1 hy
      obtain ⟨w, y'⟩ := q
      simp only at hq2
      subst hq2
      have hq' := List.mem_filter.1 hq
      have hw : w ∉ cu := by simpa [p] using hq'.2
      have hedge : y' ∈ g.nbrU w := hM.edges (w, y') hq'.1
      have hzw : ZU g M (freeLeft g M) w := by
        apply Classical.byContradiction
        intro hn
        exact hw ((hcu w).2 ⟨(hg.rng w y' hedge).1, hn⟩)
      rw [hcv]
      exact ZU_matched_edge g M hg hM hzw hq'.1
  have e1 := hperm1.length_eq
  have e2 := hperm2.length_eq
  simp only [List.length_map] at e1 e2
  omega

end
end Ptn.C14
