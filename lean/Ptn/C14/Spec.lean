import Ptn.C14.Model
/-! Specification vocabulary for C14 (core Lean only): edges, well-formed graphs, matchings, covers. -/
namespace Ptn.C14

/-- `(u, v)` is an edge: `v` is listed in `adj_u[u]`. -/
def Graph.edge (g : Graph) (u v : Nat) : Prop := v ∈ g.nbrU u

instance (g : Graph) (u v : Nat) : Decidable (g.edge u v) := by unfold Graph.edge; infer_instance

/-- What `BipartiteGraph.__init__` establishes. -/
structure Graph.WF (g : Graph) : Prop where
  posU : 0 < g.nU
  posV : 0 < g.nV
  lenU : g.adjU.length = g.nU
  lenV : g.adjV.length = g.nV
  sym : ∀ u v, v ∈ g.nbrU u ↔ u ∈ g.nbrV v
  rng : ∀ u v, v ∈ g.nbrU u → u < g.nU ∧ v < g.nV
  nodupU : ∀ u, (g.nbrU u).Nodup
  nodupV : ∀ v, (g.nbrV v).Nodup

/-- A matching of the bipartite graph with edge relation `E`, as a list of pairs: every pair is an
    edge, no left vertex and no right vertex is used twice. -/
structure IsMatching (E : Nat → Nat → Prop) (M : List (Nat × Nat)) : Prop where
  edges : ∀ p ∈ M, E p.1 p.2
  left : (M.map Prod.fst).Nodup
  right : (M.map Prod.snd).Nodup

/-- `(cu, cv)` (left vertices, right vertices) touches every edge. -/
def IsCover (E : Nat → Nat → Prop) (cu cv : List Nat) : Prop :=
  ∀ u v, E u v → u ∈ cu ∨ v ∈ cv

end Ptn.C14
