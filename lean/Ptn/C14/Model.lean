/-! Model for property C14 (core Lean only; no Mathlib). -/
namespace Ptn.C14
end Ptn.C14
