/-! Model for property C14: `pytreenet/ttno/bipartite_graph.py` (core Lean only).

* `mkGraph`               ↔ `BipartiteGraph.__init__` (asserts; adjacency lists in order of first
                            appearance, a repeated edge entry is dropped by the `not in` tests)
* `bfsInit/bfsScan/bfsLoop/bfs` ↔ `HopcroftKarp.__connect_unmatched_vertices` (FIFO queue that may
                            hold the NIL vertex, the guard `dist[u] < dist[NIL]`, the `== inf_dist` test)
* `dfs/dfsLoop`           ↔ `HopcroftKarp.__add_augmenting_path` (recursive, first successful
                            neighbour wins, a failed vertex gets distance `inf_dist`)
* `phase/hkLoop/hopcroftKarp` ↔ `HopcroftKarp.__call__`
* `explore/exploreOuter/exploreInner` ↔ `_explore_alternating_paths` (visited lists per start)
* `minimumVertexCover`    ↔ `minimum_vertex_cover` (including its `assert`)
* `minimumVertexCoverOrd` ↔ the same for an arbitrary enumeration order (`SetOrder`) of the three Python sets
                            the function iterates; `minimumVertexCover` is the instance "ascending"
                            (`Props.mvc_order_independent`: all instances agree)

Representation.  NIL (`-1`) is `none`.  `matched_pairs_u/v` (lists initialised to NIL) are total
functions `Nat → Option Nat` initialised to `none`; the dict `dist` is a function
`Option Nat → Nat` (key `none` is the NIL entry `dist[-1]`).  Python would raise on a missing key /
out-of-range index; every key that is read has been written before (all `u < num_u` and NIL are
written by the BFS initialisation) - this is not visible in the model.  Python sets of small
non-negative integers are modelled by strictly ascending lists, so `sorted(list(s))` is the list.
Every recursion / `while` loop carries a fuel; exhaustion is a distinct error value. -/
namespace Ptn.C14

/-! ### Graph construction -/

structure Graph where
  nU : Nat
  nV : Nat
  adjU : List (List Nat)
  adjV : List (List Nat)
deriving Repr, DecidableEq

/-- `adj_u[u]` (empty for an index that does not exist; the code never uses one). -/
def Graph.nbrU (g : Graph) (u : Nat) : List Nat := g.adjU.getD u []
def Graph.nbrV (g : Graph) (v : Nat) : List Nat := g.adjV.getD v []

/-- `if x not in l[i]: l[i].append(x)` -/
def addTo (l : List (List Nat)) (i x : Nat) : List (List Nat) :=
  if x ∈ l.getD i [] then l else l.set i (l.getD i [] ++ [x])

def Graph.addEdge (g : Graph) (u v : Nat) : Graph :=
  { g with adjU := addTo g.adjU u v, adjV := addTo g.adjV v u }

def Graph.empty (nU nV : Nat) : Graph :=
  ⟨nU, nV, List.replicate nU [], List.replicate nV []⟩

def addEdges : Graph → List (Nat × Nat) → Option Graph
  | g, [] => some g
  | g, (u, v) :: es => if u < g.nU ∧ v < g.nV then addEdges (g.addEdge u v) es else none

/-- `BipartiteGraph(num_u, num_v, edges)`; `none` = an `assert` fails. -/
def mkGraph (nU nV : Nat) (edges : List (Nat × Nat)) : Option Graph :=
  if nU = 0 ∨ nV = 0 then none else addEdges (Graph.empty nU nV) edges

/-! ### Hopcroft-Karp -/

inductive Err where
  | fuelBfs | fuelDfs | fuelOuter | fuelExplore | assertion
deriving Repr, DecidableEq

/-- Functional update `f[i] = a`. -/
def upd {α β : Type} [DecidableEq α] (f : α → β) (i : α) (a : β) : α → β :=
  fun j => if j = i then a else f j

structure HK where
  mU : Nat → Option Nat          -- matched_pairs_u
  mV : Nat → Option Nat          -- matched_pairs_v
  dist : Option Nat → Nat        -- dist (key none = NIL)

def HK.init : HK := ⟨fun _ => none, fun _ => none, fun _ => 0⟩

/-- `inf_dist = num_u + 1` -/
def Graph.inf (g : Graph) : Nat := g.nU + 1

/-- `adj_u[x]` for a queue entry `x`; for NIL Python's index `-1` addresses the last list
    (dead code: the guard `dist[-1] < dist[-1]` is false). -/
def Graph.nbrOf (g : Graph) : Option Nat → List Nat
  | none => g.adjU.getLastD []
  | some u => g.nbrU u

structure BfsSt where
  dist : Option Nat → Nat
  queue : List (Option Nat)

/-- The `for u in range(num_u)` initialisation followed by `dist[-1] = inf_dist`. -/
def bfsInit (g : Graph) (mU : Nat → Option Nat) (dist : Option Nat → Nat) : BfsSt :=
  let st := (List.range g.nU).foldl (fun (st : BfsSt) u =>
      if mU u = none then ⟨upd st.dist (some u) 0, st.queue ++ [some u]⟩
      else ⟨upd st.dist (some u) g.inf, st.queue⟩) ⟨dist, []⟩
  ⟨upd st.dist none g.inf, st.queue⟩

/-- `for v in adj_u[u]: if dist[mV[v]] == inf: dist[mV[v]] = dist[u] + 1; queue.put(mV[v])` -/
def bfsScan (g : Graph) (mV : Nat → Option Nat) (x : Option Nat) : List Nat → BfsSt → BfsSt
  | [], st => st
  | v :: vs, st =>
    if st.dist (mV v) = g.inf then
      bfsScan g mV x vs ⟨upd st.dist (mV v) (st.dist x + 1), st.queue ++ [mV v]⟩
    else bfsScan g mV x vs st

/-- `while not queue.empty()`; `none` = fuel exhausted. -/
def bfsLoop (g : Graph) (mV : Nat → Option Nat) : Nat → BfsSt → Option (Option Nat → Nat)
  | _, ⟨dist, []⟩ => some dist
  | 0, ⟨_, _ :: _⟩ => none
  | f + 1, ⟨dist, x :: q⟩ =>
    if dist x < dist none then bfsLoop g mV f (bfsScan g mV x (g.nbrOf x) ⟨dist, q⟩)
    else bfsLoop g mV f ⟨dist, q⟩

/-- Fuel of the BFS queue loop: every vertex and NIL enters the queue at most once. -/
def Graph.bfsFuel (g : Graph) : Nat := g.nU + 2

/-- `__connect_unmatched_vertices`: the new `dist`; the return value is `dist[-1] != inf_dist`. -/
def bfs (g : Graph) (s : HK) : Option (Option Nat → Nat) :=
  bfsLoop g s.mV g.bfsFuel (bfsInit g s.mU s.dist)

/-- Body of `__add_augmenting_path(u)` for `u != -1`: the loop over `adj_u[u]`;
    `rec` is the recursive call. -/
def dfsLoop (g : Graph) (rec : Option Nat → HK → Option (Bool × HK)) (u : Nat) :
    List Nat → HK → Option (Bool × HK)
  | [], s => some (false, { s with dist := upd s.dist (some u) g.inf })
  | v :: vs, s =>
    if s.dist (s.mV v) = s.dist (some u) + 1 then
      match rec (s.mV v) s with
      | none => none
      | some (true, s') => some (true, { s' with mV := upd s'.mV v (some u), mU := upd s'.mU u (some v) })
      | some (false, s') => dfsLoop g rec u vs s'
    else dfsLoop g rec u vs s

/-- `__add_augmenting_path`; first argument is fuel (recursion depth), `none` = exhausted. -/
def dfs (g : Graph) : Nat → Option Nat → HK → Option (Bool × HK)
  | _, none, s => some (true, s)
  | 0, some _, _ => none
  | f + 1, some u, s => dfsLoop g (dfs g f) u (g.nbrU u) s

/-- Recursion depth: distances strictly increase along the recursion and never exceed `inf`. -/
def Graph.dfsFuel (g : Graph) : Nat := g.nU + 3

/-- `for u in range(num_u): if matched_pairs_u[u] == -1: add_augmenting_path(u)` -/
def phase (g : Graph) : List Nat → HK → Option HK
  | [], s => some s
  | u :: us, s =>
    if s.mU u = none then
      match dfs g g.dfsFuel (some u) s with
      | none => none
      | some (_, s') => phase g us s'
    else phase g us s

/-- `while connect_unmatched_vertices(): …` -/
def hkLoop (g : Graph) : Nat → HK → Except Err HK
  | 0, _ => .error .fuelOuter
  | f + 1, s =>
    match bfs g s with
    | none => .error .fuelBfs
    | some d =>
      if d none ≠ g.inf then
        match phase g (List.range g.nU) { s with dist := d } with
        | none => .error .fuelDfs
        | some s' => hkLoop g f s'
      else .ok { s with dist := d }

/-- Every successful BFS is followed by at least one augmentation, and a matching has at most
    `num_u` edges. -/
def Graph.outerFuel (g : Graph) : Nat := g.nU + 2

/-- `matching = [(u, mU[u]) for u in range(num_u) if mU[u] != -1]` -/
def collect (mU : Nat → Option Nat) (n : Nat) : List (Nat × Nat) :=
  (List.range n).filterMap fun u => (mU u).map fun v => (u, v)

def hkRun (g : Graph) : Except Err HK := hkLoop g g.outerFuel HK.init

/-- `HopcroftKarp(graph)()` -/
def hopcroftKarp (g : Graph) : Except Err (List (Nat × Nat)) :=
  match hkRun g with
  | .error e => .error e
  | .ok s => .ok (collect s.mU g.nU)

/-! ### Koenig construction -/

structure Vis where
  uVis : List Nat
  vVis : List Nat
deriving Repr, DecidableEq

/-- `for u in adj_v[v]: if (u, v) in matching: explore(u)` -/
def exploreInner (rec : Nat → Vis → Option Vis) (M : List (Nat × Nat)) (v : Nat) :
    List Nat → Vis → Option Vis
  | [], st => some st
  | u :: us, st =>
    if (u, v) ∈ M then
      match rec u st with
      | none => none
      | some st' => exploreInner rec M v us st'
    else exploreInner rec M v us st

/-- `for v in adj_u[u_start]: if (u_start, v) not in matching: …` -/
def exploreOuter (g : Graph) (rec : Nat → Vis → Option Vis) (M : List (Nat × Nat)) (u : Nat) :
    List Nat → Vis → Option Vis
  | [], st => some st
  | v :: vs, st =>
    if (u, v) ∉ M then
      if v ∈ st.vVis then exploreOuter g rec M u vs st
      else
        match exploreInner rec M v (g.nbrV v) { st with vVis := st.vVis ++ [v] } with
        | none => none
        | some st' => exploreOuter g rec M u vs st'
    else exploreOuter g rec M u vs st

/-- `_explore_alternating_paths`; first argument is fuel, `none` = exhausted. -/
def explore (g : Graph) (M : List (Nat × Nat)) : Nat → Nat → Vis → Option Vis
  | f, u, st =>
    if u ∈ st.uVis then some st
    else match f with
      | 0 => none
      | f + 1 => exploreOuter g (explore g M f) M u (g.nbrU u) { st with uVis := st.uVis ++ [u] }

/-- Every non-trivial call appends a new left vertex to `u_visited`. -/
def Graph.exploreFuel (g : Graph) : Nat := g.nU + 1

/-- `set.add` on the ascending-list representation. -/
def setInsert (x : Nat) : List Nat → List Nat
  | [] => [x]
  | y :: ys => if x < y then x :: y :: ys else if x = y then y :: ys else y :: setInsert x ys

/-- `alist`: `set(range(num_u))` minus the matched left vertices. -/
def freeLeft (g : Graph) (M : List (Nat × Nat)) : List Nat :=
  (List.range g.nU).filter fun u => !(M.any fun p => p.1 == u)

/-- The `for u in alist` loop on `(u_cover, v_cover)`. -/
def coverLoop (g : Graph) (M : List (Nat × Nat)) :
    List Nat → List Nat × List Nat → Option (List Nat × List Nat)
  | [], c => some c
  | u :: us, (cu, cv) =>
    match explore g M g.exploreFuel u ⟨[], []⟩ with
    | none => none
    | some st =>
      coverLoop g M us (cu.filter (fun x => !(st.uVis.contains x)), st.vVis.foldl (fun c v => setInsert v c) cv)

/-- The part of `minimum_vertex_cover` after the matching has been computed. -/
def coverOf (g : Graph) (M : List (Nat × Nat)) : Except Err (List Nat × List Nat) :=
  match coverLoop g M (freeLeft g M) (List.range g.nU, []) with
  | none => .error .fuelExplore
  | some (cu, cv) => if cu.length + cv.length = M.length then .ok (cu, cv) else .error .assertion

/-- `minimum_vertex_cover(graph)`, returning the internal matching as well. -/
def minimumVertexCover (g : Graph) : Except Err (List (Nat × Nat) × List Nat × List Nat) :=
  match hopcroftKarp g with
  | .error e => .error e
  | .ok M =>
    match coverOf g M with
    | .error e => .error e
    | .ok c => .ok (M, c.1, c.2)

/-! ### Iteration order of Python sets

`minimum_vertex_cover` iterates three Python sets: `for u in alist`, `list(u_cover)` and
`list(v_cover)` (the latter two inside `sorted(…)`).  The order in which a CPython set yields its
elements is an implementation detail (hash slots, insertion history).  The functions above fix the
ascending order; the functions below take the three enumerations as parameters: a `SetOrder`
says, for each iteration site, in which order the elements of the (ascending-list representative
of the) set are produced.  `Props.mvc_order_independent` shows that the result is the same for
every choice.  All other loops of the file run over lists (`matching`, `u_visited`, `v_visited`,
`adj_u[u]`, `adj_v[v]`, `range`), there is no `set.pop()`. -/

/-- `sorted(xs)` on integers: insertion sort that keeps repeated entries. -/
def insertSorted (x : Nat) : List Nat → List Nat
  | [] => [x]
  | y :: ys => if x ≤ y then x :: y :: ys else y :: insertSorted x ys

def pySorted (l : List Nat) : List Nat := l.foldr insertSorted []

/-- What iterating over the three sets yields, as a function of the set (ascending list). -/
structure SetOrder where
  alist : List Nat → List Nat    -- `for u in alist`
  ucover : List Nat → List Nat   -- `list(u_cover)`
  vcover : List Nat → List Nat   -- `list(v_cover)`

/-- The ascending enumeration used by `coverOf` / `minimumVertexCover`. -/
def SetOrder.asc : SetOrder := ⟨id, id, id⟩

/-- Some concrete enumeration policies (used by the driver command `coverord`). -/
def rotate1 : List Nat → List Nat
  | [] => []
  | x :: xs => xs ++ [x]
/-- Bucket order of a hash table with two slots: odd keys first. -/
def oddsFirst (l : List Nat) : List Nat := l.filter (fun x => x % 2 == 1) ++ l.filter (fun x => !(x % 2 == 1))

def policy : Nat → List Nat → List Nat
  | 0 => id
  | 1 => List.reverse
  | 2 => rotate1
  | 3 => oddsFirst
  | _ => fun l => rotate1 (oddsFirst l).reverse

/-- The part of `minimum_vertex_cover` after the matching has been computed, for an arbitrary
    enumeration order of the three sets. -/
def coverOfOrd (o : SetOrder) (g : Graph) (M : List (Nat × Nat)) : Except Err (List Nat × List Nat) :=
  match coverLoop g M (o.alist (freeLeft g M)) (List.range g.nU, []) with
  | none => .error .fuelExplore
  | some (cu, cv) =>
    if cu.length + cv.length = M.length then .ok (pySorted (o.ucover cu), pySorted (o.vcover cv))
    else .error .assertion

/-- `minimum_vertex_cover(graph)` for an arbitrary enumeration order of its sets. -/
def minimumVertexCoverOrd (o : SetOrder) (g : Graph) :
    Except Err (List (Nat × Nat) × List Nat × List Nat) :=
  match hopcroftKarp g with
  | .error e => .error e
  | .ok M =>
    match coverOfOrd o g M with
    | .error e => .error e
    | .ok c => .ok (M, c.1, c.2)

/-! ### Decidable certificate (checker) -/

/-- All edges of the graph as pairs. -/
def Graph.edges (g : Graph) : List (Nat × Nat) :=
  (List.range g.nU).flatMap fun u => (g.nbrU u).map fun v => (u, v)

/-- `M` is a set of pairwise vertex-disjoint edges of `g`, `(cu, cv)` touches every edge and contains
    only existing vertices, and the sizes agree. -/
def certificateOk (g : Graph) (M : List (Nat × Nat)) (cu cv : List Nat) : Bool :=
  M.all (fun p => (g.nbrU p.1).contains p.2) &&
  decide (M.map Prod.fst).Nodup && decide (M.map Prod.snd).Nodup &&
  g.edges.all (fun p => cu.contains p.1 || cv.contains p.2) &&
  cu.all (fun u => decide (u < g.nU)) && cv.all (fun v => decide (v < g.nV)) &&
  decide (cu.length + cv.length = M.length)

end Ptn.C14
