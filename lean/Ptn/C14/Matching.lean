import Ptn.C14.Koenig
/-! Hopcroft-Karp, matching invariant: `matched_pairs_u / matched_pairs_v` always describe a set of
pairwise vertex-disjoint edges.  The DFS augmentation temporarily breaks the invariant along the
path it is rewiring; the proof needs the layering (`dist` strictly increases along the recursion)
to show that the recursion never comes back to a vertex whose entry it still has to overwrite. -/
namespace Ptn.C14

@[simp] theorem upd_same {α β : Type} [DecidableEq α] (f : α → β) (i : α) (a : β) :
    upd f i a i = a := by simp [upd]
theorem upd_ne {α β : Type} [DecidableEq α] (f : α → β) {i j : α} (a : β) (h : j ≠ i) :
    upd f i a j = f j := by simp [upd, h]

/-- `(mU, mV)` is a matching of `g`. -/
structure Consistent (g : Graph) (s : HK) : Prop where
  fwd : ∀ a b, s.mU a = some b → b ∈ g.nbrU a ∧ s.mV b = some a
  bwd : ∀ b a, s.mV b = some a → s.mU a = some b

theorem Consistent.of_eq {g : Graph} {s t : HK} (h : Consistent g s) (h1 : t.mU = s.mU)
    (h2 : t.mV = s.mV) : Consistent g t :=
  ⟨fun a b hab => by rw [h1] at hab; rw [h2]; exact h.fwd a b hab,
   fun b a hba => by rw [h2] at hba; rw [h1]; exact h.bwd b a hba⟩

theorem init_consistent (g : Graph) : Consistent g HK.init :=
  ⟨fun _ _ h => by simp [HK.init] at h, fun _ _ h => by simp [HK.init] at h⟩

section
variable (g : Graph)

/-- What one call `add_augmenting_path(u)` may change, in terms of the distances at entry:
    distances only jump to `inf`, and only at vertices not nearer than `u`; a failed call leaves the
    matching alone; a successful one rewires only vertices not nearer than `u` and right vertices
    whose partner is strictly farther than `u`. -/
structure Frame (u : Nat) (s : HK) (r : Bool) (s' : HK) : Prop where
  dist : ∀ y, s'.dist y = s.dist y ∨ (y ≠ none ∧ s'.dist y = g.inf ∧ s.dist (some u) ≤ s.dist y)
  keep : r = true → s'.dist (some u) = s.dist (some u)
  fail : r = false → s'.mU = s.mU ∧ s'.mV = s.mV
  left : ∀ a, s'.mU a ≠ s.mU a → s.dist (some u) ≤ s.dist (some a)
  right : ∀ b, s'.mV b ≠ s.mV b → s.dist (some u) < s.dist (s.mV b)

/-- Frame of a call with an arbitrary argument (NIL returns `True` at once). -/
def FrameX (x : Option Nat) (s : HK) (r : Bool) (s' : HK) : Prop :=
  match x with
  | none => r = true ∧ s' = s
  | some w => Frame g w s r s'

/-- Loop invariant of the `for v in adj_u[u]` loop: only failed calls so far. -/
structure Mid (u : Nat) (s sk : HK) : Prop where
  mU : sk.mU = s.mU
  mV : sk.mV = s.mV
  dist : ∀ y, sk.dist y = s.dist y ∨ (y ≠ none ∧ sk.dist y = g.inf ∧ s.dist (some u) < s.dist y)

theorem Mid.refl (u : Nat) (s : HK) : Mid g u s s := ⟨rfl, rfl, fun _ => Or.inl rfl⟩

theorem Mid.dist_u {u : Nat} {s sk : HK} (h : Mid g u s sk) : sk.dist (some u) = s.dist (some u) := by
  rcases h.dist (some u) with h1 | ⟨_, _, h3⟩
  · exact h1
  · exact absurd h3 (Nat.lt_irrefl _)

/-- a vertex that is far in the current state was already far at entry -/
theorem Mid.far {u : Nat} {s sk : HK} (h : Mid g u s sk) {y : Option Nat}
    (hy : s.dist (some u) < sk.dist y) : s.dist (some u) < s.dist y := by
  rcases h.dist y with h1 | ⟨_, _, h3⟩
  · rw [← h1]; exact hy
  · exact h3

theorem Mid.step {u w : Nat} {s sk s1 : HK} (h : Mid g u s sk)
    (hd : sk.dist (some w) = sk.dist (some u) + 1) (hf : Frame g w sk false s1) : Mid g u s s1 := by
  obtain ⟨e1, e2⟩ := hf.fail rfl
  refine ⟨e1.trans h.mU, e2.trans h.mV, ?_⟩
  intro y
  rcases hf.dist y with h1 | ⟨hn, hi, hle⟩
  · rw [h1]; exact h.dist y
  · right
    refine ⟨hn, hi, ?_⟩
    apply h.far
    rw [← h.dist_u]
    omega

theorem dfsLoop_frame (rec : Option Nat → HK → Option (Bool × HK))
    (hrec : ∀ x s r s', rec x s = some (r, s') → FrameX g x s r s') (u : Nat) (s : HK) :
    ∀ (vs : List Nat) (sk : HK) (r : Bool) (s' : HK), Mid g u s sk →
      dfsLoop g rec u vs sk = some (r, s') → Frame g u s r s' := by
  intro vs
  induction vs with
  | nil =>
    intro sk r s' hmid h
    simp only [dfsLoop, Option.some.injEq, Prod.mk.injEq] at h
    obtain ⟨rfl, rfl⟩ := h
    refine ⟨?_, by simp, fun _ => ⟨hmid.mU, hmid.mV⟩, ?_, ?_⟩
    · intro y
      by_cases hy : y = some u
      · subst hy
        right
        exact ⟨by simp, by simp, Nat.le_refl _⟩
      · simp only [upd_ne _ _ hy]
        rcases hmid.dist y with h1 | ⟨h1, h2, h3⟩
        · exact Or.inl h1
        · exact Or.inr ⟨h1, h2, Nat.le_of_lt h3⟩
    · intro a ha; exact absurd (congrFun hmid.mU a) ha
    · intro b hb; exact absurd (congrFun hmid.mV b) hb
  | cons v vs ih =>
    intro sk r s' hmid h
    simp only [dfsLoop] at h
    split at h
    · rename_i hcond
      split at h
      · exact absurd h (by simp)
      · rename_i s1 hr
        simp only [Option.some.injEq, Prod.mk.injEq] at h
        obtain ⟨rfl, rfl⟩ := h
        have hfx := hrec _ _ _ _ hr
        have hdu := hmid.dist_u
        -- facts about s1 relative to sk, uniform in the two cases of `sk.mV v`
        have key : (∀ y, s1.dist y = sk.dist y ∨
              (y ≠ none ∧ s1.dist y = g.inf ∧ sk.dist (some u) < sk.dist y)) ∧
            (∀ a, s1.mU a ≠ sk.mU a → sk.dist (some u) < sk.dist (some a)) ∧
            (∀ b, s1.mV b ≠ sk.mV b → sk.dist (some u) < sk.dist (sk.mV b)) := by
          cases hx : sk.mV v with
          | none =>
            rw [hx] at hfx
            obtain ⟨_, rfl⟩ := hfx
            exact ⟨fun _ => Or.inl rfl, fun _ h => absurd rfl h, fun _ h => absurd rfl h⟩
          | some w =>
            rw [hx] at hfx hcond
            have hfx : Frame g w sk true s1 := hfx
            refine ⟨?_, ?_, ?_⟩
            · intro y
              rcases hfx.dist y with h1 | ⟨h1, h2, h3⟩
              · exact Or.inl h1
              · exact Or.inr ⟨h1, h2, by omega⟩
            · intro a ha; have := hfx.left a ha; omega
            · intro b hb; have := hfx.right b hb; omega
        obtain ⟨kd, kl, kr⟩ := key
        refine ⟨?_, ?_, by simp, ?_, ?_⟩
        · intro y
          show s1.dist y = _ ∨ _
          rcases kd y with h1 | ⟨h1, h2, h3⟩
          · rw [h1]
            rcases hmid.dist y with h4 | ⟨h4, h5, h6⟩
            · exact Or.inl h4
            · exact Or.inr ⟨h4, h5, Nat.le_of_lt h6⟩
          · exact Or.inr ⟨h1, h2, Nat.le_of_lt (hmid.far g (by rw [← hdu]; exact h3))⟩
        · intro _
          show s1.dist (some u) = _
          rcases kd (some u) with h1 | ⟨_, _, h3⟩
          · rw [h1, hdu]
          · exact absurd h3 (Nat.lt_irrefl _)
        · intro a ha
          by_cases hau : a = u
          · subst hau; exact Nat.le_refl _
          · have ha' : s1.mU a ≠ sk.mU a := by
              intro he; apply ha
              show upd s1.mU u (some v) a = _
              rw [upd_ne _ _ hau, he, hmid.mU]
            exact Nat.le_of_lt (hmid.far g (by rw [← hdu]; exact kl a ha'))
        · intro b hb
          by_cases hbv : b = v
          · subst hbv
            rw [← hmid.mV]
            apply hmid.far g
            rw [hcond, hdu]; omega
          · have hb' : s1.mV b ≠ sk.mV b := by
              intro he; apply hb
              show upd s1.mV v (some u) b = _
              rw [upd_ne _ _ hbv, he, hmid.mV]
            rw [← hmid.mV]
            exact hmid.far g (by rw [← hdu]; exact kr b hb')
      · rename_i s1 hr
        have hfx := hrec _ _ _ _ hr
        cases hx : sk.mV v with
        | none =>
          rw [hx] at hfx
          exact absurd hfx.1 (by simp)
        | some w =>
          rw [hx] at hfx hcond
          exact ih s1 r s' (hmid.step g hcond hfx) h
    · exact ih sk r s' hmid h

theorem dfs_frame : ∀ (f : Nat) (x : Option Nat) (s : HK) (r : Bool) (s' : HK),
    dfs g f x s = some (r, s') → FrameX g x s r s' := by
  intro f
  induction f with
  | zero =>
    intro x s r s' h
    cases x with
    | none =>
      simp only [dfs, Option.some.injEq, Prod.mk.injEq] at h
      exact ⟨h.1.symm, h.2.symm⟩
    | some u => simp [dfs] at h
  | succ f ih =>
    intro x s r s' h
    cases x with
    | none =>
      simp only [dfs, Option.some.injEq, Prod.mk.injEq] at h
      exact ⟨h.1.symm, h.2.symm⟩
    | some u =>
      simp only [dfs] at h
      exact dfsLoop_frame g (dfs g f) ih u s _ s r s' (Mid.refl g u s) h

/-! ### the matching after a successful call -/

/-- State after a successful `add_augmenting_path(u)` started in a consistent state `s`: consistent
    except that the old partner of `u` (if any) still points to `u`. -/
structure AugPost (u : Nat) (s s' : HK) : Prop where
  fwd : ∀ a b, s'.mU a = some b → b ∈ g.nbrU a ∧ s'.mV b = some a
  bwd : ∀ b a, s'.mV b = some a → s'.mU a = some b ∨ (a = u ∧ s.mU u = some b)
  new : ∃ b, s'.mU u = some b ∧ s.mU u ≠ some b

theorem dfsLoop_aug (rec : Option Nat → HK → Option (Bool × HK))
    (hrecF : ∀ x s r s', rec x s = some (r, s') → FrameX g x s r s')
    (hrec : ∀ w s s', Consistent g s → rec (some w) s = some (true, s') → AugPost g w s s')
    (u : Nat) (s : HK) (hs : Consistent g s) :
    ∀ (vs : List Nat) (sk s' : HK), (∀ v ∈ vs, v ∈ g.nbrU u) → Mid g u s sk →
      dfsLoop g rec u vs sk = some (true, s') → AugPost g u s s' := by
  intro vs
  induction vs with
  | nil =>
    intro sk s' _ _ h
    simp [dfsLoop] at h
  | cons v vs ih =>
    intro sk s' hvs hmid h
    have hvs' : ∀ b ∈ vs, b ∈ g.nbrU u := fun b hb => hvs b (List.mem_cons_of_mem _ hb)
    have hsk : Consistent g sk := hs.of_eq hmid.mU hmid.mV
    simp only [dfsLoop] at h
    split at h
    · rename_i hcond
      split at h
      · exact absurd h (by simp)
      · rename_i s1 hr
        simp only [Option.some.injEq, Prod.mk.injEq, true_and] at h
        subst h
        have hfx := hrecF _ _ _ _ hr
        have hvu : v ∈ g.nbrU u := hvs v (List.mem_cons_self ..)
        -- `u` was not matched to `v` at entry
        have hnew : s.mU u ≠ some v := by
          intro he
          have := (hs.fwd u v he).2
          rw [← hmid.mV] at this
          rw [this] at hcond
          omega
        cases hx : sk.mV v with
        | none =>
          rw [hx] at hfx
          obtain ⟨_, rfl⟩ := hfx
          refine ⟨?_, ?_, ⟨v, by simp, hnew⟩⟩
          · intro a b hab
            by_cases hau : a = u
            · subst hau
              simp only [upd_same, Option.some.injEq] at hab
              subst hab
              exact ⟨hvu, by simp⟩
            · simp only [upd_ne _ _ hau] at hab
              obtain ⟨h1, h2⟩ := hsk.fwd a b hab
              have hbv : b ≠ v := by
                intro hbv; rw [hbv, hx] at h2; simp at h2
              exact ⟨h1, by simp only [upd_ne _ _ hbv]; exact h2⟩
          · intro b a hba
            by_cases hbv : b = v
            · subst hbv
              simp only [upd_same, Option.some.injEq] at hba
              subst hba
              exact Or.inl (by simp)
            · simp only [upd_ne _ _ hbv] at hba
              have h1 := hsk.bwd b a hba
              by_cases hau : a = u
              · subst hau
                right
                rw [hmid.mU] at h1
                exact ⟨rfl, h1⟩
              · left
                simp only [upd_ne _ _ hau]; exact h1
        | some w =>
          rw [hx] at hfx hr hcond
          have hfx : Frame g w sk true s1 := hfx
          have hpost := hrec w sk s1 hsk hr
          -- the entries the caller overwrites were not touched below
          have hv1 : s1.mV v = some w := by
            apply Classical.byContradiction
            intro hne
            have := hfx.right v (by rw [hx]; exact hne)
            rw [hx] at this
            exact Nat.lt_irrefl _ this
          have hu1 : s1.mU u = sk.mU u := by
            apply Classical.byContradiction
            intro hne
            have := hfx.left u hne
            omega
          have hwv : sk.mU w = some v := hsk.bwd v w hx
          refine ⟨?_, ?_, ⟨v, by simp, hnew⟩⟩
          · intro a b hab
            by_cases hau : a = u
            · subst hau
              simp only [upd_same, Option.some.injEq] at hab
              subst hab
              exact ⟨hvu, by simp⟩
            · simp only [upd_ne _ _ hau] at hab
              obtain ⟨h1, h2⟩ := hpost.fwd a b hab
              have hbv : b ≠ v := by
                intro hbv
                rw [hbv, hv1] at h2
                simp only [Option.some.injEq] at h2
                subst h2
                obtain ⟨b', hb', hnb'⟩ := hpost.new
                rw [hab, hbv] at hb'
                simp only [Option.some.injEq] at hb'
                subst hb'
                exact hnb' hwv
              exact ⟨h1, by simp only [upd_ne _ _ hbv]; exact h2⟩
          · intro b a hba
            by_cases hbv : b = v
            · subst hbv
              simp only [upd_same, Option.some.injEq] at hba
              subst hba
              exact Or.inl (by simp)
            · simp only [upd_ne _ _ hbv] at hba
              rcases hpost.bwd b a hba with h1 | ⟨rfl, h1⟩
              · by_cases hau : a = u
                · subst hau
                  right
                  rw [hu1, hmid.mU] at h1
                  exact ⟨rfl, h1⟩
                · left
                  simp only [upd_ne _ _ hau]; exact h1
              · rw [hwv] at h1
                simp only [Option.some.injEq] at h1
                exact absurd h1.symm hbv
      · rename_i s1 hr
        have hfx := hrecF _ _ _ _ hr
        cases hx : sk.mV v with
        | none =>
          rw [hx] at hfx
          exact absurd hfx.1 (by simp)
        | some w =>
          rw [hx] at hfx hcond
          exact ih s1 s' hvs' (hmid.step g hcond hfx) h
    · exact ih sk s' hvs' hmid h

theorem dfs_aug : ∀ (f : Nat) (u : Nat) (s s' : HK), Consistent g s →
    dfs g f (some u) s = some (true, s') → AugPost g u s s' := by
  intro f
  induction f with
  | zero => intro u s s' _ h; simp [dfs] at h
  | succ f ih =>
    intro u s s' hs h
    simp only [dfs] at h
    exact dfsLoop_aug g (dfs g f) (dfs_frame g f) ih u s hs _ s s' (fun _ h => h) (Mid.refl g u s) h

/-- A top-level call (from a free left vertex) maps consistent states to consistent states. -/
theorem dfs_consistent (f u : Nat) (s s' : HK) (r : Bool) (hs : Consistent g s)
    (hfree : s.mU u = none) (h : dfs g f (some u) s = some (r, s')) : Consistent g s' := by
  cases r with
  | false =>
    have hf : Frame g u s false s' := dfs_frame g f (some u) s false s' h
    obtain ⟨e1, e2⟩ := hf.fail rfl
    exact hs.of_eq e1 e2
  | true =>
    have hp := dfs_aug g f u s s' hs h
    refine ⟨hp.fwd, ?_⟩
    intro b a hba
    rcases hp.bwd b a hba with h1 | ⟨_, h1⟩
    · exact h1
    · rw [hfree] at h1; simp at h1

theorem phase_consistent : ∀ (us : List Nat) (s s' : HK), Consistent g s →
    phase g us s = some s' → Consistent g s' := by
  intro us
  induction us with
  | nil => intro s s' hs h; simp only [phase, Option.some.injEq] at h; subst h; exact hs
  | cons u us ih =>
    intro s s' hs h
    simp only [phase] at h
    split at h
    · rename_i hfree
      split at h
      · exact absurd h (by simp)
      · rename_i r s1 hd
        exact ih s1 s' (dfs_consistent g _ u s s1 r hs hfree hd) h
    · exact ih s s' hs h

theorem hkLoop_consistent : ∀ (f : Nat) (s s' : HK), Consistent g s →
    hkLoop g f s = .ok s' → Consistent g s' := by
  intro f
  induction f with
  | zero => intro s s' _ h; simp [hkLoop] at h
  | succ f ih =>
    intro s s' hs h
    simp only [hkLoop] at h
    split at h
    · exact absurd h (by simp)
    · rename_i d hb
      split at h
      · split at h
        · exact absurd h (by simp)
        · rename_i s1 hp
          exact ih s1 s' (phase_consistent g _ { s with dist := d } s1 (hs.of_eq rfl rfl) hp) h
      · simp only [Except.ok.injEq] at h
        subst h
        exact hs.of_eq rfl rfl

end

/-! ### the collected matching -/

theorem mem_collect (mU : Nat → Option Nat) (n u v : Nat) :
    (u, v) ∈ collect mU n ↔ u < n ∧ mU u = some v := by
  simp only [collect, List.mem_filterMap, List.mem_range, Option.map_eq_some_iff, Prod.mk.injEq]
  constructor
  · rintro ⟨a, ha, b, hb, rfl, rfl⟩; exact ⟨ha, hb⟩
  · rintro ⟨h1, h2⟩; exact ⟨u, h1, v, h2, rfl, rfl⟩

theorem collect_isMatching (g : Graph) (s : HK) (hs : Consistent g s) :
    IsMatching g.edge (collect s.mU g.nU) := by
  have hpw : (collect s.mU g.nU).Pairwise (fun p q => p.1 < q.1) := by
    unfold collect
    apply List.Pairwise.filterMap _ _ List.pairwise_lt_range
    intro a a' haa' b hb b' hb'
    simp only [Option.map_eq_some_iff] at hb hb'
    obtain ⟨_, _, rfl⟩ := hb
    obtain ⟨_, _, rfl⟩ := hb'
    exact haa'
  refine ⟨?_, ?_, ?_⟩
  · rintro ⟨u, v⟩ hp
    exact (hs.fwd u v ((mem_collect _ _ _ _).1 hp).2).1
  · rw [List.Nodup, List.pairwise_map]
    exact hpw.imp (fun h => Nat.ne_of_lt h)
  · rw [List.Nodup, List.pairwise_map]
    have hall : ∀ p ∈ collect s.mU g.nU, s.mU p.1 = some p.2 := by
      rintro ⟨u, v⟩ hp; exact ((mem_collect _ _ _ _).1 hp).2
    have : (collect s.mU g.nU).Pairwise (fun p q => (s.mU p.1 = some p.2 ∧ s.mU q.1 = some q.2) ∧ p.1 < q.1) := by
      rw [List.pairwise_and_iff]
      refine ⟨?_, hpw⟩
      exact List.pairwise_of_forall_mem_list (fun p hp q hq => ⟨hall p hp, hall q hq⟩)
    apply this.imp
    rintro ⟨u, v⟩ ⟨u', v'⟩ ⟨⟨h1, h2⟩, h3⟩ heq
    simp only at h1 h2 h3 heq
    subst heq
    have e1 := (hs.fwd u v h1).2
    have e2 := (hs.fwd u' v h2).2
    rw [e1] at e2
    simp only [Option.some.injEq] at e2
    omega

end Ptn.C14
