import Ptn.C11.Model
import Ptn.C11.Value
import Ptn.C11.Tensordot
/-! Line-protocol handler for the C11 model (core Lean only).

  mat <shape…> | <out…> | <in…>            → `T=<shape after transposition> rows=<m> cols=<n>` | error
  qr <mode> <shape…> | <q_legs…> | <r_legs…> → `Q=<shape> R=<shape> bond=<b> pad=<p> qlegs=<…> rlegs=<…>` | error
  svd <mode> <shape…> | <u_legs…> | <v_legs…> → `U=<shape> S=<k> Vh=<shape> ulegs=<…> vlegs=<…>` | error
  tsvd <kept> <shape…> | <u_legs…> | <v_legs…> → as svd (truncated to `kept` singular values)
  matidx <shape…> | <out…> | <in…> | <i> <j>  → flat C-order position in the INPUT of the entry that
                                             `tensor_matricization` puts at `[i, j]` (value-level model) | error
  contr <ucontr|vcontr|equal>              → `<a> <b>`: exponents of S (in halves) absorbed by U and Vh
  tdot <shape a> <data a> <shape b> <data b> <axes a> <axes b>
                                           → `shape=<shape> data=<entries in C order>` of `arrTensordot` (the
                                             value-level model of `numpy.tensordot`) on integer arrays | error
                                             (comma-separated lists, `-` = empty list; `bad-op` when the number
                                             of entries is not the size of the shape)

  modes: reduced | full | keep.  Empty lists are written as nothing between the bars.
-/
namespace Ptn.C11

def splitBars (ts : List String) : List (List String) :=
  ts.foldr (fun t acc =>
    if t = "|" then [] :: acc
    else match acc with
      | [] => [[t]]
      | g :: gs => (t :: g) :: gs) [[]]

def parseNats (ts : List String) : Option (List Nat) := ts.mapM String.toNat?

def parseMode (t : String) : Option Mode :=
  if t = "reduced" then some .reduced
  else if t = "full" then some .full
  else if t = "keep" then some .keep
  else none

def parseThree (ts : List String) : Option (List Nat × List Nat × List Nat) :=
  match splitBars ts with
  | [a, b, c] =>
    match parseNats a, parseNats b, parseNats c with
    | some x, some y, some z => some (x, y, z)
    | _, _, _ => none
  | _ => none

def showNats (l : List Nat) : String :=
  if l.isEmpty then "-" else ",".intercalate (l.map toString)

def parseCsvNats (s : String) : Option (List Nat) :=
  if s = "-" then some [] else (s.splitOn ",").mapM String.toNat?

def parseCsvInts (s : String) : Option (List Int) :=
  if s = "-" then some [] else (s.splitOn ",").mapM String.toInt?

def showInts (l : List Int) : String :=
  if l.isEmpty then "-" else ",".intercalate (l.map toString)

def handleTdot (sa da sb db xa xb : String) : String :=
  match parseCsvNats sa, parseCsvInts da, parseCsvNats sb, parseCsvInts db, parseCsvNats xa, parseCsvNats xb with
  | some sa, some da, some sb, some db, some xa, some xb =>
    if da.length ≠ prod sa ∨ db.length ≠ prod sb then "bad-op"
    else
      let arrA := da.toArray
      let arrB := db.toArray
      match arrTensordot (⟨sa, fun k => arrA.getD k 0⟩ : Arr Int) ⟨sb, fun k => arrB.getD k 0⟩ xa xb with
      | some C => s!"shape={showNats C.shape} data={showInts ((List.range (prod C.shape)).map C.data)}"
      | none => "error"
  | _, _, _, _, _, _ => "bad-op"

def showLeg : Leg → String
  | .orig a => toString a
  | .bond => "b"

def showLegs (l : List Leg) : String :=
  if l.isEmpty then "-" else ",".intercalate (l.map showLeg)

def showSVD : Option SVDResult → String
  | none => "error"
  | some r => s!"U={showNats r.u.shape} S={r.sLen} Vh={showNats r.vh.shape} " ++
              s!"ulegs={showLegs r.u.legs} vlegs={showLegs r.vh.legs}"

def handle (args : List String) : String :=
  match args with
  | "mat" :: rest =>
    match parseThree rest with
    | some (sh, a, b) =>
      match matricize sh a b with
      | some m => s!"T={showNats m.shapeT} rows={m.rows} cols={m.cols}"
      | none => "error"
    | none => "bad-op"
  | "matidx" :: rest =>
    match splitBars rest with
    | [a, b, c, d] =>
      match parseNats a, parseNats b, parseNats c, parseNats d with
      | some sh, some out, some inn, some [i, j] =>
        match (Arr.matricize (⟨sh, fun k => k⟩ : Arr Nat) out inn) with
        | some m =>
          match m.shape with
          | [rows, cols] => if i < rows ∧ j < cols then toString (m.get [i, j]) else "bad-op"
          | _ => "error"
        | none => "error"
      | _, _, _, _ => "bad-op"
    | _ => "bad-op"
  | "qr" :: mode :: rest =>
    match parseMode mode, parseThree rest with
    | some md, some (sh, a, b) =>
      match tensorQR md sh a b with
      | some r => s!"Q={showNats r.q.shape} R={showNats r.r.shape} bond={r.bond} pad={r.pad} " ++
                  s!"qlegs={showLegs r.q.legs} rlegs={showLegs r.r.legs}"
      | none => "error"
    | _, _ => "bad-op"
  | "svd" :: mode :: rest =>
    match parseMode mode, parseThree rest with
    | some md, some (sh, a, b) => showSVD (tensorSVD md sh a b)
    | _, _ => "bad-op"
  | "tsvd" :: kept :: rest =>
    match kept.toNat?, parseThree rest with
    | some k, some (sh, a, b) => showSVD (truncatedSVD sh a b k)
    | _, _ => "bad-op"
  | ["tdot", sa, da, sb, db, xa, xb] => handleTdot sa da sb db xa xb
  | ["contr", m] =>
    let cm : Option ContrMode :=
      if m = "ucontr" then some .ucontr else if m = "vcontr" then some .vcontr
      else if m = "equal" then some .equal else none
    match cm with
    | some c => s!"{(absorb c).1} {(absorb c).2}"
    | none => "bad-op"
  | _ => "bad-op"

end Ptn.C11
