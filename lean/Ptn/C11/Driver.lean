import Ptn.C11.Model
/-! Line-protocol handler for the C11 model (core Lean only). -/
namespace Ptn.C11
def handle (args : List String) : String := "bad-op"
end Ptn.C11
