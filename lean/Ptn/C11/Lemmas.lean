import Ptn.C11.Spec
/-! Helper lemmas for C11 (core Lean only). -/
namespace Ptn.C11

theorem prod_append (a b : List Nat) : prod (a ++ b) = prod a * prod b := by
  induction a with
  | nil => simp [prod]
  | cons x t ih => simp [prod, ih, Nat.mul_assoc]

theorem prod_perm {a b : List Nat} (h : a.Perm b) : prod a = prod b := by
  induction h with
  | nil => rfl
  | cons x _ ih => simp [prod, ih]
  | swap x y l => simp [prod]; rw [← Nat.mul_assoc, ← Nat.mul_assoc, Nat.mul_comm y x]
  | trans _ _ ih1 ih2 => exact ih1.trans ih2

/-- Total helper used only inside proofs. -/
def dimAt (sh : List Nat) (a : Nat) : Nat := sh.getD a 0

theorem dimsOf_of_lt (sh legs : List Nat) (h : ∀ a ∈ legs, a < sh.length) :
    dimsOf sh legs = some (legs.map (dimAt sh)) := by
  induction legs with
  | nil => rfl
  | cons a t ih =>
    have ha : a < sh.length := h a (by simp)
    have := ih (fun b hb => h b (by simp [hb]))
    simp [dimsOf, this, List.getElem?_eq_getElem ha, dimAt, List.getD_eq_getElem?_getD]

theorem dimsOf_some_lt (sh legs ds : List Nat) (h : dimsOf sh legs = some ds) :
    ∀ a ∈ legs, a < sh.length := by
  induction legs generalizing ds with
  | nil => simp
  | cons a t ih =>
    unfold dimsOf at h
    split at h
    · rename_i d ds' hd hds
      intro b hb
      rcases List.mem_cons.mp hb with rfl | hb
      · exact (List.getElem?_eq_some_iff.mp hd).1
      · exact ih ds' hds b hb
    · simp at h

theorem dimsOf_append (sh a b : List Nat) (h : ∀ x ∈ a ++ b, x < sh.length) :
    dimsOf sh (a ++ b) = some (a.map (dimAt sh) ++ b.map (dimAt sh)) := by
  rw [dimsOf_of_lt sh _ h]; simp

theorem map_dimAt_range (sh : List Nat) : (List.range sh.length).map (dimAt sh) = sh := by
  apply List.ext_getElem
  · simp
  · intro i h1 h2
    simp [dimAt, List.getD_eq_getElem?_getD]
    simp at h1
    simp [List.getElem?_eq_getElem h1]

theorem perm_range_lt {axes : List Nat} {n : Nat} (h : axes.Perm (List.range n)) :
    ∀ a ∈ axes, a < n := by
  intro a ha
  have := h.mem_iff.mp ha
  simpa using this

theorem perm_range_nodup {axes : List Nat} {n : Nat} (h : axes.Perm (List.range n)) :
    axes.Nodup := h.nodup_iff.mpr List.nodup_range

theorem perm_range_length {axes : List Nat} {n : Nat} (h : axes.Perm (List.range n)) :
    axes.length = n := by simpa using h.length_eq
/-- Under a bipartition everything the matricisation checks succeeds. -/
theorem matricize_ok (sh q r : List Nat) (h : Bipartition sh q r) :
    dimsOf sh q = some (q.map (dimAt sh)) ∧ dimsOf sh r = some (r.map (dimAt sh)) ∧
    matricize sh q r = some ⟨q.map (dimAt sh) ++ r.map (dimAt sh), prod (q.map (dimAt sh)),
      prod (r.map (dimAt sh))⟩ ∧
    (q.map (dimAt sh) ++ r.map (dimAt sh)).Perm sh ∧
    prod (q.map (dimAt sh)) * prod (r.map (dimAt sh)) = prod sh := by
  unfold Bipartition at h
  have hlt := perm_range_lt h
  have hnd := perm_range_nodup h
  have hlen := perm_range_length h
  have hq : ∀ a ∈ q, a < sh.length := fun a ha => hlt a (by simp [ha])
  have hr : ∀ a ∈ r, a < sh.length := fun a ha => hlt a (by simp [ha])
  have hperm : (q.map (dimAt sh) ++ r.map (dimAt sh)).Perm sh := by
    have := h.map (dimAt sh)
    rw [map_dimAt_range, List.map_append] at this
    exact this
  have hprod : prod (q.map (dimAt sh)) * prod (r.map (dimAt sh)) = prod sh := by
    rw [← prod_append]; exact prod_perm hperm
  refine ⟨dimsOf_of_lt sh q hq, dimsOf_of_lt sh r hr, ?_, hperm, hprod⟩
  have hl : sh.length = q.length + r.length := by simp at hlen; omega
  have ht : transposeByLegList sh q r = some (q.map (dimAt sh) ++ r.map (dimAt sh)) := by
    unfold transposeByLegList
    simp only [hl, ne_eq, not_true_eq_false, if_false, hnd]
    exact dimsOf_append sh q r hlt
  unfold matricize
  rw [ht]
  simp [hprod]

theorem determine_out (sh legs : List Nat) (a b : Nat) (ds : List Nat)
    (h : dimsOf sh legs = some ds) : determineTensorShape sh a b legs true = some (ds ++ [b]) := by
  simp [determineTensorShape, h]

theorem determine_in (sh legs : List Nat) (a b : Nat) (ds : List Nat)
    (h : dimsOf sh legs = some ds) : determineTensorShape sh a b legs false = some (a :: ds) := by
  simp [determineTensorShape, h]

theorem reshapeOk_out (ds : List Nat) (k : Nat) : reshapeOk (prod ds) k (ds ++ [k]) = true := by
  simp [reshapeOk, prod_append, prod]

theorem reshapeOk_in (ds : List Nat) (k : Nat) : reshapeOk k (prod ds) (k :: ds) = true := by
  simp [reshapeOk, prod]

/-- Closed form of `tensorQR` on a bipartition. -/
theorem tensorQR_eq (mode : Mode) (sh q r : List Nat) (h : Bipartition sh q r) :
    tensorQR mode sh q r =
      if mode = .keep ∧ r = [] then none
      else
        let qd := q.map (dimAt sh)
        let rd := r.map (dimAt sh)
        let b := qrBond mode (prod qd) (prod rd)
        some ⟨⟨qd ++ [b], q.map Leg.orig ++ [Leg.bond]⟩, ⟨b :: rd, Leg.bond :: r.map Leg.orig⟩, b,
              qrPad mode (prod qd) (prod rd)⟩ := by
  obtain ⟨hq, hr, hm, _, _⟩ := matricize_ok sh q r h
  unfold tensorQR
  rw [hm]
  simp only
  rw [determine_out sh q _ _ _ hq, determine_in sh r _ _ _ hr]
  simp only [reshapeOk_out, reshapeOk_in, Bool.and_self, not_true_eq_false, if_false]
  cases mode with
  | reduced => simp [qrBond, qrPad, numpyQRInner]
  | full => simp [qrBond, qrPad, numpyQRInner]
  | keep =>
    by_cases hre : r = []
    · simp [hre]
    · have hle : min (prod (q.map (dimAt sh))) (prod (r.map (dimAt sh))) ≤ prod (r.map (dimAt sh)) :=
        Nat.min_le_right _ _
      have hnl : ¬ prod (r.map (dimAt sh)) < min (prod (q.map (dimAt sh))) (prod (r.map (dimAt sh))) := by
        omega
      simp [hre, qrBond, qrPad, numpyQRInner, hnl]
      omega

theorem nodup_lt_length_le (n : Nat) : ∀ l : List Nat, l.Nodup → (∀ a ∈ l, a < n) → l.length ≤ n := by
  induction n with
  | zero =>
    intro l _ h
    cases l with
    | nil => simp
    | cons a t => exact absurd (h a (by simp)) (by omega)
  | succ n ih =>
    intro l hnd h
    by_cases hn : n ∈ l
    · have h1 := ih (l.erase n) (hnd.erase n) (by
        intro a ha
        have := (hnd.mem_erase_iff).mp ha
        have := h a this.2
        omega)
      rw [List.length_erase_of_mem hn] at h1
      omega
    · have := ih l hnd (by
        intro a ha
        have h2 := h a ha
        have : a ≠ n := fun e => hn (e ▸ ha)
        omega)
      omega

theorem perm_range_of_nodup (n : Nat) : ∀ l : List Nat, l.Nodup → (∀ a ∈ l, a < n) → l.length = n →
    l.Perm (List.range n) := by
  induction n with
  | zero =>
    intro l _ _ hl
    have : l = [] := List.length_eq_zero_iff.mp hl
    subst this; simp
  | succ n ih =>
    intro l hnd h hl
    have hn : n ∈ l := by
      apply Classical.byContradiction
      intro hn
      have := nodup_lt_length_le n l hnd (by
        intro a ha
        have h2 := h a ha
        have : a ≠ n := fun e => hn (e ▸ ha)
        omega)
      omega
    have h1 := ih (l.erase n) (hnd.erase n) (by
        intro a ha
        have := (hnd.mem_erase_iff).mp ha
        have := h a this.2
        omega) (by rw [List.length_erase_of_mem hn]; omega)
    have h2 : l.Perm (n :: l.erase n) := List.perm_cons_erase hn
    rw [List.range_succ]
    exact h2.trans ((List.Perm.cons n h1).trans (List.perm_append_singleton n _).symm)

/-- What the code checks is exactly "ordered bipartition of the axes". -/
theorem transpose_some_iff (sh q r : List Nat) :
    (∃ t, transposeByLegList sh q r = some t) ↔ Bipartition sh q r := by
  constructor
  · rintro ⟨t, ht⟩
    unfold transposeByLegList at ht
    split at ht
    · simp at ht
    · rename_i hl
      simp only at ht
      split at ht
      · simp at ht
      · rename_i hnd
        have hnd' : (q ++ r).Nodup := by simpa using hnd
        have hlt := dimsOf_some_lt sh (q ++ r) t ht
        have hl' : (q ++ r).length = sh.length := by simp at hl ⊢; omega
        exact perm_range_of_nodup sh.length (q ++ r) hnd' hlt hl'
  · intro h
    have := (matricize_ok sh q r h).2.2.1
    unfold matricize at this
    split at this
    · simp at this
    · rename_i t ht; exact ⟨t, ht⟩

theorem matricize_none_of_not (sh q r : List Nat) (h : ¬ Bipartition sh q r) :
    matricize sh q r = none := by
  have : transposeByLegList sh q r = none := by
    cases ht : transposeByLegList sh q r with
    | none => rfl
    | some t => exact absurd ((transpose_some_iff sh q r).mp ⟨t, ht⟩) h
  simp [matricize, this]

/-- Closed form of `tensorSVD` on a bipartition. -/
theorem tensorSVD_eq (mode : Mode) (sh u v : List Nat) (h : Bipartition sh u v) :
    tensorSVD mode sh u v =
      let ud := u.map (dimAt sh)
      let vd := v.map (dimAt sh)
      let b := svdBonds mode (prod ud) (prod vd)
      some ⟨⟨ud ++ [b.1], u.map Leg.orig ++ [Leg.bond]⟩, b.2.1,
            ⟨b.2.2 :: vd, Leg.bond :: v.map Leg.orig⟩⟩ := by
  obtain ⟨hq, hr, hm, _, _⟩ := matricize_ok sh u v h
  unfold tensorSVD
  rw [hm]
  simp only
  rw [determine_out sh u _ _ _ hq, determine_in sh v _ _ _ hr]
  simp only [reshapeOk_out, reshapeOk_in, Bool.and_self, not_true_eq_false, if_false]
  cases mode <;> simp [svdBonds]

theorem transpose_ok (sh q r : List Nat) (h : Bipartition sh q r) :
    transposeByLegList sh q r = some (q.map (dimAt sh) ++ r.map (dimAt sh)) := by
  unfold Bipartition at h
  have hlt := perm_range_lt h
  have hnd := perm_range_nodup h
  have hlen := perm_range_length h
  have hl : sh.length = q.length + r.length := by simp at hlen; omega
  unfold transposeByLegList
  simp only [hl, ne_eq, not_true_eq_false, if_false, hnd]
  exact dimsOf_append sh q r hlt

theorem tensorQR_some (mode : Mode) (sh q r : List Nat) (h : Bipartition sh q r)
    (hk : mode = .keep → r ≠ []) :
    tensorQR mode sh q r =
      some ⟨⟨q.map (dimAt sh) ++ [qrBond mode (prod (q.map (dimAt sh))) (prod (r.map (dimAt sh)))],
              q.map Leg.orig ++ [Leg.bond]⟩,
            ⟨qrBond mode (prod (q.map (dimAt sh))) (prod (r.map (dimAt sh))) :: r.map (dimAt sh),
              Leg.bond :: r.map Leg.orig⟩,
            qrBond mode (prod (q.map (dimAt sh))) (prod (r.map (dimAt sh))),
            qrPad mode (prod (q.map (dimAt sh))) (prod (r.map (dimAt sh)))⟩ := by
  have hc : ¬ (mode = .keep ∧ r = []) := fun hh => hk hh.1 hh.2
  rw [tensorQR_eq mode sh q r h]
  simp only [hc, if_false]

theorem tensorQR_keep_empty (sh q : List Nat) (h : Bipartition sh q []) :
    tensorQR .keep sh q [] = none := by
  rw [tensorQR_eq .keep sh q [] h]; simp

theorem prod_singleton (a : Nat) : prod [a] = a := by simp [prod]

theorem prod_pos (l : List Nat) (h : ∀ d ∈ l, 0 < d) : 0 < prod l := by
  induction l with
  | nil => simp [prod]
  | cons a t ih =>
    simp only [prod]
    exact Nat.mul_pos (h a (by simp)) (ih (fun d hd => h d (by simp [hd])))

theorem truncatedSVD_some (sh u v : List Nat) (kept : Nat) (h : Bipartition sh u v) :
    truncatedSVD sh u v kept =
      some ⟨⟨u.map (dimAt sh) ++ [min kept (min (prod (u.map (dimAt sh))) (prod (v.map (dimAt sh))))],
              u.map Leg.orig ++ [Leg.bond]⟩,
            min kept (min (prod (u.map (dimAt sh))) (prod (v.map (dimAt sh)))),
            ⟨min kept (min (prod (u.map (dimAt sh))) (prod (v.map (dimAt sh)))) :: v.map (dimAt sh),
              Leg.bond :: v.map Leg.orig⟩⟩ := by
  unfold truncatedSVD
  rw [tensorSVD_eq .reduced sh u v h]
  simp [svdBonds]

end Ptn.C11
