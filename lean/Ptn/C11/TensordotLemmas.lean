import Mathlib.Algebra.BigOperators.Group.Finset.Basic
import Mathlib.Algebra.BigOperators.Ring.Finset
import Ptn.C11.Tensordot
import Ptn.C11.ValueLemmas
import Ptn.Common.Einsum
/-! Helper lemmas for `arrTensordot` (`Tensordot.lean`): the nested sum over multi-indices is the flat sum over
C-order positions, the axis lists `numpy.tensordot` builds are bipartitions, closed form of `arrTensordot`, entries
of a transposed array at an arbitrary valid multi-index. -/
namespace Ptn.C11

open Finset
open Ptn.Ein (sumR sumR_eq)

set_option linter.unusedSectionVars false
variable {α : Type} [CommSemiring α]

/-! ### sums over multi-indices -/

theorem sum_range_mul_divmod (d P : ℕ) (g : ℕ → ℕ → α) :
    ∑ l ∈ range (d * P), g (l / P) (l % P) = ∑ i ∈ range d, ∑ r ∈ range P, g i r := by
  induction d with
  | zero => simp
  | succ d ih =>
    rw [Nat.succ_mul, sum_range_add, ih, sum_range_succ]
    congr 1
    apply sum_congr rfl
    intro r hr
    have hr' := mem_range.mp hr
    have hP : 0 < P := by omega
    have e1 : (d * P + r) / P = d := by
      rw [Nat.add_comm, Nat.add_mul_div_right _ _ hP, Nat.div_eq_of_lt hr', Nat.zero_add]
    have e2 : (d * P + r) % P = r := by
      rw [Nat.add_comm, Nat.add_mul_mod_self_right, Nat.mod_eq_of_lt hr']
    rw [e1, e2]

/-- the nested sum over all multi-indices of a shape is the sum over all flat C-order positions -/
theorem sumIdx_eq_sum_range : ∀ (ds : List Nat) (f : List Nat → α),
    sumIdx ds f = ∑ l ∈ range (prod ds), f (unravel ds l)
  | [], f => by simp [sumIdx, prod, unravel]
  | d :: ds, f => by
    simp only [sumIdx, sumR_eq, prod_cons, unravel]
    rw [sum_range_mul_divmod d (prod ds) (fun i r => f (i :: unravel ds r))]
    apply sum_congr rfl
    intro i _
    exact sumIdx_eq_sum_range ds (fun is => f (i :: is))

theorem sumIdx_congr : ∀ (ds : List Nat) (f g : List Nat → α),
    (∀ ks, ValidIdx ds ks → f ks = g ks) → sumIdx ds f = sumIdx ds g
  | [], f, g, h => h [] (by simp [ValidIdx])
  | d :: ds, f, g, h => by
    simp only [sumIdx, sumR_eq]
    apply sum_congr rfl
    intro i hi
    exact sumIdx_congr ds _ _ (fun ks hks => h (i :: ks) ⟨mem_range.mp hi, hks⟩)

/-! ### the axis lists of `numpy.tensordot` -/

theorem mem_notIn (n : Nat) (axes : List Nat) (x : Nat) : x ∈ notIn n axes ↔ x < n ∧ x ∉ axes := by
  simp [notIn]

theorem notIn_nodup (n : Nat) (axes : List Nat) : (notIn n axes).Nodup :=
  List.Nodup.filter _ List.nodup_range

/-- `notin + axes` is a bipartition of the axes -/
theorem bipartition_notIn_left (sh axes : List Nat) (hnd : axes.Nodup) (hlt : ∀ x ∈ axes, x < sh.length) :
    Bipartition sh (notIn sh.length axes) axes := by
  unfold Bipartition
  apply (List.perm_ext_iff_of_nodup ?_ List.nodup_range).2
  · intro x
    simp only [List.mem_append, mem_notIn, List.mem_range]
    constructor
    · rintro (h | h)
      · exact h.1
      · exact hlt x h
    · intro h
      by_cases hx : x ∈ axes
      · exact Or.inr hx
      · exact Or.inl ⟨h, hx⟩
  · rw [List.nodup_append]
    refine ⟨notIn_nodup _ _, hnd, ?_⟩
    intro x hx y hy hxy
    subst hxy
    exact ((mem_notIn _ _ _).1 hx).2 hy

/-- `axes + notin` is a bipartition of the axes -/
theorem bipartition_notIn_right (sh axes : List Nat) (hnd : axes.Nodup) (hlt : ∀ x ∈ axes, x < sh.length) :
    Bipartition sh axes (notIn sh.length axes) := by
  have h := bipartition_notIn_left sh axes hnd hlt
  unfold Bipartition at h ⊢
  exact List.perm_append_comm.trans h

/-! ### entries of a transposed array -/

/-- entry of the transposed array at ANY valid multi-index: the input entry at the un-permuted index -/
theorem transposeBy_get_unpermute (A At : Arr α) (a b : List Nat) (h : Bipartition A.shape a b)
    (ht : A.transposeBy a b = some At) (idx' : List Nat)
    (hv : ValidIdx (a.map (dimAt A.shape) ++ b.map (dimAt A.shape)) idx') :
    At.get idx' = A.get (unpermute (a ++ b) idx') := by
  rw [transposeBy_some A a b h] at ht
  injection ht with ht
  subst ht
  simp only [Arr.get]
  rw [unravel_ravel _ _ hv]

theorem transposeBy_shape (A At : Arr α) (a b : List Nat) (h : Bipartition A.shape a b)
    (ht : A.transposeBy a b = some At) :
    At.shape = a.map (dimAt A.shape) ++ b.map (dimAt A.shape) := by
  rw [transposeBy_some A a b h] at ht
  injection ht with ht
  subst ht
  rfl

/-! ### closed form of `arrTensordot` -/

theorem arrTensordot_some (a b : Arr α) (ia ib : List Nat)
    (hia : ia.Nodup) (hib : ib.Nodup)
    (hla : ∀ x ∈ ia, x < a.shape.length) (hlb : ∀ x ∈ ib, x < b.shape.length)
    (hd : ia.map (dimAt a.shape) = ib.map (dimAt b.shape)) :
    ∃ At Bt, a.transposeBy (notIn a.shape.length ia) ia = some At ∧
      b.transposeBy ib (notIn b.shape.length ib) = some Bt ∧
      arrTensordot a b ia ib = some ((matmul (prod ((notIn a.shape.length ia).map (dimAt a.shape)))
          (prod (ia.map (dimAt a.shape))) (prod ((notIn b.shape.length ib).map (dimAt b.shape)))
          (At.reshape [prod ((notIn a.shape.length ia).map (dimAt a.shape)), prod (ia.map (dimAt a.shape))])
          (Bt.reshape [prod (ia.map (dimAt a.shape)), prod ((notIn b.shape.length ib).map (dimAt b.shape))])).reshape
        ((notIn a.shape.length ia).map (dimAt a.shape) ++ (notIn b.shape.length ib).map (dimAt b.shape))) := by
  have hA := bipartition_notIn_left a.shape ia hia hla
  have hB := bipartition_notIn_right b.shape ib hib hlb
  have hTa := transposeBy_some a _ _ hA
  have hTb := transposeBy_some b _ _ hB
  refine ⟨_, _, hTa, hTb, ?_⟩
  have hlen : ia.length = ib.length := by
    have := congrArg List.length hd
    simpa using this
  have hra : ∀ x ∈ notIn a.shape.length ia, x < a.shape.length := fun x hx => ((mem_notIn _ _ _).1 hx).1
  have hrb : ∀ x ∈ notIn b.shape.length ib, x < b.shape.length := fun x hx => ((mem_notIn _ _ _).1 hx).1
  unfold arrTensordot
  rw [dimsOf_of_lt a.shape ia hla, dimsOf_of_lt b.shape ib hlb]
  simp only [hlen, hd, ne_eq, not_true_eq_false, if_false]
  rw [hTa, hTb, dimsOf_of_lt a.shape _ hra, dimsOf_of_lt b.shape _ hrb]
  simp only [hd]

/-! ### entries of `arrTensordot` -/

theorem matmul_reshape_get (m k n : ℕ) (A B : Arr α) (s1 s2 i1 i2 : List Nat)
    (h1 : ValidIdx s1 i1) (h2 : ValidIdx s2 i2) (hn : n = prod s2) :
    ((matmul m k n A B).reshape (s1 ++ s2)).get (i1 ++ i2) =
      sumR k (fun l => A.get [ravel s1 i1, l] * B.get [l, ravel s2 i2]) := by
  have hJ := ravel_lt s2 i2 h2
  have hpos : ravel (s1 ++ s2) (i1 ++ i2) = ravel s1 i1 * n + ravel s2 i2 := by
    rw [hn]; exact ravel_append s1 i1 s2 i2 h1
  have hn0 : 0 < n := by omega
  have e1 : (ravel s1 i1 * n + ravel s2 i2) / n = ravel s1 i1 := by
    rw [Nat.add_comm, Nat.add_mul_div_right _ _ hn0, Nat.div_eq_of_lt (hn ▸ hJ), Nat.zero_add]
  have e2 : (ravel s1 i1 * n + ravel s2 i2) % n = ravel s2 i2 := by
    rw [Nat.add_comm, Nat.add_mul_mod_self_right, Nat.mod_eq_of_lt (hn ▸ hJ)]
  show (matmul m k n A B).data (ravel (s1 ++ s2) (i1 ++ i2)) = _
  rw [hpos]
  show sumR k (fun l => A.get [(ravel s1 i1 * n + ravel s2 i2) / n, l] *
    B.get [l, (ravel s1 i1 * n + ravel s2 i2) % n]) = _
  rw [e1, e2]

/-- **Entries of `numpy.tensordot`.**  Closed form of the result and its entry at every valid multi-index. -/
theorem arrTensordot_get (a b : Arr α) (ia ib : List Nat)
    (hia : ia.Nodup) (hib : ib.Nodup)
    (hla : ∀ x ∈ ia, x < a.shape.length) (hlb : ∀ x ∈ ib, x < b.shape.length)
    (hd : ia.map (dimAt a.shape) = ib.map (dimAt b.shape)) :
    ∃ C, arrTensordot a b ia ib = some C ∧
      C.shape = (notIn a.shape.length ia).map (dimAt a.shape) ++ (notIn b.shape.length ib).map (dimAt b.shape) ∧
      ∀ is js, ValidIdx ((notIn a.shape.length ia).map (dimAt a.shape)) is →
        ValidIdx ((notIn b.shape.length ib).map (dimAt b.shape)) js →
        C.get (is ++ js) = sumIdx (ia.map (dimAt a.shape)) (fun ks =>
          a.get (unpermute (notIn a.shape.length ia ++ ia) (is ++ ks)) *
          b.get (unpermute (ib ++ notIn b.shape.length ib) (ks ++ js))) := by
  obtain ⟨At, Bt, hTa, hTb, hC⟩ := arrTensordot_some a b ia ib hia hib hla hlb hd
  have hA := bipartition_notIn_left a.shape ia hia hla
  have hB := bipartition_notIn_right b.shape ib hib hlb
  have hsA := transposeBy_shape a At _ _ hA hTa
  have hsB := transposeBy_shape b Bt _ _ hB hTb
  refine ⟨_, hC, rfl, ?_⟩
  intro is js his hjs
  rw [matmul_reshape_get _ _ _ _ _ _ _ is js his hjs rfl, sumR_eq, sumIdx_eq_sum_range]
  have key : ∀ ks, ValidIdx (ia.map (dimAt a.shape)) ks →
      (At.reshape [prod ((notIn a.shape.length ia).map (dimAt a.shape)), prod (ia.map (dimAt a.shape))]).get
          [ravel ((notIn a.shape.length ia).map (dimAt a.shape)) is, ravel (ia.map (dimAt a.shape)) ks] *
        (Bt.reshape [prod (ia.map (dimAt a.shape)), prod ((notIn b.shape.length ib).map (dimAt b.shape))]).get
          [ravel (ia.map (dimAt a.shape)) ks, ravel ((notIn b.shape.length ib).map (dimAt b.shape)) js] =
      a.get (unpermute (notIn a.shape.length ia ++ ia) (is ++ ks)) *
        b.get (unpermute (ib ++ notIn b.shape.length ib) (ks ++ js)) := by
    intro ks hks
    rw [matricize_get At _ _ is ks hsA his hks,
      matricize_get Bt _ _ ks js (by rw [hsB, hd]) hks hjs,
      transposeBy_get_unpermute a At _ _ hA hTa _ (validIdx_append _ _ _ _ his hks),
      transposeBy_get_unpermute b Bt _ _ hB hTb _ (by rw [← hd]; exact validIdx_append _ _ _ _ hks hjs)]
  apply sum_congr rfl
  intro l hl
  have hl' := mem_range.mp hl
  have := key _ (valid_unravel _ l hl')
  rw [ravel_unravel _ l hl'] at this
  exact this

/-! ### what `numpy.tensordot` rejects -/

theorem transposeBy_some_bipartition (A At : Arr α) (x y : List Nat) (h : A.transposeBy x y = some At) :
    Bipartition A.shape x y := by
  unfold Arr.transposeBy at h
  split at h
  · simp at h
  · rename_i sh' hs
    exact (transpose_some_iff A.shape x y).1 ⟨sh', hs⟩

/-- `numpy.tensordot` accepts exactly: duplicate-free axis lists within range, naming equal dimensions in order
    (in particular of equal length). -/
theorem arrTensordot_isSome_iff (a b : Arr α) (ia ib : List Nat) :
    (∃ C, arrTensordot a b ia ib = some C) ↔
      (ia.Nodup ∧ ib.Nodup ∧ (∀ x ∈ ia, x < a.shape.length) ∧ (∀ x ∈ ib, x < b.shape.length) ∧
        ia.map (dimAt a.shape) = ib.map (dimAt b.shape)) := by
  constructor
  · rintro ⟨C, hC⟩
    unfold arrTensordot at hC
    split at hC
    · simp at hC
    · split at hC
      · rename_i da db hda hdb
        have hla := dimsOf_some_lt _ _ _ hda
        have hlb := dimsOf_some_lt _ _ _ hdb
        rw [dimsOf_of_lt _ _ hla] at hda
        rw [dimsOf_of_lt _ _ hlb] at hdb
        split at hC
        · simp at hC
        · rename_i hne
          simp only at hC
          split at hC
          · rename_i At Bt olda oldb hTa hTb _ _
            have hA := perm_range_nodup (transposeBy_some_bipartition a At _ _ hTa)
            have hB := perm_range_nodup (transposeBy_some_bipartition b Bt _ _ hTb)
            refine ⟨(List.nodup_append.1 hA).2.1, (List.nodup_append.1 hB).1, hla, hlb, ?_⟩
            injection hda with hda
            injection hdb with hdb
            rw [hda, hdb]
            exact Classical.not_not.1 hne
          · simp at hC
      · simp at hC
  · rintro ⟨h1, h2, h3, h4, h5⟩
    obtain ⟨_, _, _, _, hC⟩ := arrTensordot_some a b ia ib h1 h2 h3 h4 h5
    exact ⟨_, hC⟩

end Ptn.C11
