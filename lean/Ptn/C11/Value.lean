import Ptn.C11.Model
/-! Value-level model of the NumPy index operations used by the tensor decompositions (core Lean
only): an array is its shape together with its flat C-order (row-major) data; `get` reads an entry
through `ravel`; `reshape` keeps the flat data; `transposeBy` moves the data the way
`np.transpose(tensor, first ++ last)` followed by making the result contiguous does;
`padLast` / `padFirst` are `np.pad` with zeros at the end of the last / first axis.
Used to state `matricize_unmatricize` and the `…_reconstructs` theorems at the level of entries. -/
namespace Ptn.C11

/-- `np.ravel_multi_index(idx, shape)`: position of a multi-index in the flat C-order data. -/
def ravel : List Nat → List Nat → Nat
  | _ :: ds, i :: is => i * prod ds + ravel ds is
  | _, _ => 0

/-- `np.unravel_index(k, shape)`. -/
def unravel : List Nat → Nat → List Nat
  | [], _ => []
  | _ :: ds, k => (k / prod ds) :: unravel ds (k % prod ds)

/-- `idx` is a valid multi-index of an array of shape `shape` (same length, every entry in range). -/
def ValidIdx : List Nat → List Nat → Prop
  | [], [] => True
  | d :: ds, i :: is => i < d ∧ ValidIdx ds is
  | _, _ => False

/-- A dense array: shape and flat C-order data (only positions `< prod shape` matter). -/
structure Arr (α : Type) where
  shape : List Nat
  data : Nat → α

/-- `A[idx]`. -/
def Arr.get {α : Type} (A : Arr α) (idx : List Nat) : α := A.data (ravel A.shape idx)

/-- `np.reshape(A, sh)` of a C-contiguous array: same flat data (legal iff the sizes agree). -/
def Arr.reshape {α : Type} (A : Arr α) (sh : List Nat) : Arr α := ⟨sh, A.data⟩

/-- The multi-index of the input that `np.transpose(·, axes)` shows at multi-index `idx'`:
    `idx[axes[j]] = idx'[j]`.  (Total helper: only used for `axes` a permutation and `idx'` of the
    right length, which `transposeBy` has checked.) -/
def unpermute (axes idx' : List Nat) : List Nat :=
  (List.range axes.length).map fun i => idx'.getD (axes.idxOf i) 0

/-- `transpose_tensor_by_leg_list(A, first, last)` made contiguous: shape by the shape model
    (`none` when NumPy raises), entry at `idx'` = entry of `A` at `unpermute axes idx'`. -/
def Arr.transposeBy {α : Type} (A : Arr α) (first last : List Nat) : Option (Arr α) :=
  match transposeByLegList A.shape first last with
  | none => none
  | some sh' =>
    some ⟨sh', fun k => A.data (ravel A.shape (unpermute (first ++ last) (unravel sh' k)))⟩

/-- `tensor_matricization(A, out, inn)`: transpose, then reshape to `(rows, cols)`. -/
def Arr.matricize {α : Type} (A : Arr α) (out inn : List Nat) : Option (Arr α) :=
  match A.transposeBy out inn, Ptn.C11.matricize A.shape out inn with
  | some At, some mat => some (At.reshape [mat.rows, mat.cols])
  | _, _ => none

/-- `np.pad(A, [(0,0),…,(0,d)])`: `d` zeros appended along the last axis. -/
def Arr.padLast {α : Type} (A : Arr α) (zero : α) (d : Nat) : Arr α :=
  let k := A.shape.getLastD 0
  ⟨A.shape.dropLast ++ [k + d],
   fun f => if f % (k + d) < k then A.data (f / (k + d) * k + f % (k + d)) else zero⟩

/-- `np.pad(A, [(0,d),(0,0),…])`: `d` zero slices appended along the first axis. -/
def Arr.padFirst {α : Type} (A : Arr α) (zero : α) (d : Nat) : Arr α :=
  match A.shape with
  | [] => A
  | k :: rest => ⟨(k + d) :: rest, fun f => if f < k * prod rest then A.data f else zero⟩

end Ptn.C11
