import Ptn.C11.Value
import Ptn.Common.EinsumModel
/-! `numpy.tensordot` on the value-level array model (core Lean only, executable).

`numpy.tensordot(a, b, axes=(ia, ib))` is implemented in Python (`numpy/_core/numeric.py`) as

    notin     = [k for k in range(nda) if k not in axes_a];   newaxes_a = notin + axes_a
    notin_b   = [k for k in range(ndb) if k not in axes_b];   newaxes_b = axes_b + notin_b
    at  = a.transpose(newaxes_a).reshape((prod olda, N2))
    bt  = b.transpose(newaxes_b).reshape((N2, prod oldb))
    res = dot(at, bt);  return res.reshape(olda + oldb)

after checking that both axis lists have the same length and name axes of equal dimensions (an axis out
of range is an `IndexError`, a repeated axis makes `transpose` fail).  `arrTensordot` is that program,
line by line, on `Arr` (shape + flat C-order data): `Arr.transposeBy`, `Arr.reshape` (same flat data),
`matmul` (entry `(i, j)` = fold over the inner index), `Arr.reshape`.

Also here (core, so that executable code may use them): `sumIdx` (the nested sum over all multi-indices of a
shape), `Arr.toLeaf` (an array read as a `Ptn.Ein` leaf tensor through a list of leg labels, one per axis) and
`updPairs` (the assignment `sumPairs` evaluates its body at). -/
namespace Ptn.C11

open Ptn.Ein (sumR Asg upd)

/-- the axes of an order-`n` array that are not in `axes`, ascending (`notin` of `numpy.tensordot`) -/
def notIn (n : Nat) (axes : List Nat) : List Nat := (List.range n).filter (fun k => !axes.contains k)

/-- `Σ_{k⃗}` over every multi-index `k⃗` of an array of shape `ds` (first axis = outermost sum) -/
def sumIdx {α : Type} [Add α] [Zero α] : List Nat → (List Nat → α) → α
  | [], f => f []
  | d :: ds, f => sumR d (fun i => sumIdx ds (fun is => f (i :: is)))

/-- `numpy.dot` of an `(m, k)` and a `(k, n)` matrix: entry `(i, j)` (flat position `i * n + j`) is the fold
    `Σ_{l < k} A[i, l] * B[l, j]`. -/
def matmul {α : Type} [Add α] [Mul α] [Zero α] (m k n : Nat) (A B : Arr α) : Arr α :=
  ⟨[m, n], fun f => sumR k (fun l => A.get [f / n, l] * B.get [l, f % n])⟩

/-- `numpy.tensordot(a, b, axes=(ia, ib))`; `none` = NumPy raises. -/
def arrTensordot {α : Type} [Add α] [Mul α] [Zero α] (a b : Arr α) (ia ib : List Nat) : Option (Arr α) :=
  if ia.length ≠ ib.length then none            -- `na != nb`: "shape-mismatch for sum"
  else
    match dimsOf a.shape ia, dimsOf b.shape ib with       -- `as_[axes_a[k]]`: IndexError when out of range
    | some da, some db =>
      if da ≠ db then none                                -- "shape-mismatch for sum"
      else
        let ra := notIn a.shape.length ia
        let rb := notIn b.shape.length ib
        match a.transposeBy ra ia, b.transposeBy ib rb, dimsOf a.shape ra, dimsOf b.shape rb with
        | some at', some bt, some olda, some oldb =>
          let m := prod olda
          let k := prod da
          let n := prod oldb
          some ((matmul m k n (at'.reshape [m, k]) (bt.reshape [k, n])).reshape (olda ++ oldb))
        | _, _, _, _ => none                              -- a repeated axis: `transpose` raises
    | _, _ => none

/-- An array read as a leaf tensor of the network semantics: `legs` names the axes (one label per axis, in
    axis order); the value at an assignment is the entry at the multi-index the assignment gives the legs. -/
def Arr.toLeaf {α L : Type} (A : Arr α) (legs : List L) : Asg L → α := fun σ => A.get (legs.map σ)

/-- the assignment at which `Ptn.Ein.sumPairs dim ps f σ` evaluates `f` for the summation indices `ks`
    (one per pair): both legs of the `m`-th pair carry `ks[m]` -/
def updPairs {L : Type} [DecidableEq L] (σ : Asg L) : List (L × L) → List Nat → Asg L
  | (a, b) :: ps, k :: ks => updPairs (upd (upd σ a k) b k) ps ks
  | _, _ => σ

end Ptn.C11
