import Mathlib.Algebra.BigOperators.Group.Finset.Basic
import Mathlib.Algebra.BigOperators.Ring.Finset
import Ptn.C11.Value
import Ptn.C11.Lemmas
/-! Helper lemmas for the value-level model of C11: row-major `ravel` / `unravel` are mutually
inverse, `ravel` of a concatenated multi-index, entries of a transposed / matricised / reshaped /
padded array, and the reconstruction sum.  (Core-only proofs except for the finite sums.) -/
namespace Ptn.C11

theorem prod_cons (d : Nat) (ds : List Nat) : prod (d :: ds) = d * prod ds := rfl

theorem ravel_lt : ∀ (shape idx : List Nat), ValidIdx shape idx → ravel shape idx < prod shape
  | [], [], _ => by simp [ravel, prod]
  | [], _ :: _, h => by simp [ValidIdx] at h
  | _ :: _, [], h => by simp [ValidIdx] at h
  | d :: ds, i :: is, h => by
    obtain ⟨hi, hv⟩ := h
    have ih := ravel_lt ds is hv
    rw [prod_cons]
    show i * prod ds + ravel ds is < d * prod ds
    have h1 : (i + 1) * prod ds ≤ d * prod ds := Nat.mul_le_mul_right _ hi
    rw [Nat.add_mul, Nat.one_mul] at h1
    omega

theorem unravel_ravel : ∀ (shape idx : List Nat), ValidIdx shape idx →
    unravel shape (ravel shape idx) = idx
  | [], [], _ => by simp [unravel]
  | [], _ :: _, h => by simp [ValidIdx] at h
  | _ :: _, [], h => by simp [ValidIdx] at h
  | d :: ds, i :: is, h => by
    obtain ⟨_, hv⟩ := h
    have hr := ravel_lt ds is hv
    have ih := unravel_ravel ds is hv
    have hs : 0 < prod ds := by omega
    show (i * prod ds + ravel ds is) / prod ds ::
        unravel ds ((i * prod ds + ravel ds is) % prod ds) = i :: is
    have e1 : (i * prod ds + ravel ds is) / prod ds = i := by
      rw [Nat.add_comm, Nat.add_mul_div_right _ _ hs, Nat.div_eq_of_lt hr, Nat.zero_add]
    have e2 : (i * prod ds + ravel ds is) % prod ds = ravel ds is := by
      rw [Nat.add_comm, Nat.add_mul_mod_self_right, Nat.mod_eq_of_lt hr]
    rw [e1, e2, ih]

theorem valid_unravel : ∀ (shape : List Nat) (k : Nat), k < prod shape →
    ValidIdx shape (unravel shape k)
  | [], _, _ => by simp [unravel, ValidIdx]
  | d :: ds, k, h => by
    rw [prod_cons] at h
    have hs : 0 < prod ds := by
      rcases Nat.eq_zero_or_pos (prod ds) with h0 | h0
      · rw [h0] at h; omega
      · exact h0
    show k / prod ds < d ∧ ValidIdx ds (unravel ds (k % prod ds))
    refine ⟨?_, valid_unravel ds _ (Nat.mod_lt _ hs)⟩
    exact Nat.div_lt_of_lt_mul (by rw [Nat.mul_comm]; exact h)

theorem ravel_unravel : ∀ (shape : List Nat) (k : Nat), k < prod shape →
    ravel shape (unravel shape k) = k
  | [], k, h => by
    simp [prod] at h
    simp [ravel, h]
  | d :: ds, k, h => by
    rw [prod_cons] at h
    have hs : 0 < prod ds := by
      rcases Nat.eq_zero_or_pos (prod ds) with h0 | h0
      · rw [h0] at h; omega
      · exact h0
    show k / prod ds * prod ds + ravel ds (unravel ds (k % prod ds)) = k
    rw [ravel_unravel ds _ (Nat.mod_lt _ hs)]
    exact Nat.div_add_mod' k (prod ds)

theorem validIdx_length : ∀ (shape idx : List Nat), ValidIdx shape idx → idx.length = shape.length
  | [], [], _ => rfl
  | [], _ :: _, h => by simp [ValidIdx] at h
  | _ :: _, [], h => by simp [ValidIdx] at h
  | _ :: ds, _ :: is, h => by simp [validIdx_length ds is h.2]

theorem validIdx_append : ∀ (s1 i1 s2 i2 : List Nat), ValidIdx s1 i1 → ValidIdx s2 i2 →
    ValidIdx (s1 ++ s2) (i1 ++ i2)
  | [], [], _, _, _, h2 => by simpa using h2
  | [], _ :: _, _, _, h, _ => by simp [ValidIdx] at h
  | _ :: _, [], _, _, h, _ => by simp [ValidIdx] at h
  | d :: ds, i :: is, s2, i2, h1, h2 => by
    exact ⟨h1.1, validIdx_append ds is s2 i2 h1.2 h2⟩

/-- The flat index of a concatenated multi-index: the first group is the slow one. -/
theorem ravel_append : ∀ (s1 i1 s2 i2 : List Nat), ValidIdx s1 i1 →
    ravel (s1 ++ s2) (i1 ++ i2) = ravel s1 i1 * prod s2 + ravel s2 i2
  | [], [], _, _, _ => by simp [ravel]
  | [], _ :: _, _, _, h => by simp [ValidIdx] at h
  | _ :: _, [], _, _, h => by simp [ValidIdx] at h
  | d :: ds, i :: is, s2, i2, h => by
    have ih := ravel_append ds is s2 i2 h.2
    show i * prod (ds ++ s2) + ravel (ds ++ s2) (is ++ i2) =
      (i * prod ds + ravel ds is) * prod s2 + ravel s2 i2
    rw [ih, prod_append, Nat.add_mul, Nat.mul_assoc, Nat.add_assoc]

theorem ravel_pair (m n i j : Nat) : ravel [m, n] [i, j] = i * n + j := by
  simp [ravel, prod]

theorem validIdx_single (k l : Nat) : ValidIdx [k] [l] ↔ l < k := by simp [ValidIdx]

/-- entries of a valid multi-index are below the corresponding dimensions -/
theorem validIdx_dimAt : ∀ (shape idx : List Nat), ValidIdx shape idx → ∀ a, a < shape.length →
    dimAt idx a < dimAt shape a
  | [], [], _, a, ha => by simp at ha
  | [], _ :: _, h, _, _ => by simp [ValidIdx] at h
  | _ :: _, [], h, _, _ => by simp [ValidIdx] at h
  | d :: ds, i :: is, h, a, ha => by
    cases a with
    | zero => simpa [dimAt] using h.1
    | succ a =>
      have := validIdx_dimAt ds is h.2 a (by simpa using ha)
      simpa [dimAt] using this

theorem validIdx_map_dimAt (shape idx : List Nat) (h : ValidIdx shape idx) :
    ∀ axes : List Nat, (∀ a ∈ axes, a < shape.length) →
      ValidIdx (axes.map (dimAt shape)) (axes.map (dimAt idx))
  | [], _ => by simp [ValidIdx]
  | a :: rest, hlt => by
    exact ⟨validIdx_dimAt shape idx h a (hlt a (by simp)),
      validIdx_map_dimAt shape idx h rest (fun b hb => hlt b (by simp [hb]))⟩

theorem unpermute_map (axes idx : List Nat) (n : Nat) (hp : axes.Perm (List.range n))
    (hl : idx.length = n) : unpermute axes (axes.map (dimAt idx)) = idx := by
  have hlen := perm_range_length hp
  apply List.ext_getElem
  · simp [unpermute, hlen, hl]
  · intro i h1 h2
    have hi : i < n := by rw [← hl]; exact h2
    have hmem : i ∈ axes := hp.mem_iff.mpr (by simpa using hi)
    have hj : axes.idxOf i < axes.length := List.idxOf_lt_length_of_mem hmem
    simp only [unpermute, List.getElem_map, List.getElem_range]
    rw [List.getD_eq_getElem?_getD, List.getElem?_eq_getElem (by simpa using hj)]
    simp [List.getElem_idxOf, dimAt, List.getD_eq_getElem?_getD, List.getElem?_eq_getElem h2]
open Finset

variable {α : Type}

/-- Closed form of `transposeBy` on a bipartition. -/
theorem transposeBy_some (A : Arr α) (a b : List Nat) (h : Bipartition A.shape a b) :
    A.transposeBy a b = some ⟨a.map (dimAt A.shape) ++ b.map (dimAt A.shape),
      fun k => A.data (ravel A.shape (unpermute (a ++ b)
        (unravel (a.map (dimAt A.shape) ++ b.map (dimAt A.shape)) k)))⟩ := by
  unfold Arr.transposeBy
  rw [transpose_ok A.shape a b h]

/-- Entries of the transposed array: axis `j` of the result is axis `(a ++ b)[j]` of the input. -/
theorem transposeBy_get (A At : Arr α) (a b : List Nat) (h : Bipartition A.shape a b)
    (ht : A.transposeBy a b = some At) (idx : List Nat) (hv : ValidIdx A.shape idx) :
    At.get ((a ++ b).map (dimAt idx)) = A.get idx := by
  rw [transposeBy_some A a b h] at ht
  injection ht with ht
  subst ht
  have hlt := perm_range_lt h
  have hvalid : ValidIdx ((a ++ b).map (dimAt A.shape)) ((a ++ b).map (dimAt idx)) :=
    validIdx_map_dimAt A.shape idx hv (a ++ b) hlt
  simp only [Arr.get]
  rw [← List.map_append, unravel_ravel _ _ hvalid,
    unpermute_map (a ++ b) idx A.shape.length h (validIdx_length _ _ hv)]

/-- Closed form of `Arr.matricize` on a bipartition. -/
theorem arr_matricize_some (A At : Arr α) (a b : List Nat) (h : Bipartition A.shape a b)
    (ht : A.transposeBy a b = some At) :
    A.matricize a b =
      some (At.reshape [prod (a.map (dimAt A.shape)), prod (b.map (dimAt A.shape))]) := by
  unfold Arr.matricize
  rw [ht, (matricize_ok A.shape a b h).2.2.1]

/-- Entry `(ravel qd ia, ravel rd ib)` of the matricised array is entry `ia ++ ib` of the
    transposed array. -/
theorem matricize_get (At : Arr α) (qd rd ia ib : List Nat) (hs : At.shape = qd ++ rd)
    (hia : ValidIdx qd ia) (_hib : ValidIdx rd ib) :
    (At.reshape [prod qd, prod rd]).get [ravel qd ia, ravel rd ib] = At.get (ia ++ ib) := by
  simp only [Arr.get, Arr.reshape, ravel_pair, hs]
  rw [ravel_append qd ia rd ib hia]

/-- Reshaping the first factor `(m, c)` to `qd ++ [c]`: row index = `ravel qd ia`. -/
theorem reshape_out_get (Q : Arr α) (qd ia : List Nat) (c l : Nat) (hs : Q.shape = [prod qd, c])
    (hia : ValidIdx qd ia) :
    (Q.reshape (qd ++ [c])).get (ia ++ [l]) = Q.get [ravel qd ia, l] := by
  simp only [Arr.get, Arr.reshape, hs, ravel_pair]
  rw [ravel_append qd ia [c] [l] hia]
  simp [ravel, prod]

/-- Reshaping the second factor `(c, n)` to `c :: rd`: column index = `ravel rd ib`. -/
theorem reshape_in_get (R : Arr α) (rd ib : List Nat) (c l : Nat) (hs : R.shape = [c, prod rd]) :
    (R.reshape (c :: rd)).get (l :: ib) = R.get [l, ravel rd ib] := by
  simp only [Arr.get, Arr.reshape, hs, ravel_pair]
  simp [ravel]

theorem padLast_get (A : Arr α) (zero : α) (init ia : List Nat) (k d l : Nat)
    (hs : A.shape = init ++ [k]) (hia : ValidIdx init ia) (hl : l < k + d) :
    (A.padLast zero d).get (ia ++ [l]) = if l < k then A.get (ia ++ [l]) else zero := by
  have e1 : ravel (init ++ [k + d]) (ia ++ [l]) = ravel init ia * (k + d) + l := by
    rw [ravel_append init ia _ _ hia]; simp [ravel, prod]
  have e2 : ravel (init ++ [k]) (ia ++ [l]) = ravel init ia * k + l := by
    rw [ravel_append init ia _ _ hia]; simp [ravel, prod]
  have hmod : (ravel init ia * (k + d) + l) % (k + d) = l := by
    rw [Nat.add_comm, Nat.add_mul_mod_self_right, Nat.mod_eq_of_lt hl]
  have hdiv : (ravel init ia * (k + d) + l) / (k + d) = ravel init ia := by
    rw [Nat.add_comm, Nat.add_mul_div_right _ _ (by omega), Nat.div_eq_of_lt hl, Nat.zero_add]
  simp only [Arr.get, Arr.padLast, hs, List.dropLast_concat, List.getLastD_concat, e1, e2, hmod, hdiv]

theorem padFirst_get (A : Arr α) (zero : α) (rest ib : List Nat) (k d l : Nat)
    (hs : A.shape = k :: rest) (hib : ValidIdx rest ib) :
    (A.padFirst zero d).get (l :: ib) = if l < k then A.get (l :: ib) else zero := by
  have hr := ravel_lt rest ib hib
  have hiff : l * prod rest + ravel rest ib < k * prod rest ↔ l < k := by
    constructor
    · intro h
      apply Classical.byContradiction
      intro hn
      have : k * prod rest ≤ l * prod rest := Nat.mul_le_mul_right _ (by omega)
      omega
    · intro h
      have : (l + 1) * prod rest ≤ k * prod rest := Nat.mul_le_mul_right _ h
      rw [Nat.add_mul, Nat.one_mul] at this
      omega
  unfold Arr.padFirst
  rw [hs]
  simp only [Arr.get, ravel, hs, hiff]

/-- A sum over a zero-padded bond equals the sum over the unpadded bond. -/
theorem sum_padded [AddCommMonoid α] (f : ℕ → α) (k d : ℕ) (h : ∀ l, k ≤ l → l < k + d → f l = 0) :
    ∑ l ∈ range (k + d), f l = ∑ l ∈ range k, f l := by
  rw [sum_range_add]
  have : ∑ x ∈ range d, f (k + x) = 0 := by
    apply sum_eq_zero
    intro x hx
    exact h (k + x) (by omega) (by have := mem_range.mp hx; omega)
  rw [this, add_zero]

/-- Core of the reconstruction: a factorisation of the matricised array over the leading `k`
    bond values, reshaped by `_determine_tensor_shape`, contracts to the transposed array. -/
theorem reconstruct_core {α : Type} [CommSemiring α] (Tt Q R : Arr α) (qd rd : List Nat)
    (cq cr k : ℕ) (w : ℕ → α) (hTt : Tt.shape = qd ++ rd)
    (hQ : Q.shape = [prod qd, cq]) (hR : R.shape = [cr, prod rd])
    (hc : ∀ i j, i < prod qd → j < prod rd →
      ∑ l ∈ range k, Q.get [i, l] * w l * R.get [l, j] = (Tt.reshape [prod qd, prod rd]).get [i, j])
    (ia ib : List Nat) (hia : ValidIdx qd ia) (hib : ValidIdx rd ib) :
    ∑ l ∈ range k, (Q.reshape (qd ++ [cq])).get (ia ++ [l]) * w l * (R.reshape (cr :: rd)).get (l :: ib)
      = Tt.get (ia ++ ib) := by
  rw [← matricize_get Tt qd rd ia ib hTt hia hib,
    ← hc (ravel qd ia) (ravel rd ib) (ravel_lt qd ia hia) (ravel_lt rd ib hib)]
  apply sum_congr rfl
  intro l _
  rw [reshape_out_get Q qd ia cq l hQ hia, reshape_in_get R rd ib cr l hR]

end Ptn.C11
