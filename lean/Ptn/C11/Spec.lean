import Ptn.C11.Model
/-! Specification-level vocabulary for C11 (core Lean only). -/
namespace Ptn.C11

/-- `(q, r)` is an ordered bipartition of the axes of a tensor of shape `sh`: every axis occurs
    exactly once in `q ++ r`; either side may be empty, the order within each side is arbitrary. -/
def Bipartition (sh q r : List Nat) : Prop := (q ++ r).Perm (List.range sh.length)

instance (sh q r : List Nat) : Decidable (Bipartition sh q r) := by
  unfold Bipartition; exact inferInstance

/-- The bond dimension each mode prescribes for a matricisation with `m` rows and `n` columns. -/
def qrBond (mode : Mode) (m n : Nat) : Nat :=
  match mode with
  | .reduced => min m n
  | .full => m
  | .keep => n

/-- Number of zero columns of Q / zero rows of R added by the shape-keeping mode. -/
def qrPad (mode : Mode) (m n : Nat) : Nat :=
  match mode with
  | .keep => n - min m n
  | _ => 0

/-- Bond dimensions of the SVD factors: `(columns of U, length of S, rows of Vh)`. -/
def svdBonds (mode : Mode) (m n : Nat) : Nat × Nat × Nat :=
  match mode with
  | .reduced => (min m n, min m n, min m n)
  | _ => (m, min m n, n)

end Ptn.C11
