import Mathlib.Data.Matrix.ColumnRowPartitioned
import Mathlib.Data.Matrix.Diagonal
import Mathlib.LinearAlgebra.Matrix.ConjTranspose
/-! Abstract matrix facts behind the numerical clauses of C11 (lemma L1 of DESIGN.md 3.4).
    Helper lemmas; the property-level statements are in `Props.lean`. -/
namespace Ptn.C11

open Matrix

variable {R : Type*} {m n k d : Type*}

/-- `[Q 0]·[R;0] = Q·R`: zero padding of the bond does not change the product. -/
theorem pad_mul_pad [Fintype k] [Fintype d] [Semiring R] (Q : Matrix m k R) (Rm : Matrix k n R) :
    fromCols Q (0 : Matrix m d R) * fromRows Rm (0 : Matrix d n R) = Q * Rm := by
  rw [fromCols_mul_fromRows]; simp

/-- Gram matrix of a zero-padded isometry: the block projector `diag(1, 0)`. -/
theorem pad_gram [Fintype m] [DecidableEq k] [CommRing R] [StarRing R] (Q : Matrix m k R) (h : Qᴴ * Q = 1) :
    (fromCols Q (0 : Matrix m d R))ᴴ * fromCols Q (0 : Matrix m d R) =
      fromBlocks (1 : Matrix k k R) 0 0 (0 : Matrix d d R) := by
  rw [conjTranspose_fromCols_eq_fromRows_conjTranspose, fromRows_mul_fromCols]
  simp [h]

/-- ... which is idempotent: the padded Q is a partial isometry. -/
theorem pad_gram_idempotent [Fintype m] [Fintype k] [Fintype d] [DecidableEq k] [CommRing R]
    [StarRing R] (Q : Matrix m k R) (h : Qᴴ * Q = 1) :
    let G := (fromCols Q (0 : Matrix m d R))ᴴ * fromCols Q (0 : Matrix m d R)
    G * G = G := by
  intro G
  have hG : G = fromBlocks (1 : Matrix k k R) 0 0 (0 : Matrix d d R) := pad_gram Q h
  rw [hG, fromBlocks_multiply]; simp

/-- The three contraction modes give the same product: `U(ΣV) = (UΣ)V = (U√Σ)(√ΣV)`. -/
theorem contr_same [Fintype k] [DecidableEq k] [CommSemiring R] (U : Matrix m k R) (V : Matrix k n R) (s r : k → R)
    (hr : ∀ i, r i * r i = s i) :
    U * (diagonal s * V) = (U * diagonal s) * V ∧
    (U * diagonal r) * (diagonal r * V) = U * (diagonal s * V) := by
  constructor
  · rw [Matrix.mul_assoc]
  · have : diagonal r * diagonal r = diagonal s := by
      rw [diagonal_mul_diagonal]; congr 1; funext i; exact hr i
    rw [Matrix.mul_assoc, ← Matrix.mul_assoc (diagonal r), this]

/-- Composition of isometries is an isometry. -/
theorem isometry_comp [Fintype m] [Fintype n] [DecidableEq n] [DecidableEq k] [CommRing R]
    [StarRing R] (A : Matrix m n R) (B : Matrix n k R)
    (hA : Aᴴ * A = 1) (hB : Bᴴ * B = 1) : (A * B)ᴴ * (A * B) = 1 := by
  rw [conjTranspose_mul, Matrix.mul_assoc, ← Matrix.mul_assoc Aᴴ, hA, Matrix.one_mul, hB]

end Ptn.C11
