import Ptn.C11.Model
import Ptn.C11.Spec
import Ptn.C11.Lemmas
import Ptn.C11.MatrixLemmas
/-! Property theorems for C11 (index logic of tensor QR / SVD).  Only property theorems and
non-vacuity examples live here; helper lemmas are in `Lemmas.lean` / `MatrixLemmas.lean`, the
specification vocabulary (`Bipartition`, `qrBond`, `qrPad`, `svdBonds`) in `Spec.lean`.

All shape theorems quantify over EVERY shape `sh : List Nat` (any order, dimension-1 and even
dimension-0 legs) and EVERY ordered bipartition `(q, r)` of its axes (`Bipartition sh q r`: `q ++ r`
is a permutation of `0 … order-1`; either side may be empty, any order inside a side).  The dims of
a side are introduced by `dimsOf sh q = some qd` (no totalised indexing). -/
namespace Ptn.C11

/-- **Matricisation is legal.**  The transposition is a permutation of the axes, the two groups are
    the dims of `q` and of `r` in the given order, and their products multiply to the size of the
    tensor, so `np.reshape` to `(rows, cols)` is legal. -/
theorem matricize_perm (sh q r : List Nat) (h : Bipartition sh q r) :
    ∃ qd rd, dimsOf sh q = some qd ∧ dimsOf sh r = some rd ∧
      matricize sh q r = some ⟨qd ++ rd, prod qd, prod rd⟩ ∧
      (qd ++ rd).Perm sh ∧ prod qd * prod rd = prod sh := by
  obtain ⟨h1, h2, h3, h4, h5⟩ := matricize_ok sh q r h
  exact ⟨_, _, h1, h2, h3, h4, h5⟩

/-- The library accepts exactly the ordered bipartitions: anything else (wrong number of legs, a
    repeated or out-of-range leg) is rejected by the assertion / `np.transpose`. -/
theorem matricize_accepts_iff (sh q r : List Nat) :
    (∃ m, matricize sh q r = some m) ↔ Bipartition sh q r := by
  constructor
  · rintro ⟨m, hm⟩
    apply Classical.byContradiction
    intro hn
    rw [matricize_none_of_not sh q r hn] at hm
    exact absurd hm (by simp)
  · intro h
    exact ⟨_, (matricize_ok sh q r h).2.2.1⟩

/-- **QR: shapes and leg orders.**  First factor: the `q` legs in the given order, then the new bond;
    second factor: the bond first, then the `r` legs in the given order.  (KEEP needs a non-empty
    second side.) -/
theorem qr_shapes (mode : Mode) (sh q r : List Nat) (h : Bipartition sh q r)
    (hk : mode = .keep → r ≠ []) :
    ∃ qd rd res, dimsOf sh q = some qd ∧ dimsOf sh r = some rd ∧ tensorQR mode sh q r = some res ∧
      res.q.shape = qd ++ [res.bond] ∧ res.q.legs = q.map Leg.orig ++ [Leg.bond] ∧
      res.r.shape = res.bond :: rd ∧ res.r.legs = Leg.bond :: r.map Leg.orig := by
  obtain ⟨h1, h2, _⟩ := matricize_ok sh q r h
  exact ⟨_, _, _, h1, h2, tensorQR_some mode sh q r h hk, rfl, rfl, rfl, rfl⟩

/-- **QR: the bond dimension each mode prescribes** for an `m × n` matricisation: REDUCED
    `min m n`, FULL `m`, KEEP `n` (the product of the dims of the `r` legs), with `pad` zero
    columns/rows in KEEP. -/
theorem qr_bond_dim (mode : Mode) (sh q r : List Nat) (h : Bipartition sh q r)
    (hk : mode = .keep → r ≠ []) :
    ∃ qd rd res, dimsOf sh q = some qd ∧ dimsOf sh r = some rd ∧ tensorQR mode sh q r = some res ∧
      res.bond = qrBond mode (prod qd) (prod rd) ∧ res.pad = qrPad mode (prod qd) (prod rd) := by
  obtain ⟨h1, h2, _⟩ := matricize_ok sh q r h
  exact ⟨_, _, _, h1, h2, tensorQR_some mode sh q r h hk, rfl, rfl⟩

/-- **KEEP never needs negative padding**: the returned bond is NumPy's `min m n` plus a
    non-negative number of zero columns, and it equals `n`.  (So the `np.pad` call can only fail
    for an empty second side, see `empty_side_r`.) -/
theorem keep_pad_nonneg (sh q r : List Nat) (h : Bipartition sh q r) (hr : r ≠ []) :
    ∃ qd rd res, dimsOf sh q = some qd ∧ dimsOf sh r = some rd ∧ tensorQR .keep sh q r = some res ∧
      res.bond = min (prod qd) (prod rd) + res.pad ∧ res.bond = prod rd := by
  obtain ⟨h1, h2, _⟩ := matricize_ok sh q r h
  refine ⟨_, _, _, h1, h2, tensorQR_some .keep sh q r h (fun _ => hr), ?_, rfl⟩
  simp only [qrBond, qrPad]; omega

/-- **KEEP with a single R-leg** returns a Q with the shape of the input transposed so that this
    leg is last; if the leg already is the last one and the others are in natural order, Q has
    exactly the input's shape. -/
theorem keep_shape_single_leg (sh q : List Nat) (j : Nat) (h : Bipartition sh q [j]) :
    ∃ res, tensorQR .keep sh q [j] = some res ∧
      transposeByLegList sh q [j] = some res.q.shape ∧
      (q ++ [j] = List.range sh.length → res.q.shape = sh) := by
  have hT := transpose_ok sh q [j] h
  refine ⟨_, tensorQR_some .keep sh q [j] h (fun _ => by simp), ?_, ?_⟩
  · simp only [qrBond, List.map_cons, List.map_nil, prod_singleton]
    exact hT
  · intro hrange
    have : (q ++ [j]).map (dimAt sh) = sh := by rw [hrange]; exact map_dimAt_range sh
    simpa [qrBond, prod_singleton] using this

/-- **Empty first side**: the matricisation is a `1 × size` row; Q is a one-leg tensor carrying only
    the bond — of dimension 1 for REDUCED and FULL (for REDUCED: `min 1 size`, which is 1 unless a
    leg has dimension 0), `size` for KEEP — and R carries all legs behind the bond. -/
theorem empty_side_q (mode : Mode) (sh r : List Nat) (h : Bipartition sh [] r)
    (hk : mode = .keep → r ≠ []) :
    ∃ rd res, dimsOf sh r = some rd ∧ rd.Perm sh ∧ tensorQR mode sh [] r = some res ∧
      res.q.shape = [res.bond] ∧ res.q.legs = [Leg.bond] ∧ res.r.shape = res.bond :: rd ∧
      res.bond = (match mode with | .reduced => min 1 (prod sh) | .full => 1 | .keep => prod sh) ∧
      ((∀ d ∈ sh, 0 < d) → mode = .reduced → res.bond = 1) := by
  obtain ⟨_, h2, _, h4, h5⟩ := matricize_ok sh [] r h
  have h6 : prod (r.map (dimAt sh)) = prod sh := by simpa [prod] using h5
  refine ⟨_, _, h2, by simpa using h4, tensorQR_some mode sh [] r h hk, rfl, rfl, rfl, ?_, ?_⟩
  · cases mode <;> simp [qrBond, prod, h6]
  · intro hpos hm
    have := prod_pos sh hpos
    subst hm
    simp only [qrBond, List.map_nil, prod, h6]
    omega

/-- **Empty second side**: the matricisation is a `size × 1` column; REDUCED gives bond
    `min size 1` (1 unless a leg has dimension 0), FULL gives bond `size`, and KEEP is rejected
    (`np.prod(())` is the float 1.0, which `np.pad` refuses as a pad width). -/
theorem empty_side_r (mode : Mode) (sh q : List Nat) (h : Bipartition sh q []) :
    ∃ qd, dimsOf sh q = some qd ∧ qd.Perm sh ∧
      match mode with
      | .keep => tensorQR mode sh q [] = none
      | .reduced => tensorQR mode sh q [] =
          some ⟨⟨qd ++ [min (prod sh) 1], q.map Leg.orig ++ [Leg.bond]⟩,
                ⟨[min (prod sh) 1], [Leg.bond]⟩, min (prod sh) 1, 0⟩
      | .full => tensorQR mode sh q [] =
          some ⟨⟨qd ++ [prod sh], q.map Leg.orig ++ [Leg.bond]⟩, ⟨[prod sh], [Leg.bond]⟩, prod sh, 0⟩ := by
  obtain ⟨h1, _, _, h4, h5⟩ := matricize_ok sh q [] h
  have h6 : prod (q.map (dimAt sh)) = prod sh := by simpa [prod] using h5
  refine ⟨_, h1, by simpa using h4, ?_⟩
  cases mode
  · simp only
    rw [tensorQR_some .reduced sh q [] h (by simp)]
    simp [qrBond, qrPad, prod, h6]
  · simp only
    rw [tensorQR_some .full sh q [] h (by simp)]
    simp [qrBond, qrPad, h6]
  · exact tensorQR_keep_empty sh q h

/-- **SVD: shapes, leg orders and bond dimensions.**  REDUCED: all three bonds `min m n`;
    FULL and KEEP (which NumPy treats alike): U gets `m` columns, Vh `n` rows, `S` has `min m n`
    entries — so the factors contract back through their leading `len(S)` columns / rows. -/
theorem svd_shapes (mode : Mode) (sh u v : List Nat) (h : Bipartition sh u v) :
    ∃ ud vd res, dimsOf sh u = some ud ∧ dimsOf sh v = some vd ∧ tensorSVD mode sh u v = some res ∧
      res.u.shape = ud ++ [(svdBonds mode (prod ud) (prod vd)).1] ∧
      res.u.legs = u.map Leg.orig ++ [Leg.bond] ∧
      res.sLen = min (prod ud) (prod vd) ∧
      res.vh.shape = (svdBonds mode (prod ud) (prod vd)).2.2 :: vd ∧
      res.vh.legs = Leg.bond :: v.map Leg.orig ∧
      res.sLen ≤ (svdBonds mode (prod ud) (prod vd)).1 ∧
      res.sLen ≤ (svdBonds mode (prod ud) (prod vd)).2.2 := by
  obtain ⟨h1, h2, _⟩ := matricize_ok sh u v h
  refine ⟨_, _, _, h1, h2, tensorSVD_eq mode sh u v h, rfl, rfl, ?_, rfl, rfl, ?_, ?_⟩ <;>
    cases mode <;> simp [svdBonds]

/-- **Truncated SVD**: keeping `kept` singular values (`1 ≤ kept ≤ min m n`, property C10) cuts
    exactly the bond: `U : ud ++ [kept]`, `S : kept`, `Vh : kept :: vd`. -/
theorem truncated_svd_shapes (sh u v : List Nat) (kept : Nat) (h : Bipartition sh u v) :
    ∃ ud vd res, dimsOf sh u = some ud ∧ dimsOf sh v = some vd ∧
      truncatedSVD sh u v kept = some res ∧
      (kept ≤ min (prod ud) (prod vd) →
        res.u.shape = ud ++ [kept] ∧ res.sLen = kept ∧ res.vh.shape = kept :: vd ∧
        res.u.legs = u.map Leg.orig ++ [Leg.bond] ∧ res.vh.legs = Leg.bond :: v.map Leg.orig) := by
  obtain ⟨h1, h2, _⟩ := matricize_ok sh u v h
  refine ⟨_, _, _, h1, h2, truncatedSVD_some sh u v kept h, ?_⟩
  intro hk
  have : min kept (min (prod (u.map (dimAt sh))) (prod (v.map (dimAt sh)))) = kept := by omega
  simp [this]

/-- Invalid leg lists are rejected by both decompositions. -/
theorem rejects_invalid (mode : Mode) (sh q r : List Nat) (h : ¬ Bipartition sh q r) :
    tensorQR mode sh q r = none ∧ tensorSVD mode sh q r = none := by
  have := matricize_none_of_not sh q r h
  simp [tensorQR, tensorSVD, this]

/-- In every contraction mode the singular values are absorbed exactly once in total. -/
theorem contr_modes_absorb_once (c : ContrMode) : (absorb c).1 + (absorb c).2 = 2 := by
  cases c <;> rfl

/-! ### Abstract matrix facts (numerical clauses: by contract of `numpy.linalg.qr/svd`) -/

open Matrix in
/-- `[Q 0]·[R;0] = Q·R`: the zero padding of KEEP does not change the contraction. -/
theorem keep_pad_sound {R : Type*} {m n k d : Type*} [Fintype k] [Fintype d] [Semiring R]
    (Q : Matrix m k R) (Rm : Matrix k n R) :
    fromCols Q (0 : Matrix m d R) * fromRows Rm (0 : Matrix d n R) = Q * Rm :=
  pad_mul_pad Q Rm

open Matrix in
/-- A zero-padded isometry is a partial isometry: its Gram matrix is the block projector
    `diag(1, 0)`, in particular idempotent. -/
theorem q_keep_partial_isometry {R : Type*} {m k d : Type*} [Fintype m] [Fintype k] [Fintype d]
    [DecidableEq k] [CommRing R] [StarRing R] (Q : Matrix m k R) (h : Qᴴ * Q = 1) :
    (fromCols Q (0 : Matrix m d R))ᴴ * fromCols Q (0 : Matrix m d R) =
        fromBlocks (1 : Matrix k k R) 0 0 (0 : Matrix d d R) ∧
    ((fromCols Q (0 : Matrix m d R))ᴴ * fromCols Q (0 : Matrix m d R)) *
      ((fromCols Q (0 : Matrix m d R))ᴴ * fromCols Q (0 : Matrix m d R)) =
      (fromCols Q (0 : Matrix m d R))ᴴ * fromCols Q (0 : Matrix m d R) :=
  ⟨pad_gram Q h, pad_gram_idempotent Q h⟩

open Matrix in
/-- The contraction modes give the same product: `U(ΣV) = (UΣ)V = (U√Σ)(√ΣV)`. -/
theorem contr_modes_same_product {R : Type*} {m n k : Type*} [Fintype k] [DecidableEq k]
    [CommSemiring R] (U : Matrix m k R) (V : Matrix k n R) (s r : k → R)
    (hr : ∀ i, r i * r i = s i) :
    U * (diagonal s * V) = (U * diagonal s) * V ∧
    (U * diagonal r) * (diagonal r * V) = U * (diagonal s * V) :=
  contr_same U V s r hr

/-! ### Non-vacuity: concrete instances -/

-- a permuted bipartition of an order-4 tensor with a dimension-1 leg
example : Bipartition [2, 3, 1, 5] [3, 0] [2, 1] := by decide
example : tensorQR .reduced [2, 3, 1, 5] [3, 0] [2, 1] =
    some ⟨⟨[5, 2, 3], [.orig 3, .orig 0, .bond]⟩, ⟨[3, 1, 3], [.bond, .orig 2, .orig 1]⟩, 3, 0⟩ := by
  decide
-- wide matricisation (m = 2 < n = 12): FULL keeps m, KEEP pads up to n
example : tensorQR .full [2, 3, 4] [0] [2, 1] =
    some ⟨⟨[2, 2], [.orig 0, .bond]⟩, ⟨[2, 4, 3], [.bond, .orig 2, .orig 1]⟩, 2, 0⟩ := by decide
example : tensorQR .keep [2, 3, 4] [0] [2, 1] =
    some ⟨⟨[2, 12], [.orig 0, .bond]⟩, ⟨[12, 4, 3], [.bond, .orig 2, .orig 1]⟩, 12, 10⟩ := by decide
-- tall matricisation: FULL blows the bond up to m = 12
example : (tensorQR .full [2, 3, 4] [2, 1] [0]).map (·.bond) = some 12 := by decide
-- KEEP, single leg split off: Q has the input's shape
example : (tensorQR .keep [2, 3, 4] [0, 1] [2]).map (·.q.shape) = some [2, 3, 4] := by decide
example : (tensorQR .keep [4, 3, 2] [0, 1] [2]).map (fun r => (r.q.shape, r.pad)) = some ([4, 3, 2], 0) := by
  decide
-- empty sides
example : Bipartition [2, 3] [] [1, 0] ∧ Bipartition [2, 3] [1, 0] [] := by decide
example : (tensorQR .keep [2, 3] [] [1, 0]).map (·.q.shape) = some [6] := by decide
example : tensorQR .keep [2, 3] [1, 0] [] = none := by decide
example : (tensorQR .full [2, 3] [1, 0] []).map (·.r.shape) = some [6] := by decide
-- invalid leg lists
example : ¬ Bipartition [2, 3, 4] [0, 0] [1] ∧ ¬ Bipartition [2, 3, 4] [0] [1] ∧
    ¬ Bipartition [2, 3, 4] [0, 3] [1] := by decide
example : tensorQR .reduced [2, 3, 4] [0, 0] [1] = none := by decide
-- SVD: KEEP behaves as FULL
example : tensorSVD .keep [2, 3, 4] [0] [2, 1] = tensorSVD .full [2, 3, 4] [0] [2, 1] := by decide
example : (tensorSVD .full [2, 3, 4] [0] [2, 1]).map (fun r => (r.u.shape, r.sLen, r.vh.shape)) =
    some ([2, 2], 2, [12, 4, 3]) := by decide
example : (truncatedSVD [2, 3, 4] [2, 1] [0] 1).map (fun r => (r.u.shape, r.sLen, r.vh.shape)) =
    some ([4, 3, 1], 1, [1, 2]) := by decide
-- hypotheses of the matrix lemmas are satisfiable: a 2×1 isometry over ℤ, `r*r = s`
example : ((Matrix.of ![![1], ![0]] : Matrix (Fin 2) (Fin 1) ℤ).conjTranspose *
    (Matrix.of ![![1], ![0]] : Matrix (Fin 2) (Fin 1) ℤ)) = 1 := by decide
example : ∀ i : Fin 2, (![2, 3] : Fin 2 → ℤ) i * ![2, 3] i = ![4, 9] i := by decide

end Ptn.C11
