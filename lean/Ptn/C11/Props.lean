import Ptn.C11.Model
import Ptn.C11.Spec
import Ptn.C11.Lemmas
import Ptn.C11.MatrixLemmas
import Ptn.C11.Value
import Ptn.C11.ValueLemmas
import Ptn.C11.Tensordot
import Ptn.C11.TensordotLemmas
import Ptn.Common.EinsumArray
/-! Property theorems for C11 (index logic of tensor QR / SVD).  Only property theorems and
non-vacuity examples live here; helper lemmas are in `Lemmas.lean` / `MatrixLemmas.lean`, the
specification vocabulary (`Bipartition`, `qrBond`, `qrPad`, `svdBonds`) in `Spec.lean`.

All shape theorems quantify over EVERY shape `sh : List Nat` (any order, dimension-1 and even
dimension-0 legs) and EVERY ordered bipartition `(q, r)` of its axes (`Bipartition sh q r`: `q ++ r`
is a permutation of `0 … order-1`; either side may be empty, any order inside a side).  The dims of
a side are introduced by `dimsOf sh q = some qd` (no totalised indexing). -/
namespace Ptn.C11

/-- **Matricisation is legal.**  The transposition is a permutation of the axes, the two groups are
    the dims of `q` and of `r` in the given order, and their products multiply to the size of the
    tensor, so `np.reshape` to `(rows, cols)` is legal. -/
theorem matricize_perm (sh q r : List Nat) (h : Bipartition sh q r) :
    ∃ qd rd, dimsOf sh q = some qd ∧ dimsOf sh r = some rd ∧
      matricize sh q r = some ⟨qd ++ rd, prod qd, prod rd⟩ ∧
      (qd ++ rd).Perm sh ∧ prod qd * prod rd = prod sh := by
  obtain ⟨h1, h2, h3, h4, h5⟩ := matricize_ok sh q r h
  exact ⟨_, _, h1, h2, h3, h4, h5⟩

/-- The library accepts exactly the ordered bipartitions: anything else (wrong number of legs, a
    repeated or out-of-range leg) is rejected by the assertion / `np.transpose`. -/
theorem matricize_accepts_iff (sh q r : List Nat) :
    (∃ m, matricize sh q r = some m) ↔ Bipartition sh q r := by
  constructor
  · rintro ⟨m, hm⟩
    apply Classical.byContradiction
    intro hn
    rw [matricize_none_of_not sh q r hn] at hm
    exact absurd hm (by simp)
  · intro h
    exact ⟨_, (matricize_ok sh q r h).2.2.1⟩

/-- **QR: shapes and leg orders.**  First factor: the `q` legs in the given order, then the new bond;
    second factor: the bond first, then the `r` legs in the given order.  (KEEP needs a non-empty
    second side.) -/
theorem qr_shapes (mode : Mode) (sh q r : List Nat) (h : Bipartition sh q r)
    (hk : mode = .keep → r ≠ []) :
    ∃ qd rd res, dimsOf sh q = some qd ∧ dimsOf sh r = some rd ∧ tensorQR mode sh q r = some res ∧
      res.q.shape = qd ++ [res.bond] ∧ res.q.legs = q.map Leg.orig ++ [Leg.bond] ∧
      res.r.shape = res.bond :: rd ∧ res.r.legs = Leg.bond :: r.map Leg.orig := by
  obtain ⟨h1, h2, _⟩ := matricize_ok sh q r h
  exact ⟨_, _, _, h1, h2, tensorQR_some mode sh q r h hk, rfl, rfl, rfl, rfl⟩

/-- **QR: the bond dimension each mode prescribes** for an `m × n` matricisation: REDUCED
    `min m n`, FULL `m`, KEEP `n` (the product of the dims of the `r` legs), with `pad` zero
    columns/rows in KEEP. -/
theorem qr_bond_dim (mode : Mode) (sh q r : List Nat) (h : Bipartition sh q r)
    (hk : mode = .keep → r ≠ []) :
    ∃ qd rd res, dimsOf sh q = some qd ∧ dimsOf sh r = some rd ∧ tensorQR mode sh q r = some res ∧
      res.bond = qrBond mode (prod qd) (prod rd) ∧ res.pad = qrPad mode (prod qd) (prod rd) := by
  obtain ⟨h1, h2, _⟩ := matricize_ok sh q r h
  exact ⟨_, _, _, h1, h2, tensorQR_some mode sh q r h hk, rfl, rfl⟩

/-- **KEEP never needs negative padding**: the returned bond is NumPy's `min m n` plus a
    non-negative number of zero columns, and it equals `n`.  (So the `np.pad` call can only fail
    for an empty second side, see `empty_side_r`.) -/
theorem keep_pad_nonneg (sh q r : List Nat) (h : Bipartition sh q r) (hr : r ≠ []) :
    ∃ qd rd res, dimsOf sh q = some qd ∧ dimsOf sh r = some rd ∧ tensorQR .keep sh q r = some res ∧
      res.bond = min (prod qd) (prod rd) + res.pad ∧ res.bond = prod rd := by
  obtain ⟨h1, h2, _⟩ := matricize_ok sh q r h
  refine ⟨_, _, _, h1, h2, tensorQR_some .keep sh q r h (fun _ => hr), ?_, rfl⟩
  simp only [qrBond, qrPad]; omega

/-- **KEEP with a single R-leg** returns a Q with the shape of the input transposed so that this
    leg is last; if the leg already is the last one and the others are in natural order, Q has
    exactly the input's shape. -/
theorem keep_shape_single_leg (sh q : List Nat) (j : Nat) (h : Bipartition sh q [j]) :
    ∃ res, tensorQR .keep sh q [j] = some res ∧
      transposeByLegList sh q [j] = some res.q.shape ∧
      (q ++ [j] = List.range sh.length → res.q.shape = sh) := by
  have hT := transpose_ok sh q [j] h
  refine ⟨_, tensorQR_some .keep sh q [j] h (fun _ => by simp), ?_, ?_⟩
  · simp only [qrBond, List.map_cons, List.map_nil, prod_singleton]
    exact hT
  · intro hrange
    have : (q ++ [j]).map (dimAt sh) = sh := by rw [hrange]; exact map_dimAt_range sh
    simpa [qrBond, prod_singleton] using this

/-- **Empty first side**: the matricisation is a `1 × size` row; Q is a one-leg tensor carrying only
    the bond — of dimension 1 for REDUCED and FULL (for REDUCED: `min 1 size`, which is 1 unless a
    leg has dimension 0), `size` for KEEP — and R carries all legs behind the bond. -/
theorem empty_side_q (mode : Mode) (sh r : List Nat) (h : Bipartition sh [] r)
    (hk : mode = .keep → r ≠ []) :
    ∃ rd res, dimsOf sh r = some rd ∧ rd.Perm sh ∧ tensorQR mode sh [] r = some res ∧
      res.q.shape = [res.bond] ∧ res.q.legs = [Leg.bond] ∧ res.r.shape = res.bond :: rd ∧
      res.bond = (match mode with | .reduced => min 1 (prod sh) | .full => 1 | .keep => prod sh) ∧
      ((∀ d ∈ sh, 0 < d) → mode = .reduced → res.bond = 1) := by
  obtain ⟨_, h2, _, h4, h5⟩ := matricize_ok sh [] r h
  have h6 : prod (r.map (dimAt sh)) = prod sh := by simpa [prod] using h5
  refine ⟨_, _, h2, by simpa using h4, tensorQR_some mode sh [] r h hk, rfl, rfl, rfl, ?_, ?_⟩
  · cases mode <;> simp [qrBond, prod, h6]
  · intro hpos hm
    have := prod_pos sh hpos
    subst hm
    simp only [qrBond, List.map_nil, prod, h6]
    omega

/-- **Empty second side**: the matricisation is a `size × 1` column; REDUCED gives bond
    `min size 1` (1 unless a leg has dimension 0), FULL gives bond `size`, and KEEP is rejected
    (`np.prod(())` is the float 1.0, which `np.pad` refuses as a pad width). -/
theorem empty_side_r (mode : Mode) (sh q : List Nat) (h : Bipartition sh q []) :
    ∃ qd, dimsOf sh q = some qd ∧ qd.Perm sh ∧
      match mode with
      | .keep => tensorQR mode sh q [] = none
      | .reduced => tensorQR mode sh q [] =
          some ⟨⟨qd ++ [min (prod sh) 1], q.map Leg.orig ++ [Leg.bond]⟩,
                ⟨[min (prod sh) 1], [Leg.bond]⟩, min (prod sh) 1, 0⟩
      | .full => tensorQR mode sh q [] =
          some ⟨⟨qd ++ [prod sh], q.map Leg.orig ++ [Leg.bond]⟩, ⟨[prod sh], [Leg.bond]⟩, prod sh, 0⟩ := by
  obtain ⟨h1, _, _, h4, h5⟩ := matricize_ok sh q [] h
  have h6 : prod (q.map (dimAt sh)) = prod sh := by simpa [prod] using h5
  refine ⟨_, h1, by simpa using h4, ?_⟩
  cases mode
  · simp only
    rw [tensorQR_some .reduced sh q [] h (by simp)]
    simp [qrBond, qrPad, prod, h6]
  · simp only
    rw [tensorQR_some .full sh q [] h (by simp)]
    simp [qrBond, qrPad, h6]
  · exact tensorQR_keep_empty sh q h

/-- **SVD: shapes, leg orders and bond dimensions.**  REDUCED: all three bonds `min m n`;
    FULL and KEEP (which NumPy treats alike): U gets `m` columns, Vh `n` rows, `S` has `min m n`
    entries — so the factors contract back through their leading `len(S)` columns / rows. -/
theorem svd_shapes (mode : Mode) (sh u v : List Nat) (h : Bipartition sh u v) :
    ∃ ud vd res, dimsOf sh u = some ud ∧ dimsOf sh v = some vd ∧ tensorSVD mode sh u v = some res ∧
      res.u.shape = ud ++ [(svdBonds mode (prod ud) (prod vd)).1] ∧
      res.u.legs = u.map Leg.orig ++ [Leg.bond] ∧
      res.sLen = min (prod ud) (prod vd) ∧
      res.vh.shape = (svdBonds mode (prod ud) (prod vd)).2.2 :: vd ∧
      res.vh.legs = Leg.bond :: v.map Leg.orig ∧
      res.sLen ≤ (svdBonds mode (prod ud) (prod vd)).1 ∧
      res.sLen ≤ (svdBonds mode (prod ud) (prod vd)).2.2 := by
  obtain ⟨h1, h2, _⟩ := matricize_ok sh u v h
  refine ⟨_, _, _, h1, h2, tensorSVD_eq mode sh u v h, rfl, rfl, ?_, rfl, rfl, ?_, ?_⟩ <;>
    cases mode <;> simp [svdBonds]

/-- **Truncated SVD**: keeping `kept` singular values (`1 ≤ kept ≤ min m n`, property C10) cuts
    exactly the bond: `U : ud ++ [kept]`, `S : kept`, `Vh : kept :: vd`. -/
theorem truncated_svd_shapes (sh u v : List Nat) (kept : Nat) (h : Bipartition sh u v) :
    ∃ ud vd res, dimsOf sh u = some ud ∧ dimsOf sh v = some vd ∧
      truncatedSVD sh u v kept = some res ∧
      (kept ≤ min (prod ud) (prod vd) →
        res.u.shape = ud ++ [kept] ∧ res.sLen = kept ∧ res.vh.shape = kept :: vd ∧
        res.u.legs = u.map Leg.orig ++ [Leg.bond] ∧ res.vh.legs = Leg.bond :: v.map Leg.orig) := by
  obtain ⟨h1, h2, _⟩ := matricize_ok sh u v h
  refine ⟨_, _, _, h1, h2, truncatedSVD_some sh u v kept h, ?_⟩
  intro hk
  have : min kept (min (prod (u.map (dimAt sh))) (prod (v.map (dimAt sh)))) = kept := by omega
  simp [this]

/-- Invalid leg lists are rejected by both decompositions. -/
theorem rejects_invalid (mode : Mode) (sh q r : List Nat) (h : ¬ Bipartition sh q r) :
    tensorQR mode sh q r = none ∧ tensorSVD mode sh q r = none := by
  have := matricize_none_of_not sh q r h
  simp [tensorQR, tensorSVD, this]

/-- In every contraction mode the singular values are absorbed exactly once in total. -/
theorem contr_modes_absorb_once (c : ContrMode) : (absorb c).1 + (absorb c).2 = 2 := by
  cases c <;> rfl

/-! ### Abstract matrix facts (numerical clauses: by contract of `numpy.linalg.qr/svd`) -/

open Matrix in
/-- `[Q 0]·[R;0] = Q·R`: the zero padding of KEEP does not change the contraction. -/
theorem keep_pad_sound {R : Type*} {m n k d : Type*} [Fintype k] [Fintype d] [Semiring R]
    (Q : Matrix m k R) (Rm : Matrix k n R) :
    fromCols Q (0 : Matrix m d R) * fromRows Rm (0 : Matrix d n R) = Q * Rm :=
  pad_mul_pad Q Rm

open Matrix in
/-- A zero-padded isometry is a partial isometry: its Gram matrix is the block projector
    `diag(1, 0)`, in particular idempotent. -/
theorem q_keep_partial_isometry {R : Type*} {m k d : Type*} [Fintype m] [Fintype k] [Fintype d]
    [DecidableEq k] [CommRing R] [StarRing R] (Q : Matrix m k R) (h : Qᴴ * Q = 1) :
    (fromCols Q (0 : Matrix m d R))ᴴ * fromCols Q (0 : Matrix m d R) =
        fromBlocks (1 : Matrix k k R) 0 0 (0 : Matrix d d R) ∧
    ((fromCols Q (0 : Matrix m d R))ᴴ * fromCols Q (0 : Matrix m d R)) *
      ((fromCols Q (0 : Matrix m d R))ᴴ * fromCols Q (0 : Matrix m d R)) =
      (fromCols Q (0 : Matrix m d R))ᴴ * fromCols Q (0 : Matrix m d R) :=
  ⟨pad_gram Q h, pad_gram_idempotent Q h⟩

open Matrix in
/-- The contraction modes give the same product: `U(ΣV) = (UΣ)V = (U√Σ)(√ΣV)`. -/
theorem contr_modes_same_product {R : Type*} {m n k : Type*} [Fintype k] [DecidableEq k]
    [CommSemiring R] (U : Matrix m k R) (V : Matrix k n R) (s r : k → R)
    (hr : ∀ i, r i * r i = s i) :
    U * (diagonal s * V) = (U * diagonal s) * V ∧
    (U * diagonal r) * (diagonal r * V) = U * (diagonal s * V) :=
  contr_same U V s r hr

/-! ### Value level: the index bookkeeping of matricise → factorise → reshape back -/

open Finset in
/-- **Matricise / un-matricise at the level of entries** (value-level model `Value.lean`: arrays
    are shape + flat C-order data, `transposeBy` / `reshape` act on multi-indices through `ravel` /
    `unravel`).  For every array and every ordered bipartition `(a, b)` of its axes:
    the transposed array `Tt` shows axis `(a ++ b)[j]` of the input at position `j`; entry
    `(ravel qd ia, ravel rd ib)` of the matricised array is entry `ia ++ ib` of `Tt`; and for ANY
    factorisation of the matrix over the leading `k` bond values, `M = Q · diag(w) · R` entrywise
    (hypothesis: the contract of `numpy.linalg.qr` / `svd`; `Q` may have `cq ≥ k` columns, `R` `cr ≥ k`
    rows), the factors reshaped to the shapes `_determine_tensor_shape` returns contract over the
    bond to `Tt`, read with legs `(a…, b…)`.  The hypothesis is the contract; what is proved is the
    index bookkeeping. -/
theorem matricize_unmatricize {α : Type} [CommSemiring α] (T : Arr α) (a b : List Nat)
    (h : Bipartition T.shape a b) :
    ∃ qd rd Tt M, dimsOf T.shape a = some qd ∧ dimsOf T.shape b = some rd ∧
      T.transposeBy a b = some Tt ∧ Tt.shape = qd ++ rd ∧
      T.matricize a b = some M ∧ M.shape = [prod qd, prod rd] ∧
      (∀ idx idx', ValidIdx T.shape idx → dimsOf idx (a ++ b) = some idx' →
        ValidIdx (qd ++ rd) idx' ∧ Tt.get idx' = T.get idx) ∧
      (∀ ia ib, ValidIdx qd ia → ValidIdx rd ib →
        M.get [ravel qd ia, ravel rd ib] = Tt.get (ia ++ ib)) ∧
      ∀ (Q R : Arr α) (cq cr k : ℕ) (w : ℕ → α),
        Q.shape = [prod qd, cq] → R.shape = [cr, prod rd] →
        (∀ i j, i < prod qd → j < prod rd →
          ∑ l ∈ range k, Q.get [i, l] * w l * R.get [l, j] = M.get [i, j]) →
        determineTensorShape T.shape (prod qd) cq a true = some (qd ++ [cq]) ∧
        determineTensorShape T.shape cr (prod rd) b false = some (cr :: rd) ∧
        ∀ ia ib, ValidIdx qd ia → ValidIdx rd ib →
          ∑ l ∈ range k, (Q.reshape (qd ++ [cq])).get (ia ++ [l]) * w l *
              (R.reshape (cr :: rd)).get (l :: ib) = Tt.get (ia ++ ib) := by
  obtain ⟨hq, hr, _, _, _⟩ := matricize_ok T.shape a b h
  have hT := transposeBy_some T a b h
  refine ⟨_, _, _, _, hq, hr, hT, rfl, arr_matricize_some T _ a b h hT, rfl, ?_, ?_, ?_⟩
  · intro idx idx' hv hsel
    have hlt := perm_range_lt h
    have hlen := validIdx_length _ _ hv
    rw [dimsOf_of_lt idx (a ++ b) (by intro x hx; rw [hlen]; exact hlt x hx)] at hsel
    injection hsel with hsel
    subst hsel
    refine ⟨?_, transposeBy_get T _ a b h hT idx hv⟩
    rw [← List.map_append]
    exact validIdx_map_dimAt T.shape idx hv (a ++ b) hlt
  · intro ia ib hia hib
    exact matricize_get _ _ _ ia ib rfl hia hib
  · intro Q R cq cr k w hQ hR hc
    refine ⟨determine_out T.shape a _ _ _ hq, determine_in T.shape b _ _ _ hr, ?_⟩
    intro ia ib hia hib
    exact reconstruct_core _ Q R _ _ cq cr k w rfl hQ hR hc ia ib hia hib

open Finset in
/-- **QR reconstructs (REDUCED, FULL).**  With NumPy's `Q : (m, k)`, `R : (k, n)`, `Q·R = M`
    entrywise (contract), the tensors returned by `tensor_qr_decomposition` — `Q`, `R` reshaped to the
    model's `res.q.shape`, `res.r.shape` — contract over the new bond (`res.bond` values) to the input
    transposed by `a ++ b`. -/
theorem qr_reconstructs {α : Type} [CommSemiring α] (mode : Mode) (hm : mode ≠ .keep) (T : Arr α)
    (a b : List Nat) (h : Bipartition T.shape a b) :
    ∃ qd rd Tt res, dimsOf T.shape a = some qd ∧ dimsOf T.shape b = some rd ∧
      T.transposeBy a b = some Tt ∧ tensorQR mode T.shape a b = some res ∧
      ∀ (Q R : Arr α),
        Q.shape = [prod qd, numpyQRInner mode (prod qd) (prod rd)] →
        R.shape = [numpyQRInner mode (prod qd) (prod rd), prod rd] →
        (∀ i j, i < prod qd → j < prod rd →
          ∑ l ∈ range (numpyQRInner mode (prod qd) (prod rd)), Q.get [i, l] * R.get [l, j]
            = (Tt.reshape [prod qd, prod rd]).get [i, j]) →
        ∀ ia ib, ValidIdx qd ia → ValidIdx rd ib →
          ∑ l ∈ range res.bond, (Q.reshape res.q.shape).get (ia ++ [l]) *
              (R.reshape res.r.shape).get (l :: ib) = Tt.get (ia ++ ib) := by
  obtain ⟨hq, hr, _, _, _⟩ := matricize_ok T.shape a b h
  have hT := transposeBy_some T a b h
  have hres := tensorQR_some mode T.shape a b h (fun hk => absurd hk hm)
  refine ⟨_, _, _, _, hq, hr, hT, hres, ?_⟩
  intro Q R hQ hR hc ia ib hia hib
  have hb : qrBond mode (prod (a.map (dimAt T.shape))) (prod (b.map (dimAt T.shape))) =
      numpyQRInner mode (prod (a.map (dimAt T.shape))) (prod (b.map (dimAt T.shape))) := by
    cases mode <;> simp_all [qrBond, numpyQRInner]
  simp only [hb]
  have := reconstruct_core _ Q R _ _ _ _ _ (fun _ => (1 : α)) rfl hQ hR
    (by intro i j hi hj; simpa using hc i j hi hj) ia ib hia hib
  simpa using this

open Finset in
/-- **QR reconstructs (KEEP).**  The zero-padded factors (`np.pad` on the last axis of Q and the
    first axis of R by `res.pad`) have exactly the model's shapes and contract over the padded bond
    (`res.bond = n` values) to the input transposed by `a ++ b`: the index-level form of
    `keep_pad_sound`. -/
theorem keep_reconstructs {α : Type} [CommSemiring α] (T : Arr α) (a b : List Nat)
    (h : Bipartition T.shape a b) (hb : b ≠ []) :
    ∃ qd rd Tt res, dimsOf T.shape a = some qd ∧ dimsOf T.shape b = some rd ∧
      T.transposeBy a b = some Tt ∧ tensorQR .keep T.shape a b = some res ∧
      ∀ (Q R : Arr α),
        Q.shape = [prod qd, min (prod qd) (prod rd)] →
        R.shape = [min (prod qd) (prod rd), prod rd] →
        (∀ i j, i < prod qd → j < prod rd →
          ∑ l ∈ range (min (prod qd) (prod rd)), Q.get [i, l] * R.get [l, j]
            = (Tt.reshape [prod qd, prod rd]).get [i, j]) →
        ((Q.reshape (qd ++ [min (prod qd) (prod rd)])).padLast 0 res.pad).shape = res.q.shape ∧
        ((R.reshape (min (prod qd) (prod rd) :: rd)).padFirst 0 res.pad).shape = res.r.shape ∧
        ∀ ia ib, ValidIdx qd ia → ValidIdx rd ib →
          ∑ l ∈ range res.bond,
            ((Q.reshape (qd ++ [min (prod qd) (prod rd)])).padLast 0 res.pad).get (ia ++ [l]) *
            ((R.reshape (min (prod qd) (prod rd) :: rd)).padFirst 0 res.pad).get (l :: ib)
              = Tt.get (ia ++ ib) := by
  obtain ⟨hq, hr, _, _, _⟩ := matricize_ok T.shape a b h
  have hT := transposeBy_some T a b h
  have hres := tensorQR_some .keep T.shape a b h (fun _ => hb)
  refine ⟨_, _, _, _, hq, hr, hT, hres, ?_⟩
  intro Q R hQ hR hc
  generalize hqd : a.map (dimAt T.shape) = qd at *
  generalize hrd : b.map (dimAt T.shape) = rd at *
  have hkn : min (prod qd) (prod rd) + (prod rd - min (prod qd) (prod rd)) = prod rd := by omega
  refine ⟨?_, ?_, ?_⟩
  · simp [Arr.padLast, Arr.reshape, qrBond, qrPad, hkn]
  · simp [Arr.padFirst, Arr.reshape, qrBond, qrPad, hkn]
  · intro ia ib hia hib
    simp only [qrBond, qrPad]
    rw [← hkn]
    rw [sum_padded]
    · rw [hkn]
      have := reconstruct_core _ Q R qd rd _ _ _ (fun _ => (1 : α)) rfl hQ hR
        (by intro i j hi hj; simpa using hc i j hi hj) ia ib hia hib
      simp only [mul_one] at this
      rw [← this]
      apply sum_congr rfl
      intro l hl
      have hl' := mem_range.mp hl
      rw [padLast_get _ 0 qd ia _ _ l rfl hia (by omega),
        padFirst_get _ 0 rd ib _ _ l rfl hib]
      simp [hl']
    · intro l h1 h2
      rw [hkn, padLast_get _ 0 qd ia _ _ l rfl hia (by omega)]
      have : ¬ l < min (prod qd) (prod rd) := by omega
      simp [this]

open Finset in
/-- **SVD reconstructs (all modes).**  With NumPy's `U : (m, cu)`, `S`, `Vh : (cv, n)` and
    `Σ_{l < min m n} U[i,l] S[l] Vh[l,j] = M[i,j]` (contract; in FULL / KEEP `cu = m`, `cv = n`, so only
    the leading `len S` columns / rows enter), the reshaped factors contract through their leading
    `res.sLen` bond values to the input transposed by `a ++ b`. -/
theorem svd_reconstructs {α : Type} [CommSemiring α] (mode : Mode) (T : Arr α)
    (a b : List Nat) (h : Bipartition T.shape a b) :
    ∃ ud vd Tt res, dimsOf T.shape a = some ud ∧ dimsOf T.shape b = some vd ∧
      T.transposeBy a b = some Tt ∧ tensorSVD mode T.shape a b = some res ∧
      ∀ (U Vh : Arr α) (s : ℕ → α),
        U.shape = [prod ud, (svdBonds mode (prod ud) (prod vd)).1] →
        Vh.shape = [(svdBonds mode (prod ud) (prod vd)).2.2, prod vd] →
        (∀ i j, i < prod ud → j < prod vd →
          ∑ l ∈ range (min (prod ud) (prod vd)), U.get [i, l] * s l * Vh.get [l, j]
            = (Tt.reshape [prod ud, prod vd]).get [i, j]) →
        ∀ ia ib, ValidIdx ud ia → ValidIdx vd ib →
          ∑ l ∈ range res.sLen, (U.reshape res.u.shape).get (ia ++ [l]) * s l *
              (Vh.reshape res.vh.shape).get (l :: ib) = Tt.get (ia ++ ib) := by
  obtain ⟨hq, hr, _, _, _⟩ := matricize_ok T.shape a b h
  have hT := transposeBy_some T a b h
  refine ⟨_, _, _, _, hq, hr, hT, tensorSVD_eq mode T.shape a b h, ?_⟩
  intro U Vh s hU hV hc ia ib hia hib
  have hk : (svdBonds mode (prod (a.map (dimAt T.shape))) (prod (b.map (dimAt T.shape)))).2.1 =
      min (prod (a.map (dimAt T.shape))) (prod (b.map (dimAt T.shape))) := by
    cases mode <;> simp [svdBonds]
  simp only [hk]
  exact reconstruct_core _ U Vh _ _ _ _ _ s rfl hU hV hc ia ib hia hib

/-! ### Value level: `numpy.tensordot` computes `Ptn.Ein.sumPairs`

`arrTensordot` (`Tensordot.lean`) is NumPy's implementation of `tensordot` line by line on the array model:
transpose the contracted axes of `a` to the end and of `b` to the front, reshape both to matrices (same flat
C-order data), matrix product, reshape to the remaining shapes.  `notIn n axes` are the remaining axes (ascending),
`unpermute axes idx'` is the multi-index `idx` with `idx[axes[j]] = idx'[j]`, `sumIdx ds f` is the nested sum of `f`
over all multi-indices of shape `ds` (`sumIdx_eq_sum_range`: the sum over all flat positions). -/

/-- **`numpy.tensordot` accepts exactly** duplicate-free axis lists within range that name equal dimensions in
    order (in particular lists of equal length); everything else raises. -/
theorem arr_tensordot_accepts_iff {α : Type} [CommSemiring α] (a b : Arr α) (ia ib : List Nat) :
    (∃ C, arrTensordot a b ia ib = some C) ↔
      (ia.Nodup ∧ ib.Nodup ∧ (∀ x ∈ ia, x < a.shape.length) ∧ (∀ x ∈ ib, x < b.shape.length) ∧
        ia.map (dimAt a.shape) = ib.map (dimAt b.shape)) :=
  arrTensordot_isSome_iff a b ia ib

/-- **Entries of `numpy.tensordot`.**  For every two arrays over a commutative semiring and all duplicate-free
    axis lists within range naming equal dimensions: the result has the remaining dimensions of `a` followed by
    those of `b`, and its entry at `(i⃗, j⃗)` is the sum over all multi-indices `k⃗` of the contracted dimensions of
    `a[i⃗ at the remaining axes, k⃗ at the contracted axes] · b[k⃗ at the contracted axes, j⃗ at the remaining axes]`. -/
theorem arr_tensordot_entry {α : Type} [CommSemiring α] (a b : Arr α) (ia ib : List Nat)
    (hia : ia.Nodup) (hib : ib.Nodup)
    (hla : ∀ x ∈ ia, x < a.shape.length) (hlb : ∀ x ∈ ib, x < b.shape.length)
    (hd : ia.map (dimAt a.shape) = ib.map (dimAt b.shape)) :
    ∃ C, arrTensordot a b ia ib = some C ∧
      C.shape = (notIn a.shape.length ia).map (dimAt a.shape) ++ (notIn b.shape.length ib).map (dimAt b.shape) ∧
      ∀ is js, ValidIdx ((notIn a.shape.length ia).map (dimAt a.shape)) is →
        ValidIdx ((notIn b.shape.length ib).map (dimAt b.shape)) js →
        C.get (is ++ js) = sumIdx (ia.map (dimAt a.shape)) (fun ks =>
          a.get (unpermute (notIn a.shape.length ia ++ ia) (is ++ ks)) *
          b.get (unpermute (ib ++ notIn b.shape.length ib) (ks ++ js))) :=
  arrTensordot_get a b ia ib hia hib hla hlb hd

open Ptn.Ein in
/-- **`numpy.tensordot` computes `sumPairs`.**  Label the axes of `a` by `la` and those of `b` by `lb` (distinct
    labels, dimension table `dim` agreeing with the shapes) and read arrays as leaf tensors through their labels
    (`Arr.toLeaf`: value at an assignment = entry at the multi-index the assignment gives the legs).  Then the
    result of `tensordot(a, b, (ia, ib))`, read through `remaining labels of a ++ remaining labels of b`, is
    `sumPairs dim (zip (labels of ia) (labels of ib)) (a · b)` at every assignment within the dimensions of the
    free legs; its shape is the dimensions of these free legs. -/
theorem arr_tensordot_is_sumPairs {L : Type} [DecidableEq L] {α : Type} [CommSemiring α]
    (dim : L → Nat) (a b : Arr α) (ia ib : List Nat) (la lb : Nat → L)
    (hia : ia.Nodup) (hib : ib.Nodup)
    (hlta : ∀ x ∈ ia, x < a.shape.length) (hltb : ∀ x ∈ ib, x < b.shape.length)
    (hd : ia.map (dimAt a.shape) = ib.map (dimAt b.shape))
    (hLa : Labelling dim a.shape la) (hLb : Labelling dim b.shape lb)
    (hdis : ∀ x y, x < a.shape.length → y < b.shape.length → la x ≠ lb y) :
    ∃ C, arrTensordot a b ia ib = some C ∧
      C.shape = ((notIn a.shape.length ia).map la ++ (notIn b.shape.length ib).map lb).map dim ∧
      ∀ σ : Asg L,
        (∀ l ∈ (notIn a.shape.length ia).map la ++ (notIn b.shape.length ib).map lb, σ l < dim l) →
        C.toLeaf ((notIn a.shape.length ia).map la ++ (notIn b.shape.length ib).map lb) σ =
          sumPairs dim (List.zip (ia.map la) (ib.map lb))
            (fun τ => a.toLeaf (axisLegs la a.shape.length) τ * b.toLeaf (axisLegs lb b.shape.length) τ) σ :=
  arrTensordot_sumPairs dim a b ia ib la lb hia hib hlta hltb hd hLa hLb hdis

open Ptn.Ein in
/-- **`numpy.tensordot` is `Expr.dot`.**  The same in the vocabulary of contraction programs: the expression
    `tensordotExpr` (the two labelled arrays as leaves, one `dot` over the zipped labels) is strongly well formed -
    so `Expr.eval_eq_full`, `Expr.inner_of_record`, … apply to programs built from such calls -, the result array
    has the dimensions of `Expr.free` (NumPy's leg order) and, read through `Expr.free`, is `Expr.eval`. -/
theorem arr_tensordot_is_dot {L : Type} [DecidableEq L] {α : Type} [CommSemiring α]
    (dim : L → Nat) (a b : Arr α) (ia ib : List Nat) (la lb : Nat → L)
    (hia : ia.Nodup) (hib : ib.Nodup)
    (hlta : ∀ x ∈ ia, x < a.shape.length) (hltb : ∀ x ∈ ib, x < b.shape.length)
    (hd : ia.map (dimAt a.shape) = ib.map (dimAt b.shape))
    (hLa : Labelling dim a.shape la) (hLb : Labelling dim b.shape lb)
    (hdis : ∀ x y, x < a.shape.length → y < b.shape.length → la x ≠ lb y) :
    ∃ C, arrTensordot a b ia ib = some C ∧ (tensordotExpr a b ia ib la lb).SWF ∧
      C.shape = (tensordotExpr a b ia ib la lb).free.map dim ∧
      ∀ σ : Asg L, (∀ l ∈ (tensordotExpr a b ia ib la lb).free, σ l < dim l) →
        C.toLeaf (tensordotExpr a b ia ib la lb).free σ = (tensordotExpr a b ia ib la lb).eval dim σ :=
  arrTensordot_dot dim a b ia ib la lb hia hib hlta hltb hd hLa hLb hdis

open Ptn.Ein in
/-- **Programs of `numpy.tensordot` calls compute `Expr.eval` and the one big sum.**  `Prog` is an arbitrary
    nesting of `tensordot` calls over labelled arrays, `Prog.run` runs it with `arrTensordot` (the axes of each call
    are the positions of the pair labels among the operands' legs, `fa.index(x)`), `Prog.expr` is the expression of
    the network semantics it denotes.  For every strongly well-formed program whose arrays have the dimensions of
    their labels and whose bound legs have equal dimensions (what NumPy checks): the run succeeds, the result has
    the dimensions of the free legs in NumPy's order, and read through the free legs it is `Expr.eval` - hence
    (`Expr.eval_eq_full`) the one sum over the whole binding record of the product of all leaf arrays, what
    `numpy.einsum` over the record computes.  All sizes, any commutative semiring, any label type with at least one
    element (an empty label type has only scalar programs). -/
theorem tensordot_program_is_eval {L : Type} [DecidableEq L] [Inhabited L] {α : Type} [CommSemiring α]
    (dim : L → Nat) (p : Prog L α) (hswf : p.expr.SWF) (hdim : p.Dims dim) :
    ∃ C, p.run = some C ∧ C.shape = p.expr.free.map dim ∧
      ∀ σ : Asg L, (∀ l ∈ p.expr.free, σ l < dim l) →
        C.toLeaf p.expr.free σ = p.expr.eval dim σ ∧ C.toLeaf p.expr.free σ = p.expr.full dim σ := by
  obtain ⟨C, h1, h2, h3⟩ := Prog.run_eq_eval dim p hswf hdim
  exact ⟨C, h1, h2, fun σ hσ => ⟨h3 σ hσ, (h3 σ hσ).trans (Expr.eval_eq_full dim p.expr hswf.wf σ)⟩⟩

open Ptn.Ein in
/-- **Transposition = relabelling.**  The array transposed by `first ++ last` (`transpose_tensor_by_leg_list`,
    `np.transpose`), read through the labels permuted the same way, is the same leaf tensor as the input read
    through its own labels: a lazily stored axis permutation does not change the tensor of the network. -/
theorem arr_transpose_relabel {L : Type} [DecidableEq L] {α : Type} [CommSemiring α]
    (dim : L → Nat) (A At : Arr α) (first last : List Nat) (lab : Nat → L)
    (h : Bipartition A.shape first last) (ht : A.transposeBy first last = some At)
    (hdim : ∀ x, x < A.shape.length → dim (lab x) = dimAt A.shape x)
    (σ : Asg L) (hσ : ∀ x, x < A.shape.length → σ (lab x) < dim (lab x)) :
    At.toLeaf ((first ++ last).map lab) σ = A.toLeaf (axisLegs lab A.shape.length) σ :=
  arrTranspose_relabel dim A At first last lab h ht hdim σ hσ

open Ptn.Ein in
/-- The leaf tensors of the shared line protocol (`ein`, `einrec`: legs + flat integer data) are labelled arrays
    of shape `legs.map dim` in this sense, at every assignment within the dimensions. -/
theorem leaf_of_data_is_labelled_array {L : Type} (dim : L → Nat) (legs : List L) (data : Array Int)
    (σ : Asg L) (h : ∀ l ∈ legs, σ l < dim l) :
    leafOfData dim legs data σ = (⟨legs.map dim, fun k => data.getD k 0⟩ : Arr Int).toLeaf legs σ :=
  leafOfData_eq_toLeaf dim legs data σ h

/-! ### Non-vacuity: concrete instances -/

-- a permuted bipartition of an order-4 tensor with a dimension-1 leg
example : Bipartition [2, 3, 1, 5] [3, 0] [2, 1] := by decide
example : tensorQR .reduced [2, 3, 1, 5] [3, 0] [2, 1] =
    some ⟨⟨[5, 2, 3], [.orig 3, .orig 0, .bond]⟩, ⟨[3, 1, 3], [.bond, .orig 2, .orig 1]⟩, 3, 0⟩ := by
  decide
-- wide matricisation (m = 2 < n = 12): FULL keeps m, KEEP pads up to n
example : tensorQR .full [2, 3, 4] [0] [2, 1] =
    some ⟨⟨[2, 2], [.orig 0, .bond]⟩, ⟨[2, 4, 3], [.bond, .orig 2, .orig 1]⟩, 2, 0⟩ := by decide
example : tensorQR .keep [2, 3, 4] [0] [2, 1] =
    some ⟨⟨[2, 12], [.orig 0, .bond]⟩, ⟨[12, 4, 3], [.bond, .orig 2, .orig 1]⟩, 12, 10⟩ := by decide
-- tall matricisation: FULL blows the bond up to m = 12
example : (tensorQR .full [2, 3, 4] [2, 1] [0]).map (·.bond) = some 12 := by decide
-- KEEP, single leg split off: Q has the input's shape
example : (tensorQR .keep [2, 3, 4] [0, 1] [2]).map (·.q.shape) = some [2, 3, 4] := by decide
example : (tensorQR .keep [4, 3, 2] [0, 1] [2]).map (fun r => (r.q.shape, r.pad)) = some ([4, 3, 2], 0) := by
  decide
-- empty sides
example : Bipartition [2, 3] [] [1, 0] ∧ Bipartition [2, 3] [1, 0] [] := by decide
example : (tensorQR .keep [2, 3] [] [1, 0]).map (·.q.shape) = some [6] := by decide
example : tensorQR .keep [2, 3] [1, 0] [] = none := by decide
example : (tensorQR .full [2, 3] [1, 0] []).map (·.r.shape) = some [6] := by decide
-- invalid leg lists
example : ¬ Bipartition [2, 3, 4] [0, 0] [1] ∧ ¬ Bipartition [2, 3, 4] [0] [1] ∧
    ¬ Bipartition [2, 3, 4] [0, 3] [1] := by decide
example : tensorQR .reduced [2, 3, 4] [0, 0] [1] = none := by decide
-- SVD: KEEP behaves as FULL
example : tensorSVD .keep [2, 3, 4] [0] [2, 1] = tensorSVD .full [2, 3, 4] [0] [2, 1] := by decide
example : (tensorSVD .full [2, 3, 4] [0] [2, 1]).map (fun r => (r.u.shape, r.sLen, r.vh.shape)) =
    some ([2, 2], 2, [12, 4, 3]) := by decide
example : (truncatedSVD [2, 3, 4] [2, 1] [0] 1).map (fun r => (r.u.shape, r.sLen, r.vh.shape)) =
    some ([4, 3, 1], 1, [1, 2]) := by decide
-- hypotheses of the matrix lemmas are satisfiable: a 2×1 isometry over ℤ, `r*r = s`
example : ((Matrix.of ![![1], ![0]] : Matrix (Fin 2) (Fin 1) ℤ).conjTranspose *
    (Matrix.of ![![1], ![0]] : Matrix (Fin 2) (Fin 1) ℤ)) = 1 := by decide
example : ∀ i : Fin 2, (![2, 3] : Fin 2 → ℤ) i * ![2, 3] i = ![4, 9] i := by decide

-- value level: a 2×3 array with entries 0..5; transposing by ([1],[0]) shows T[1,2] = 5 at [2,1]
example : ((⟨[2, 3], fun k => k⟩ : Arr ℕ).transposeBy [1] [0]).map (fun A => (A.shape, A.get [2, 1]))
    = some ([3, 2], 5) := by decide
-- an order-3 array, bipartition ([2,0],[1]): matricised entry (ravel [4,2] [3,1], 2) = T[1,2,3]
example : ((⟨[2, 3, 4], fun k => k⟩ : Arr ℕ).matricize [2, 0] [1]).map
    (fun M => (M.shape, M.get [ravel [4, 2] [3, 1], 2])) = some ([8, 3], ravel [2, 3, 4] [1, 2, 3]) := by
  decide
-- the contract hypothesis is satisfiable: M = 1 · M for the 2×2 array [[1,2],[3,4]]
example : ∀ i j, i < 2 → j < 2 →
    ∑ l ∈ Finset.range 2, (⟨[2, 2], fun k => if k = 0 ∨ k = 3 then 1 else 0⟩ : Arr ℕ).get [i, l] *
      (⟨[2, 2], fun k => k + 1⟩ : Arr ℕ).get [l, j] = (⟨[2, 2], fun k => k + 1⟩ : Arr ℕ).get [i, j] := by
  intro i j hi hj
  have hi' : i = 0 ∨ i = 1 := by omega
  have hj' : j = 0 ∨ j = 1 := by omega
  rcases hi' with rfl | rfl <;> rcases hj' with rfl | rfl <;> decide
-- padding: one zero column appended to a 2×1 array
example : ((⟨[2, 1], fun k => k + 7⟩ : Arr ℕ).padLast 0 1).shape = [2, 2] ∧
    ((⟨[2, 1], fun k => k + 7⟩ : Arr ℕ).padLast 0 1).get [1, 0] = 8 ∧
    ((⟨[2, 1], fun k => k + 7⟩ : Arr ℕ).padLast 0 1).get [1, 1] = 0 := by decide

/-! ### Non-vacuity: `tensordot` -/

-- a (2,3,2)-array and a (2,3)-array contracted over axes ([2,1],[0,1]) (a permuted pair list): shape and an entry
example : (arrTensordot (⟨[2, 3, 2], fun k => (k : ℤ) + 1⟩ : Arr ℤ) ⟨[2, 3], fun k => (k : ℤ) - 2⟩ [2, 1] [0, 1]).map
    (fun C => (C.shape, C.get [0], C.get [1])) = some ([2], 23, 41) := by decide
-- the hypotheses of `arr_tensordot_entry` / `arr_tensordot_accepts_iff` hold for it
example : [2, 1].Nodup ∧ [0, 1].Nodup ∧ (∀ x ∈ [2, 1], x < [2, 3, 2].length) ∧ (∀ x ∈ [0, 1], x < [2, 3].length) ∧
    [2, 1].map (dimAt [2, 3, 2]) = [0, 1].map (dimAt [2, 3]) := by decide
-- the remaining axes and the un-permuted index: a[i, k1, k0] with (k0, k1) the summation indices
example : notIn 3 [2, 1] = [0] ∧ unpermute ([0] ++ [2, 1]) ([1] ++ [0, 2]) = [1, 2, 0] := by decide
-- nothing contracted (outer product), everything contracted (scalar), dimension-1 axes
example : (arrTensordot (⟨[2], fun k => (k : ℤ) + 1⟩ : Arr ℤ) ⟨[1, 2], fun k => (k : ℤ) + 3⟩ [] []).map
    (fun C => (C.shape, (List.range 4).map C.data)) = some ([2, 1, 2], [3, 4, 6, 8]) := by decide
example : (arrTensordot (⟨[2, 1], fun k => (k : ℤ) + 1⟩ : Arr ℤ) ⟨[1, 2], fun k => (k : ℤ) + 3⟩ [1, 0] [0, 1]).map
    (fun C => (C.shape, C.data 0)) = some ([], 11) := by decide
-- rejected: unequal dimensions, a repeated axis, an axis out of range, lists of different length
example : arrTensordot (⟨[2, 3], fun k => (k : ℤ)⟩ : Arr ℤ) ⟨[2, 3], fun k => (k : ℤ)⟩ [1] [0] = none ∧
    arrTensordot (⟨[2, 2], fun k => (k : ℤ)⟩ : Arr ℤ) ⟨[2, 2], fun k => (k : ℤ)⟩ [0, 0] [0, 1] = none ∧
    arrTensordot (⟨[2, 2], fun k => (k : ℤ)⟩ : Arr ℤ) ⟨[2, 2], fun k => (k : ℤ)⟩ [2] [0] = none ∧
    arrTensordot (⟨[2, 2], fun k => (k : ℤ)⟩ : Arr ℤ) ⟨[2, 2], fun k => (k : ℤ)⟩ [0] [0, 1] = none := by
  refine ⟨?_, ?_, ?_, ?_⟩ <;> rfl
-- a labelling: axes of `a` carry labels 0,1,2, axes of `b` labels 3,4; the hypotheses of the bridge theorems hold
example : Ptn.Ein.Labelling (fun l => [2, 3, 2, 2, 3].getD l 0) [2, 3, 2] (fun x => x) ∧
    Ptn.Ein.Labelling (fun l => [2, 3, 2, 2, 3].getD l 0) [2, 3] (fun y => y + 3) ∧
    (∀ x y, x < 3 → y < 2 → (fun x => x) x ≠ (fun y => y + 3) y) :=
  ⟨⟨by decide, fun _ _ _ _ h => h⟩, ⟨by decide, fun _ _ _ _ h => by omega⟩, fun x y hx _ h => by simp only at h; omega⟩
-- … and the `sumPairs` side evaluates to the entries computed above (free leg 0 = remaining axis of `a`)
example : (fun i => Ptn.Ein.sumPairs (fun l => [2, 3, 2, 2, 3].getD l 0) (List.zip [2, 1] [3, 4])
      (fun τ => (⟨[2, 3, 2], fun k => (k : ℤ) + 1⟩ : Arr ℤ).toLeaf [0, 1, 2] τ *
        (⟨[2, 3], fun k => (k : ℤ) - 2⟩ : Arr ℤ).toLeaf [3, 4] τ)
      (fun l => if l = 0 then i else 0)) 1 = 41 := by decide
-- a program of two nested calls over three labelled integer arrays (labels 0..4, dims 2,3,3,2,2):
-- `tensordot(tensordot(A, B, ([1],[0])), v, ([1],[0]))`; it is strongly well formed, its dimensions fit, and it runs
example : let p : Ptn.Ein.Prog ℕ ℤ := .dot (.dot (.leaf [0, 1] ⟨[2, 3], fun k => (k : ℤ) + 1⟩)
      (.leaf [2, 3] ⟨[3, 2], fun k => (k : ℤ) - 2⟩) [(1, 2)]) (.leaf [4] ⟨[2], fun k => 2 * (k : ℤ) - 1⟩) [(3, 4)]
    p.expr.SWF ∧ p.Dims (fun l => [2, 3, 3, 2, 2].getD l 0) ∧ p.expr.free = [0] ∧
      p.run.map (fun C => (C.shape, C.get [0], C.get [1])) = some ([2], 6, 15) := by
  intro p
  refine ⟨⟨⟨⟨by decide, Ptn.Ein.toLeaf_dependsOn _ _⟩, ⟨by decide, Ptn.Ein.toLeaf_dependsOn _ _⟩, by decide, by decide,
      by decide, by decide⟩, ⟨by decide, Ptn.Ein.toLeaf_dependsOn _ _⟩, by decide, by decide, by decide, by decide⟩,
    ⟨⟨rfl, rfl, by decide⟩, rfl, by decide⟩, by decide, by decide⟩
-- transposition = relabelling on a concrete (2,3) array: A[1,2] read as At through the swapped labels
example : ((⟨[2, 3], fun k => k⟩ : Arr ℕ).transposeBy [1] [0]).map
      (fun At => At.toLeaf ([1, 0].map (fun x => x)) (fun l => if l = 0 then 1 else 2)) =
    some ((⟨[2, 3], fun k => k⟩ : Arr ℕ).toLeaf [0, 1] (fun l => if l = 0 then 1 else 2)) := by decide

end Ptn.C11
