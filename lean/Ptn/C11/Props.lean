import Ptn.C11.Model
/-! Property theorems for C11. Only property theorems and non-vacuity examples live here. -/
namespace Ptn.C11
end Ptn.C11
