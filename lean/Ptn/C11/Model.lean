/-! Model for property C11 (core Lean only; no Mathlib). -/
namespace Ptn.C11
end Ptn.C11
