/-! Model for property C11 (core Lean only; no Mathlib): the index logic of tensor QR / SVD,
`pytreenet/util/tensor_util.py:12-81` and `pytreenet/util/tensor_splitting.py:57-181, 390-470`.

A tensor is represented by its shape (`List Nat`); an axis of a result additionally carries a label
saying where it comes from (`Leg.orig a` = axis `a` of the input, `Leg.bond` = the new bond), so
that "kept legs in the given order, bond last / first" is a statement about labels, not only
about dimensions.  `none` = NumPy / the library raises.

* `transposeByLegList` ↔ `transpose_tensor_by_leg_list` (assert + `np.transpose`)
* `matricize`          ↔ `tensor_matricization` (transpose, `math.prod` of the two groups, `np.reshape`)
* `determineTensorShape` ↔ `_determine_tensor_shape`
* `tensorQR`           ↔ `tensor_qr_decomposition` (NumPy `reduced` / `complete`, zero padding in KEEP)
* `tensorSVD`          ↔ `tensor_svd` (`full_matrices = mode is not REDUCED`: KEEP behaves as FULL)
* `truncatedSVD`       ↔ `truncated_tensor_svd` (REDUCED SVD, then the bond is cut to the kept length)
* `absorb`             ↔ the contraction modes of `contr_truncated_svd_splitting`

Leg tuples: with tuples (the documented type) `q_legs + r_legs == list(range(..))` is always False, so
the tensor is always transposed; with two lists in natural order the transposition is skipped — it
would be the identity permutation, so the model does not distinguish the two.
-/
namespace Ptn.C11

inductive Mode where
  | reduced
  | full
  | keep
deriving Repr, DecidableEq

/-- `math.prod` (empty product = 1). -/
def prod : List Nat → Nat
  | [] => 1
  | x :: xs => x * prod xs

/-- Where an axis of a factor comes from. -/
inductive Leg where
  | orig (axis : Nat)
  | bond
deriving Repr, DecidableEq

/-- `old_shape[i] for i in legs` (IndexError ↦ `none`). -/
def dimsOf (sh : List Nat) : List Nat → Option (List Nat)
  | [] => some []
  | a :: rest =>
    match sh[a]?, dimsOf sh rest with
    | some d, some ds => some (d :: ds)
    | _, _ => none

/-- `transpose_tensor_by_leg_list`: the assertion on the number of legs, then `np.transpose`, which
    rejects a repeated or out-of-range axis.  Returns the shape of the transposed tensor. -/
def transposeByLegList (sh first last : List Nat) : Option (List Nat) :=
  if sh.length ≠ first.length + last.length then none
  else
    let axes := first ++ last
    if ¬ axes.Nodup then none else dimsOf sh axes

/-- The result of `tensor_matricization`: shape after transposition, rows, columns. -/
structure Matricized where
  shapeT : List Nat
  rows : Nat
  cols : Nat
deriving Repr, DecidableEq

/-- `tensor_matricization`: `np.reshape` to `(rows, cols)` is legal iff `rows * cols` is the size. -/
def matricize (sh out inn : List Nat) : Option Matricized :=
  match transposeByLegList sh out inn with
  | none => none
  | some t =>
    let rows := prod (t.take out.length)
    let cols := prod (t.drop out.length)
    if rows * cols ≠ prod sh then none else some ⟨t, rows, cols⟩

/-- `_determine_tensor_shape(old_shape, matrix, legs, output)` for a matrix of shape
    `(matRows, matCols)`. -/
def determineTensorShape (old : List Nat) (matRows matCols : Nat) (legs : List Nat)
    (output : Bool) : Option (List Nat) :=
  match dimsOf old legs with
  | none => none
  | some legShape => if output then some (legShape ++ [matCols]) else some (matRows :: legShape)

/-- Inner dimension NumPy's factorisation returns: `reduced` gives `min m n`, `complete` gives `m`. -/
def numpyQRInner (mode : Mode) (m n : Nat) : Nat :=
  match mode with
  | .full => m
  | _ => min m n

/-- A factor: its shape and the origin of each axis. -/
structure Factor where
  shape : List Nat
  legs : List Leg
deriving Repr, DecidableEq

structure QRResult where
  q : Factor
  r : Factor
  bond : Nat          -- dimension of the new leg as returned
  pad : Nat           -- number of zero columns / rows added (KEEP only)
deriving Repr, DecidableEq

/-- `np.reshape(mat, shape)` of a `(a, b)` matrix: legal iff the sizes agree. -/
def reshapeOk (a b : Nat) (shape : List Nat) : Bool := prod shape == a * b

/-- `tensor_qr_decomposition`. -/
def tensorQR (mode : Mode) (sh qLegs rLegs : List Nat) : Option QRResult :=
  match matricize sh qLegs rLegs with
  | none => none
  | some mat =>
    let m := mat.rows
    let n := mat.cols
    let k := numpyQRInner mode m n                    -- q : (m, k), r : (k, n)
    match determineTensorShape sh m k qLegs true, determineTensorShape sh k n rLegs false with
    | some qShape, some rShape =>
      if ¬ (reshapeOk m k qShape && reshapeOk k n rShape) then none
      else
        let qL := qLegs.map Leg.orig ++ [Leg.bond]
        let rL := Leg.bond :: rLegs.map Leg.orig
        match mode with
        | .keep =>
          -- orig_bond_dim = np.prod(r.shape[1:]) is the *float* 1.0 for an empty tuple, and np.pad
          -- rejects a float pad width (TypeError): KEEP needs at least one R-leg
          if rLegs.isEmpty then none
          else
            let origBond := prod (rShape.drop 1)
            -- diff = orig_bond_dim - q.shape[-1]; np.pad rejects a negative width (ValueError)
            if origBond < k then none
            else
              let diff := origBond - k
              some ⟨⟨qShape.dropLast ++ [k + diff], qL⟩, ⟨(k + diff) :: rShape.drop 1, rL⟩,
                    k + diff, diff⟩
        | _ => some ⟨⟨qShape, qL⟩, ⟨rShape, rL⟩, k, 0⟩
    | _, _ => none

structure SVDResult where
  u : Factor
  sLen : Nat
  vh : Factor
deriving Repr, DecidableEq

/-- `tensor_svd`: `np.linalg.svd(matrix, full_matrices = mode is not REDUCED)`. -/
def tensorSVD (mode : Mode) (sh uLegs vLegs : List Nat) : Option SVDResult :=
  match matricize sh uLegs vLegs with
  | none => none
  | some mat =>
    let m := mat.rows
    let n := mat.cols
    let k := min m n
    let full := mode != .reduced
    let uCols := if full then m else k                -- u : (m, uCols), vh : (vRows, n)
    let vRows := if full then n else k
    match determineTensorShape sh m uCols uLegs true, determineTensorShape sh vRows n vLegs false with
    | some uShape, some vShape =>
      if ¬ (reshapeOk m uCols uShape && reshapeOk vRows n vShape) then none
      else some ⟨⟨uShape, uLegs.map Leg.orig ++ [Leg.bond]⟩, k,
                 ⟨vShape, Leg.bond :: vLegs.map Leg.orig⟩⟩
    | _, _ => none

/-- `truncated_tensor_svd` when the truncation keeps `kept` singular values
    (`1 ≤ kept ≤ min m n` by property C10): `u[..., :kept]`, `vh[:kept, ...]`. -/
def truncatedSVD (sh uLegs vLegs : List Nat) (kept : Nat) : Option SVDResult :=
  match tensorSVD .reduced sh uLegs vLegs with
  | none => none
  | some res =>
    let k := min kept res.sLen                        -- slicing never extends
    some ⟨⟨res.u.shape.dropLast ++ [k], res.u.legs⟩, k, ⟨k :: res.vh.shape.drop 1, res.vh.legs⟩⟩

inductive ContrMode where
  | ucontr
  | vcontr
  | equal
deriving Repr, DecidableEq

/-- Which factor absorbs the singular values, as exponents of `S` in halves:
    `(a, b)` means first factor `= U·S^(a/2)`, second `= S^(b/2)·Vh`. -/
def absorb : ContrMode → Nat × Nat
  | .vcontr => (0, 2)
  | .ucontr => (2, 0)
  | .equal => (1, 1)

end Ptn.C11
