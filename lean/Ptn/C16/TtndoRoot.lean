import Ptn.C16.TtndoTtno
/-! The root step of `ttndo_ttno_expectation_value` (`_contract_ttno_root`, `_single_site_contraction`) and
`_contract_final_block`. -/
namespace Ptn.C16.Ttndo
open Ptn.C04

/-- `contract_operator_tensor_ignoring_one_leg` when the operator node lacks the ignored neighbour (the TTNO
root below the TTNDO root) -/
theorem opTensorRoot_general (x y zo zi : Leg) (pO q mkO : Nat → Leg) (F On : List Nat) (bs : List (Leg × Leg))
    (hF : F.Nodup) (hperm : On.Perm F) :
    tensordot ⟨[x, y] ++ F.flatMap (fun n => [pO n, q n]), bs⟩ (T.fresh (On.map mkO ++ [zo, zi]))
        ((List.range F.length).map (fun k => 2 * k + 2) ++ [1])
        (F.map (fun n => On.idxOf n) ++ [On.length + 1]) =
      some ⟨[x] ++ F.map q ++ [zo], bs ++ (F.map (fun n => (pO n, mkO n)) ++ [(y, zi)])⟩ := by
  have hmemO : ∀ n ∈ F, n ∈ On := fun n hn => hperm.mem_iff.2 hn
  have hmemF : ∀ n ∈ On, n ∈ F := fun n hn => hperm.mem_iff.1 hn
  have hO : On.Nodup := hperm.nodup_iff.2 hF
  have pa : pick ([x, y] ++ F.flatMap (fun n => [pO n, q n]))
      ((List.range F.length).map (fun k => 2 * k + 2) ++ [1]) = some (F.map pO ++ [y]) := by
    apply pick_append
    · have := pick_evens [x, y] F pO q []
      simpa using this
    · exact pick_single _ _ _ (by simp)
  have pb : pick (T.fresh (On.map mkO ++ [zo, zi])).legs (F.map (fun n => On.idxOf n) ++ [On.length + 1])
      = some (F.map mkO ++ [zi]) := by
    apply pick_append
    · apply pick_map
      intro n hn
      exact getElem?_map_idxOf mkO [zo, zi] (hmemO n hn)
    · apply pick_single
      simp [T.fresh]
  have nda : ((List.range F.length).map (fun k => 2 * k + 2) ++ [1]).Nodup := by
    rw [List.nodup_append]
    refine ⟨nodup_map_of_inj_on _ _ List.nodup_range (fun a _ b _ e => by omega), by simp, ?_⟩
    intro a ha b hb
    obtain ⟨n, _, rfl⟩ := List.mem_map.1 ha
    simp only [List.mem_singleton] at hb
    omega
  have ndb : (F.map (fun n => On.idxOf n) ++ [On.length + 1]).Nodup := by
    rw [List.nodup_append]
    refine ⟨nodup_map_of_inj_on _ _ hF (fun a ha b hb e => idxOf_inj (hmemO a ha) (hmemO b hb) e), by simp, ?_⟩
    intro a ha b hb
    obtain ⟨n, hn, rfl⟩ := List.mem_map.1 ha
    simp only [List.mem_singleton] at hb
    have := List.idxOf_lt_length_of_mem (hmemO n hn)
    omega
  rw [tensordot_eq _ _ _ _ _ _ (by simp) nda ndb pa pb]
  have ra : remaining ((List.range F.length).map (fun k => 2 * k + 2) ++ [1]) 0
      ([x, y] ++ F.flatMap (fun n => [pO n, q n])) = x :: F.map q := by
    have e : [x, y] ++ F.flatMap (fun n => [pO n, q n]) = [x] ++ ([y] ++ F.flatMap (fun n => [pO n, q n])) := rfl
    rw [e, remaining_append, remaining_append, remaining_one_keep, remaining_one_drop, remaining_pairs]
    · simp
    · intro i hi
      simp only [List.mem_append, List.mem_map, List.mem_range, List.mem_singleton, List.length_cons,
        List.length_nil]
      exact Or.inl ⟨i, hi, by omega⟩
    · intro i _ hc
      simp only [List.mem_append, List.mem_map, List.mem_range, List.mem_singleton, List.length_cons,
        List.length_nil] at hc
      rcases hc with ⟨k, _, hk⟩ | hk <;> omega
    · simp
    · simp only [List.mem_append, List.mem_map, List.mem_range, List.mem_singleton, not_or, not_exists, not_and]
      exact ⟨fun k _ => by omega, by omega⟩
  have rb : remaining (F.map (fun n => On.idxOf n) ++ [On.length + 1]) 0 (T.fresh (On.map mkO ++ [zo, zi])).legs
      = [zo] := by
    simp only [T.fresh]
    rw [remaining_append, remaining_all, remaining_keep_drop]
    · simp
    · simp only [Nat.zero_add, List.length_map, List.mem_append, List.mem_map, List.mem_singleton, not_or,
        not_exists, not_and]
      refine ⟨fun n hn hk => ?_, by omega⟩
      have := List.idxOf_lt_length_of_mem (hmemO n hn)
      omega
    · simp
    · intro i hi
      simp only [List.length_map] at hi
      simp only [Nat.zero_add, List.mem_append, List.mem_map, List.mem_singleton]
      exact Or.inl ⟨On[i], hmemF _ (List.getElem_mem hi), hO.idxOf_getElem i hi⟩
  rw [ra, rb, List.zip_append (by simp), zip_map_same]
  simp [T.fresh]

/-- the last tensordot of `_contract_ttno_root` -/
theorem braRoot_general (x zo b0 z : Leg) (q mkB : Nat → Leg) (F : List Nat) (bs : List (Leg × Leg)) (hF : F.Nodup) :
    tensordot ⟨[x] ++ F.map q ++ [zo], bs⟩ (T.fresh ([b0] ++ F.map mkB ++ [z]))
        (List.range' 1 (F.length + 1)) (F.map (fun n => F.idxOf n + 1) ++ [F.length + 1]) =
      some ⟨[x, b0], bs ++ (F.map (fun n => (q n, mkB n)) ++ [(zo, z)])⟩ := by
  have pa : pick ([x] ++ F.map q ++ [zo]) (List.range' 1 (F.length + 1)) = some (F.map q ++ [zo]) := by
    have := pick_range' [x] (F.map q ++ [zo]) []
    simpa using this
  have pb : pick (T.fresh ([b0] ++ F.map mkB ++ [z])).legs (F.map (fun n => F.idxOf n + 1) ++ [F.length + 1])
      = some (F.map mkB ++ [z]) := by
    apply pick_append
    · apply pick_map
      intro n hn
      have := getElem?_map_idxOf mkB [z] hn
      simpa [T.fresh] using this
    · apply pick_single
      simp [T.fresh]
  have ndb : (F.map (fun n => F.idxOf n + 1) ++ [F.length + 1]).Nodup := by
    rw [List.nodup_append]
    refine ⟨nodup_map_of_inj_on _ _ hF (fun a ha b hb e => idxOf_inj ha hb (by omega)), by simp, ?_⟩
    intro a ha b hb
    obtain ⟨n, hn, rfl⟩ := List.mem_map.1 ha
    simp only [List.mem_singleton] at hb
    have := List.idxOf_lt_length_of_mem hn
    omega
  rw [tensordot_eq _ _ _ _ _ _ (by simp) List.nodup_range' ndb pa pb]
  have ra : remaining (List.range' 1 (F.length + 1)) 0 ([x] ++ F.map q ++ [zo]) = [x] := by
    rw [List.append_assoc, remaining_append, remaining_one_keep, remaining_all]
    · simp
    · intro i hi
      simp only [List.length_append, List.length_map, List.length_cons, List.length_nil] at hi
      simp only [List.mem_range'_1, List.length_cons, List.length_nil]
      omega
    · simp [List.mem_range'_1]
  have rb : remaining (F.map (fun n => F.idxOf n + 1) ++ [F.length + 1]) 0 (T.fresh ([b0] ++ F.map mkB ++ [z])).legs
      = [b0] := by
    simp only [T.fresh, List.append_assoc]
    rw [remaining_append, remaining_one_keep, remaining_all]
    · simp
    · intro i hi
      simp only [List.length_append, List.length_map, List.length_cons, List.length_nil] at hi
      simp only [List.mem_append, List.mem_map, List.mem_singleton, List.length_cons, List.length_nil]
      by_cases h : i = F.length
      · right; omega
      · left
        have hi2 : i < F.length := by omega
        exact ⟨F[i], List.getElem_mem hi2, by rw [hF.idxOf_getElem]; omega⟩
    · simp
  rw [ra, rb, List.zip_append (by simp), zip_map_same]
  simp [T.fresh]

/-- `_single_site_contraction` -/
theorem singleSite_eq (k0 kp oo oi b0 bp : Leg) :
    singleSiteContraction ⟨[k0, kp], []⟩ ⟨[oo, oi], []⟩ ⟨[b0, bp], []⟩ =
      some ⟨[k0, b0], [(bp, oo), (oi, kp)]⟩ := by
  have h1 : tensordot ⟨[b0, bp], []⟩ ⟨[oo, oi], []⟩ [1] [0] = some ⟨[b0, oi], [(bp, oo)]⟩ := by
    rw [tensordot_one _ _ _ _ bp oo (by simp) (by simp)]; simp
  have h2 : tensordot ⟨[b0, oi], [(bp, oo)]⟩ ⟨[kp, k0], []⟩ [1] [0] = some ⟨[b0, k0], [(bp, oo), (oi, kp)]⟩ := by
    rw [tensordot_one _ _ _ _ oi kp (by simp) (by simp)]; simp
  simp [singleSiteContraction, transpose2, h1, h2]

/-- `_contract_final_block` on the TTNDO of the ket tree -/
theorem contractFinalBlock_eq (kt : Tree) (hid : kt.id % 2 = 1) (bs : List (Leg × Leg)) :
    contractFinalBlock (ttndoNetK kt) ⟨[Leg.gKet kt.id 0, Leg.gBra kt.id 0], bs⟩ =
      some ⟨[], bs ++ [(rootKetLeg, Leg.gKet kt.id 0), (rootBraLeg, Leg.gBra kt.id 0)]⟩ := by
  have hroot := ttndo_root_lookup kt
  have hrootid : (ttndoNetK kt).root = 0 := rfl
  have hnn : (Node.mk none [kt.id, kt.id + 1]).nn = 2 := rfl
  have hfind : [kt.id, kt.id + 1].find? isKet = some kt.id := by simp [isKet, hid]
  have hi1 : (Node.mk none [kt.id, kt.id + 1]).neighbourIndex kt.id = some 0 := by
    simp [Node.neighbourIndex, Node.nparents]
  have hi2 : (Node.mk none [kt.id, kt.id + 1]).neighbourIndex (ketToBra kt.id) = some 1 := by
    have hb : (kt.id == kt.id + 1) = false := by simp
    simp [Node.neighbourIndex, Node.nparents, ketToBra, List.idxOf_cons, hb]
  simp only [contractFinalBlock, hrootid, hroot.1, hroot.2, hnn, ne_eq, not_true_eq_false, if_false, hfind, hi1, hi2,
    T.fresh]
  rw [tensordot_eq _ _ [0, 1] [0, 1] [rootKetLeg, rootBraLeg] [Leg.gKet kt.id 0, Leg.gBra kt.id 0] rfl
    (by simp) (by simp) (by simp [pick]) (by simp [pick])]
  simp [remaining]

end Ptn.C16.Ttndo
