import Ptn.C04.GraphSS
import Ptn.C16.TtndoModel
/-! `trace_ttndo` along the whole TTNDO: reduction to the tree-level theorem of C04. -/
namespace Ptn.C16.Ttndo
open Ptn.C04

/-! ### renaming the neighbours of the bra node -/

theorem idxOf_map_succ (l : List Nat) (n : Nat) : (l.map (· + 1)).idxOf (n + 1) = l.idxOf n := by
  induction l with
  | nil => rfl
  | cons a as ih =>
    by_cases h : a = n
    · subst h; simp
    · have h1 : (a == n) = false := by simpa using h
      have h2 : (a + 1 == n + 1) = false := by simpa using h
      simp [List.idxOf_cons, h1, h2, ih]

theorem neighbourIndex_relabel (p : Nat) (kids : List Nat) (n : Nat) (hn : n ≠ p) :
    (Node.mk (some (braP p)) (kids.map (· + 1))).neighbourIndex (ketToBra n) =
      (Node.mk (some p) kids).neighbourIndex n := by
  have h1 : ¬ (braP p = n + 1) := by
    unfold braP; split <;> omega
  have h2 : ¬ (p = n) := fun e => hn e.symm
  simp only [Node.neighbourIndex, ketToBra, Option.some.injEq, h1, h2, if_false, Node.nparents, Option.isSome_some,
    if_true, idxOf_map_succ]
  by_cases hm : n ∈ kids
  · have : n + 1 ∈ kids.map (· + 1) := List.mem_map.2 ⟨n, hm, rfl⟩
    simp [hm, this]
  · have : n + 1 ∉ kids.map (· + 1) := by
      intro h; obtain ⟨m, hm', e⟩ := List.mem_map.1 h
      have : m = n := by omega
      exact hm (this ▸ hm')
    simp [hm, this]

theorem braIgnoreLoop_relabel (p : Nat) (kids : List Nat) (nextIdx : Nat) (l : List Nat) :
    braIgnoreLoop ⟨some (braP p), kids.map (· + 1)⟩ ⟨some p, kids⟩ p nextIdx ketToBra l =
      braIgnoreLoop ⟨some p, kids⟩ ⟨some p, kids⟩ p nextIdx id l := by
  induction l with
  | nil => rfl
  | cons n rest ih =>
    simp only [braIgnoreLoop, ih]
    by_cases hn : n = p
    · simp [hn]
    · simp only [ne_eq, hn, not_false_eq_true, if_true, neighbourIndex_relabel p kids n hn, id]

theorem contractAnyNodes_relabel (p : Nat) (kids : List Nat) (t1 t2 : T) (cache : Cache) :
    contractAnyNodes p ⟨some p, kids⟩ ⟨some (braP p), kids.map (· + 1)⟩ t1 t2 cache ketToBra =
      contractAnyNodes p ⟨some p, kids⟩ ⟨some p, kids⟩ t1 t2 cache id := by
  simp only [contractAnyNodes, contractLeafs, contractSubtreesUsingDictionary, contractBraToKetAndBlocksIgnoreOneLeg,
    braIgnoreLoop_relabel, Node.isLeaf, Node.nn, Node.nparents, List.isEmpty_map, List.length_map,
    Option.isSome_some]

/-! ### the node table of the TTNDO -/

mutual
theorem Tree.post_mem_ids : ∀ (t : Tree) (k : Nat), k ∈ t.post → k ∈ t.ids
  | .node i ks, k, h => by
    simp only [Tree.post, List.mem_append, List.mem_singleton] at h
    rcases h with h | h
    · simp [Tree.ids, Tree.postL_mem_ids ks k h]
    · simp [Tree.ids, h]
theorem Tree.postL_mem_ids : ∀ (ts : List Tree) (k : Nat), k ∈ Tree.postL ts → k ∈ Tree.idsL ts
  | [], k, h => by simp [Tree.postL] at h
  | t :: ts, k, h => by
    simp only [Tree.postL, List.mem_append] at h
    rcases h with h | h
    · simp [Tree.idsL, Tree.post_mem_ids t k h]
    · simp [Tree.idsL, Tree.postL_mem_ids ts k h]
end

mutual
theorem info_parent_some : ∀ (t : Tree) (q : Nat) (e : Nat × Option Nat × List Nat),
    e ∈ Tree.info (some q) t → ∃ p, e.2.1 = some p
  | .node i ks, q, e, he => by
    simp only [Tree.info, List.mem_cons] at he
    rcases he with rfl | he
    · exact ⟨q, rfl⟩
    · exact infoL_parent_some ks i e he
theorem infoL_parent_some : ∀ (ts : List Tree) (q : Nat) (e : Nat × Option Nat × List Nat),
    e ∈ Tree.infoL q ts → ∃ p, e.2.1 = some p
  | [], q, e, he => by simp [Tree.infoL] at he
  | t :: ts, q, e, he => by
    simp only [Tree.infoL, List.mem_append] at he
    rcases he with he | he
    · exact info_parent_some t q e he
    · exact infoL_parent_some ts q e he
end

theorem info_mem_of_id (p : Option Nat) (t : Tree) (k : Nat) (hk : k ∈ t.ids) :
    ∃ e ∈ Tree.info p t, e.1 = k := by
  rw [← Tree.info_keys p t] at hk
  obtain ⟨e, he, rfl⟩ := List.mem_map.1 hk
  exact ⟨e, he, rfl⟩

section
variable (kt : Tree) (hnd : kt.ids.Nodup) (hodd : ∀ k ∈ kt.ids, k % 2 = 1)
include hnd hodd

theorem table_keys_nodup :
    (((0, (⟨none, [kt.id, kt.id + 1]⟩ : Node), T.fresh [rootKetLeg, rootBraLeg, rootOpenLeg]) ::
      ((Tree.info (some 0) kt).map (fun e => (e.1, (⟨e.2.1, e.2.2⟩ : Node), gKetT e.1 ⟨e.2.1, e.2.2⟩)) ++
       (Tree.info (some 0) kt).map (fun e => (e.1 + 1, (⟨e.2.1.map braP, e.2.2.map (· + 1)⟩ : Node),
          gBraT e.1 ⟨e.2.1, e.2.2⟩)))).map (·.1)).Nodup := by
  simp only [List.map_cons, List.map_append, List.map_map]
  have e1 : ((fun x : Nat × Node × T => x.1) ∘ fun e : Nat × Option Nat × List Nat =>
      (e.1, (⟨e.2.1, e.2.2⟩ : Node), gKetT e.1 ⟨e.2.1, e.2.2⟩)) = (·.1) := rfl
  have e2 : ((fun x : Nat × Node × T => x.1) ∘ fun e : Nat × Option Nat × List Nat =>
      (e.1 + 1, (⟨e.2.1.map braP, e.2.2.map (· + 1)⟩ : Node), gBraT e.1 ⟨e.2.1, e.2.2⟩)) = (· + 1) ∘ (·.1) := rfl
  rw [e1, e2, ← List.map_map, Tree.info_keys]
  rw [List.nodup_cons, List.nodup_append]
  refine ⟨?_, hnd, ?_, ?_⟩
  · simp only [List.mem_append, List.mem_map, not_or, not_exists, not_and]
    exact ⟨fun h => by have := hodd 0 h; omega, fun k _ => by omega⟩
  · exact nodup_map_of_inj_on _ _ hnd (fun x _ y _ e => by omega)
  · intro a ha b hb e
    obtain ⟨k, hk, rfl⟩ := List.mem_map.1 hb
    have h1 := hodd a ha
    have h2 := hodd k hk
    omega

theorem ttndo_lookup (e : Nat × Option Nat × List Nat) (he : e ∈ Tree.info (some 0) kt) :
    (ttndoNetK kt).node e.1 = some ⟨e.2.1, e.2.2⟩ ∧
    (ttndoNetK kt).tensor e.1 = some (gKetT e.1 ⟨e.2.1, e.2.2⟩) ∧
    (ttndoNetK kt).node (e.1 + 1) = some ⟨e.2.1.map braP, e.2.2.map (· + 1)⟩ ∧
    (ttndoNetK kt).tensor (e.1 + 1) = some (gBraT e.1 ⟨e.2.1, e.2.2⟩) := by
  have hk := table_keys_nodup kt hnd hodd
  have f1 := find?_of_nodup_keys _ hk (e.1, (⟨e.2.1, e.2.2⟩ : Node), gKetT e.1 ⟨e.2.1, e.2.2⟩)
    (by simp only [List.mem_cons, List.mem_append, List.mem_map]; exact Or.inr (Or.inl ⟨e, he, rfl⟩))
  have f2 := find?_of_nodup_keys _ hk (e.1 + 1, (⟨e.2.1.map braP, e.2.2.map (· + 1)⟩ : Node), gBraT e.1 ⟨e.2.1, e.2.2⟩)
    (by simp only [List.mem_cons, List.mem_append, List.mem_map]; exact Or.inr (Or.inr ⟨e, he, rfl⟩))
  simp only at f1 f2
  simp only [ttndoNetK, f1, f2, Option.map_some, and_self]

end

theorem ttndo_root_lookup (kt : Tree) :
    (ttndoNetK kt).node 0 = some ⟨none, [kt.id, kt.id + 1]⟩ ∧
    (ttndoNetK kt).tensor 0 = some (T.fresh [rootKetLeg, rootBraLeg, rootOpenLeg]) := by
  simp [ttndoNetK]

/-- the bra branch of the TTNDO read through the ket identifiers: same nodes, the bra tensors -/
def braView (nd : Net) : Net :=
  { root := nd.root, node := nd.node, tensor := fun k => nd.tensor (k + 1), order := [] }

def kidsOfNet (nd : Net) (k : Nat) : List Nat := ((nd.node k).map (·.children)).getD []

theorem trLoop_eq_ssLoop (nd : Net) (l : List Nat)
    (h : ∀ k ∈ l, ∀ d, trStep nd d k = ssStep nd (braView nd) d k) :
    ∀ d, trLoop nd l d = ssLoop nd (braView nd) l d := by
  induction l with
  | nil => intro d; rfl
  | cons k rest ih =>
    intro d
    simp only [trLoop, ssLoop, h k (by simp) d]
    cases ssStep nd (braView nd) d k with
    | none => rfl
    | some d1 => exact ih (fun k' hk' => h k' (by simp [hk'])) d1

theorem post_getLast : ∀ t : Tree, t.post.getLast? = some t.id
  | .node i ks => by simp [Tree.post, Tree.id]

theorem post_ne_nil : ∀ t : Tree, t.post ≠ []
  | .node i ks => by simp [Tree.post]

theorem filter_isKet (l : List Nat) (h : ∀ k ∈ l, k % 2 = 1) :
    (l ++ l.map (· + 1) ++ [0]).filter isKet = l := by
  have h1 : l.filter isKet = l := List.filter_eq_self.2 (fun k hk => by simp [isKet, h k hk])
  have h2 : (l.map (· + 1)).filter isKet = [] := List.filter_eq_nil_iff.2 (fun k hk => by
    obtain ⟨m, hm, rfl⟩ := List.mem_map.1 hk
    have := h m hm
    simp [isKet]; omega)
  simp [List.filter_append, h1, h2, isKet]

/-- `trace_ttndo` on the TTNDO of the ket tree `kt` -/
theorem traceTtndo_eq (kt : Tree) (hnd : kt.ids.Nodup) (hodd : ∀ k ∈ kt.ids, k % 2 = 1) :
    traceTtndo (ttndoNetK kt) =
      some ⟨[], ssBlockBinds kt ++ [(rootKetLeg, Leg.gKet kt.id 0), (rootBraLeg, Leg.gBra kt.id 0)]⟩ := by
  have hlook := ttndo_lookup kt hnd hodd
  have hroot := ttndo_root_lookup kt
  -- every loop iteration is an iteration of the state-state loop on the renamed bra branch
  have hstep : ∀ k ∈ kt.post, ∀ d, trStep (ttndoNetK kt) d k = ssStep (ttndoNetK kt) (braView (ttndoNetK kt)) d k := by
    intro k hk d
    obtain ⟨e, he, rfl⟩ := info_mem_of_id (some 0) kt k (Tree.post_mem_ids kt k hk)
    obtain ⟨l1, l2, l3, l4⟩ := hlook e he
    have hpar := info_parent_some kt 0 e he
    obtain ⟨p, hp⟩ := hpar
    have l3' : (ttndoNetK kt).node (e.1 + 1) = some ⟨some (braP p), e.2.2.map (· + 1)⟩ := by
      simpa [hp] using l3
    have l1' : (ttndoNetK kt).node e.1 = some ⟨some p, e.2.2⟩ := by simpa [hp] using l1
    simp only [trStep, ssStep, ssContractAny, braView, l1', l2, l3', ketToBra, l4, contractAnyNodes_relabel]
    rfl
  have hloop := trLoop_eq_ssLoop (ttndoNetK kt) kt.post hstep Dict.empty
  -- the state-state loop over the ket tree below the TTNDO root
  have hrep : Rep (ttndoNetK kt) (braView (ttndoNetK kt)) (kidsOfNet (ttndoNetK kt)) (Tree.info (some 0) kt) := by
    intro e he
    obtain ⟨l1, l2, _, l4⟩ := hlook e he
    refine ⟨l1, l2, ?_, ?_, ?_⟩
    · simp [braView, l1, kidsOfNet]
    · simp [braView, l4, kidsOfNet, l1]
    · simp [kidsOfNet, l1]
  obtain ⟨d, hd1, hd2⟩ := ssLoop_subtree (ttndoNetK kt) (braView (ttndoNetK kt)) (kidsOfNet (ttndoNetK kt)) kt 0
    Dict.empty hnd (fun h => by have := hodd 0 h; omega) hrep (fun _ _ _ => rfl)
  have horder : contractionOrder (ttndoNetK kt) = kt.post := by
    simp only [contractionOrder, ttndoNetK]
    exact filter_isKet kt.post (fun k hk => hodd k (Tree.post_mem_ids kt k hk))
  have hlen : (ttndoNetK kt).order.length ≠ 1 := by
    have := post_ne_nil kt
    simp only [ttndoNetK, List.length_append, List.length_map, List.length_cons, List.length_nil]
    cases hpo : kt.post with
    | nil => exact absurd hpo this
    | cons a as => simp
  have hrootid : (ttndoNetK kt).root = 0 := rfl
  have hidodd : kt.id % 2 = 1 := hodd kt.id (Tree.id_mem_ids kt)
  simp only [traceTtndo, hlen, if_false, horder, hloop, hd1, post_getLast, hrootid, hd2 (kt.id, 0), if_true,
    contractFinalBlock, hroot.1, hroot.2]
  have hnn : (Node.mk none [kt.id, kt.id + 1]).nn = 2 := rfl
  have hfind : [kt.id, kt.id + 1].find? isKet = some kt.id := by simp [isKet, hidodd]
  have hi1 : (Node.mk none [kt.id, kt.id + 1]).neighbourIndex kt.id = some 0 := by
    simp [Node.neighbourIndex, Node.nparents]
  have hi2 : (Node.mk none [kt.id, kt.id + 1]).neighbourIndex (ketToBra kt.id) = some 1 := by
    have hb : (kt.id == kt.id + 1) = false := by simp
    simp [Node.neighbourIndex, Node.nparents, ketToBra, List.idxOf_cons, hb]
  simp only [hnn, ne_eq, not_true_eq_false, if_false, hfind, hi1, hi2, ssBlock, T.fresh]
  rw [tensordot_eq _ _ [0, 1] [0, 1] [rootKetLeg, rootBraLeg] [Leg.gKet kt.id 0, Leg.gBra kt.id 0] rfl
    (by simp) (by simp) (by simp [pick]) (by simp [pick])]
  simp [remaining]

mutual
theorem ketTree_ids : ∀ t : Tree, (ketTree t).ids = t.ids.map ketOf
  | .node i ks => by simp [ketTree, Tree.ids, ketTreeL_ids ks]
theorem ketTreeL_ids : ∀ ts : List Tree, Tree.idsL (ketTree.ketTreeL ts) = (Tree.idsL ts).map ketOf
  | [] => by simp [ketTree.ketTreeL, Tree.idsL]
  | t :: ts => by simp [ketTree.ketTreeL, Tree.idsL, ketTree_ids t, ketTreeL_ids ts]
end

theorem ketTree_wf (t : Tree) (hnd : t.ids.Nodup) :
    (ketTree t).ids.Nodup ∧ ∀ k ∈ (ketTree t).ids, k % 2 = 1 := by
  rw [ketTree_ids]
  refine ⟨nodup_map_of_inj_on _ _ hnd (fun x _ y _ e => by simp [ketOf] at e; omega), ?_⟩
  intro k hk
  obtain ⟨i, _, rfl⟩ := List.mem_map.1 hk
  simp [ketOf]

end Ptn.C16.Ttndo
