import Ptn.C16.TensorProduct
import Ptn.C16.TtndoTrace
/-! `tensor_product_expectation_value` along the whole TTNDO, every tree (B53).

The ket tensor of a named site enters `trace_ttndo` with the operator's output leg as its last axis and ONE logged pair
(ket physical leg, operator input).  The routines of C04 are proved for arbitrary leg labels
(`contract_any_nodes_general`), and the ket tensor is the LEFT operand of every `tensordot` it takes part in, so its
logged pairs are carried in front of the record (`tensordot_pre` lifted through every routine:
`contractAnyNodes_pre`).  The tree induction is the one of `Ptn/C04/GraphSS.lean` with the generalised blocks. -/
namespace Ptn.C16.Ttndo
open Ptn.C04

/-- a tensor with logged pairs put in front of its record -/
def T.pre (x : List (Leg × Leg)) (t : T) : T := ⟨t.legs, x ++ t.binds⟩

theorem tensordot_pre (x : List (Leg × Leg)) (a b : T) (ia ib : List Nat) :
    tensordot (T.pre x a) b ia ib = (tensordot a b ia ib).map (T.pre x) := by
  unfold tensordot
  by_cases h1 : ia.length ≠ ib.length
  · simp [h1]
  by_cases h2 : ¬ ia.Nodup ∨ ¬ ib.Nodup
  · simp [h1, h2]
  simp only [h1, h2, if_false, T.pre]
  cases pick a.legs ia <;> cases pick b.legs ib <;> simp [T.pre, List.append_assoc]

theorem contractNeighbourBlock_pre (x : List (Leg × Leg)) (ax : Nat) (t : T) (nd : Node) (n : Nat) (cache : Cache)
    (leg : Option Nat) :
    contractNeighbourBlock ax (T.pre x t) nd n cache leg = (contractNeighbourBlock ax t nd n cache leg).map (T.pre x) := by
  unfold contractNeighbourBlock
  cases cache n with
  | none => rfl
  | some blk =>
    cases leg with
    | some l => exact tensordot_pre x t blk [l] [ax]
    | none =>
      simp only
      cases nd.neighbourIndex n with
      | none => rfl
      | some l => exact tensordot_pre x t blk [l] [ax]

theorem contractNeighbourBlockIgnoreOneLeg_pre (x : List (Leg × Leg)) (ax : Nat) (t : T) (nd : Node) (n ig : Nat)
    (cache : Cache) :
    contractNeighbourBlockIgnoreOneLeg ax (T.pre x t) nd n ig cache =
      (contractNeighbourBlockIgnoreOneLeg ax t nd n ig cache).map (T.pre x) := by
  unfold contractNeighbourBlockIgnoreOneLeg
  cases determineIndexWithIgnoredLeg nd n ig with
  | none => rfl
  | some i => exact contractNeighbourBlock_pre x ax t nd n cache (some i)

theorem allButOneLoop_pre (x : List (Leg × Leg)) (ax : Nat) (nd : Node) (next : Nat) (cache : Cache) :
    ∀ (l : List Nat) (t : T), allButOneLoop ax nd next cache l (T.pre x t) =
      (allButOneLoop ax nd next cache l t).map (T.pre x)
  | [], t => rfl
  | n :: rest, t => by
    simp only [allButOneLoop]
    by_cases h : n = next
    · simp [h, allButOneLoop_pre x ax nd next cache rest t]
    · simp only [ne_eq, h, not_false_eq_true, if_true, contractNeighbourBlockIgnoreOneLeg_pre]
      cases contractNeighbourBlockIgnoreOneLeg ax t nd n next cache with
      | none => rfl
      | some t' => exact allButOneLoop_pre x ax nd next cache rest t'

theorem contractAnyNodes_pre (x : List (Leg × Leg)) (next : Nat) (n1 n2 : Node) (t1 t2 : T) (cache : Cache) (f : Trafo) :
    contractAnyNodes next n1 n2 (T.pre x t1) t2 cache f = (contractAnyNodes next n1 n2 t1 t2 cache f).map (T.pre x) := by
  unfold contractAnyNodes
  by_cases hl : n1.isLeaf = true
  · simp only [hl, if_true, contractLeafs]
    have : (T.pre x t1).legs = t1.legs := rfl
    rw [this]
    split
    · rfl
    · split
      · rfl
      · exact tensordot_pre x t1 t2 _ _
  · simp only [hl, contractSubtreesUsingDictionary, contractAllButOneNeighbourBlockToKet, allButOneLoop_pre]
    cases allButOneLoop 0 n1 next cache n1.nbrs t1 with
    | none => rfl
    | some kb =>
      simp only [Option.map_some, contractBraToKetAndBlocksIgnoreOneLeg]
      cases n1.neighbourIndex next with
      | none => rfl
      | some ni =>
        simp only
        cases braIgnoreLoop n2 n1 next ni f n1.nbrs with
        | none => rfl
        | some p => exact tensordot_pre x kb t2 _ _

/-! ### the generalised blocks -/

/-- last axis of the ket tensor of node `i` when `trace_ttndo` starts -/
def tpY (sites : List Nat) (i : Nat) : Leg := if i ∈ sites then Leg.gOpOut i else Leg.gKetPhys i
/-- pairs logged by the absorption at node `i` -/
def tpPre (sites : List Nat) (i : Nat) : List (Leg × Leg) :=
  if i ∈ sites then [(Leg.gKetPhys i, Leg.gOpIn i)] else []
/-- the ket tensor of node `i` after the absorption loop -/
def tpKetT (sites : List Nat) (i : Nat) (nd : Node) : T :=
  T.pre (tpPre sites i) (T.fresh (nd.nbrs.map (Leg.gKet i) ++ [tpY sites i]))

mutual
def tpBlockBinds (sites : List Nat) : Tree → List (Leg × Leg)
  | .node i ks => tpPre sites i ++
      (tpKidsBinds sites i ks ++ ((ks.map fun c => braEdge i c.id) ++ [(tpY sites i, Leg.gBraPhys i)]))
def tpKidsBinds (sites : List Nat) (i : Nat) : List Tree → List (Leg × Leg)
  | [] => []
  | c :: cs => (tpBlockBinds sites c ++ [ketEdge i c.id]) ++ tpKidsBinds sites i cs
end

def tpBlock (sites : List Nat) (c : Tree) (i : Nat) : T := ⟨[Leg.gKet c.id i, Leg.gBra c.id i], tpBlockBinds sites c⟩

variable (sites : List Nat)

/-- the bindings of the block of the kid with identifier `n` -/
def tpBbOf (ts : List Tree) (n : Nat) : List (Leg × Leg) :=
  ((ts.find? (fun c => c.id == n)).map (tpBlockBinds sites)).getD []

/-- the entry of kid `k.1` of node `i` -/
def tpKidBlock (ts : List Tree) (i : Nat) (k : Nat × Nat) : Option T :=
  if k.2 = i then (ts.find? (fun c => c.id == k.1)).map (fun c => tpBlock sites c i) else none

theorem tpKidBlock_of_mem (ts : List Tree) (i n : Nat) (hn : n ∈ ts.map Tree.id) :
    tpKidBlock sites ts i (n, i) = some ⟨[Leg.gKet n i, Leg.gBra n i], tpBbOf sites ts n⟩ := by
  obtain ⟨c, hc, hcn⟩ := List.mem_map.1 hn
  have hsome : (ts.find? (fun c => c.id == n)).isSome := by
    rw [List.find?_isSome]; exact ⟨c, hc, by simp [hcn]⟩
  obtain ⟨c', hc'⟩ := Option.isSome_iff_exists.1 hsome
  have hid : c'.id = n := by simpa using List.find?_some hc'
  simp [tpKidBlock, tpBbOf, hc', tpBlock, hid]

theorem tpKidBlock_none (ts : List Tree) (i : Nat) (k : Nat × Nat) (h : k ∉ (ts.map Tree.id).map (fun c => (c, i))) :
    tpKidBlock sites ts i k = none := by
  unfold tpKidBlock
  by_cases h2 : k.2 = i
  · rw [if_pos h2]
    cases hf : ts.find? (fun c => c.id == k.1) with
    | none => rfl
    | some c =>
      exfalso
      apply h
      have hid : c.id = k.1 := by simpa using List.find?_some hf
      have hm := List.mem_of_find?_eq_some hf
      simp only [List.map_map, List.mem_map, Function.comp]
      exact ⟨c, hm, by rw [hid, ← h2]⟩
  · rw [if_neg h2]

theorem tpKidBlock_cons (c : Tree) (cs : List Tree) (i : Nat) (k : Nat × Nat) :
    tpKidBlock sites (c :: cs) i k = if k = (c.id, i) then some (tpBlock sites c i) else tpKidBlock sites cs i k := by
  obtain ⟨k1, k2⟩ := k
  unfold tpKidBlock
  by_cases h2 : k2 = i
  · by_cases h1 : c.id = k1
    · subst h1; subst h2; simp
    · have hb : (c.id == k1) = false := by simpa using h1
      have : ¬ ((k1, k2) = (c.id, i)) := by
        intro e; exact h1 (by simpa using (Prod.mk.inj e).1.symm)
      simp [h2, hb]
      intro e; exact absurd e.symm h1
  · have : ¬ ((k1, k2) = (c.id, i)) := fun e => h2 (Prod.mk.inj e).2
    simp [h2, this]


theorem tpKidsBinds_eq (i : Nat) : ∀ (ts : List Tree), (ts.map Tree.id).Nodup →
    (ts.map Tree.id).flatMap (fun n => tpBbOf sites ts n ++ [ketEdge i n]) = tpKidsBinds sites i ts
  | [], _ => by simp [tpKidsBinds]
  | c :: cs, hnd => by
    simp only [List.map_cons, List.nodup_cons] at hnd
    have ih := tpKidsBinds_eq i cs hnd.2
    have hhead : tpBbOf sites (c :: cs) c.id = tpBlockBinds sites c := by simp [tpBbOf]
    have htail : (cs.map Tree.id).flatMap (fun n => tpBbOf sites (c :: cs) n ++ [ketEdge i n])
        = (cs.map Tree.id).flatMap (fun n => tpBbOf sites cs n ++ [ketEdge i n]) := by
      apply flatMap_congr'
      intro n hn
      have hne : c.id ≠ n := fun e => hnd.1 (e ▸ hn)
      have hb : (c.id == n) = false := by simpa using hne
      simp [tpBbOf, hb]
    simp only [List.map_cons, List.flatMap_cons, hhead, htail, ih, tpKidsBinds]
/-- the two networks are the two labelled states on the same tree part: same parents, independent
child orders -/
def tpRep (s1 s2 : Net) (braKids : Nat → List Nat) (info : List (Nat × Option Nat × List Nat)) : Prop :=
  ∀ e ∈ info,
    s1.node e.1 = some ⟨e.2.1, e.2.2⟩ ∧ s1.tensor e.1 = some (tpKetT sites e.1 ⟨e.2.1, e.2.2⟩) ∧
    s2.node e.1 = some ⟨e.2.1, braKids e.1⟩ ∧ s2.tensor e.1 = some (gBraT e.1 ⟨e.2.1, braKids e.1⟩) ∧
    (braKids e.1).Perm e.2.2

section
variable (s1 s2 : Net) (braKids : Nat → List Nat)

/-- one node step, given that the blocks of all kids are in the dictionary -/
theorem tpStep_node (i p : Nat) (ks : List Tree) (d : Dict)
    (hnd : (Tree.node i ks).ids.Nodup) (hp : p ∉ (Tree.node i ks).ids)
    (hrep : tpRep sites s1 s2 braKids [(i, some p, ks.map Tree.id)])
    (hd : ∀ n ∈ ks.map Tree.id, d (n, i) = tpKidBlock sites ks i (n, i)) :
    ∃ d', ssStep s1 s2 d i = some d' ∧
      ∀ k, d' k = if k ∈ (ks.map Tree.id).map (fun c => (c, i)) then none
                  else if k = (i, p) then some (tpBlock sites (Tree.node i ks) p) else d k := by
  obtain ⟨h1, h2, h3, h4, hperm⟩ := hrep (i, some p, ks.map Tree.id) (by simp)
  simp only at h1 h2 h3 h4 hperm
  simp only [Tree.ids, List.nodup_cons] at hnd
  simp only [Tree.ids, List.mem_cons, not_or] at hp
  have hkn : (ks.map Tree.id).Nodup := Tree.nodup_kid_ids ks hnd.2
  have hpk : p ∉ ks.map Tree.id := fun hm => hp.2 (Tree.kid_id_mem ks p hm)
  have hik : i ∉ ks.map Tree.id := fun hm => hnd.1 (Tree.kid_id_mem ks i hm)
  have hK : (Node.mk (some p) (ks.map Tree.id)).nbrs.Nodup := by
    simp [Node.nbrs, hpk, hkn]
  have hpermN : (Node.mk (some p) (braKids i)).nbrs.Perm ((Node.mk (some p) (ks.map Tree.id)).nbrs.map id) := by
    simp [Node.nbrs, hperm]
  have hB : (Node.mk (some p) (braKids i)).nbrs.Nodup := by
    have := hpermN
    simp only [List.map_id] at this
    exact this.nodup_iff.2 hK
  have hfilter : (Node.mk (some p) (ks.map Tree.id)).nbrs.filter (· ≠ p) = ks.map Tree.id := by
    have := filter_ne_mid [] (ks.map Tree.id) p (by simp) hpk
    simpa [Node.nbrs] using this
  have hany := contract_any_nodes_general (Leg.gKet i) (Leg.gBra i) (fun n => Leg.gKet n i) (fun n => Leg.gBra n i)
    (tpY sites i) (Leg.gBraPhys i) (tpBbOf sites ks) (d.cacheOf i) ⟨some p, ks.map Tree.id⟩ ⟨some p, braKids i⟩ p id
    hK hB (by simp [Node.nbrs]) hpermN rfl
    (fun n hn hne => by
      have hn' : n ∈ ks.map Tree.id := by
        simp only [Node.nbrs, Option.toList_some, List.singleton_append, List.mem_cons] at hn
        rcases hn with e | hn
        · exact absurd e hne
        · exact hn
      simp only [Dict.cacheOf, hd n hn', tpKidBlock_of_mem sites ks i n hn'])
  have hkb := tpKidsBinds_eq sites i ks hkn
  simp only [ketEdge] at hkb
  rw [hfilter, hkb] at hany
  have hblock : ssContractAny i p s1 s2 d = some (tpBlock sites (Tree.node i ks) p) := by
    simp only [ssContractAny, h1, h2, h3, h4, tpKetT, gBraT]
    rw [contractAnyNodes_pre, hany]
    simp [tpBlock, tpBlockBinds, T.pre, Tree.id, braEdge, List.map_map, Function.comp]
  have hkeys : ((ks.map Tree.id).map (fun c => (c, i))).Nodup :=
    nodup_map_of_inj_on _ _ hkn (fun x _ y _ e => (Prod.mk.inj e).1)
  obtain ⟨d', hdel, hspec⟩ := Dict.deleteAll_spec (d.add (i, p) (tpBlock sites (Tree.node i ks) p))
    ((ks.map Tree.id).map (fun c => (c, i))) hkeys
    (fun k hk => by
      obtain ⟨n, hn, rfl⟩ := List.mem_map.1 hk
      have hne : ¬ ((n, i) = (i, p)) := fun e => hik ((Prod.mk.inj e).1 ▸ hn)
      simp only [Dict.add, hne, if_false, hd n hn, tpKidBlock_of_mem sites ks i n hn, Option.isSome_some])
  refine ⟨d', by simp only [ssStep, h1, hblock, hdel], fun k => ?_⟩
  rw [hspec k]
  by_cases hk : k ∈ (ks.map Tree.id).map (fun c => (c, i))
  · rw [if_pos hk, if_pos hk]
  · rw [if_neg hk, if_neg hk]
    rfl

mutual
theorem tpLoop_subtree :
    ∀ (t : Tree) (p : Nat) (d : Dict), t.ids.Nodup → p ∉ t.ids →
      tpRep sites s1 s2 braKids (Tree.info (some p) t) → (∀ j ∈ t.ids, ∀ x, d (j, x) = none) →
      ∃ d', ssLoop s1 s2 t.post d = some d' ∧
        ∀ k, d' k = if k = (t.id, p) then some (tpBlock sites t p) else d k
  | .node i ks, p, d, hnd, hp, hrep, hfresh => by
    have hnd' := hnd
    simp only [Tree.ids, List.nodup_cons] at hnd'
    obtain ⟨df, hf1, hf2⟩ := tpLoop_forest ks i d hnd'.2 hnd'.1
      (fun e he => hrep e (by simp [Tree.info, he]))
      (fun j hj x => hfresh j (by simp [Tree.ids, hj]) x)
    have hik : i ∉ ks.map Tree.id := fun hm => hnd'.1 (Tree.kid_id_mem ks i hm)
    obtain ⟨d', hs1, hs2⟩ := tpStep_node sites s1 s2 braKids i p ks df hnd hp
      (fun e he => by
        simp only [List.mem_singleton] at he
        subst he
        exact hrep _ (by simp [Tree.info]))
      (fun n hn => by
        rw [hf2 (n, i), tpKidBlock_of_mem sites ks i n hn])
    refine ⟨d', by simp [Tree.post, ssLoop_append, hf1, ssLoop, hs1], ?_⟩
    show ∀ k, d' k = if k = (i, p) then some (tpBlock sites (Tree.node i ks) p) else d k
    intro k
    rw [hs2 k]
    by_cases hk : k ∈ (ks.map Tree.id).map (fun c => (c, i))
    · obtain ⟨n, hn, rfl⟩ := List.mem_map.1 hk
      have hne : ¬ ((n, i) = (i, p)) := fun e => hik ((Prod.mk.inj e).1 ▸ hn)
      rw [if_pos hk, if_neg hne]
      exact (hfresh n (by simp [Tree.ids, Tree.kid_id_mem ks n hn]) i).symm
    · rw [if_neg hk]
      by_cases hk2 : k = (i, p)
      · simp [hk2]
      · rw [if_neg hk2, if_neg hk2, hf2 k, tpKidBlock_none sites ks i k hk]
theorem tpLoop_forest :
    ∀ (ts : List Tree) (i : Nat) (d : Dict), (Tree.idsL ts).Nodup → i ∉ Tree.idsL ts →
      tpRep sites s1 s2 braKids (Tree.infoL i ts) → (∀ j ∈ Tree.idsL ts, ∀ x, d (j, x) = none) →
      ∃ d', ssLoop s1 s2 (Tree.postL ts) d = some d' ∧
        ∀ k, d' k = match tpKidBlock sites ts i k with
                    | some b => some b
                    | none => d k
  | [], i, d, _, _, _, _ => ⟨d, by simp [Tree.postL, ssLoop], fun k => by simp [tpKidBlock]⟩
  | c :: cs, i, d, hnd, hi, hrep, hfresh => by
    simp only [Tree.idsL, List.nodup_append] at hnd
    simp only [Tree.idsL, List.mem_append, not_or] at hi
    obtain ⟨d1, h11, h12⟩ := tpLoop_subtree c i d hnd.1 hi.1
      (fun e he => hrep e (by simp [Tree.infoL, he]))
      (fun j hj x => hfresh j (by simp [Tree.idsL, hj]) x)
    obtain ⟨d2, h21, h22⟩ := tpLoop_forest cs i d1 hnd.2.1 hi.2
      (fun e he => hrep e (by simp [Tree.infoL, he]))
      (fun j hj x => by
        have hne : ¬ ((j, x) = (c.id, i)) := fun e =>
          hnd.2.2 _ (Tree.id_mem_ids c) _ hj (Prod.mk.inj e).1.symm
        rw [h12 (j, x), if_neg hne]
        exact hfresh j (by simp [Tree.idsL, hj]) x)
    refine ⟨d2, by simp [Tree.postL, ssLoop_append, h11, h21], fun k => ?_⟩
    rw [h22 k, tpKidBlock_cons sites]
    by_cases hk : k = (c.id, i)
    · have hnone : tpKidBlock sites cs i k = none := by
        apply tpKidBlock_none sites
        intro hm
        obtain ⟨n, hn, e⟩ := List.mem_map.1 hm
        rw [hk] at e
        have : n = c.id := (Prod.mk.inj e).1
        exact hnd.2.2 _ (Tree.id_mem_ids c) _ (Tree.kid_id_mem cs n hn) this.symm
      rw [hnone, if_pos hk, h12 k, if_pos hk]
    · rw [if_neg hk]
      cases hkb : tpKidBlock sites cs i k with
      | some b => rfl
      | none => simp only; rw [h12 k, if_neg hk]
end

end

/-- `trace_ttndo` on ANY network with the nodes of the TTNDO of the ket tree `kt`, its root and bra tensors, and the
ket tensors left by the absorption loop: succeeds, no free leg, the record in the order the code produces it -/
theorem tpTrace_eq (kt : Tree) (hnd : kt.ids.Nodup) (hodd : ∀ k ∈ kt.ids, k % 2 = 1) (nd : Net)
    (hr0 : nd.root = 0) (hord : nd.order = (ttndoNetK kt).order) (hnode : nd.node = (ttndoNetK kt).node)
    (hrt : nd.tensor 0 = some (T.fresh [rootKetLeg, rootBraLeg, rootOpenLeg]))
    (hket : ∀ e ∈ Tree.info (some 0) kt, nd.tensor e.1 = some (tpKetT sites e.1 ⟨e.2.1, e.2.2⟩))
    (hbra : ∀ e ∈ Tree.info (some 0) kt, nd.tensor (e.1 + 1) = some (gBraT e.1 ⟨e.2.1, e.2.2⟩)) :
    traceTtndo nd =
      some ⟨[], tpBlockBinds sites kt ++ [(rootKetLeg, Leg.gKet kt.id 0), (rootBraLeg, Leg.gBra kt.id 0)]⟩ := by
  have hlook := ttndo_lookup kt hnd hodd
  have hroot := ttndo_root_lookup kt
  have hstep : ∀ k ∈ kt.post, ∀ d, trStep nd d k = ssStep nd (braView nd) d k := by
    intro k hk d
    obtain ⟨e, he, rfl⟩ := info_mem_of_id (some 0) kt k (Tree.post_mem_ids kt k hk)
    obtain ⟨l1, _, l3, _⟩ := hlook e he
    have l2 := hket e he
    have l4 := hbra e he
    obtain ⟨p, hp⟩ := info_parent_some kt 0 e he
    have l3' : nd.node (e.1 + 1) = some ⟨some (braP p), e.2.2.map (· + 1)⟩ := by
      rw [hnode]; simpa [hp] using l3
    have l1' : nd.node e.1 = some ⟨some p, e.2.2⟩ := by rw [hnode]; simpa [hp] using l1
    simp only [trStep, ssStep, ssContractAny, braView, l1', l2, l3', ketToBra, l4, contractAnyNodes_relabel]
    rfl
  have hloop := trLoop_eq_ssLoop nd kt.post hstep Dict.empty
  have hrep : tpRep sites nd (braView nd) (kidsOfNet nd) (Tree.info (some 0) kt) := by
    intro e he
    obtain ⟨l1, _, _, _⟩ := hlook e he
    rw [← hnode] at l1
    refine ⟨l1, hket e he, ?_, ?_, ?_⟩
    · simp [braView, l1, kidsOfNet]
    · simp [braView, hbra e he, kidsOfNet, l1]
    · simp [kidsOfNet, l1]
  obtain ⟨d, hd1, hd2⟩ := tpLoop_subtree sites nd (braView nd) (kidsOfNet nd) kt 0
    Dict.empty hnd (fun h => by have := hodd 0 h; omega) hrep (fun _ _ _ => rfl)
  have horder : contractionOrder nd = kt.post := by
    simp only [contractionOrder, hord, ttndoNetK]
    exact filter_isKet kt.post (fun k hk => hodd k (Tree.post_mem_ids kt k hk))
  have hlen : nd.order.length ≠ 1 := by
    have := post_ne_nil kt
    rw [hord]
    simp only [ttndoNetK, List.length_append, List.length_map, List.length_cons, List.length_nil]
    cases hpo : kt.post with
    | nil => exact absurd hpo this
    | cons a as => simp
  have hidodd : kt.id % 2 = 1 := hodd kt.id (Tree.id_mem_ids kt)
  have hn0 : nd.node 0 = some ⟨none, [kt.id, kt.id + 1]⟩ := by rw [hnode]; exact hroot.1
  simp only [traceTtndo, hlen, if_false, horder, hloop, hd1, post_getLast, hr0, hd2 (kt.id, 0), if_true,
    contractFinalBlock, hn0, hrt]
  have hnn : (Node.mk none [kt.id, kt.id + 1]).nn = 2 := rfl
  have hfind : [kt.id, kt.id + 1].find? isKet = some kt.id := by simp [isKet, hidodd]
  have hi1 : (Node.mk none [kt.id, kt.id + 1]).neighbourIndex kt.id = some 0 := by
    simp [Node.neighbourIndex, Node.nparents]
  have hi2 : (Node.mk none [kt.id, kt.id + 1]).neighbourIndex (ketToBra kt.id) = some 1 := by
    have hb : (kt.id == kt.id + 1) = false := by simp
    simp [Node.neighbourIndex, Node.nparents, ketToBra, List.idxOf_cons, hb]
  simp only [hnn, ne_eq, not_true_eq_false, if_false, hfind, hi1, hi2, tpBlock, T.fresh]
  rw [tensordot_eq _ _ [0, 1] [0, 1] [rootKetLeg, rootBraLeg] [Leg.gKet kt.id 0, Leg.gBra kt.id 0] rfl
    (by simp) (by simp) (by simp [pick]) (by simp [pick])]
  simp [remaining]

end Ptn.C16.Ttndo
