import Ptn.C16.Value
/-! A concrete instance for the non-vacuity examples of the value-level theorems of C16: the state tree
`0 — 1` (ket tree `1 — 3`), integer node tensors that read every one of their legs, the root tensor
`eye(d).reshape(d, d, 1)` with `d = 3`, the padded root bond, and the contraction programs in the order in which
`trace_ttndo` / `ttndo_ttno_expectation_value` perform their `tensordot` calls. -/
namespace Ptn.C16.Ttndo.Demo

open Ptn.C04 Ptn.Ein Ptn.C16.Val

def leaf2 (a b : Leg) (g : Nat → Nat → Int) : Expr Leg Int :=
  .leaf [a, b] (fun σ => g (σ a) (σ b))
def leaf3 (a b c : Leg) (g : Nat → Nat → Nat → Int) : Expr Leg Int :=
  .leaf [a, b, c] (fun σ => g (σ a) (σ b) (σ c))

theorem leaf2_local (a b : Leg) (g : Nat → Nat → Int) :
    DependsOn (· ∈ [a, b]) (fun σ : Asg Leg => g (σ a) (σ b)) := by
  intro σ τ h
  show g (σ a) (σ b) = g (τ a) (τ b)
  rw [h a (by simp), h b (by simp)]

theorem leaf3_local (a b c : Leg) (g : Nat → Nat → Nat → Int) :
    DependsOn (· ∈ [a, b, c]) (fun σ : Asg Leg => g (σ a) (σ b) (σ c)) := by
  intro σ τ h
  show g (σ a) (σ b) (σ c) = g (τ a) (τ b) (τ c)
  rw [h a (by simp), h b (by simp), h c (by simp)]

/-- the state tree `0 — 1`; its ket tree is `1 — 3` -/
def st : Tree := .node 0 [.node 1 []]
def kt : Tree := ketTree st

/-- root of the state, padded on its root bond (index `r` of the new leading axis): zero for `r ≥ 1` -/
def gRoot (r b p : Nat) : Int := if r = 0 then (b : Int) + 2 * (p : Int) + 1 else 0
def gLeaf (b p : Nat) : Int := 3 * (b : Int) - (p : Int) + 1
def gOp1 (b o i : Nat) : Int := (b : Int) + 2 * (o : Int) - (i : Int) + 1
def gOp3 (b o i : Nat) : Int := if o = i then 1 else (b : Int) + 2

def k1 : Expr Leg Int := leaf3 (.gKet 1 0) (.gKet 1 3) (.gKetPhys 1) gRoot
def k3 : Expr Leg Int := leaf2 (.gKet 3 1) (.gKetPhys 3) gLeaf
/-- the bra copies carry the same (real) entries: conj of the ket tensors -/
def b1 : Expr Leg Int := leaf3 (.gBra 1 0) (.gBra 1 3) (.gBraPhys 1) gRoot
def b3 : Expr Leg Int := leaf2 (.gBra 3 1) (.gBraPhys 3) gLeaf
def o1 : Expr Leg Int := leaf3 (.gOp 1 3) (.gOpOut 1) (.gOpIn 1) gOp1
def o3 : Expr Leg Int := leaf3 (.gOp 3 1) (.gOpOut 3) (.gOpIn 3) gOp3

def rt : Expr Leg Int := .leaf rootLegs eyeRoot

/-- the dense ket vector, bra vector, operator -/
def K : Expr Leg Int := .dot k1 k3 [ketEdge 1 3]
def B : Expr Leg Int := .dot b3 b1 [braEdge 1 3]
def O : Expr Leg Int := .dot o3 o1 [opEdge 1 3]

/-- the `tensordot` calls of `trace_ttndo`: block of the leaf, then the root copy, then the root tensor -/
def trProg : Expr Leg Int :=
  .dot rt (.dot (.dot k1 (.dot k3 b3 [physPair 3]) [ketEdge 1 3]) b1 [braEdge 1 3, physPair 1]) (rootPairs kt)

/-- the `tensordot` calls of `ttndo_ttno_expectation_value` -/
def teProg : Expr Leg Int :=
  .dot rt (.dot (.dot (.dot k1 (.dot (.dot k3 o3 [physIn 3]) b3 [physOut 3]) [ketEdge 1 3]) o1
    [opEdge 1 3, physIn 1]) b1 [braEdge 1 3, physOut 1]) (rootPairs kt)

/-- root bond dimension 3, everything else 2 (the open leg of the root tensor has dimension 1) -/
def dim : Leg → Nat
  | .blkKet 0 => 3 | .blkBra 0 => 3 | .gKet 1 0 => 3 | .gBra 1 0 => 3 | .blkOp 0 => 1
  | _ => 2

theorem local_of_mem (lf : List Leg × (Asg Leg → Int))
    (h : lf ∈ [(rootLegs, eyeRoot)] ++ k1.leaves ++ k3.leaves ++ b1.leaves ++ b3.leaves ++ o1.leaves ++ o3.leaves) :
    DependsOn (· ∈ lf.1) lf.2 := by
  simp only [k1, k3, b1, b3, o1, o3, leaf2, leaf3, Expr.leaves, List.cons_append, List.nil_append, List.mem_cons,
    List.not_mem_nil, or_false] at h
  rcases h with rfl | rfl | rfl | rfl | rfl | rfl | rfl
  · exact eyeRoot_local
  · exact leaf3_local (.gKet 1 0) (.gKet 1 3) (.gKetPhys 1) gRoot
  · exact leaf2_local (.gKet 3 1) (.gKetPhys 3) gLeaf
  · exact leaf3_local (.gBra 1 0) (.gBra 1 3) (.gBraPhys 1) gRoot
  · exact leaf2_local (.gBra 3 1) (.gBraPhys 3) gLeaf
  · exact leaf3_local (.gOp 1 3) (.gOpOut 1) (.gOpIn 1) gOp1
  · exact leaf3_local (.gOp 3 1) (.gOpOut 3) (.gOpIn 3) gOp3

theorem swf_of (e : Expr Leg Int) (hnd : e.labels.Nodup) (hp : e.PairsOK)
    (hl : ∀ lf ∈ e.leaves, lf ∈ [(rootLegs, eyeRoot)] ++ k1.leaves ++ k3.leaves ++ b1.leaves ++ b3.leaves ++
      o1.leaves ++ o3.leaves) : e.SWF :=
  Expr.swf_of_clean e hnd (fun lf h => local_of_mem lf (hl lf h)) hp

theorem kt_eq : kt = .node 1 [.node 3 []] := by
  simp [kt, st, ketTree, ketTree.ketTreeL, ketOf]

theorem trProg_swf : trProg.SWF := by
  apply swf_of
  · decide
  · simp only [trProg, rt, k1, k3, b1, b3, leaf2, leaf3, Expr.PairsOK, Expr.free]
    decide
  · intro lf h
    simp only [trProg, rt, Expr.leaves, List.mem_append, List.mem_cons, List.not_mem_nil, or_false] at h ⊢
    tauto

theorem teProg_swf : teProg.SWF := by
  apply swf_of
  · decide
  · simp only [teProg, rt, k1, k3, b1, b3, o1, o3, leaf2, leaf3, Expr.PairsOK, Expr.free]
    decide
  · intro lf h
    simp only [teProg, rt, Expr.leaves, List.mem_append, List.mem_cons, List.not_mem_nil, or_false] at h ⊢
    tauto

/-- the record the model of `trace_ttndo` produces on this tree -/
def trBinds : List (Leg × Leg) :=
  [physPair 3, ketEdge 1 3, braEdge 1 3, physPair 1, (rootKetLeg, .gKet 1 0), (rootBraLeg, .gBra 1 0)]

theorem trace_run : traceTtndo (ttndoNetK (ketTree st)) = some ⟨[], trBinds⟩ := by decide

theorem K_swf : K.SWF := by
  apply swf_of
  · decide
  · simp only [K, k1, k3, leaf2, leaf3, Expr.PairsOK, Expr.free]
    decide
  · intro lf h
    simp only [K, Expr.leaves, List.mem_append, List.mem_cons, List.not_mem_nil, or_false] at h ⊢
    tauto

theorem B_swf : B.SWF := by
  apply swf_of
  · decide
  · simp only [B, b1, b3, leaf2, leaf3, Expr.PairsOK, Expr.free]
    decide
  · intro lf h
    simp only [B, Expr.leaves, List.mem_append, List.mem_cons, List.not_mem_nil, or_false] at h ⊢
    tauto

theorem O_swf : O.SWF := by
  apply swf_of
  · decide
  · simp only [O, o1, o3, leaf3, Expr.PairsOK, Expr.free]
    decide
  · intro lf h
    simp only [O, Expr.leaves, List.mem_append, List.mem_cons, List.not_mem_nil, or_false] at h ⊢
    tauto

theorem trace_hyps : TraceProgram (ketTree st) trBinds trProg K B eyeRoot where
  e_swf := trProg_swf
  K_wf := K_swf.wf
  B_wf := B_swf.wf
  root_local := eyeRoot_local
  disjoint := by decide
  root_fresh := by decide
  record := by decide
  K_bonds := by decide
  B_bonds := by decide
  phys_free := by decide
  rootK_free := by decide
  rootB_free := by decide
  leaves := by
    intro σ
    simp only [trProg, K, B, rt, k1, k3, b1, b3, leaf2, leaf3, Expr.leafProd, Expr.leaves, List.cons_append,
      List.nil_append, List.map_cons, List.map_nil, prodL]
    ring

/-- the TTNO has the same child order as the state -/
def opKids (k : Nat) : List Nat := if k = 1 then [3] else []

theorem opKids_perm : ∀ e ∈ Tree.info none (ketTree st), (opKids e.1).Perm e.2.2 := by decide

theorem ttno_run : ttndoTtnoExpectationValue (ttndoNetK (ketTree st)) (ttnoNetK (ketTree st) opKids) =
    some ⟨[], teBinds (ketTree st)⟩ := by decide

theorem ttno_hyps : TtnoProgram (ketTree st) (teBinds (ketTree st)) teProg K O B eyeRoot where
  e_swf := teProg_swf
  K_wf := K_swf.wf
  O_wf := O_swf.wf
  B_wf := B_swf.wf
  root_local := eyeRoot_local
  disjointKO := by decide
  disjointKB := by decide
  disjointOB := by decide
  root_fresh := by decide
  record := by decide
  K_bonds := by decide
  O_bonds := by decide
  B_bonds := by decide
  in_free := by decide
  out_free := by decide
  rootK_free := by decide
  rootB_free := by decide
  leaves := by
    intro σ
    simp only [teProg, K, O, B, rt, k1, k3, b1, b3, o1, o3, leaf2, leaf3, Expr.leafProd, Expr.leaves,
      List.cons_append, List.nil_append, List.map_cons, List.map_nil, prodL]
    ring

theorem dims_ok : ∀ p ∈ soSpec (ketTree st) ++ rootPairs (ketTree st), dim p.1 = dim p.2 := by decide

theorem sumR_zero (n : Nat) : sumR n (fun _ => (0 : Int)) = 0 := by
  simp [sumR_eq]

theorem padded : PaddedRoot dim (ketTree st) K B where
  dimK := by decide
  dimB := by decide
  K_zero := by
    intro τ h
    have h' : τ (Leg.gKet 1 0) ≠ 0 := h
    simp [K, k1, k3, leaf2, leaf3, Expr.eval, sumPairs, ketEdge, upd, gRoot, h', sumR_zero]
  B_zero := by
    intro τ h
    have h' : τ (Leg.gBra 1 0) ≠ 0 := h
    simp [B, b1, b3, leaf2, leaf3, Expr.eval, sumPairs, braEdge, upd, gRoot, h', sumR_zero]

/-- the padded root tensors themselves: leaves of `K` / `B` that vanish off index 0 of the root-bond leg -/
theorem padded_tensors :
    K.SWF ∧ B.SWF ∧ Leg.gKet (ketTree st).id 0 ∈ K.free ∧ Leg.gBra (ketTree st).id 0 ∈ B.free ∧
    (∃ kl ∈ K.leaves, ∀ ρ : Asg Leg, ρ (Leg.gKet (ketTree st).id 0) ≠ 0 → kl.2 ρ = 0) ∧
    (∃ bl ∈ B.leaves, ∀ ρ : Asg Leg, ρ (Leg.gBra (ketTree st).id 0) ≠ 0 → bl.2 ρ = 0) ∧
    0 < dim rootKetLeg ∧ 0 < dim rootBraLeg := by
  refine ⟨K_swf, B_swf, by decide, by decide, ?_, ?_, by decide, by decide⟩
  · refine ⟨([.gKet 1 0, .gKet 1 3, .gKetPhys 1], fun σ => gRoot (σ (.gKet 1 0)) (σ (.gKet 1 3)) (σ (.gKetPhys 1))),
      ?_, ?_⟩
    · simp [K, k1, leaf3, Expr.leaves]
    · intro ρ h
      have h' : ρ (Leg.gKet 1 0) ≠ 0 := h
      simp [gRoot, h']
  · refine ⟨([.gBra 1 0, .gBra 1 3, .gBraPhys 1], fun σ => gRoot (σ (.gBra 1 0)) (σ (.gBra 1 3)) (σ (.gBraPhys 1))),
      ?_, ?_⟩
    · simp [B, b1, leaf3, Expr.leaves]
    · intro ρ h
      have h' : ρ (Leg.gBra 1 0) ≠ 0 := h
      simp [gRoot, h']

end Ptn.C16.Ttndo.Demo
