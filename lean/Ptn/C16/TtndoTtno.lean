import Ptn.C04.GraphSO
import Ptn.C16.TtndoTrace
/-! `ttndo_ttno_expectation_value`: the loop over the ket nodes is the three-layer loop of C04 on renamed
networks. -/
namespace Ptn.C16.Ttndo
open Ptn.C04

/-! ### renaming the neighbours of the operator node -/

theorem revKet_inj {a b : Nat} (ha : a % 2 = 1) (hb : b % 2 = 1) (h : revKet a = revKet b) : a = b := by
  simp only [revKet] at h; omega

theorem idxOf_map_revKet (l : List Nat) (n : Nat) (hl : ∀ c ∈ l, c % 2 = 1) (hn : n % 2 = 1) :
    (l.map revKet).idxOf (revKet n) = l.idxOf n := by
  induction l with
  | nil => rfl
  | cons a as ih =>
    have ha := hl a (by simp)
    by_cases h : a = n
    · subst h; simp
    · have h1 : (a == n) = false := by simpa using h
      have h2 : (revKet a == revKet n) = false := by
        simpa using fun e => h (revKet_inj ha hn e)
      simp [List.idxOf_cons, h1, h2, ih (fun c hc => hl c (by simp [hc]))]

theorem neighbourIndex_revKet (po : Option Nat) (co : List Nat) (n : Nat) (hpo : ∀ q, po = some q → q % 2 = 1)
    (hco : ∀ c ∈ co, c % 2 = 1) (hn : n % 2 = 1) :
    (Node.mk (po.map revKet) (co.map revKet)).neighbourIndex (revKet n) = (Node.mk po co).neighbourIndex n := by
  have hpar : (po.map revKet = some (revKet n)) ↔ (po = some n) := by
    cases po with
    | none => simp
    | some q =>
      simp only [Option.map_some, Option.some.injEq]
      exact ⟨fun e => revKet_inj (hpo q rfl) hn e, fun e => by rw [e]⟩
  have hmem : (revKet n ∈ co.map revKet) ↔ (n ∈ co) := by
    constructor
    · intro h
      obtain ⟨m, hm, e⟩ := List.mem_map.1 h
      exact (revKet_inj (hco m hm) hn e) ▸ hm
    · intro h; exact List.mem_map.2 ⟨n, h, rfl⟩
  have hnp : (Node.mk (po.map revKet) (co.map revKet)).nparents = (Node.mk po co).nparents := by
    cases po <;> rfl
  simp only [Node.neighbourIndex, idxOf_map_revKet co n hco hn, hnp]
  by_cases h1 : po = some n
  · simp [h1]
  · have h1' : ¬ (po.map revKet = some (revKet n)) := fun e => h1 (hpar.1 e)
    by_cases h2 : n ∈ co
    · simp [h1, h1', h2, hmem.2 h2]
    · have h2' : revKet n ∉ co.map revKet := fun e => h2 (hmem.1 e)
      simp [h1, h1', h2, h2']

theorem equivLoop_relabel_op (n1 : Node) (po : Option Nat) (co : List Nat) (ign : List Nat) (l : List Nat)
    (hpo : ∀ q, po = some q → q % 2 = 1) (hco : ∀ c ∈ co, c % 2 = 1)
    (hl : ∀ n ∈ l, ign.contains n = false → n % 2 = 1) :
    equivLoop n1 ⟨po.map revKet, co.map revKet⟩ ign revKet l = equivLoop n1 ⟨po, co⟩ ign id l := by
  induction l with
  | nil => rfl
  | cons n rest ih =>
    have ih' := ih (fun m hm => hl m (by simp [hm]))
    simp only [equivLoop, ih']
    cases hc : ign.contains n with
    | true => rfl
    | false =>
      simp only [Bool.false_eq_true, if_false, neighbourIndex_revKet po co n hpo hco (hl n (by simp) hc), id]

theorem equivLoop_relabel_bra (n1 : Node) (p : Nat) (kids : List Nat) (l : List Nat) :
    equivLoop n1 ⟨some (braP p), kids.map (· + 1)⟩ [p] ketToBra l = equivLoop n1 ⟨some p, kids⟩ [p] id l := by
  induction l with
  | nil => rfl
  | cons n rest ih =>
    simp only [equivLoop, ih]
    by_cases hn : n = p
    · simp [hn]
    · have hc : ([p] : List Nat).contains n = false := by simpa using hn
      simp only [hc, Bool.false_eq_true, if_false, neighbourIndex_relabel p kids n hn, id]

/-- the step of `ttndo_ttno_expectation_value` on the real (renamed) nodes is the three-layer step of C04 -/
theorem opAny_relabel (p : Nat) (kids : List Nat) (po : Option Nat) (co : List Nat) (t1 tO tB : T) (cache : Cache)
    (hp : ∀ n ∈ kids, n % 2 = 1) (hpo : ∀ q, po = some q → q % 2 = 1) (hco : ∀ c ∈ co, c % 2 = 1) :
    opContractAnyNodeEnvironmentButOne p ⟨some p, kids⟩ t1 ⟨po.map revKet, co.map revKet⟩ tO cache
        ⟨some (braP p), kids.map (· + 1)⟩ tB revKet ketToBra =
      opContractAnyNodeEnvironmentButOne p ⟨some p, kids⟩ t1 ⟨po, co⟩ tO cache ⟨some p, kids⟩ tB id id := by
  have hl : ∀ n ∈ (Node.mk (some p) kids).nbrs, ([p] : List Nat).contains n = false → n % 2 = 1 := by
    intro n hn hc
    simp only [Node.nbrs, Option.toList_some, List.singleton_append, List.mem_cons] at hn
    rcases hn with rfl | hn
    · simp at hc
    · exact hp n hn
  have hnnO : (Node.mk (po.map revKet) (co.map revKet)).nn = (Node.mk po co).nn := by
    cases po <;> simp [Node.nn, Node.nparents]
  have hnnB : (Node.mk (some (braP p)) (kids.map (· + 1))).nn = (Node.mk (some p) kids).nn := by
    simp [Node.nn, Node.nparents]
  simp only [opContractAnyNodeEnvironmentButOne, opContractLeaf, opContractSubtreesUsingDictionary,
    contractOperatorTensorIgnoringOneLeg, contractBraTensorIgnoreOneLeg, getEquivalentLegs,
    equivLoop_relabel_op _ po co [p] _ hpo hco hl, equivLoop_relabel_bra, nodeOperatorInputLeg,
    nodeOperatorOutputLeg, nodeStatePhysLeg, hnnO, hnnB]

/-! ### the node table of the TTNO and its reading through the ket identifiers -/

theorem ketOf_revKet (q : Nat) (h : q % 2 = 1) : ketOf (revKet q) = q := by
  simp only [ketOf, revKet]; omega

theorem map_ketOf_revKet (l : List Nat) (h : ∀ c ∈ l, c % 2 = 1) : (l.map revKet).map ketOf = l := by
  induction l with
  | nil => rfl
  | cons a as ih =>
    simp [ketOf_revKet a (h a (by simp)), ih (fun c hc => h c (by simp [hc]))]

/-- the TTNO read through the ket identifiers -/
def opView (ttno : Net) : Net :=
  { root := ttno.root
    node := fun k => (ttno.node (revKet k)).map (fun nd => ⟨nd.parent.map ketOf, nd.children.map ketOf⟩)
    tensor := fun k => ttno.tensor (revKet k)
    order := [] }

theorem ttno_lookup (kt : Tree) (opKids : Nat → List Nat) (hnd : kt.ids.Nodup) (hodd : ∀ k ∈ kt.ids, k % 2 = 1)
    (e : Nat × Option Nat × List Nat) (he : e ∈ Tree.info none kt) :
    (ttnoNetK kt opKids).node (revKet e.1) = some ⟨e.2.1.map revKet, (opKids e.1).map revKet⟩ ∧
    (ttnoNetK kt opKids).tensor (revKet e.1) = some (gOpT e.1 ⟨e.2.1, opKids e.1⟩) := by
  have hkeys : (((Tree.info none kt).map fun e => (revKet e.1,
      (⟨e.2.1.map revKet, (opKids e.1).map revKet⟩ : Node), gOpT e.1 ⟨e.2.1, opKids e.1⟩)).map (·.1)).Nodup := by
    rw [List.map_map]
    have : ((fun x : Nat × Node × T => x.1) ∘ fun e : Nat × Option Nat × List Nat =>
        (revKet e.1, (⟨e.2.1.map revKet, (opKids e.1).map revKet⟩ : Node), gOpT e.1 ⟨e.2.1, opKids e.1⟩))
        = revKet ∘ (·.1) := rfl
    rw [this, ← List.map_map, Tree.info_keys]
    exact nodup_map_of_inj_on _ _ hnd (fun x hx y hy e => revKet_inj (hodd x hx) (hodd y hy) e)
  have := find?_of_nodup_keys _ hkeys (revKet e.1, (⟨e.2.1.map revKet, (opKids e.1).map revKet⟩ : Node),
    gOpT e.1 ⟨e.2.1, opKids e.1⟩) (List.mem_map.2 ⟨e, he, rfl⟩)
  simp only at this
  simp only [ttnoNetK, this, Option.map_some, and_self]

mutual
theorem info_kids_mem (q : Option Nat) : ∀ (t : Tree) (e : Nat × Option Nat × List Nat),
    e ∈ Tree.info q t → ∀ c ∈ e.2.2, c ∈ t.ids
  | .node i ks, e, he, c, hc => by
    simp only [Tree.info, List.mem_cons] at he
    rcases he with rfl | he
    · simp only [Tree.ids, List.mem_cons]; exact Or.inr (Tree.kid_id_mem ks c hc)
    · simp only [Tree.ids, List.mem_cons]; exact Or.inr (infoL_kids_mem i ks e he c hc)
theorem infoL_kids_mem (r : Nat) : ∀ (ts : List Tree) (e : Nat × Option Nat × List Nat),
    e ∈ Tree.infoL r ts → ∀ c ∈ e.2.2, c ∈ Tree.idsL ts
  | [], e, he, _, _ => by simp [Tree.infoL] at he
  | t :: ts, e, he, c, hc => by
    simp only [Tree.infoL, List.mem_append] at he
    simp only [Tree.idsL, List.mem_append]
    rcases he with he | he
    · exact Or.inl (info_kids_mem (some r) t e he c hc)
    · exact Or.inr (infoL_kids_mem r ts e he c hc)
end

mutual
theorem info_parent_cases (q : Option Nat) : ∀ (t : Tree) (e : Nat × Option Nat × List Nat),
    e ∈ Tree.info q t → e.2.1 = q ∨ ∃ p ∈ t.ids, e.2.1 = some p
  | .node i ks, e, he => by
    simp only [Tree.info, List.mem_cons] at he
    rcases he with rfl | he
    · exact Or.inl rfl
    · rcases infoL_parent_cases i ks e he with h | ⟨p, hp, h⟩
      · exact Or.inr ⟨i, by simp [Tree.ids], h⟩
      · exact Or.inr ⟨p, by simp [Tree.ids, hp], h⟩
theorem infoL_parent_cases (r : Nat) : ∀ (ts : List Tree) (e : Nat × Option Nat × List Nat),
    e ∈ Tree.infoL r ts → e.2.1 = some r ∨ ∃ p ∈ Tree.idsL ts, e.2.1 = some p
  | [], e, he => by simp [Tree.infoL] at he
  | t :: ts, e, he => by
    simp only [Tree.infoL, List.mem_append] at he
    rcases he with he | he
    · rcases info_parent_cases (some r) t e he with h | ⟨p, hp, h⟩
      · exact Or.inl h
      · exact Or.inr ⟨p, by simp [Tree.idsL, hp], h⟩
    · rcases infoL_parent_cases r ts e he with h | ⟨p, hp, h⟩
      · exact Or.inl h
      · exact Or.inr ⟨p, by simp [Tree.idsL, hp], h⟩
end

theorem info_parent_mem (t : Tree) (e : Nat × Option Nat × List Nat) (he : e ∈ Tree.info none t) (p : Nat)
    (hp : e.2.1 = some p) : p ∈ t.ids := by
  rcases info_parent_cases none t e he with h | ⟨q, hq, h⟩
  · rw [hp] at h; exact absurd h (by simp)
  · rw [hp] at h; exact (Option.some.inj h) ▸ hq

theorem infoL_sub_both (r : Nat) (ks : List Tree) (q : Option Nat) (e : Nat × Option Nat × List Nat)
    (he : e ∈ Tree.infoL r ks) : e ∈ Tree.info q (.node r ks) := by
  simp [Tree.info, he]

section
variable (kt : Tree) (opKids : Nat → List Nat) (hnd : kt.ids.Nodup) (hodd : ∀ k ∈ kt.ids, k % 2 = 1)
variable (hperm : ∀ e ∈ Tree.info none kt, (opKids e.1).Perm e.2.2)
include hnd hodd hperm

/-- facts about a non-root entry -/
theorem entry_facts (r : Nat) (ks : List Tree) (hkt : kt = .node r ks) (e : Nat × Option Nat × List Nat)
    (he : e ∈ Tree.infoL r ks) :
    ∃ p, e.2.1 = some p ∧ p % 2 = 1 ∧ (∀ c ∈ e.2.2, c % 2 = 1) ∧ (∀ c ∈ opKids e.1, c % 2 = 1) ∧ e.1 % 2 = 1 := by
  subst hkt
  obtain ⟨p, hp⟩ := infoL_parent_some ks r e he
  have hmem : e ∈ Tree.info none (Tree.node r ks) := infoL_sub_both r ks none e he
  have hid : e.1 ∈ (Tree.node r ks).ids := Tree.info_sub_ids none _ e hmem
  have hkids : ∀ c ∈ e.2.2, c ∈ (Tree.node r ks).ids := by
    intro c hc
    exact info_kids_mem none (Tree.node r ks) e hmem c hc
  have hpar : p ∈ (Tree.node r ks).ids := info_parent_mem (Tree.node r ks) e hmem p hp
  refine ⟨p, hp, hodd p hpar, fun c hc => hodd c (hkids c hc), ?_, hodd e.1 hid⟩
  intro c hc
  exact hodd c (hkids c ((hperm e hmem).mem_iff.1 hc))

end

end Ptn.C16.Ttndo
