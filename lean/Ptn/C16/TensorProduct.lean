import Ptn.C16.TtndoModel
import Ptn.C04.Lemmas
/-! Model of `SymmetricTTNDO.tensor_product_expectation_value` (pytreenet/ttns/ttndo.py, after the repair
66962a9 of F-C16) and of `TreeTensorNetwork.absorb_into_open_legs` (pytreenet/core/ttn.py) for nodes with ONE
open leg (every ket copy of a TTNDO).  Core Lean only.

  absorb_into_open_legs(node_id, tensor)      ↔ absorbIntoOpenLegs / absorbNet
  tensor_product_expectation_value(operator)  ↔ tensorProductExpectationValue

The routine works on a deep copy (the model is a pure function of the network: the argument is never changed),
absorbs EVERY single-site operator of the dictionary into the ket copy of its site and calls `trace()`.
The single-site operator of ket node `k` is the two-leg tensor `[gOpOut k, gOpIn k]`; the state is contracted with
axis 1 (`tensor_legs = [i + nopen_legs …]`), the output leg takes the place of the physical leg (last axis). -/
namespace Ptn.C16.Ttndo
open Ptn.C04

/-- the single-site operator on ket node `k`: axes (output, input) -/
def siteOpT (k : Nat) : T := T.fresh [Leg.gOpOut k, Leg.gOpIn k]

/-- `absorb_into_open_legs` for a node whose open legs are `[nn]` (one physical leg, the last axis) -/
def absorbIntoOpenLegs (node : Node) (nodeTensor op : T) : Option T :=
  if op.legs.length ≠ 2 * 1 then none                       -- assert tensor.ndim == 2 * nopen_legs
  else tensordot nodeTensor op [node.nn] [1]                -- axes = (open_legs, [i + nopen_legs])

/-- `self.tensors[node_id] = new_tensor` -/
def Net.setTensor (nd : Net) (k : Nat) (t : T) : Net :=
  { nd with tensor := fun k' => if k' = k then some t else nd.tensor k' }

/-- `ttn.absorb_into_open_legs(ket_id, single_site_operator)` on the network -/
def absorbNet (nd : Net) (k : Nat) : Option Net :=
  match nd.node k, nd.tensor k with
  | some node, some t =>
    match absorbIntoOpenLegs node t (siteOpT k) with
    | none => none
    | some r => some (Net.setTensor nd k r)
  | _, _ => none                                             -- KeyError

/-- the loop over `operator.items()` (ALL factors: the repaired F-C16) -/
def absorbAll : List Nat → Net → Option Net
  | [], nd => some nd
  | k :: rest, nd =>
    match absorbNet nd k with
    | none => none
    | some nd1 => absorbAll rest nd1

/-- `tensor_product_expectation_value`; `sites` = ket identifiers of the keys of the `TensorProduct` in dict order -/
def tensorProductExpectationValue (nd : Net) (sites : List Nat) : Option T :=
  if sites.length = 0 then traceTtndo nd
  else
    match absorbAll sites nd with
    | none => none
    | some nd1 => traceTtndo nd1

/-! ### the specification graph -/

/-- the physical pair of ket node `i`: the operator's output leg faces the bra copy where an operator acts -/
def tpPhysPair (sites : List Nat) (i : Nat) : Leg × Leg :=
  if i ∈ sites then (Leg.gOpOut i, Leg.gBraPhys i) else (Leg.gKetPhys i, Leg.gBraPhys i)

/-- one pair per factor: (physical leg of the ket copy, operator input) -/
def tpAbsorbed (sites : List Nat) : List (Leg × Leg) := sites.map fun s => (Leg.gKetPhys s, Leg.gOpIn s)

/-- the record of the tensor-product expectation value: the trace record with the operator's output leg in
the place of the ket physical leg at the named sites, plus one pair per factor -/
def tpSpec (kt : Tree) (sites : List Nat) : List (Leg × Leg) :=
  tpAbsorbed sites ++ kt.ids.map (tpPhysPair sites) ++
    (kt.edges.map fun e => ketEdge e.1 e.2) ++ (kt.edges.map fun e => braEdge e.1 e.2) ++
    [(rootKetLeg, Leg.gKet kt.id 0), (rootBraLeg, Leg.gBra kt.id 0)]

/-- the run succeeded, left no free leg and its record is `tpSpec` up to order (decision procedure) -/
def tpRecordOk (kt : Tree) (sites : List Nat) : Bool :=
  match tensorProductExpectationValue (ttndoNetK kt) sites with
  | some t => t.legs.isEmpty && t.binds.isPerm (tpSpec kt sites)
  | none => false

/-- relabelling of a tensor of the calculus -/
def T.relabel (f : Leg → Leg) (t : T) : T := ⟨t.legs.map f, t.binds.map fun p => (f p.1, f p.2)⟩

/-- the renaming "the physical leg of ket node `s` is now the operator's output leg" -/
def tpRename (sites : List Nat) : Leg → Leg
  | .gKetPhys i => if i ∈ sites then .gOpOut i else .gKetPhys i
  | l => l

/-! ### lemmas: one absorption, and the calculus does not look at names -/

theorem pick_map (f : Leg → Leg) (l : List Leg) : ∀ idx : List Nat, pick (l.map f) idx = (pick l idx).map (List.map f)
  | [] => rfl
  | i :: is => by
    simp only [pick, List.getElem?_map, pick_map f l is]
    cases l[i]? <;> cases pick l is <;> rfl

theorem remaining_map (f : Leg → Leg) (idx : List Nat) : ∀ (k : Nat) (l : List Leg),
    remaining idx k (l.map f) = (remaining idx k l).map f
  | _, [] => rfl
  | k, x :: xs => by
    simp only [List.map_cons, remaining, remaining_map f idx (k + 1) xs]
    split <;> rfl

/-- **`tensordot` is positional**: renaming the legs of both operands (by ANY map) renames the result -/
theorem tensordot_relabel (f : Leg → Leg) (a b : T) (ia ib : List Nat) :
    tensordot (T.relabel f a) (T.relabel f b) ia ib = (tensordot a b ia ib).map (T.relabel f) := by
  unfold tensordot
  by_cases h1 : ia.length ≠ ib.length
  · simp [h1]
  by_cases h2 : ¬ ia.Nodup ∨ ¬ ib.Nodup
  · simp [h1, h2]
  simp only [h1, h2, if_false, T.relabel, pick_map, remaining_map]
  cases pick a.legs ia <;> cases pick b.legs ib <;>
    simp [T.relabel, List.map_append, List.zip_map]

theorem getElem?_nbrs_phys (f : Nat → Leg) (x : Leg) (node : Node) :
    (node.nbrs.map f ++ [x])[node.nn]? = some x := by
  have : (node.nbrs.map f).length = node.nn := by
    cases node with
    | mk p c => cases p <;> simp [Node.nbrs, Node.nn, Node.nparents] <;> omega
  rw [List.getElem?_append_right (by omega)]
  simp [this]

theorem eraseIdx_nbrs_phys (f : Nat → Leg) (x : Leg) (node : Node) :
    (node.nbrs.map f ++ [x]).eraseIdx node.nn = node.nbrs.map f := by
  have : (node.nbrs.map f).length = node.nn := by
    cases node with
    | mk p c => cases p <;> simp [Node.nbrs, Node.nn, Node.nparents] <;> omega
  rw [List.eraseIdx_append_of_length_le (by omega)]
  simp [this]

/-- one absorption, for every node shape: the operator's input is bound to the physical leg, its output takes the
physical leg's place as the last axis, the virtual legs keep their order -/
theorem absorbIntoOpenLegs_gKetT (k : Nat) (node : Node) :
    absorbIntoOpenLegs node (gKetT k node) (siteOpT k) =
      some ⟨node.nbrs.map (Leg.gKet k) ++ [Leg.gOpOut k], [(Leg.gKetPhys k, Leg.gOpIn k)]⟩ := by
  simp only [absorbIntoOpenLegs, siteOpT, T.fresh, List.length_cons, List.length_nil, gKetT]
  rw [tensordot_one _ _ node.nn 1 (Leg.gKetPhys k) (Leg.gOpIn k) (getElem?_nbrs_phys _ _ _) rfl]
  simp [eraseIdx_nbrs_phys]

/-- the absorbed tensor is the ket tensor under the renaming, with the one pair logged -/
theorem absorbed_eq_relabel (sites : List Nat) (k : Nat) (hk : k ∈ sites) (node : Node) :
    absorbIntoOpenLegs node (gKetT k node) (siteOpT k) =
      some ⟨(T.relabel (tpRename sites) (gKetT k node)).legs, [(Leg.gKetPhys k, Leg.gOpIn k)]⟩ := by
  rw [absorbIntoOpenLegs_gKetT]
  simp [T.relabel, gKetT, T.fresh, tpRename, hk, Function.comp_def]

end Ptn.C16.Ttndo
