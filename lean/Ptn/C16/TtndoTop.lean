import Ptn.C16.TtndoRoot
/-! `ttndo_ttno_expectation_value`: assembly. -/
namespace Ptn.C16.Ttndo
open Ptn.C04

theorem teLoop_eq_soLoop (ttndo ttno : Net) (l : List Nat)
    (h : ∀ k ∈ l, ∀ d, teStep ttndo ttno d k = soStep ttndo (opView ttno) gBraT d k) :
    ∀ d, teLoop ttndo ttno l d = soLoop ttndo (opView ttno) gBraT l d := by
  induction l with
  | nil => intro d; rfl
  | cons k rest ih =>
    intro d
    simp only [teLoop, soLoop, h k (by simp) d]
    cases soStep ttndo (opView ttno) gBraT d k with
    | none => rfl
    | some d1 => exact ih (fun k' hk' => h k' (by simp [hk'])) d1

theorem braOf_revKet (q : Nat) (h : q % 2 = 1) : braOf (revKet q) = q + 1 := by
  simp only [braOf, revKet]; omega

theorem postL_eq_nil : ∀ ks : List Tree, Tree.postL ks = [] → ks = []
  | [], _ => rfl
  | t :: ts, h => by
    simp only [Tree.postL, List.append_eq_nil_iff] at h
    exact absurd h.1 (post_ne_nil t)

theorem idxOf_cons_zero (K : List Nat) (n : Nat) (h : n ≠ 0) : (0 :: K).idxOf n = K.idxOf n + 1 := by
  have hb : ((0 : Nat) == n) = false := by simpa using fun e => h e.symm
  simp [List.idxOf_cons, hb]

/-- the binds of the whole contraction, in the order the code produces them -/
def teBinds (kt : Tree) : List (Leg × Leg) :=
  (if kt.kids.isEmpty then [(physOut kt.id).swap, (physIn kt.id).swap] else soBlockBinds kt) ++
    [(rootKetLeg, Leg.gKet kt.id 0), (rootBraLeg, Leg.gBra kt.id 0)]

theorem ttndoTtno_eq (kt : Tree) (opKids : Nat → List Nat) (hnd : kt.ids.Nodup) (hodd : ∀ k ∈ kt.ids, k % 2 = 1)
    (hperm : ∀ e ∈ Tree.info none kt, (opKids e.1).Perm e.2.2) :
    ttndoTtnoExpectationValue (ttndoNetK kt) (ttnoNetK kt opKids) = some ⟨[], teBinds kt⟩ := by
  obtain ⟨r, ks⟩ := kt
  have hlook := ttndo_lookup (.node r ks) hnd hodd
  have holook := ttno_lookup (.node r ks) opKids hnd hodd
  have hfacts := entry_facts (.node r ks) opKids hnd hodd hperm r ks rfl
  have hrodd : r % 2 = 1 := hodd r (by simp [Tree.ids])
  have hnd' := hnd
  simp only [Tree.ids, List.nodup_cons] at hnd'
  -- A: every loop iteration is an iteration of the three-layer loop of C04
  have hstep : ∀ k ∈ Tree.postL ks, ∀ d, teStep (ttndoNetK (.node r ks)) (ttnoNetK (.node r ks) opKids) d k =
      soStep (ttndoNetK (.node r ks)) (opView (ttnoNetK (.node r ks) opKids)) gBraT d k := by
    intro k hk d
    have hkid : k ∈ Tree.idsL ks := Tree.postL_mem_ids ks k hk
    obtain ⟨e, he, rfl⟩ : ∃ e ∈ Tree.infoL r ks, e.1 = k := by
      rw [← Tree.infoL_keys r ks] at hkid
      obtain ⟨e, he, rfl⟩ := List.mem_map.1 hkid
      exact ⟨e, he, rfl⟩
    obtain ⟨p, hp, hpodd, hkids, hokids, heodd⟩ := hfacts e he
    obtain ⟨l1, l2, l3, l4⟩ := hlook e (infoL_sub_both r ks (some 0) e he)
    obtain ⟨o1, o2⟩ := holook e (infoL_sub_both r ks none e he)
    rw [hp] at l1 l2 l3 l4 o1 o2
    simp only [Option.map_some] at l3 o1
    have hov : (opView (ttnoNetK (.node r ks) opKids)).node e.1 = some ⟨some p, opKids e.1⟩ := by
      simp only [opView, o1, Option.map_some, ketOf_revKet p hpodd, map_ketOf_revKet _ hokids]
    have hot : (opView (ttnoNetK (.node r ks) opKids)).tensor e.1 = some (gOpT e.1 ⟨some p, opKids e.1⟩) := by
      simp only [opView, o2]
    have hrel := opAny_relabel p e.2.2 (some p) (opKids e.1) (gKetT e.1 ⟨some p, e.2.2⟩) (gOpT e.1 ⟨some p, opKids e.1⟩)
      (gBraT e.1 ⟨some p, e.2.2⟩) (d.cacheOf e.1) hkids (fun q hq => by cases hq; exact hpodd) hokids
    simp only [Option.map_some] at hrel
    simp only [teStep, soStep, soContractAny, l1, l2, ketToBra, l3, l4, o1, o2, hov, hot, hrel]
    rfl
  have hloop := teLoop_eq_soLoop (ttndoNetK (.node r ks)) (ttnoNetK (.node r ks) opKids) (Tree.postL ks) hstep Dict.empty
  -- C/D: the blocks of the kids of the root
  have hrep : RepO (ttndoNetK (.node r ks)) (opView (ttnoNetK (.node r ks) opKids)) opKids (Tree.infoL r ks) := by
    intro e he
    obtain ⟨p, hp, hpodd, hkids, hokids, heodd⟩ := hfacts e he
    obtain ⟨l1, l2, _, _⟩ := hlook e (infoL_sub_both r ks (some 0) e he)
    obtain ⟨o1, o2⟩ := holook e (infoL_sub_both r ks none e he)
    refine ⟨l1, l2, ?_, ?_, hperm e (infoL_sub_both r ks none e he)⟩
    · rw [hp] at o1 ⊢
      simp only [Option.map_some] at o1
      simp only [opView, o1, Option.map_some, ketOf_revKet p hpodd, map_ketOf_revKet _ hokids]
    · simp only [opView, o2]
  obtain ⟨d, hd1, hd2⟩ := soLoop_forest (ttndoNetK (.node r ks)) (opView (ttnoNetK (.node r ks) opKids)) opKids ks r
    Dict.empty hnd'.2 hnd'.1 hrep (fun _ _ _ => rfl)
  have horder : contractionOrder (ttndoNetK (.node r ks)) = Tree.postL ks ++ [r] := by
    simp only [contractionOrder, ttndoNetK]
    exact filter_isKet (Tree.node r ks).post (fun k hk => hodd k (Tree.post_mem_ids _ k hk))
  -- F: the root step
  have hre := hlook (r, some 0, ks.map Tree.id) (by simp [Tree.info])
  obtain ⟨k1, k2, k3, k4⟩ := hre
  simp only [Option.map_some] at k3
  obtain ⟨r1, r2⟩ := holook (r, none, ks.map Tree.id) (by simp [Tree.info])
  simp only [Option.map_none] at r1
  have hpr : (opKids r).Perm (ks.map Tree.id) := hperm (r, none, ks.map Tree.id) (by simp [Tree.info])
  have hKodd : ∀ c ∈ ks.map Tree.id, c % 2 = 1 := fun c hc =>
    hodd c (by simp [Tree.ids, Tree.kid_id_mem ks c hc])
  have hOodd : ∀ c ∈ opKids r, c % 2 = 1 := fun c hc => hKodd c (hpr.mem_iff.1 hc)
  have hKnd : (ks.map Tree.id).Nodup := Tree.nodup_kid_ids ks hnd'.2
  have hK0 : (0 : Nat) ∉ ks.map Tree.id := fun h => by have := hKodd 0 h; omega
  have hrootT : (ttnoNetK (.node r ks) opKids).root = revKet r := rfl
  have hnN : (ttnoNetK (.node r ks) opKids).order.length = (Tree.postL ks).length + 1 := by
    simp [ttnoNetK, Tree.post]
  have hfinal : contractTtnoRoot (ttndoNetK (.node r ks)) (ttnoNetK (.node r ks) opKids)
      (ttnoNetK (.node r ks) opKids).order.length d (Tree.postL ks).isEmpty =
      some ⟨[Leg.gKet r 0, Leg.gBra r 0],
        if ks.isEmpty then [(physOut r).swap, (physIn r).swap] else soBlockBinds (.node r ks)⟩ := by
    simp only [contractTtnoRoot, hrootT, r1, r2, ketOf_revKet r hrodd, braOf_revKet r hrodd, k1, k2, k3, k4, hnN]
    by_cases hks : ks = []
    · subst hks
      have hop : opKids r = [] := by
        have := hpr; simpa using this.eq_nil
      have := singleSite_eq (Leg.gKet r 0) (Leg.gKetPhys r) (Leg.gOpOut r) (Leg.gOpIn r) (Leg.gBra r 0) (Leg.gBraPhys r)
      simp [Tree.postL, gKetT, gBraT, gOpT, T.fresh, Node.nbrs, hop, this, physOut, physIn]
    · have hne : (Tree.postL ks).length + 1 ≠ 1 := by
        intro e
        have : Tree.postL ks = [] := List.length_eq_zero_iff.1 (by omega)
        exact hks (postL_eq_nil ks this)
      have hnbrs : (Node.mk (some 0) (ks.map Tree.id)).nbrs = 0 :: ks.map Tree.id := by simp [Node.nbrs]
      have hfilter : (0 :: ks.map Tree.id).filter (· ≠ 0) = ks.map Tree.id := by
        have := filter_ne_mid [] (ks.map Tree.id) 0 (by simp) hK0
        simpa using this
      have hrootdo : (ttndoNetK (.node r ks)).root = 0 := rfl
      have hab := allButOne_general 0 (Leg.gKet r) (fun n => ⟨[Leg.gKet n r, Leg.gOp n r, Leg.gBra n r], soBbOf ks n⟩)
        (fun n => Leg.gKet n r) [Leg.gKetPhys r] (d.cacheOf r) ⟨some 0, ks.map Tree.id⟩ 0
        (by rw [hnbrs]; exact List.nodup_cons.2 ⟨hK0, hKnd⟩) (by simp [hnbrs])
        (fun n hn hne' => by
          have hn' : n ∈ ks.map Tree.id := by
            rw [hnbrs] at hn
            simp only [List.mem_cons] at hn
            rcases hn with e | hn
            · exact absurd e hne'
            · exact hn
          refine ⟨?_, by simp⟩
          simp only [Dict.cacheOf, hd2 (n, r), soKidBlock_of_mem ks r n hn'])
      rw [hnbrs, hfilter] at hab
      simp only [List.eraseIdx_cons_zero] at hab
      have hkb := soKidsBinds_eq r ks hKnd
      simp only [ketEdge] at hkb
      rw [hkb] at hab
      have hnnK : (Node.mk (some 0) (ks.map Tree.id)).nn = ks.length + 1 := by simp [Node.nn, Node.nparents]
      have heqO := equivLoop_relabel_op ⟨some 0, ks.map Tree.id⟩ none (opKids r) [0] (0 :: ks.map Tree.id)
        (fun q hq => by cases hq) hOodd (fun n hn hc => by
          simp only [List.mem_cons] at hn
          rcases hn with rfl | hn
          · simp at hc
          · exact hKodd n hn)
      simp only [Option.map_none] at heqO
      have heqO2 := equivLoop_eq ⟨some 0, ks.map Tree.id⟩ ⟨none, opKids r⟩ [0] id (0 :: ks.map Tree.id)
        (fun n hn hc => by
          simp only [List.mem_cons] at hn
          rcases hn with rfl | hn
          · simp at hc
          · exact ⟨by simp [hnbrs, hn], by simpa [Node.nbrs] using hpr.mem_iff.2 hn⟩)
      rw [filter_ignore_single, hfilter] at heqO2
      have heqB := equivLoop_relabel_bra ⟨some 0, ks.map Tree.id⟩ 0 (ks.map Tree.id) (0 :: ks.map Tree.id)
      have heqB2 := equivLoop_eq ⟨some 0, ks.map Tree.id⟩ ⟨some 0, ks.map Tree.id⟩ [0] id (0 :: ks.map Tree.id)
        (fun n hn hc => ⟨by simpa [hnbrs] using hn, by simpa [hnbrs] using hn⟩)
      rw [filter_ignore_single, hfilter] at heqB2
      have hbraidx : (ks.map Tree.id).map (fun n => (0 :: ks.map Tree.id).idxOf n) =
          (ks.map Tree.id).map (fun n => (ks.map Tree.id).idxOf n + 1) := by
        apply List.map_congr_left
        intro n hn
        exact idxOf_cons_zero _ n (fun e => hK0 (e ▸ hn))
      have hbp0 : braP 0 = 0 := rfl
      rw [hbp0] at heqB
      have hopnn : (Node.mk none ((opKids r).map revKet)).nn = (opKids r).length := by simp [Node.nn, Node.nparents]
      have hbrann : (Node.mk (some 0) ((ks.map Tree.id).map (· + 1))).nn = ks.length + 1 := by
        simp [Node.nn, Node.nparents]
      have hopT := opTensorRoot_general (Leg.gKet r 0) (Leg.gKetPhys r) (Leg.gOpOut r) (Leg.gOpIn r)
        (fun n => Leg.gOp n r) (fun n => Leg.gBra n r) (Leg.gOp r) (ks.map Tree.id) (opKids r) (soKidsBinds r ks)
        hKnd hpr
      have hbrT := braRoot_general (Leg.gKet r 0) (Leg.gOpOut r) (Leg.gBra r 0) (Leg.gBraPhys r)
        (fun n => Leg.gBra n r) (Leg.gBra r) (ks.map Tree.id)
        (soKidsBinds r ks ++ ((ks.map Tree.id).map (fun n => (Leg.gOp n r, Leg.gOp r n)) ++ [(Leg.gKetPhys r, Leg.gOpIn r)]))
        hKnd
      simp only [List.length_map] at hopT hbrT
      simp only [hne, if_false, hrootdo, contractAllButOneNeighbourBlockToKet, gKetT,
        contractOperatorTensorIgnoringOneLeg, getEquivalentLegs, heqO, heqO2, hnnK, Nat.add_sub_cancel,
        nodeOperatorInputLeg, hopnn, gOpT, Node.nbrs, Option.toList_none, List.nil_append, List.cons_append,
        hbp0, heqB, heqB2, hbraidx, hbrann, gBraT, Option.toList_some, List.map_cons,
        id]
      simp only [List.map_cons, List.cons_append, List.nil_append, T.fresh] at hab hopT hbrT ⊢
      simp only [hab, hopT, hbrT]
      have hne2 : ks.isEmpty = false := by
        cases ks with
        | nil => exact absurd rfl hks
        | cons _ _ => rfl
      simp [hne2, soBlockBinds, opEdge, braEdge, physIn, physOut, List.map_map]
      rfl
  have hdrop : (Tree.postL ks ++ [r]).dropLast = Tree.postL ks := List.dropLast_concat
  simp only [ttndoTtnoExpectationValue, horder, hdrop, hloop, hd1, hfinal]
  have hid : (Tree.node r ks).id = r := rfl
  have hkids : (Tree.node r ks).kids = ks := rfl
  have := contractFinalBlock_eq (.node r ks) hrodd
    (if ks.isEmpty then [(physOut r).swap, (physIn r).swap] else soBlockBinds (.node r ks))
  rw [hid] at this
  rw [this]
  simp [teBinds, hid, hkids]

theorem count_unord (x : Leg × Leg) (l : List (Leg × Leg)) : (unord l).count x = l.count x + l.count x.swap := by
  simp [unord, List.count_append, count_map_swap]

theorem teBinds_perm (kt : Tree) :
    (unord (teBinds kt)).Perm (unord (soSpec kt ++
      [(rootKetLeg, Leg.gKet kt.id 0), (rootBraLeg, Leg.gBra kt.id 0)])) := by
  rw [List.perm_iff_count]
  intro x
  obtain ⟨r, ks⟩ := kt
  have hid : (Tree.node r ks).id = r := rfl
  have hkids : (Tree.node r ks).kids = ks := rfl
  rw [count_unord, count_unord]
  simp only [teBinds, hid, hkids, List.count_append]
  cases ks with
  | nil =>
    have e1 : ((physOut r).swap == x) = (physOut r == x.swap) := by
      obtain ⟨x1, x2⟩ := x
      show ((Leg.gBraPhys r == x1) && (Leg.gOpOut r == x2)) = ((Leg.gOpOut r == x2) && (Leg.gBraPhys r == x1))
      exact Bool.and_comm _ _
    have e2 : ((physIn r).swap == x) = (physIn r == x.swap) := by
      obtain ⟨x1, x2⟩ := x
      show ((Leg.gOpIn r == x1) && (Leg.gKetPhys r == x2)) = ((Leg.gKetPhys r == x2) && (Leg.gOpIn r == x1))
      exact Bool.and_comm _ _
    have e3 : ((physOut r).swap == x.swap) = (physOut r == x) := by
      have := e1; obtain ⟨x1, x2⟩ := x
      show ((Leg.gBraPhys r == x2) && (Leg.gOpOut r == x1)) = ((Leg.gOpOut r == x1) && (Leg.gBraPhys r == x2))
      exact Bool.and_comm _ _
    have e4 : ((physIn r).swap == x.swap) = (physIn r == x) := by
      obtain ⟨x1, x2⟩ := x
      show ((Leg.gOpIn r == x2) && (Leg.gKetPhys r == x1)) = ((Leg.gKetPhys r == x1) && (Leg.gOpIn r == x2))
      exact Bool.and_comm _ _
    simp only [List.isEmpty_nil, if_true, soSpec, soSpecL, List.count_cons, List.count_nil, e1, e2, e3, e4]
    omega
  | cons c cs =>
    have h1 := count_soBlockBinds x (.node r (c :: cs))
    have h2 := count_soBlockBinds x.swap (.node r (c :: cs))
    simp only [List.isEmpty_cons, Bool.false_eq_true, if_false, h1, h2]

end Ptn.C16.Ttndo
