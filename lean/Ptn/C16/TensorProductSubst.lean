import Ptn.C16.TensorProductRename
import Ptn.Common.EinsumSubst
/-! Substitution of the absorbed leaf by the `tensordot` of `absorb_into_open_legs` (B75), and the fold lemma for
the absorption loop.

`tensor_product_model_value_partial` speaks about programs in which the absorbed ket tensor of a site `s` is ONE
leaf with the value of `absorbExpr s …`.  `Ptn.Ein.Expr.sb_subst_spec` (generic: `Ptn/Common/EinsumSubst.lean`)
replaces that leaf by the two-leaf expression `absorbExpr s …` itself: same value, same free legs, the record
gains the logged pair `(gKetPhys s, gOpIn s)`. -/
namespace Ptn.C16.Ttndo

open Ptn.C04 Ptn.Ein

set_option linter.unusedSectionVars false
variable {R : Type} [CommSemiring R]

/-- **the absorption loop, tensor by tensor.**  For pairwise distinct sites the ket tensor of a named site is the
original one with the site's operator applied on its physical leg; every other tensor is unchanged. -/
theorem absorbedKv_at (dim : Leg → Nat) (O : Nat → Nat → Nat → R) :
    ∀ (sites : List Nat), sites.Nodup → ∀ (kv : Nat → Asg Leg → R) (k : Nat),
      absorbedKv dim O sites kv k =
        if k ∈ sites then applyAt dim (O k) (Leg.gKetPhys k) (kv k) else kv k := by
  intro sites
  induction sites with
  | nil => intro _ kv k; simp [absorbedKv]
  | cons s ss ih =>
    intro hnd kv k
    obtain ⟨hs, hss⟩ := List.nodup_cons.1 hnd
    have h := ih hss (absorb1 dim (O s) s kv) k
    simp only [absorbedKv, List.foldl_cons] at h ⊢
    rw [h]
    by_cases hk : k ∈ ss
    · have hks : k ≠ s := fun e => hs (e ▸ hk)
      simp [hk, absorb1, hks]
    · by_cases hks : k = s
      · subst hks; simp [hk, absorb1]
      · simp [hk, hks, absorb1]

/-- the `tensordot` of `absorb_into_open_legs` is a strongly well-formed two-leaf program -/
theorem absorbExpr_swf (s : Nat) (node : Node) (kvk ov : Asg Leg → R) (hnd : node.nbrs.Nodup)
    (hk : DependsOn (· ∈ (gKetT s node).legs) kvk) (ho : DependsOn (· ∈ (siteOpT s).legs) ov) :
    (absorbExpr s node kvk ov).SWF := by
  refine ⟨⟨?_, hk⟩, ⟨by simp [siteOpT, T.fresh], ho⟩, ?_, ?_, by simp, by simp⟩
  · simp only [gKetT, T.fresh]
    rw [List.nodup_append]
    refine ⟨(List.nodup_map_iff (fun a b h => by injection h)).2 hnd, by simp, ?_⟩
    intro a ha b hb hab
    simp only [List.mem_map] at ha
    obtain ⟨x, _, rfl⟩ := ha
    simp at hb; subst hb; cases hab
  · intro l hl hl'
    simp only [Expr.labels, gKetT, siteOpT, T.fresh, List.mem_append, List.mem_map, List.mem_cons,
      List.not_mem_nil, or_false] at hl hl'
    rcases hl with ⟨x, _, rfl⟩ | rfl <;> rcases hl' with h | h <;> cases h
  · intro p hp
    simp only [List.mem_singleton] at hp
    subst hp
    simp [Expr.free, gKetT, siteOpT, T.fresh]

/-- **Substituting the absorbed leaf.**  `e` is any strongly well-formed program (in the model's labels) that has,
at the path `p`, the one-leaf absorbed tensor of site `s ∈ sites`: legs the free legs of `absorbExpr` (neighbour
legs, then `gOpOut s`), value the pulled-back `applyAt (opMat ov s) (gKetPhys s) kvk` of
`tensor_product_model_value_partial`.  If the two labels bound inside the absorption, `gKetPhys s` and `gOpIn s`,
do not occur in `e`, then the program with the leaf replaced by the `tensordot` of `absorb_into_open_legs` is
strongly well-formed, has the same free legs, the record of `e` together with the logged pair
`(gKetPhys s, gOpIn s)` (up to order, no leg bound twice), and the same value at every assignment. -/
theorem tp_subst_absorb (dim : Leg → Nat) (sites : List Nat) (s : Nat) (hs : s ∈ sites) (node : Node)
    (hnbr : node.nbrs.Nodup) (kvk ov : Asg Leg → R)
    (hk : DependsOn (· ∈ (gKetT s node).legs) kvk) (ho : DependsOn (· ∈ (siteOpT s).legs) ov)
    (e : Expr Leg R) (p : List Bool) (he : e.SWF)
    (hat : e.sb_at p = some ((absorbExpr s node kvk ov).free,
      rn_pull (tpSwap sites) (applyAt dim (opMat ov s) (Leg.gKetPhys s) kvk)))
    (h1 : Leg.gKetPhys s ∉ e.labels) (h2 : Leg.gOpIn s ∉ e.labels) :
    (e.sb_subst p (absorbExpr s node kvk ov)).SWF ∧
    (e.sb_subst p (absorbExpr s node kvk ov)).free = e.free ∧
    (e.sb_subst p (absorbExpr s node kvk ov)).binds.Perm (e.binds ++ [(Leg.gKetPhys s, Leg.gOpIn s)]) ∧
    (Expr.pairLegs (e.sb_subst p (absorbExpr s node kvk ov)).binds).Nodup ∧
    ∀ σ, (e.sb_subst p (absorbExpr s node kvk ov)).eval dim σ = e.eval dim σ := by
  have hx := absorbExpr_swf s node kvk ov hnbr hk ho
  refine Expr.sb_subst_spec dim e (absorbExpr s node kvk ov) p _ _ hat he hx rfl
    (fun σ => (tpSwap_pull_absorb dim sites s hs node kvk ov hk ho σ).symm) ?_
  intro l hl hnot hle
  have hfree : ∀ l, l ∈ (absorbExpr s node kvk ov).labels → l ≠ Leg.gKetPhys s → l ≠ Leg.gOpIn s →
      l ∈ (absorbExpr s node kvk ov).free := by
    intro l hl h1 h2
    simp only [absorbExpr, Expr.labels, Expr.free, gKetT, siteOpT, T.fresh, List.mem_append, List.mem_map,
      List.mem_cons, List.not_mem_nil, or_false, List.mem_filter, List.map_cons, List.map_nil] at hl ⊢
    rcases hl with (⟨x, hx, rfl⟩ | rfl) | (rfl | rfl)
    · exact Or.inl ⟨Or.inl ⟨x, hx, rfl⟩, by simp⟩
    · exact absurd rfl h1
    · exact Or.inr ⟨Or.inl rfl, by simp⟩
    · exact absurd rfl h2
  by_cases e1 : l = Leg.gKetPhys s
  · exact h1 (e1 ▸ hle)
  · by_cases e2 : l = Leg.gOpIn s
    · exact h2 (e2 ▸ hle)
    · exact hnot (hfree l hl e1 e2)

end Ptn.C16.Ttndo
