import Ptn.Common.EinsumBuilt
/-! Generic value-level lemmas used by C16 (any label type, any commutative semiring):

* `eval_dependsOn`            the value of a well-formed expression reads only its labels;
* `sumPairs_eq_zero_of`       a sum whose summand vanishes on every assignment reachable from `σ` vanishes;
* `eval_zero_of_leaf_zero`  zero padding of an open leg of one leaf survives the contraction;
* `root_value_of_sum`         a program whose record sums like `rp ++ X.binds` and whose leaves are a root tensor
                              `rv` and the leaves of `X` evaluates to `Σ_rp rv · X` (`root_value_of_record`: record
                              known exactly; `root_value_of_unord_record`: record known as unordered pairs);
* `identity_root_padded`      `Σ_{a,b} δ_ab · G[a, b] = G[0, 0]` when `G` vanishes off index 0 of either leg (the
                              padded root bond of `from_ttns`), for every dimension ≥ 1 of the two root legs.
-/
namespace Ptn.C16.Val

open Finset Ptn.Ein Ptn.Ein.Expr

set_option linter.unusedSectionVars false
variable {L : Type} [DecidableEq L] {R : Type} [CommSemiring R]

/-- the value of a well-formed expression reads only the labels of its leaves -/
theorem eval_dependsOn (dim : L → Nat) (e : Expr L R) (h : e.WF) : DependsOn (· ∈ e.labels) (e.eval dim) := by
  intro σ τ hst
  rw [eval_eq_full dim e h, eval_eq_full dim e h]
  exact ((sumPairs_dependsOn dim e.binds (leafProd_dependsOn e h)).mono (fun l hl => hl.1)) σ τ hst

theorem mem_free_dot_left {a b : Expr L R} {ps : List (L × L)} {l : L} (h : l ∈ a.free)
    (hn : l ∉ ps.map Prod.fst) : l ∈ (dot a b ps).free := by
  simp only [free, List.mem_append, List.mem_filter]
  exact Or.inl ⟨h, by simpa using hn⟩

theorem mem_free_dot_right {a b : Expr L R} {ps : List (L × L)} {l : L} (h : l ∈ b.free)
    (hn : l ∉ ps.map Prod.snd) : l ∈ (dot a b ps).free := by
  simp only [free, List.mem_append, List.mem_filter]
  exact Or.inr ⟨h, by simpa using hn⟩

/-- a sum vanishes when the summand vanishes on every assignment that agrees with `σ` off the summed legs -/
theorem sumPairs_eq_zero_of (dim : L → Nat) (ps : List (L × L)) (f : Asg L → R) (σ : Asg L)
    (h : ∀ ρ : Asg L, (∀ l, l ∉ Expr.pairLegs ps → ρ l = σ l) → f ρ = 0) : sumPairs dim ps f σ = 0 := by
  induction ps generalizing σ with
  | nil => exact h σ (fun _ _ => rfl)
  | cons p ps ih =>
    obtain ⟨a, b⟩ := p
    simp only [sumPairs, sumR_eq]
    apply sum_eq_zero
    intro i _
    apply ih
    intro ρ hρ
    apply h
    intro l hl
    have hl' : l ≠ a ∧ l ≠ b ∧ l ∉ Expr.pairLegs ps := by
      simp only [Expr.pairLegs, List.map_cons, List.mem_append, List.mem_cons, not_or] at hl ⊢
      tauto
    rw [hρ l hl'.2.2]
    simp [upd, hl'.1, hl'.2.1]

/-- **A network through a root tensor.**  `X` is any well-formed expression, `rv` a tensor on the legs `rlegs`
(none of which occurs in `X`), `rp` joins legs of the root tensor with free legs of `X`.  A strongly well-formed
program `e` whose leaf product is `rv · leaves of X` and whose record sums like `rp ++ X.binds` evaluates to
`Σ_rp rv · X`. -/
theorem root_value_of_sum (dim : L → Nat) (e X : Expr L R) (rlegs : List L) (rv : Asg L → R)
    (he : e.SWF) (hX : X.WF) (hrv : DependsOn (· ∈ rlegs) rv) (hr : ∀ l ∈ rlegs, l ∉ X.labels)
    (rp : List (L × L)) (hrp : ∀ p ∈ rp, p.1 ∈ rlegs ∧ p.2 ∈ X.free)
    (hsum : ∀ (f : Asg L → R) (σ : Asg L), sumPairs dim e.binds f σ = sumPairs dim (rp ++ X.binds) f σ)
    (hleaf : ∀ σ, e.leafProd σ = rv σ * X.leafProd σ) (σ : Asg L) :
    e.eval dim σ = sumPairs dim rp (fun τ => rv τ * X.eval dim τ) σ := by
  have hwf : (Expr.dot (Expr.leaf rlegs rv) X rp).WF := ⟨hrv, hX, hr, hrp⟩
  have h2 := Expr.eval_eq_full dim (Expr.dot (Expr.leaf rlegs rv) X rp) hwf σ
  simp only [Expr.eval] at h2
  rw [h2, Expr.eval_eq_full dim e he.wf]
  simp only [Expr.full, Expr.binds, List.nil_append]
  rw [hsum]
  apply sumPairs_congr
  intro τ
  rw [hleaf, Expr.leafProd_dot]
  simp [Expr.leafProd, Expr.leaves, prodL]

/-- the record is known exactly (up to order) -/
theorem root_value_of_record (dim : L → Nat) (e X : Expr L R) (rlegs : List L) (rv : Asg L → R)
    (he : e.SWF) (hX : X.WF) (hrv : DependsOn (· ∈ rlegs) rv) (hr : ∀ l ∈ rlegs, l ∉ X.labels)
    (rp : List (L × L)) (hrp : ∀ p ∈ rp, p.1 ∈ rlegs ∧ p.2 ∈ X.free)
    (hrec : e.binds.Perm (rp ++ X.binds))
    (hleaf : ∀ σ, e.leafProd σ = rv σ * X.leafProd σ) (σ : Asg L) :
    e.eval dim σ = sumPairs dim rp (fun τ => rv τ * X.eval dim τ) σ :=
  root_value_of_sum dim e X rlegs rv he hX hrv hr rp hrp
    (fun f σ => sumPairs_perm dim hrec (Expr.binds_nodup e he) f σ) hleaf σ

/-- the record is known as a multiset of UNORDERED pairs; both legs of every pair have the same dimension -/
theorem root_value_of_unord_record (dim : L → Nat) (e X : Expr L R) (rlegs : List L) (rv : Asg L → R)
    (he : e.SWF) (hX : X.WF) (hrv : DependsOn (· ∈ rlegs) rv) (hr : ∀ l ∈ rlegs, l ∉ X.labels)
    (rp : List (L × L)) (hrp : ∀ p ∈ rp, p.1 ∈ rlegs ∧ p.2 ∈ X.free)
    (hrec : (unordL e.binds).Perm (unordL (rp ++ X.binds)))
    (hd : ∀ p ∈ rp ++ X.binds, dim p.1 = dim p.2)
    (hleaf : ∀ σ, e.leafProd σ = rv σ * X.leafProd σ) (σ : Asg L) :
    e.eval dim σ = sumPairs dim rp (fun τ => rv τ * X.eval dim τ) σ :=
  root_value_of_sum dim e X rlegs rv he hX hrv hr rp hrp
    (fun f σ => sumPairs_unord dim _ _ hrec hd (Expr.binds_nodup e he) f σ) hleaf σ

/-- **The identity root tensor on padded bonds.**  `rK, rB` are the two legs of the root tensor
`eye(d).reshape(d, d, 1)`, bound to the root-bond legs `gK` of the ket copy and `gB` of the bra copy.  If the
rest of the network `G` vanishes whenever the index of `gK` or of `gB` is not `0` (the padded root bond) and does
not read the root tensor's legs, then `Σ_{a < dim rK} Σ_{b < dim rB} δ_ab · G[gK = a, gB = b] = G[gK = 0, gB = 0]`
for all positive dimensions. -/
theorem identity_root_padded (dim : L → Nat) (rK gK rB gB : L) (G : Asg L → R) {S : L → Prop}
    (hG : DependsOn S G) (hrK : ¬ S rK) (hrB : ¬ S rB)
    (h1 : rK ≠ gK) (h2 : rK ≠ rB) (h3 : rK ≠ gB) (h4 : gK ≠ rB) (h5 : gK ≠ gB) (h6 : rB ≠ gB)
    (hK0 : ∀ τ : Asg L, τ gK ≠ 0 → G τ = 0) (hB0 : ∀ τ : Asg L, τ gB ≠ 0 → G τ = 0)
    (hdK : 0 < dim rK) (hdB : 0 < dim rB) (σ : Asg L) :
    sumPairs dim [(rK, gK), (rB, gB)] (fun τ => (if τ rK = τ rB then 1 else 0) * G τ) σ =
      G (upd (upd σ gK 0) gB 0) := by
  simp only [sumPairs, sumR_eq]
  have eK : ∀ a b : Nat, upd (upd (upd (upd σ rK a) gK a) rB b) gB b gK = a := by
    intro a b; simp [upd, h5, h4]
  have eB : ∀ a b : Nat, upd (upd (upd (upd σ rK a) gK a) rB b) gB b gB = b := by
    intro a b; simp [upd]
  have erK : ∀ a b : Nat, upd (upd (upd (upd σ rK a) gK a) rB b) gB b rK = a := by
    intro a b; simp [upd, h1, h2, h3]
  have erB : ∀ a b : Nat, upd (upd (upd (upd σ rK a) gK a) rB b) gB b rB = b := by
    intro a b; simp [upd, h6]
  rw [sum_eq_single 0]
  · rw [sum_eq_single 0]
    · rw [erK, erB, if_pos rfl, one_mul]
      apply hG
      intro l hl
      have n1 : l ≠ rK := fun e => hrK (e ▸ hl)
      have n2 : l ≠ rB := fun e => hrB (e ▸ hl)
      by_cases c1 : l = gB
      · simp [upd, c1]
      · by_cases c2 : l = gK
        · simp [upd, c2, h5, h4]
        · simp [upd, c1, c2, n1, n2]
    · intro b _ hb
      rw [hB0 _ (by rw [eB]; exact hb), mul_zero]
    · intro h; exact absurd (mem_range.2 hdB) h
  · intro a _ ha
    apply sum_eq_zero
    intro b _
    rw [hK0 _ (by rw [eK]; exact ha), mul_zero]
  · intro h; exact absurd (mem_range.2 hdK) h

theorem prodL_eq_zero {xs : List R} (h : (0 : R) ∈ xs) : prodL xs = 0 := by
  induction xs with
  | nil => simp at h
  | cons x xs ih =>
    rcases List.mem_cons.1 h with h | h
    · simp [prodL, ← h]
    · simp [prodL, ih h]

/-- **A zero slice of one leaf is a zero slice of the whole contraction.**  If a leaf tensor of a strongly
well-formed expression vanishes whenever the index of the leg `g` is not `0`, and `g` is still open, then the
value of the expression vanishes whenever the index of `g` is not `0` (zero padding of a bond survives the
contraction of the rest of the network). -/
theorem eval_zero_of_leaf_zero (dim : L → Nat) (e : Expr L R) (he : e.SWF) (g : L) (hg : g ∈ e.free)
    (lf : List L × (Asg L → R)) (hlf : lf ∈ e.leaves) (hz : ∀ ρ : Asg L, ρ g ≠ 0 → lf.2 ρ = 0)
    (τ : Asg L) (hτ : τ g ≠ 0) : e.eval dim τ = 0 := by
  rw [eval_eq_full dim e he.wf]
  apply sumPairs_eq_zero_of
  intro ρ hρ
  apply prodL_eq_zero
  refine List.mem_map.2 ⟨lf, hlf, ?_⟩
  exact hz ρ (by rw [hρ g (free_not_bound e he g hg)]; exact hτ)

end Ptn.C16.Val
