import Ptn.C16.Lemmas
/-! Tree bookkeeping for C16: which operations `from_ttns` performs on a given tree. -/
namespace Ptn.C16

set_option linter.unusedSectionVars false

variable {α : Type} [DecidableEq α]

/-- what the identifier maps must satisfy on the identifiers `S` of the state -/
structure Tagging (ket bra : α → α) (r : α) (S : List α) : Prop where
  rS : r ∉ S
  ketR : ∀ i ∈ S, ket i ≠ r
  braR : ∀ i ∈ S, bra i ≠ r
  ketInj : ∀ i ∈ S, ∀ j ∈ S, ket i = ket j → i = j
  braInj : ∀ i ∈ S, ∀ j ∈ S, bra i = bra j → i = j
  ketBra : ∀ i ∈ S, ∀ j ∈ S, ket i ≠ bra j

theorem validOps_nodup (order : List α) (ops : List (α × α)) (hv : validOps order ops) (ho : order.Nodup) :
    (order ++ ops.map (·.1)).Nodup := by
  induction ops generalizing order with
  | nil => simpa using ho
  | cons o rest ih =>
    obtain ⟨c, p⟩ := o
    obtain ⟨hc, _, hr⟩ := hv
    have := ih (order ++ [c]) hr (by
      rw [List.nodup_append]
      exact ⟨ho, by simp, fun a ha b hb => by simp at hb; subst hb; exact fun e => hc (e ▸ ha)⟩)
    simpa using this

mutual
theorem opsT_fst (ket bra : α → α) (r : α) :
    ∀ (t : Tree α) (pk pb : α),
      (opsT ket bra r pk pb t).map (·.1) = t.ids.flatMap (fun i => [ket i, bra i])
  | .node i ks, pk, pb => by
    simp [opsT, Tree.ids, opsL_fst ket bra r ks]
theorem opsL_fst (ket bra : α → α) (r : α) :
    ∀ (ts : List (Tree α)) (pk pb : α),
      (opsL ket bra r pk pb ts).map (·.1) = (Tree.idsL ts).flatMap (fun i => [ket i, bra i])
  | [], pk, pb => by simp [opsL, Tree.idsL]
  | t :: ts, pk, pb => by
    simp [opsL, Tree.idsL, opsT_fst ket bra r t, opsL_fst ket bra r ts]
end

theorem mem_flatMap_pair {ket bra : α → α} {x : α} {l : List α} :
    x ∈ l.flatMap (fun i => [ket i, bra i]) ↔ ∃ i ∈ l, x = ket i ∨ x = bra i := by
  simp [List.mem_flatMap]

mutual
theorem info_ids : ∀ (t : Tree α) (p0 : α) (e : α × α × List α), e ∈ Tree.info p0 t → e.1 ∈ t.ids
  | .node i ks, p0, e, he => by
    simp only [Tree.info, List.mem_cons] at he
    rcases he with rfl | he
    · simp [Tree.ids]
    · simp [Tree.ids, infoL_ids ks i e he]
theorem infoL_ids : ∀ (ts : List (Tree α)) (p0 : α) (e : α × α × List α), e ∈ Tree.infoL p0 ts → e.1 ∈ Tree.idsL ts
  | [], _, e, he => by simp [Tree.infoL] at he
  | t :: ts, p0, e, he => by
    simp only [Tree.infoL, List.mem_append] at he
    rcases he with he | he
    · simp [Tree.idsL, info_ids t p0 e he]
    · simp [Tree.idsL, infoL_ids ts p0 e he]
end

section
variable (ket bra : α → α) (r : α) (S : List α) (H : Tagging ket bra r S)
include H

mutual
theorem opsT_valid :
    ∀ (t : Tree α) (pk pb : α) (order : List α), t.ids.Nodup → (∀ i ∈ t.ids, i ∈ S) →
      pk ∈ order → pb ∈ order → (∀ i ∈ t.ids, ket i ∉ order ∧ bra i ∉ order) →
      validOps order (opsT ket bra r pk pb t)
  | .node i ks, pk, pb, order, hnd, hS, hpk, hpb, hfresh => by
    simp only [Tree.ids, List.nodup_cons] at hnd
    have hiS : i ∈ S := hS i (by simp [Tree.ids])
    have hir : ¬ i = r := fun e => H.rS (e ▸ hiS)
    simp only [opsT, hir, if_false, validOps]
    obtain ⟨hk, hb⟩ := hfresh i (by simp [Tree.ids])
    refine ⟨hk, hpk, ?_, by simp [hpb], ?_⟩
    · simp only [List.mem_append, List.mem_singleton, not_or]
      exact ⟨hb, fun e => H.ketBra i hiS i hiS e.symm⟩
    · apply opsL_valid ks (ket i) (bra i) _ hnd.2 (fun j hj => hS j (by simp [Tree.ids, hj])) (by simp) (by simp)
      intro j hj
      have hjS : j ∈ S := hS j (by simp [Tree.ids, hj])
      have hji : j ≠ i := fun e => hnd.1 (e ▸ hj)
      obtain ⟨hk', hb'⟩ := hfresh j (by simp [Tree.ids, hj])
      simp only [List.mem_append, List.mem_singleton, not_or]
      exact ⟨⟨⟨hk', fun e => hji (H.ketInj j hjS i hiS e)⟩, H.ketBra j hjS i hiS⟩,
             ⟨⟨hb', fun e => H.ketBra i hiS j hjS e.symm⟩, fun e => hji (H.braInj j hjS i hiS e)⟩⟩
theorem opsL_valid :
    ∀ (ts : List (Tree α)) (pk pb : α) (order : List α), (Tree.idsL ts).Nodup → (∀ i ∈ Tree.idsL ts, i ∈ S) →
      pk ∈ order → pb ∈ order → (∀ i ∈ Tree.idsL ts, ket i ∉ order ∧ bra i ∉ order) →
      validOps order (opsL ket bra r pk pb ts)
  | [], pk, pb, order, _, _, _, _, _ => by simp [opsL, validOps]
  | t :: ts, pk, pb, order, hnd, hS, hpk, hpb, hfresh => by
    simp only [Tree.idsL, List.nodup_append] at hnd
    obtain ⟨hnd1, hnd2, hdisj⟩ := hnd
    simp only [opsL, validOps_append, opsT_fst]
    refine ⟨opsT_valid t pk pb order hnd1 (fun j hj => hS j (by simp [Tree.idsL, hj])) hpk hpb
      (fun j hj => hfresh j (by simp [Tree.idsL, hj])), ?_⟩
    apply opsL_valid ts pk pb _ hnd2 (fun j hj => hS j (by simp [Tree.idsL, hj])) (by simp [hpk]) (by simp [hpb])
    intro j hj
    have hjS : j ∈ S := hS j (by simp [Tree.idsL, hj])
    obtain ⟨hk', hb'⟩ := hfresh j (by simp [Tree.idsL, hj])
    simp only [List.mem_append, mem_flatMap_pair, not_or, not_exists, not_and]
    refine ⟨⟨hk', fun i hi => ?_⟩, ⟨hb', fun i hi => ?_⟩⟩
    · have hiS : i ∈ S := hS i (by simp [Tree.idsL, hi])
      have hne : i ≠ j := fun e => hdisj i hi j hj e
      exact ⟨fun e => hne (H.ketInj j hjS i hiS e).symm, H.ketBra j hjS i hiS⟩
    · have hiS : i ∈ S := hS i (by simp [Tree.idsL, hi])
      have hne : i ≠ j := fun e => hdisj i hi j hj e
      exact ⟨fun e => H.ketBra i hiS j hjS e.symm, fun e => hne (H.braInj j hjS i hiS e).symm⟩
end

/-! no operation of a subtree attaches anything to a node that is neither one of the two parent copies
nor a copy of a node of the subtree -/
mutual
theorem childOps_opsT_nil :
    ∀ (t : Tree α) (pk pb x : α), (∀ i ∈ t.ids, i ∈ S) → x ≠ pk → x ≠ pb →
      (∀ i ∈ t.ids, x ≠ ket i ∧ x ≠ bra i) → childOps x (opsT ket bra r pk pb t) = []
  | .node i ks, pk, pb, x, hS, hpk, hpb, hx => by
    have hiS : i ∈ S := hS i (by simp [Tree.ids])
    have hir : ¬ i = r := fun e => H.rS (e ▸ hiS)
    obtain ⟨hxk, hxb⟩ := hx i (by simp [Tree.ids])
    simp only [opsT, hir, if_false, childOps_cons, if_neg (Ne.symm hpk), if_neg (Ne.symm hpb), List.nil_append]
    exact childOps_opsL_nil ks (ket i) (bra i) x (fun j hj => hS j (by simp [Tree.ids, hj])) hxk hxb
      (fun j hj => hx j (by simp [Tree.ids, hj]))
theorem childOps_opsL_nil :
    ∀ (ts : List (Tree α)) (pk pb x : α), (∀ i ∈ Tree.idsL ts, i ∈ S) → x ≠ pk → x ≠ pb →
      (∀ i ∈ Tree.idsL ts, x ≠ ket i ∧ x ≠ bra i) → childOps x (opsL ket bra r pk pb ts) = []
  | [], _, _, _, _, _, _, _ => by simp [opsL, childOps]
  | t :: ts, pk, pb, x, hS, hpk, hpb, hx => by
    simp only [opsL, childOps_append]
    rw [childOps_opsT_nil t pk pb x (fun j hj => hS j (by simp [Tree.idsL, hj])) hpk hpb
          (fun j hj => hx j (by simp [Tree.idsL, hj])),
        childOps_opsL_nil ts pk pb x (fun j hj => hS j (by simp [Tree.idsL, hj])) hpk hpb
          (fun j hj => hx j (by simp [Tree.idsL, hj]))]
    rfl
end

/-- the children attached directly below the ket parent copy are the ket copies of the subtree roots -/
theorem childOps_roots_ket :
    ∀ (ts : List (Tree α)) (pk pb : α), (∀ i ∈ Tree.idsL ts, i ∈ S) → pb ≠ pk →
      (∀ i ∈ Tree.idsL ts, pk ≠ ket i ∧ pk ≠ bra i) →
      childOps pk (opsL ket bra r pk pb ts) = ts.map (fun t => ket t.id)
  | [], _, _, _, _, _ => by simp [opsL, childOps]
  | (.node i ks) :: ts, pk, pb, hS, h1, hx => by
    have hiS : i ∈ S := hS i (by simp [Tree.idsL, Tree.ids])
    have hir : ¬ i = r := fun e => H.rS (e ▸ hiS)
    obtain ⟨hxk, hxb⟩ := hx i (by simp [Tree.idsL, Tree.ids])
    have hrest := childOps_roots_ket ts pk pb (fun j hj => hS j (by simp [Tree.idsL, hj])) h1
      (fun j hj => hx j (by simp [Tree.idsL, hj]))
    have hsub := childOps_opsL_nil ket bra r S H ks (ket i) (bra i) pk
      (fun j hj => hS j (by simp [Tree.idsL, Tree.ids, hj])) hxk hxb
      (fun j hj => hx j (by simp [Tree.idsL, Tree.ids, hj]))
    simp [opsL, opsT, hir, childOps_append, childOps_cons, hrest, hsub, Tree.id, h1]

theorem childOps_roots_bra :
    ∀ (ts : List (Tree α)) (pk pb : α), (∀ i ∈ Tree.idsL ts, i ∈ S) → pk ≠ pb →
      (∀ i ∈ Tree.idsL ts, pb ≠ ket i ∧ pb ≠ bra i) →
      childOps pb (opsL ket bra r pk pb ts) = ts.map (fun t => bra t.id)
  | [], _, _, _, _, _ => by simp [opsL, childOps]
  | (.node i ks) :: ts, pk, pb, hS, h1, hx => by
    have hiS : i ∈ S := hS i (by simp [Tree.idsL, Tree.ids])
    have hir : ¬ i = r := fun e => H.rS (e ▸ hiS)
    obtain ⟨hxk, hxb⟩ := hx i (by simp [Tree.idsL, Tree.ids])
    have hrest := childOps_roots_bra ts pk pb (fun j hj => hS j (by simp [Tree.idsL, hj])) h1
      (fun j hj => hx j (by simp [Tree.idsL, hj]))
    have hsub := childOps_opsL_nil ket bra r S H ks (ket i) (bra i) pb
      (fun j hj => hS j (by simp [Tree.idsL, Tree.ids, hj])) hxk hxb
      (fun j hj => hx j (by simp [Tree.idsL, Tree.ids, hj]))
    simp [opsL, opsT, hir, childOps_append, childOps_cons, hrest, hsub, Tree.id, h1]

mutual
theorem info_mem_opsT :
    ∀ (t : Tree α) (p0 : α) (e : α × α × List α), e ∈ Tree.info p0 t →
      (ket e.1, if e.2.1 = r then r else ket e.2.1) ∈
          opsT ket bra r (if p0 = r then r else ket p0) (if p0 = r then r else bra p0) t ∧
      (bra e.1, if e.2.1 = r then r else bra e.2.1) ∈
          opsT ket bra r (if p0 = r then r else ket p0) (if p0 = r then r else bra p0) t
  | .node i ks, p0, e, he => by
    simp only [Tree.info, List.mem_cons] at he
    rcases he with rfl | he
    · simp [opsT]
    · have := info_mem_opsL ks i e he
      simp only [opsT, List.mem_cons]
      exact ⟨Or.inr (Or.inr this.1), Or.inr (Or.inr this.2)⟩
theorem info_mem_opsL :
    ∀ (ts : List (Tree α)) (p0 : α) (e : α × α × List α), e ∈ Tree.infoL p0 ts →
      (ket e.1, if e.2.1 = r then r else ket e.2.1) ∈
          opsL ket bra r (if p0 = r then r else ket p0) (if p0 = r then r else bra p0) ts ∧
      (bra e.1, if e.2.1 = r then r else bra e.2.1) ∈
          opsL ket bra r (if p0 = r then r else ket p0) (if p0 = r then r else bra p0) ts
  | [], _, e, he => by simp [Tree.infoL] at he
  | t :: ts, p0, e, he => by
    simp only [Tree.infoL, List.mem_append] at he
    simp only [opsL, List.mem_append]
    rcases he with he | he
    · have := info_mem_opsT t p0 e he
      exact ⟨Or.inl this.1, Or.inl this.2⟩
    · have := info_mem_opsL ts p0 e he
      exact ⟨Or.inr this.1, Or.inr this.2⟩
end

mutual
theorem childOps_info_opsT :
    ∀ (t : Tree α) (pk pb p0 : α) (e : α × α × List α), t.ids.Nodup → (∀ i ∈ t.ids, i ∈ S) →
      e ∈ Tree.info p0 t →
      (pk ≠ ket e.1 → pb ≠ ket e.1 → childOps (ket e.1) (opsT ket bra r pk pb t) = e.2.2.map ket) ∧
      (pk ≠ bra e.1 → pb ≠ bra e.1 → childOps (bra e.1) (opsT ket bra r pk pb t) = e.2.2.map bra)
  | .node j kids, pk, pb, p0, e, hnd, hS, he => by
    simp only [Tree.ids, List.nodup_cons] at hnd
    have hjS : j ∈ S := hS j (by simp [Tree.ids])
    have hjr : ¬ j = r := fun e => H.rS (e ▸ hjS)
    have hkS : ∀ i ∈ Tree.idsL kids, i ∈ S := fun i hi => hS i (by simp [Tree.ids, hi])
    simp only [Tree.info, List.mem_cons] at he
    rcases he with rfl | he
    · -- the node itself: its children are the copies of the roots of `kids`
      refine ⟨fun h1 h2 => ?_, fun h1 h2 => ?_⟩
      · simp only [opsT, hjr, if_false, childOps_cons, if_neg h1, if_neg h2, List.nil_append, List.map_map]
        exact childOps_roots_ket ket bra r S H kids (ket j) (bra j) hkS (fun e => H.ketBra j hjS j hjS e.symm)
          (fun i hi => ⟨fun e => hnd.1 ((H.ketInj j hjS i (hkS i hi) e) ▸ hi), H.ketBra j hjS i (hkS i hi)⟩)
      · simp only [opsT, hjr, if_false, childOps_cons, if_neg h1, if_neg h2, List.nil_append, List.map_map]
        exact childOps_roots_bra ket bra r S H kids (ket j) (bra j) hkS (H.ketBra j hjS j hjS)
          (fun i hi => ⟨fun e => H.ketBra i (hkS i hi) j hjS e.symm,
                        fun e => hnd.1 ((H.braInj j hjS i (hkS i hi) e) ▸ hi)⟩)
    · -- a node further down
      have hi : e.1 ∈ Tree.idsL kids := infoL_ids kids j e he
      have hiS := hkS _ hi
      have hne : e.1 ≠ j := fun ee => hnd.1 (ee ▸ hi)
      have := childOps_info_opsL kids (ket j) (bra j) j e hnd.2 hkS he
      refine ⟨fun h1 h2 => ?_, fun h1 h2 => ?_⟩
      · simp only [opsT, hjr, if_false, childOps_cons, if_neg h1, if_neg h2, List.nil_append]
        exact this.1 (fun ee => hne (H.ketInj j hjS _ hiS ee).symm) (fun ee => H.ketBra _ hiS j hjS ee.symm)
      · simp only [opsT, hjr, if_false, childOps_cons, if_neg h1, if_neg h2, List.nil_append]
        exact this.2 (fun ee => H.ketBra j hjS _ hiS ee) (fun ee => hne (H.braInj j hjS _ hiS ee).symm)
theorem childOps_info_opsL :
    ∀ (ts : List (Tree α)) (pk pb p0 : α) (e : α × α × List α), (Tree.idsL ts).Nodup →
      (∀ i ∈ Tree.idsL ts, i ∈ S) → e ∈ Tree.infoL p0 ts →
      (pk ≠ ket e.1 → pb ≠ ket e.1 → childOps (ket e.1) (opsL ket bra r pk pb ts) = e.2.2.map ket) ∧
      (pk ≠ bra e.1 → pb ≠ bra e.1 → childOps (bra e.1) (opsL ket bra r pk pb ts) = e.2.2.map bra)
  | [], _, _, _, e, _, _, he => by simp [Tree.infoL] at he
  | t :: ts, pk, pb, p0, e, hnd, hS, he => by
    simp only [Tree.idsL, List.nodup_append] at hnd
    obtain ⟨hnd1, hnd2, hdisj⟩ := hnd
    have hS1 : ∀ i ∈ t.ids, i ∈ S := fun i hi => hS i (by simp [Tree.idsL, hi])
    have hS2 : ∀ i ∈ Tree.idsL ts, i ∈ S := fun i hi => hS i (by simp [Tree.idsL, hi])
    simp only [Tree.infoL, List.mem_append] at he
    simp only [opsL, childOps_append]
    rcases he with he | he
    · have hi : e.1 ∈ t.ids := info_ids t p0 e he
      have hiS := hS1 _ hi
      have h := childOps_info_opsT t pk pb p0 e hnd1 hS1 he
      refine ⟨fun h1 h2 => ?_, fun h1 h2 => ?_⟩
      · rw [h.1 h1 h2, childOps_opsL_nil ket bra r S H ts pk pb (ket e.1) hS2 (Ne.symm h1) (Ne.symm h2)
          (fun i' hi' => ⟨fun ee => hdisj _ hi _ hi' (H.ketInj _ hiS i' (hS2 i' hi') ee),
                          H.ketBra _ hiS i' (hS2 i' hi')⟩)]
        simp
      · rw [h.2 h1 h2, childOps_opsL_nil ket bra r S H ts pk pb (bra e.1) hS2 (Ne.symm h1) (Ne.symm h2)
          (fun i' hi' => ⟨fun ee => H.ketBra i' (hS2 i' hi') _ hiS ee.symm,
                          fun ee => hdisj _ hi _ hi' (H.braInj _ hiS i' (hS2 i' hi') ee)⟩)]
        simp
    · have hi : e.1 ∈ Tree.idsL ts := infoL_ids ts p0 e he
      have hiS := hS2 _ hi
      have h := childOps_info_opsL ts pk pb p0 e hnd2 hS2 he
      refine ⟨fun h1 h2 => ?_, fun h1 h2 => ?_⟩
      · rw [h.1 h1 h2, childOps_opsT_nil ket bra r S H t pk pb (ket e.1) hS1 (Ne.symm h1) (Ne.symm h2)
          (fun i' hi' => ⟨fun ee => hdisj _ hi' _ hi (H.ketInj _ hiS i' (hS1 i' hi') ee).symm,
                          H.ketBra _ hiS i' (hS1 i' hi')⟩)]
        simp
      · rw [h.2 h1 h2, childOps_opsT_nil ket bra r S H t pk pb (bra e.1) hS1 (Ne.symm h1) (Ne.symm h2)
          (fun i' hi' => ⟨fun ee => H.ketBra i' (hS1 i' hi') _ hiS ee.symm,
                          fun ee => hdisj _ hi' _ hi (H.braInj _ hiS i' (hS1 i' hi') ee).symm⟩)]
        simp
end

end

/-! ### suffix tests and finite sums -/

theorem endsWith_append_suffix (s sfx : Ident) : endsWith (s ++ sfx) sfx = true := by
  simp [endsWith]

theorem not_endsWith_of_other_suffix (s sfx sfx' : Ident) (hl : sfx.length = sfx'.length) (hne : sfx ≠ sfx') :
    endsWith (s ++ sfx') sfx = false := by
  cases h : endsWith (s ++ sfx') sfx with
  | false => rfl
  | true =>
    simp only [endsWith, List.isSuffixOf_iff_suffix] at h
    obtain ⟨t, ht⟩ := h
    exact absurd (List.append_inj' ht hl).2 hne

theorem sum_map_zero (l : List Nat) : (l.map (fun _ => (0 : Int))).sum = 0 := by
  induction l with
  | nil => rfl
  | cons a as ih => simp [ih]

theorem sum_range_head (g : Nat → Int) (n : Nat) (h : ∀ a, g (a + 1) = 0) :
    ((List.range (n + 1)).map g).sum = g 0 := by
  rw [List.range_succ_eq_map, List.map_cons, List.sum_cons, List.map_map]
  have : g ∘ Nat.succ = fun _ => (0 : Int) := funext (fun a => h a)
  rw [this, sum_map_zero]
  simp


end Ptn.C16
