import Ptn.C16.BuiltTree
import Ptn.C16.Value
import Ptn.C04.ValueOp
/-! Value level, unconditional in the program: every expression from which the result of `trace_ttndo` (resp.
`ttndo_ttno_expectation_value`) is BUILT over the root tensor and the node tensors (`BuiltTree.lean`) satisfies
the hypothesis bundles `TraceProgram` / `TtnoProgram` of `Value.lean`, with the canonical dense vectors / operator
of the layers (`Ptn.C04.layExpr`) as the reference contractions. -/
namespace Ptn.C16.Ttndo

open Ptn.C04 Ptn.Ein Ptn.C16.Val

set_option linter.unusedSectionVars false
variable {R : Type} [CommSemiring R]

/-- **the dense vector of the ket copy**: the ket branch contracted over its bonds; the root-bond leg
`gKet kt.id 0` and the physical legs stay open -/
def ketVec (kv : Nat → Asg Leg → R) (kt : Tree) : Expr Leg R := layExpr (ketLayer kv) (some 0) kt
/-- **the dense vector of the bra copy** -/
def braVec (bv : Nat → Asg Leg → R) (kt : Tree) : Expr Leg R := layExpr (braLayerK bv) (some 0) kt

/-- the hypotheses on the node tensors: each reads only its own legs (the copy of the state's root has the
additional root-bond leg toward the TTNDO root `0`) -/
def KetLocal0 (kv : Nat → Asg Leg → R) (kt : Tree) : Prop :=
  ∀ e ∈ Tree.info (some 0) kt, DependsOn (· ∈ (gKetT e.1 ⟨e.2.1, e.2.2⟩).legs) (kv e.1)
def BraLocal0 (bv : Nat → Asg Leg → R) (kt : Tree) : Prop :=
  ∀ e ∈ Tree.info (some 0) kt, DependsOn (· ∈ (gBraT e.1 ⟨e.2.1, e.2.2⟩).legs) (bv e.1)

/-- the leaves of the trace: the root tensor and the tensors of the two copies -/
def traceLeaves (rv : Asg Leg → R) (kv bv : Nat → Asg Leg → R) (kt : Tree) : List (LeafT R) :=
  (rootLegs, rv) :: trLeaves kv bv (some 0) kt

theorem trNodeLeaves_eq (kv bv : Nat → Asg Leg → R) :
    trNodeLeaves kv bv = fun i p k => (ketLayer kv).nodeLeaves i p k ++ (braLayerK bv).nodeLeaves i p k := rfl

theorem tr_nodeOK (kv bv : Nat → Asg Leg → R) (e : Nat × Option Nat × List Nat)
    (hn : (e.2.1.toList ++ e.2.2).Nodup) : NodeOK (trNodeLeaves kv bv) e :=
  ss_nodeOK kv bv (fun _ => e.2.2) e hn (List.Perm.refl _)

theorem braLayerK_inj (bv : Nat → Asg Leg → R) : (braLayerK bv).Inj := by
  intro a b a' b' h
  simp only [braLayerK] at h
  injection h with h1 h2
  exact ⟨h1, h2⟩

theorem rootLegs_legNode : ∀ l ∈ rootLegs, legNode l = none := by
  intro l hl
  simp only [rootLegs, rootKetLeg, rootBraLeg, rootOpenLeg, List.mem_cons, List.not_mem_nil, or_false] at hl
  rcases hl with rfl | rfl | rfl <;> rfl

/-- the root-bond leg of the copy of the state's root stays open in the contraction of a layer below the TTNDO
root -/
theorem layExpr_free_root (Λ : Layer R) (hs : Λ.Inj) (kt : Tree) (h0 : (0 : Nat) ∉ kt.ids)
    (hh : Λ.Has (kt.id, some 0, kt.kids.map Tree.id)) : Λ.vleg kt.id 0 ∈ (layExpr Λ (some 0) kt).free := by
  obtain ⟨i, ks⟩ := kt
  simp only [layExpr, Tree.id]
  apply layKids_free_acc Λ i _ ks
  · simp only [Expr.free]
    exact hh 0 (by simp)
  · intro c hc e
    have := (hs _ _ _ _ e).2
    have hm : c.id ∈ Tree.idsL ks := Tree.kid_id_mem ks _ (List.mem_map.2 ⟨c, hc, rfl⟩)
    exact h0 (by simp [Tree.ids, this ▸ hm])

/-- the facts about the two dense vectors and about every expression the result of `trace_ttndo` is built from -/
theorem trace_program (kt : Tree) (hnd : kt.ids.Nodup) (h0 : (0 : Nat) ∉ kt.ids)
    (kv bv : Nat → Asg Leg → R) (rv : Asg Leg → R)
    (hkv : KetLocal0 kv kt) (hbv : BraLocal0 bv kt) (hrv : DependsOn (· ∈ rootLegs) rv)
    (binds : List (Leg × Leg)) (e : Expr Leg R) (hbuilt : Built ⟨[rootOpenLeg], binds⟩ e)
    (hleaves : e.leaves.Perm (traceLeaves rv kv bv kt)) :
    TraceProgram kt binds e (ketVec kv kt) (braVec bv kt) rv ∧ e.free = [rootOpenLeg] ∧
      (ketVec kv kt).SWF ∧ (braVec bv kt).SWF := by
  have hsome : ∀ q, (some 0 : Option Nat) = some q → q ∉ kt.ids := fun q hq => by
    simp only [Option.some.injEq] at hq; subst hq; exact h0
  have hnb := info_nbrs_nodup kt (some 0) hnd hsome
  have hok : ∀ x ∈ Tree.info (some 0) kt, NodeOK (trNodeLeaves kv bv) x := fun x hx => tr_nodeOK kv bv x (hnb x hx)
  have hlab := treeLeaves_labels (trNodeLeaves kv bv) kt (some 0) hnd hok
  have hall : (labelsOf (traceLeaves rv kv bv kt)).Nodup := by
    simp only [traceLeaves, labelsOf, List.flatMap_cons]
    rw [List.nodup_append]
    refine ⟨by simp [rootLegs, rootKetLeg, rootBraLeg, rootOpenLeg], hlab.1, ?_⟩
    intro x hx y hy hxy
    subst hxy
    obtain ⟨j, _, hj⟩ := hlab.2 x hy
    rw [rootLegs_legNode x hx] at hj
    simp at hj
  have hend : e.labels.Nodup := by
    rw [Expr.labels_eq_leaves]
    exact (hleaves.flatMap_right _).nodup_iff.2 hall
  have hloc : e.LeavesLocal := by
    intro lf hlf
    have := hleaves.mem_iff.1 hlf
    simp only [traceLeaves, List.mem_cons] at this
    rcases this with rfl | h
    · exact hrv
    · obtain ⟨x, hx, h⟩ := treeLeaves_sub _ kt (some 0) lf h
      simp only [trNodeLeaves, List.mem_cons, List.not_mem_nil, or_false] at h
      rcases h with rfl | rfl
      · exact hkv x hx
      · exact hbv x hx
  have hswf := hbuilt.swf hend hloc
  obtain ⟨hbinds, hlegs, _⟩ := hbuilt.sound hend
  have hfree : e.free = [rootOpenLeg] := (List.perm_singleton.1 hlegs.symm)
  -- the two dense vectors
  have hokK : ∀ x ∈ Tree.info (some 0) kt, NodeOK (ketLayer kv).nodeLeaves x := fun x hx =>
    nodeOK_left (f := (ketLayer kv).nodeLeaves) (g := (braLayerK bv).nodeLeaves) (hok x hx)
  have hokB : ∀ x ∈ Tree.info (some 0) kt, NodeOK (braLayerK bv).nodeLeaves x := fun x hx =>
    nodeOK_right (f := (ketLayer kv).nodeLeaves) (g := (braLayerK bv).nodeLeaves) (hok x hx)
  have hhK : ∀ x ∈ Tree.info (some 0) kt, (ketLayer kv).Has x := fun x _ n hn => by
    simp only [ketLayer, gKetT, T.fresh, Node.nbrs, List.mem_append, List.mem_map]
    exact Or.inl ⟨n, List.mem_append.1 hn, rfl⟩
  have hhB : ∀ x ∈ Tree.info (some 0) kt, (braLayerK bv).Has x := fun x _ n hn => by
    simp only [braLayerK, gBraT, T.fresh, Node.nbrs, List.mem_append, List.mem_map]
    exact Or.inl ⟨n, List.mem_append.1 hn, rfl⟩
  have hK : (ketVec kv kt).SWF := layExpr_swf (ketLayer kv) (ketLayer_inj kv) kt (some 0) hnd hsome hhK hokK hkv
  have hB : (braVec bv kt).SWF := layExpr_swf (braLayerK bv) (braLayerK_inj bv) kt (some 0) hnd hsome hhB hokB hbv
  have hLK := layExpr_leaves (ketLayer kv) kt (some 0)
  have hLB := layExpr_leaves (braLayerK bv) kt (some 0)
  have hsplit : (trLeaves kv bv (some 0) kt).Perm ((ketVec kv kt).leaves ++ (braVec bv kt).leaves) := by
    have := treeLeaves_append (ketLayer kv).nodeLeaves (braLayerK bv).nodeLeaves kt (some 0)
    exact this.trans (List.Perm.append hLK.symm hLB.symm)
  have hlabKB : (labelsOf ((ketVec kv kt).leaves ++ (braVec bv kt).leaves)).Nodup :=
    (hsplit.flatMap_right _).nodup_iff.1 hlab.1
  simp only [labelsOf, List.flatMap_append] at hlabKB
  rw [← Expr.labels_eq_leaves, ← Expr.labels_eq_leaves] at hlabKB
  have hdis : ∀ l ∈ (ketVec kv kt).labels, l ∉ (braVec bv kt).labels := fun l hl hl' =>
    (List.nodup_append.1 hlabKB).2.2 l hl l hl' rfl
  have hmemKB : ∀ l, l ∈ (ketVec kv kt).labels ∨ l ∈ (braVec bv kt).labels →
      l ∈ labelsOf (trLeaves kv bv (some 0) kt) := by
    intro l hl
    have : l ∈ labelsOf ((ketVec kv kt).leaves ++ (braVec bv kt).leaves) := by
      simp only [labelsOf, List.flatMap_append, ← Expr.labels_eq_leaves, List.mem_append]
      exact hl
    exact (hsplit.flatMap_right (·.1)).mem_iff.2 this
  have hrfresh : ∀ l ∈ rootLegs, l ∉ (ketVec kv kt).labels ∧ l ∉ (braVec bv kt).labels := by
    intro l hl
    have key : l ∉ labelsOf (trLeaves kv bv (some 0) kt) := by
      intro hm
      obtain ⟨j, _, hj⟩ := hlab.2 l hm
      rw [rootLegs_legNode l hl] at hj
      simp at hj
    exact ⟨fun h => key (hmemKB l (Or.inl h)), fun h => key (hmemKB l (Or.inr h))⟩
  have hmemInfo : ∀ n ∈ kt.ids, ∃ x ∈ Tree.info (some 0) kt, x.1 = n := by
    intro n hn
    rw [← Tree.info_keys (some 0) kt] at hn
    obtain ⟨x, hx, rfl⟩ := List.mem_map.1 hn
    exact ⟨x, hx, rfl⟩
  have hfreeP : ∀ p ∈ physPairs kt, p.1 ∈ (ketVec kv kt).free ∧ p.2 ∈ (braVec bv kt).free := by
    intro p hp
    obtain ⟨n, hn, rfl⟩ := List.mem_map.1 hp
    obtain ⟨x, hx, rfl⟩ := hmemInfo n hn
    constructor
    · apply layExpr_free_phys (ketLayer kv) _ (fun a b => by simp [physPair, ketLayer]) kt (some 0)
      simp only [labelsOf, List.mem_flatMap]
      exact ⟨_, nodeLeaves_sub _ kt (some 0) x hx _ (List.mem_singleton.2 rfl), by simp [ketLayer, gKetT, T.fresh, physPair]⟩
    · apply layExpr_free_phys (braLayerK bv) _ (fun a b => by simp [physPair, braLayerK]) kt (some 0)
      simp only [labelsOf, List.mem_flatMap]
      exact ⟨_, nodeLeaves_sub _ kt (some 0) x hx _ (List.mem_singleton.2 rfl), by simp [braLayerK, gBraT, T.fresh, physPair]⟩
  have hKb : (ketVec kv kt).binds.Perm (ketBonds kt) := by
    have := layExpr_binds (ketLayer kv) kt (some 0)
    simpa [Layer.edge, ketLayer, ketEdge, ketVec, ketBonds] using this
  have hBb : (braVec bv kt).binds.Perm (braBonds kt) := by
    have := layExpr_binds (braLayerK bv) kt (some 0)
    simpa [Layer.edge, braLayerK, braEdge, braVec, braBonds] using this
  have hroot : (kt.id, some 0, kt.kids.map Tree.id) ∈ Tree.info (some 0) kt := by
    cases kt; simp [Tree.info, Tree.id, Tree.kids]
  have hgK : Leg.gKet kt.id 0 ∈ (ketVec kv kt).free :=
    layExpr_free_root (ketLayer kv) (ketLayer_inj kv) kt h0 (hhK _ hroot)
  have hgB : Leg.gBra kt.id 0 ∈ (braVec bv kt).free :=
    layExpr_free_root (braLayerK bv) (braLayerK_inj bv) kt h0 (hhB _ hroot)
  refine ⟨⟨hswf, hK.wf, hB.wf, hrv, hdis, hrfresh, hbinds.symm, hKb, hBb, hfreeP, hgK, hgB, ?_⟩, hfree, hK, hB⟩
  intro τ
  have hl2 : e.leaves.Perm ((rootLegs, rv) :: ((ketVec kv kt).leaves ++ (braVec bv kt).leaves)) :=
    hleaves.trans (List.Perm.cons _ hsplit)
  rw [Expr.leafProd_of_leaves e _ hl2 τ, List.map_cons, List.map_append]
  simp only [prodL, prodL_append]
  rfl

/-- the tensor of the copy of the state's root is a leaf of the dense vector of its layer -/
theorem root_leaf_mem (Λ : Layer R) (kt : Tree) :
    (Λ.legs kt.id (some 0) (kt.kids.map Tree.id), Λ.val kt.id) ∈ (layExpr Λ (some 0) kt).leaves := by
  refine (layExpr_leaves Λ kt (some 0)).mem_iff.2 ?_
  obtain ⟨i, ks⟩ := kt
  simp [treeLeaves, Layer.nodeLeaves, Tree.id, Tree.kids]

/-! ### the expectation value of a TTNO -/

/-- the leaves of the TTNO expectation value: the root tensor and the tensors of the three layers -/
def ttnoLeaves (rv : Asg Leg → R) (opKids : Nat → List Nat) (kv ov bv : Nat → Asg Leg → R) (kt : Tree) :
    List (LeafT R) :=
  (rootLegs, rv) :: teLeaves opKids kv ov bv kt

theorem perm_three_layers {α : Type} (k o b : α) (Fk Fo Fb : List α) :
    ([k, o, b] ++ (Fk ++ (Fo ++ Fb))).Perm ((k :: Fk) ++ ((o :: Fo) ++ (b :: Fb))) := by
  classical
  rw [List.perm_iff_count]
  intro x
  simp only [List.count_append, List.count_cons, List.count_nil]
  omega

/-- the facts about the three dense layers and about every expression the result of
`ttndo_ttno_expectation_value` is built from -/
theorem ttno_program (kt : Tree) (hnd : kt.ids.Nodup) (h0 : (0 : Nat) ∉ kt.ids) (opKids : Nat → List Nat)
    (hperm : ∀ e ∈ Tree.info none kt, (opKids e.1).Perm e.2.2)
    (kv ov bv : Nat → Asg Leg → R) (rv : Asg Leg → R)
    (hkv : KetLocal0 kv kt) (hov : OpLocalK ov opKids kt) (hbv : BraLocal0 bv kt)
    (hrv : DependsOn (· ∈ rootLegs) rv)
    (binds : List (Leg × Leg)) (e : Expr Leg R) (hbuilt : Built ⟨[rootOpenLeg], binds⟩ e)
    (hleaves : e.leaves.Perm (ttnoLeaves rv opKids kv ov bv kt)) :
    TtnoProgram kt binds e (ketVec kv kt) (opExpr ov opKids kt) (braVec bv kt) rv ∧ e.free = [rootOpenLeg] ∧
      (ketVec kv kt).SWF ∧ (braVec bv kt).SWF := by
  obtain ⟨r, ks⟩ := kt
  have hsome : ∀ q, (some 0 : Option Nat) = some q → q ∉ (Tree.node r ks).ids := fun q hq => by
    simp only [Option.some.injEq] at hq; subst hq; exact h0
  have hnone : ∀ q, (none : Option Nat) = some q → q ∉ (Tree.node r ks).ids := fun q hq => by simp at hq
  have hnb0 := info_nbrs_nodup (.node r ks) (some 0) hnd hsome
  have hnbN := info_nbrs_nodup (.node r ks) none hnd hnone
  have hperm0 : ∀ x ∈ Tree.info (some 0) (Tree.node r ks), (opKids x.1).Perm x.2.2 := by
    intro x hx
    simp only [Tree.info, List.mem_cons] at hx
    rcases hx with rfl | hx
    · exact hperm (r, none, ks.map Tree.id) (by simp [Tree.info])
    · exact hperm x (by simp [Tree.info, hx])
  let nlS := soNodeLeaves opKids kv ov bv
  let ΛO := opLayer ov opKids
  let ΛB := braLayerK bv
  have hok0 : ∀ x ∈ Tree.info (some 0) (Tree.node r ks), NodeOK nlS x :=
    fun x hx => so_nodeOK kv ov bv opKids x (hnb0 x hx) (hperm0 x hx)
  have hokN : ∀ x ∈ Tree.info none (Tree.node r ks), NodeOK nlS x :=
    fun x hx => so_nodeOK kv ov bv opKids x (hnbN x hx) (hperm x hx)
  have hlab0 := treeLeaves_labels nlS (.node r ks) (some 0) hnd hok0
  -- the labels of the actual leaves: those of the three-layer tree below the parent `0` without `gOp r 0`
  have hsub : (labelsOf (teLeaves opKids kv ov bv (.node r ks))).Sublist
      (labelsOf (treeLeaves nlS (some 0) (.node r ks))) := by
    simp only [teLeaves, treeLeaves, nlS, soNodeLeaves, labelsOf, List.flatMap_append, List.flatMap_cons,
      List.flatMap_nil, List.append_nil, gOpT, T.fresh, Node.nbrs, Option.toList_some, Option.toList_none,
      List.nil_append, List.singleton_append, List.map_cons]
    refine List.Sublist.append (List.Sublist.append (List.Sublist.refl _) ?_) (List.Sublist.refl _)
    refine List.Sublist.append ?_ (List.Sublist.refl _)
    exact List.sublist_cons_self _ _
  have hlabA : (labelsOf (teLeaves opKids kv ov bv (.node r ks))).Nodup := hsub.nodup hlab0.1
  have hmemA : ∀ l ∈ labelsOf (teLeaves opKids kv ov bv (.node r ks)), ∃ j, legNode l = some j := by
    intro l hl
    obtain ⟨j, _, hj⟩ := hlab0.2 l (hsub.subset hl)
    exact ⟨j, hj⟩
  have hall : (labelsOf (ttnoLeaves rv opKids kv ov bv (.node r ks))).Nodup := by
    simp only [ttnoLeaves, labelsOf, List.flatMap_cons]
    rw [List.nodup_append]
    refine ⟨by simp [rootLegs, rootKetLeg, rootBraLeg, rootOpenLeg], hlabA, ?_⟩
    intro x hx y hy hxy
    subst hxy
    obtain ⟨j, hj⟩ := hmemA x hy
    rw [rootLegs_legNode x hx] at hj
    simp at hj
  have hend : e.labels.Nodup := by
    rw [Expr.labels_eq_leaves]
    exact (hleaves.flatMap_right _).nodup_iff.2 hall
  have hrootK : (r, some 0, ks.map Tree.id) ∈ Tree.info (some 0) (Tree.node r ks) := by simp [Tree.info]
  have hrootN : (r, none, ks.map Tree.id) ∈ Tree.info none (Tree.node r ks) := by simp [Tree.info]
  have hloc : e.LeavesLocal := by
    intro lf hlf
    have := hleaves.mem_iff.1 hlf
    simp only [ttnoLeaves, teLeaves, List.mem_cons, List.mem_append, List.not_mem_nil, or_false] at this
    rcases this with rfl | (rfl | rfl | rfl) | h
    · exact hrv
    · exact hkv _ hrootK
    · exact hov _ hrootN
    · exact hbv _ hrootK
    · obtain ⟨x, hx, h⟩ := treeLeavesL_sub _ ks r lf h
      simp only [soNodeLeaves, List.mem_cons, List.not_mem_nil, or_false] at h
      rcases h with rfl | rfl | rfl
      · exact hkv x (by simp [Tree.info, hx])
      · exact hov x (by simp [Tree.info, hx])
      · exact hbv x (by simp [Tree.info, hx])
  have hswf := hbuilt.swf hend hloc
  obtain ⟨hbinds, hlegs, _⟩ := hbuilt.sound hend
  have hfree : e.free = [rootOpenLeg] := (List.perm_singleton.1 hlegs.symm)
  -- the three dense layers
  have hokK : ∀ x ∈ Tree.info (some 0) (Tree.node r ks), NodeOK (ketLayer kv).nodeLeaves x := fun x hx =>
    nodeOK_left (f := (ketLayer kv).nodeLeaves)
      (g := fun i p k => ΛO.nodeLeaves i p k ++ ΛB.nodeLeaves i p k) (hok0 x hx)
  have hokB : ∀ x ∈ Tree.info (some 0) (Tree.node r ks), NodeOK ΛB.nodeLeaves x := fun x hx =>
    nodeOK_right (f := ΛO.nodeLeaves) (g := ΛB.nodeLeaves)
      (nodeOK_right (f := (ketLayer kv).nodeLeaves)
        (g := fun i p k => ΛO.nodeLeaves i p k ++ ΛB.nodeLeaves i p k) (hok0 x hx))
  have hokO : ∀ x ∈ Tree.info none (Tree.node r ks), NodeOK ΛO.nodeLeaves x := fun x hx =>
    nodeOK_left (f := ΛO.nodeLeaves) (g := ΛB.nodeLeaves)
      (nodeOK_right (f := (ketLayer kv).nodeLeaves)
        (g := fun i p k => ΛO.nodeLeaves i p k ++ ΛB.nodeLeaves i p k) (hokN x hx))
  have hhK : ∀ x ∈ Tree.info (some 0) (Tree.node r ks), (ketLayer kv).Has x := fun x _ n hn => by
    simp only [ketLayer, gKetT, T.fresh, Node.nbrs, List.mem_append, List.mem_map]
    exact Or.inl ⟨n, List.mem_append.1 hn, rfl⟩
  have hhB : ∀ x ∈ Tree.info (some 0) (Tree.node r ks), ΛB.Has x := fun x _ n hn => by
    simp only [ΛB, braLayerK, gBraT, T.fresh, Node.nbrs, List.mem_append, List.mem_map]
    exact Or.inl ⟨n, List.mem_append.1 hn, rfl⟩
  have hK : (ketVec kv (.node r ks)).SWF :=
    layExpr_swf (ketLayer kv) (ketLayer_inj kv) _ (some 0) hnd hsome hhK hokK hkv
  have hB : (braVec bv (.node r ks)).SWF :=
    layExpr_swf ΛB (braLayerK_inj bv) _ (some 0) hnd hsome hhB hokB hbv
  have hO : (opExpr ov opKids (.node r ks)).SWF := layExpr_swf ΛO
    (fun a b a' b' h => by simp only [ΛO, opLayer] at h; injection h with h1 h2; exact ⟨h1, h2⟩) _ none hnd hnone
    (fun x hx n hn => by
      simp only [ΛO, opLayer, gOpT, T.fresh, Node.nbrs, List.mem_append, List.mem_map]
      refine Or.inl ⟨n, ?_, rfl⟩
      rcases List.mem_append.1 hn with h | h
      · exact Or.inl h
      · exact Or.inr ((hperm x hx).mem_iff.2 h))
    hokO hov
  have hLK := layExpr_leaves (ketLayer kv) (.node r ks) (some 0)
  have hLO := layExpr_leaves ΛO (.node r ks) none
  have hLB := layExpr_leaves ΛB (.node r ks) (some 0)
  have hsplit : (teLeaves opKids kv ov bv (.node r ks)).Perm
      ((ketVec kv (.node r ks)).leaves ++ ((opExpr ov opKids (.node r ks)).leaves ++ (braVec bv (.node r ks)).leaves)) := by
    have h1 := treeLeavesL_append (ketLayer kv).nodeLeaves
      (fun i p k => ΛO.nodeLeaves i p k ++ ΛB.nodeLeaves i p k) ks r
    have h2 := treeLeavesL_append ΛO.nodeLeaves ΛB.nodeLeaves ks r
    have h3 : (treeLeavesL nlS r ks).Perm (treeLeavesL (ketLayer kv).nodeLeaves r ks ++
        (treeLeavesL ΛO.nodeLeaves r ks ++ treeLeavesL ΛB.nodeLeaves r ks)) :=
      h1.trans (List.Perm.append_left _ h2)
    refine List.Perm.trans ?_ (List.Perm.append hLK.symm (List.Perm.append hLO.symm hLB.symm))
    simp only [teLeaves, treeLeaves, Layer.nodeLeaves, List.cons_append, List.nil_append]
    exact (List.Perm.append_left _ h3).trans (perm_three_layers _ _ _ _ _ _)
  have hndAll : ((ketVec kv (.node r ks)).labels ++ ((opExpr ov opKids (.node r ks)).labels ++
      (braVec bv (.node r ks)).labels)).Nodup := by
    have h1 := (hsplit.flatMap_right (·.1)).nodup_iff.1 hlabA
    simpa [List.flatMap_append, ← Expr.labels_eq_leaves] using h1
  have hmemAll : ∀ l, l ∈ (ketVec kv (.node r ks)).labels ∨ l ∈ (opExpr ov opKids (.node r ks)).labels ∨
      l ∈ (braVec bv (.node r ks)).labels → l ∈ labelsOf (teLeaves opKids kv ov bv (.node r ks)) := by
    intro l hl
    have : l ∈ labelsOf ((ketVec kv (.node r ks)).leaves ++ ((opExpr ov opKids (.node r ks)).leaves ++
        (braVec bv (.node r ks)).leaves)) := by
      simp only [labelsOf, List.flatMap_append, ← Expr.labels_eq_leaves, List.mem_append]
      exact hl
    exact (hsplit.flatMap_right (·.1)).mem_iff.2 this
  rw [List.nodup_append] at hndAll
  obtain ⟨_, hndOB, hdisK⟩ := hndAll
  rw [List.nodup_append] at hndOB
  have hKO : ∀ l ∈ (ketVec kv (.node r ks)).labels, l ∉ (opExpr ov opKids (.node r ks)).labels :=
    fun l hl hl' => hdisK l hl l (List.mem_append.2 (Or.inl hl')) rfl
  have hKB : ∀ l ∈ (ketVec kv (.node r ks)).labels, l ∉ (braVec bv (.node r ks)).labels :=
    fun l hl hl' => hdisK l hl l (List.mem_append.2 (Or.inr hl')) rfl
  have hOB : ∀ l ∈ (opExpr ov opKids (.node r ks)).labels, l ∉ (braVec bv (.node r ks)).labels :=
    fun l hl hl' => hndOB.2.2 l hl l hl' rfl
  have hrfresh : ∀ l ∈ rootLegs, l ∉ (ketVec kv (.node r ks)).labels ∧
      l ∉ (opExpr ov opKids (.node r ks)).labels ∧ l ∉ (braVec bv (.node r ks)).labels := by
    intro l hl
    have key : l ∉ labelsOf (teLeaves opKids kv ov bv (.node r ks)) := by
      intro hm
      obtain ⟨j, hj⟩ := hmemA l hm
      rw [rootLegs_legNode l hl] at hj
      simp at hj
    exact ⟨fun h => key (hmemAll l (Or.inl h)), fun h => key (hmemAll l (Or.inr (Or.inl h))),
      fun h => key (hmemAll l (Or.inr (Or.inr h)))⟩
  have hmemInfo : ∀ (p : Option Nat), ∀ n ∈ (Tree.node r ks).ids, ∃ x ∈ Tree.info p (Tree.node r ks), x.1 = n := by
    intro p n hn
    rw [← Tree.info_keys p (Tree.node r ks)] at hn
    obtain ⟨x, hx, rfl⟩ := List.mem_map.1 hn
    exact ⟨x, hx, rfl⟩
  have hKphys : ∀ n ∈ (Tree.node r ks).ids, Leg.gKetPhys n ∈ (ketVec kv (.node r ks)).free := by
    intro n hn
    obtain ⟨x, hx, rfl⟩ := hmemInfo (some 0) n hn
    apply layExpr_free_phys (ketLayer kv) _ (fun a b => by simp [ketLayer]) _ (some 0)
    simp only [labelsOf, List.mem_flatMap]
    exact ⟨_, nodeLeaves_sub _ _ (some 0) x hx _ (List.mem_singleton.2 rfl), by simp [ketLayer, gKetT, T.fresh]⟩
  have hBphys : ∀ n ∈ (Tree.node r ks).ids, Leg.gBraPhys n ∈ (braVec bv (.node r ks)).free := by
    intro n hn
    obtain ⟨x, hx, rfl⟩ := hmemInfo (some 0) n hn
    apply layExpr_free_phys ΛB _ (fun a b => by simp [ΛB, braLayerK]) _ (some 0)
    simp only [labelsOf, List.mem_flatMap]
    exact ⟨_, nodeLeaves_sub _ _ (some 0) x hx _ (List.mem_singleton.2 rfl), by simp [ΛB, braLayerK, gBraT, T.fresh]⟩
  have hOin : ∀ n ∈ (Tree.node r ks).ids, Leg.gOpIn n ∈ (opExpr ov opKids (.node r ks)).free := by
    intro n hn
    obtain ⟨x, hx, rfl⟩ := hmemInfo none n hn
    apply layExpr_free_phys ΛO _ (fun a b => by simp [ΛO, opLayer]) _ none
    simp only [labelsOf, List.mem_flatMap]
    exact ⟨_, nodeLeaves_sub _ _ none x hx _ (List.mem_singleton.2 rfl), by simp [ΛO, opLayer, gOpT, T.fresh]⟩
  have hOout : ∀ n ∈ (Tree.node r ks).ids, Leg.gOpOut n ∈ (opExpr ov opKids (.node r ks)).free := by
    intro n hn
    obtain ⟨x, hx, rfl⟩ := hmemInfo none n hn
    apply layExpr_free_phys ΛO _ (fun a b => by simp [ΛO, opLayer]) _ none
    simp only [labelsOf, List.mem_flatMap]
    exact ⟨_, nodeLeaves_sub _ _ none x hx _ (List.mem_singleton.2 rfl), by simp [ΛO, opLayer, gOpT, T.fresh]⟩
  have hin : ∀ p ∈ physIns (Tree.node r ks), p.1 ∈ (ketVec kv (.node r ks)).free ∧
      p.2 ∈ (opExpr ov opKids (.node r ks)).free := by
    intro p hp
    obtain ⟨n, hn, rfl⟩ := List.mem_map.1 hp
    exact ⟨hKphys n hn, hOin n hn⟩
  have hout : ∀ p ∈ physOuts (Tree.node r ks), p.1 ∈ (opExpr ov opKids (.node r ks)).free ∧
      p.2 ∈ (braVec bv (.node r ks)).free := by
    intro p hp
    obtain ⟨n, hn, rfl⟩ := List.mem_map.1 hp
    exact ⟨hOout n hn, hBphys n hn⟩
  have hKb : (ketVec kv (.node r ks)).binds.Perm (ketBonds (.node r ks)) := by
    have := layExpr_binds (ketLayer kv) (.node r ks) (some 0)
    simpa [Layer.edge, ketLayer, ketEdge, ketVec, ketBonds] using this
  have hOb : (opExpr ov opKids (.node r ks)).binds.Perm (opBonds (.node r ks)) := by
    have := layExpr_binds ΛO (.node r ks) none
    simpa [Layer.edge, ΛO, opLayer, opEdge, opExpr, opBonds] using this
  have hBb : (braVec bv (.node r ks)).binds.Perm (braBonds (.node r ks)) := by
    have := layExpr_binds ΛB (.node r ks) (some 0)
    simpa [Layer.edge, ΛB, braLayerK, braEdge, braVec, braBonds] using this
  have hgK : Leg.gKet (Tree.node r ks).id 0 ∈ (ketVec kv (.node r ks)).free :=
    layExpr_free_root (ketLayer kv) (ketLayer_inj kv) _ h0 (hhK _ hrootK)
  have hgB : Leg.gBra (Tree.node r ks).id 0 ∈ (braVec bv (.node r ks)).free :=
    layExpr_free_root ΛB (braLayerK_inj bv) _ h0 (hhB _ hrootK)
  refine ⟨⟨hswf, hK.wf, hO.wf, hB.wf, hrv, hKO, hKB, hOB, hrfresh, hbinds.symm, hKb, hOb, hBb, hin, hout,
    hgK, hgB, ?_⟩, hfree, hK, hB⟩
  intro τ
  have hl2 : e.leaves.Perm ((rootLegs, rv) :: ((ketVec kv (.node r ks)).leaves ++
      ((opExpr ov opKids (.node r ks)).leaves ++ (braVec bv (.node r ks)).leaves))) :=
    hleaves.trans (List.Perm.cons _ hsplit)
  rw [Expr.leafProd_of_leaves e _ hl2 τ, List.map_cons, List.map_append, List.map_append]
  simp only [prodL, prodL_append, mul_assoc]
  rfl

end Ptn.C16.Ttndo
