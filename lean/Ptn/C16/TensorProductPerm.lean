import Ptn.C16.TensorProductAbsorb
/-! The record of `trace_ttndo` after the absorptions (`tpBlockBinds`, in the code's order) is the specification graph
`tpSpec` up to order, every tree, every list of distinct sites of the tree (B59); and the top-level statement about
`tensorProductExpectationValue`.  Core Lean only. -/
namespace Ptn.C16.Ttndo
open Ptn.C04

theorem tpY_pair (sites : List Nat) (i : Nat) : (tpY sites i, Leg.gBraPhys i) = tpPhysPair sites i := by
  unfold tpY tpPhysPair
  by_cases h : i ∈ sites <;> simp [h]

mutual
theorem count_tpBlockBinds (sites : List Nat) (x : Leg × Leg) : ∀ t : Tree,
    (tpBlockBinds sites t).count x =
      (t.ids.flatMap (tpPre sites)).count x + (t.ids.map (tpPhysPair sites)).count x +
      (t.edges.map fun e => ketEdge e.1 e.2).count x + (t.edges.map fun e => braEdge e.1 e.2).count x
  | .node i ks => by
    have := count_tpKidsBinds sites x i ks
    simp only [tpBlockBinds, tpY_pair, Tree.ids, Tree.edges, List.flatMap_cons, List.map_cons, List.count_append,
      List.count_cons, List.count_nil]
    omega
theorem count_tpKidsBinds (sites : List Nat) (x : Leg × Leg) (i : Nat) : ∀ ts : List Tree,
    (tpKidsBinds sites i ts).count x + (ts.map fun c => braEdge i c.id).count x =
      ((Tree.idsL ts).flatMap (tpPre sites)).count x + ((Tree.idsL ts).map (tpPhysPair sites)).count x +
      ((Tree.edgesL i ts).map fun e => ketEdge e.1 e.2).count x +
      ((Tree.edgesL i ts).map fun e => braEdge e.1 e.2).count x
  | [] => by simp [tpKidsBinds, Tree.idsL, Tree.edgesL]
  | c :: cs => by
    have h1 := count_tpBlockBinds sites x c
    have h2 := count_tpKidsBinds sites x i cs
    simp only [tpKidsBinds, Tree.idsL, Tree.edgesL, List.flatMap_append, List.map_append, List.map_cons,
      List.count_append, List.count_cons, List.count_nil]
    omega
end

/-- the logged pairs along a list of identifiers: one per identifier that is a site -/
theorem flatMap_tpPre (sites : List Nat) : ∀ l : List Nat,
    l.flatMap (tpPre sites) = (l.filter (· ∈ sites)).map fun s => (Leg.gKetPhys s, Leg.gOpIn s)
  | [] => rfl
  | a :: l => by
    simp only [List.flatMap_cons, flatMap_tpPre sites l, tpPre, List.filter_cons]
    by_cases h : a ∈ sites <;> simp [h]

theorem tpPre_perm (sites ids : List Nat) (hs : sites.Nodup) (hi : ids.Nodup) (hin : ∀ s ∈ sites, s ∈ ids) :
    (ids.flatMap (tpPre sites)).Perm (tpAbsorbed sites) := by
  rw [flatMap_tpPre, tpAbsorbed]
  apply List.Perm.map
  rw [List.perm_ext_iff_of_nodup (hi.filter _) hs]
  intro a
  simp only [List.mem_filter, decide_eq_true_eq]
  exact ⟨fun h => h.2, fun h => ⟨hin a h, h⟩⟩

/-- **(b)** the record in the code's order is the specification graph up to order -/
theorem tpBlockBinds_perm (kt : Tree) (hnd : kt.ids.Nodup) (sites : List Nat) (hs : sites.Nodup)
    (hin : ∀ s ∈ sites, s ∈ kt.ids) :
    (tpBlockBinds sites kt ++ [(rootKetLeg, Leg.gKet kt.id 0), (rootBraLeg, Leg.gBra kt.id 0)]).Perm
      (tpSpec kt sites) := by
  unfold tpSpec
  apply List.Perm.append_right
  have h1 : (tpBlockBinds sites kt).Perm
      (kt.ids.flatMap (tpPre sites) ++ kt.ids.map (tpPhysPair sites) ++
        (kt.edges.map fun e => ketEdge e.1 e.2) ++ (kt.edges.map fun e => braEdge e.1 e.2)) := by
    rw [List.perm_iff_count]
    intro x
    rw [count_tpBlockBinds]
    simp only [List.count_append]
  exact h1.trans (List.Perm.append_right _ (List.Perm.append_right _
    (List.Perm.append_right _ (tpPre_perm sites kt.ids hs hnd hin))))

theorem tensorProductExpectationValue_eq (nd : Net) (sites : List Nat) :
    tensorProductExpectationValue nd sites = (absorbAll sites nd).bind traceTtndo := by
  cases sites with
  | nil => rfl
  | cons s rest =>
    simp only [tensorProductExpectationValue, List.length_cons, Nat.add_one_ne_zero, if_false]
    cases absorbAll (s :: rest) nd <;> rfl

/-- `tensor_product_expectation_value` on the TTNDO of the ket tree `kt`, distinct sites of the tree: the record in the
code's order -/
theorem tensorProduct_eq (kt : Tree) (hnd : kt.ids.Nodup) (hodd : ∀ k ∈ kt.ids, k % 2 = 1) (sites : List Nat)
    (hs : sites.Nodup) (hin : ∀ s ∈ sites, s ∈ kt.ids) :
    tensorProductExpectationValue (ttndoNetK kt) sites =
      some ⟨[], tpBlockBinds sites kt ++ [(rootKetLeg, Leg.gKet kt.id 0), (rootBraLeg, Leg.gBra kt.id 0)]⟩ := by
  obtain ⟨nd, h1, h2, h3, h4, h5, h6, h7⟩ := absorbAll_ttndo kt hnd hodd sites hs hin
  rw [tensorProductExpectationValue_eq, h1]
  exact tpTrace_eq sites kt hnd hodd nd h2 h3 h4 h5 h6 h7

end Ptn.C16.Ttndo
