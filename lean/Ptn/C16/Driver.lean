import Ptn.C16.Model
/-! Line-protocol handler for the C16 model (core Lean only). -/
namespace Ptn.C16
def handle (args : List String) : String := "bad-op"
end Ptn.C16
