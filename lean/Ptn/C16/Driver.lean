import Ptn.C16.Model
import Ptn.C16.TtndoModel
import Ptn.C16.TensorProduct
import Ptn.C04.Driver
/-! Line-protocol handler for C16 (core Lean only).  Identifiers travel hex-encoded (bytes of the
Python string; `-` is the empty identifier), so that the model works on the real strings.

  struct <r> <root> <id>:<kid>,<kid>… …   → the TTNDO built by `from_ttns(root_id = r)`: for every node
                                            in dict order `<id>^<parent|->:<kid>,<kid>…`, or `error`
  order <suffix> <id> <id> …              → `ttndo_contraction_order`: identifiers ending with the suffix
                                            (`-` when there is none)
  trace <root> <i>:<kids>;- …             → `trace_ttndo` on the TTNDO of the state tree (identifiers = numbers;
                                            TTNDO ids: root 0, ket copy 2i+1, bra copy 2i+2; the legs of the
                                            bra copy / operator tensor of ket node k are named gB<k>_<n> gBP<k> / gO<k>_<n> gOO<k> gOI<k>):
                                            `legs … | binds …` in the leg tokens of C04 (root legs BK0 BB0 BO0)
  ttno <root> <i>:<kids>;<operator kids> … → `ttndo_ttno_expectation_value` with a TTNO on the same tree
  tprod <sites|-> <root> <i>:<kids>;- …   → `tensor_product_expectation_value` with one single-site operator (legs gOO<k> gOI<k>)
                                            on the ket copy of every listed state node (comma separated, dict order; `-`: empty product)
-/
namespace Ptn.C16

def hexVal (c : Char) : Option Nat :=
  if '0' ≤ c ∧ c ≤ '9' then some (c.toNat - '0'.toNat)
  else if 'a' ≤ c ∧ c ≤ 'f' then some (c.toNat - 'a'.toNat + 10)
  else none

def unhexAux : List Char → Option Ident
  | [] => some []
  | a :: b :: rest =>
    match hexVal a, hexVal b, unhexAux rest with
    | some x, some y, some r => some (Char.ofNat (16 * x + y) :: r)
    | _, _, _ => none
  | _ => none

def unhex (s : String) : Option Ident :=
  if s = "-" then some [] else if s = "" then none else unhexAux s.toList

def hexDigit (n : Nat) : Char :=
  if n < 10 then Char.ofNat ('0'.toNat + n) else Char.ofNat ('a'.toNat + n - 10)

def hex (s : Ident) : String :=
  if s.isEmpty then "-" else String.ofList (s.flatMap fun c => [hexDigit (c.toNat / 16), hexDigit (c.toNat % 16)])

def parseEntry (s : String) : Option (Ident × List Ident) :=
  match s.splitOn ":" with
  | [a, b] =>
    match unhex a with
    | none => none
    | some x =>
      if b = "" then some (x, []) else
        match (b.splitOn ",").mapM unhex with
        | some l => some (x, l)
        | none => none
  | _ => none

/-- rebuild the ordered tree from the child table (fuel = number of entries; `none` on a missing entry) -/
def buildTree (tbl : List (Ident × List Ident)) : Nat → Ident → Option (Tree Ident)
  | 0, _ => none
  | fuel + 1, i =>
    match tbl.find? (·.1 == i) with
    | none => none
    | some (_, ks) =>
      match ks.mapM (buildTree tbl fuel) with
      | none => none
      | some ts => some (.node i ts)

def showNet (net : Net Ident) : String :=
  " ".intercalate (net.order.map fun x =>
    hex x ++ "^" ++ (match net.parent x with | none => "-" | some p => hex p) ++ ":" ++
      ",".intercalate ((net.children x).map hex))

def handle (args : List String) : String :=
  match args with
  | "struct" :: r :: root :: entries =>
    match unhex r, unhex root, entries.mapM parseEntry with
    | some r, some root, some tbl =>
      if (tbl.map (·.1)).eraseDups.length ≠ tbl.length then "bad-op" else
      match buildTree tbl (tbl.length + 1) root with
      | none => "bad-op"
      | some t =>
        if t.ids.length ≠ tbl.length then "bad-op" else
        match fromTtns ketId braId r t with
        | none => "error"
        | some net => showNet net
    | _, _, _ => "bad-op"
  | "order" :: suffix :: ids =>
    match unhex suffix, ids.mapM unhex with
    | some sfx, some l =>
      let o := contractionOrder sfx l
      if o.isEmpty then "-" else " ".intercalate (o.map hex)
    | _, _ => "bad-op"
  | "trace" :: root :: entries =>
    match Ptn.C04.parseTreeCase root entries with
    | some (t, _) => Ptn.C04.showT (Ttndo.traceTtndo (Ttndo.ttndoNetK (Ttndo.ketTree t)))
    | none => "bad-op"
  | "tprod" :: sites :: root :: entries =>
    match Ptn.C04.parseTreeCase root entries,
          (if sites = "-" then some [] else (sites.splitOn ",").mapM String.toNat?) with
    | some (t, _), some ss =>
      if ¬ ss.all (fun s => t.ids.contains s) ∨ ss.eraseDups.length ≠ ss.length then "bad-op" else
      Ptn.C04.showT (Ttndo.tensorProductExpectationValue (Ttndo.ttndoNetK (Ttndo.ketTree t)) (ss.map Ttndo.ketOf))
    | _, _ => "bad-op"
  | "ttno" :: root :: entries =>
    match Ptn.C04.parseTreeCase root entries with
    | some (t, other) =>
      Ptn.C04.showT (Ttndo.ttndoTtnoExpectationValue (Ttndo.ttndoNetK (Ttndo.ketTree t))
        (Ttndo.ttnoNetK (Ttndo.ketTree t) (fun k => (other (Ttndo.revKet k)).map Ttndo.ketOf)))
    | none => "bad-op"
  | _ => "bad-op"

end Ptn.C16
