import Ptn.C16.TensorProductGraph
/-! The absorption loop of `tensor_product_expectation_value` on the TTNDO of `from_ttns`, every tree, every list of
distinct sites of the tree (B59): `absorbAll` never raises and produces exactly the network `tpTrace_eq` is about
(only the ket tensors of the named sites change; node table, root, order are kept).  Core Lean only. -/
namespace Ptn.C16.Ttndo
open Ptn.C04

/-- the tensor table after the sites `done` were absorbed -/
def tpTensorTab (kt : Tree) (done : List Nat) (k : Nat) : Option T :=
  if k ∈ done then ((ttndoNetK kt).node k).map (fun n => tpKetT done k n) else (ttndoNetK kt).tensor k

theorem tpKetT_mem (sites : List Nat) (k : Nat) (hk : k ∈ sites) (n : Node) :
    tpKetT sites k n = ⟨n.nbrs.map (Leg.gKet k) ++ [Leg.gOpOut k], [(Leg.gKetPhys k, Leg.gOpIn k)]⟩ := by
  simp [tpKetT, tpY, tpPre, hk, T.pre, T.fresh]

theorem tpKetT_not_mem (sites : List Nat) (k : Nat) (hk : k ∉ sites) (n : Node) :
    tpKetT sites k n = gKetT k n := by
  simp [tpKetT, tpY, tpPre, hk, T.pre, T.fresh, gKetT]

theorem tpKetT_congr (s1 s2 : List Nat) (k : Nat) (h : k ∈ s1 ↔ k ∈ s2) (n : Node) :
    tpKetT s1 k n = tpKetT s2 k n := by
  by_cases hk : k ∈ s1
  · rw [tpKetT_mem s1 k hk, tpKetT_mem s2 k (h.1 hk)]
  · rw [tpKetT_not_mem s1 k hk, tpKetT_not_mem s2 k (fun h2 => hk (h.2 h2))]

/-- the loop invariant: `absorbAll rest` on a network with the TTNDO's nodes and the table `tpTensorTab done` succeeds
and yields the table `tpTensorTab (rest.reverse ++ done)` -/
theorem absorbAll_inv (kt : Tree) (hnd : kt.ids.Nodup) (hodd : ∀ k ∈ kt.ids, k % 2 = 1) :
    ∀ (rest done : List Nat) (nd : Net), rest.Nodup → (∀ k ∈ rest, k ∈ kt.ids ∧ k ∉ done) →
      nd.root = 0 → nd.order = (ttndoNetK kt).order → nd.node = (ttndoNetK kt).node →
      (∀ k, nd.tensor k = tpTensorTab kt done k) →
      ∃ nd', absorbAll rest nd = some nd' ∧ nd'.root = 0 ∧ nd'.order = (ttndoNetK kt).order ∧
        nd'.node = (ttndoNetK kt).node ∧ ∀ k, nd'.tensor k = tpTensorTab kt (rest.reverse ++ done) k
  | [], done, nd, _, _, hr, ho, hn, ht => ⟨nd, rfl, hr, ho, hn, by simpa using ht⟩
  | s :: rest, done, nd, hnodup, hmem, hr, ho, hn, ht => by
    simp only [List.nodup_cons] at hnodup
    obtain ⟨hs1, hs2⟩ := hmem s (by simp)
    obtain ⟨e, he, rfl⟩ := info_mem_of_id (some 0) kt s hs1
    obtain ⟨l1, l2, _, _⟩ := ttndo_lookup kt hnd hodd e he
    have hts : nd.tensor e.1 = some (gKetT e.1 ⟨e.2.1, e.2.2⟩) := by
      rw [ht e.1, tpTensorTab, if_neg hs2, l2]
    have hns : nd.node e.1 = some ⟨e.2.1, e.2.2⟩ := by rw [hn, l1]
    have habs : absorbNet nd e.1 = some (Net.setTensor nd e.1 (tpKetT (e.1 :: done) e.1 ⟨e.2.1, e.2.2⟩)) := by
      simp only [absorbNet, hns, hts, absorbIntoOpenLegs_gKetT]
      rw [tpKetT_mem (e.1 :: done) e.1 (by simp)]
    obtain ⟨nd', h1, h2, h3, h4, h5⟩ := absorbAll_inv kt hnd hodd rest (e.1 :: done)
      (Net.setTensor nd e.1 (tpKetT (e.1 :: done) e.1 ⟨e.2.1, e.2.2⟩)) hnodup.2
      (fun k hk => by
        obtain ⟨a, b⟩ := hmem k (by simp [hk])
        refine ⟨a, ?_⟩
        simp only [List.mem_cons, not_or]
        exact ⟨fun e' => hnodup.1 (e' ▸ hk), b⟩)
      hr ho hn
      (fun k => by
        simp only [Net.setTensor, tpTensorTab]
        by_cases hk : k = e.1
        · subst hk
          simp [l1]
        · rw [if_neg hk, ht k, tpTensorTab]
          by_cases hd : k ∈ done
          · have hd' : k ∈ e.1 :: done := by simp [hd]
            rw [if_pos hd, if_pos hd']
            cases (ttndoNetK kt).node k with
            | none => rfl
            | some n =>
              simp only [Option.map_some]
              rw [tpKetT_congr done (e.1 :: done) k (by simp [hd])]
          · have hd' : k ∉ e.1 :: done := by simp [hd, hk]
            rw [if_neg hd, if_neg hd'])
    refine ⟨nd', by simp only [absorbAll, habs, h1], h2, h3, h4, fun k => ?_⟩
    rw [h5 k]
    simp [List.reverse_cons, List.append_assoc]

/-- **(a)** the absorption loop on the TTNDO of the ket tree `kt`, distinct sites of the tree: never raises, and the
result is a network meeting every hypothesis of `tpTrace_eq` -/
theorem absorbAll_ttndo (kt : Tree) (hnd : kt.ids.Nodup) (hodd : ∀ k ∈ kt.ids, k % 2 = 1) (sites : List Nat)
    (hs : sites.Nodup) (hin : ∀ s ∈ sites, s ∈ kt.ids) :
    ∃ nd, absorbAll sites (ttndoNetK kt) = some nd ∧ nd.root = 0 ∧ nd.order = (ttndoNetK kt).order ∧
      nd.node = (ttndoNetK kt).node ∧
      nd.tensor 0 = some (T.fresh [rootKetLeg, rootBraLeg, rootOpenLeg]) ∧
      (∀ e ∈ Tree.info (some 0) kt, nd.tensor e.1 = some (tpKetT sites e.1 ⟨e.2.1, e.2.2⟩)) ∧
      (∀ e ∈ Tree.info (some 0) kt, nd.tensor (e.1 + 1) = some (gBraT e.1 ⟨e.2.1, e.2.2⟩)) := by
  obtain ⟨nd, h1, h2, h3, h4, h5⟩ := absorbAll_inv kt hnd hodd sites [] (ttndoNetK kt) hs
    (fun k hk => ⟨hin k hk, by simp⟩) rfl rfl rfl (fun k => by simp [tpTensorTab])
  have hmem : ∀ k, k ∈ sites.reverse ++ [] ↔ k ∈ sites := fun k => by simp
  have hoddS : ∀ k ∈ sites.reverse ++ [], k % 2 = 1 := fun k hk => hodd k (hin k ((hmem k).1 hk))
  refine ⟨nd, h1, h2, h3, h4, ?_, ?_, ?_⟩
  · rw [h5 0, tpTensorTab, if_neg (fun h => by have := hoddS 0 h; omega)]
    exact (ttndo_root_lookup kt).2
  · intro e he
    obtain ⟨l1, l2, _, _⟩ := ttndo_lookup kt hnd hodd e he
    rw [h5 e.1, tpTensorTab]
    by_cases hk : e.1 ∈ sites.reverse ++ []
    · rw [if_pos hk, l1, Option.map_some, tpKetT_congr _ sites e.1 (hmem e.1)]
    · rw [if_neg hk, l2, tpKetT_not_mem sites e.1 (fun h => hk ((hmem e.1).2 h))]
  · intro e he
    obtain ⟨_, _, _, l4⟩ := ttndo_lookup kt hnd hodd e he
    have hek : e.1 % 2 = 1 := hodd e.1 (by
      rw [← Tree.info_keys (some 0) kt]; exact List.mem_map.2 ⟨e, he, rfl⟩)
    rw [h5 (e.1 + 1), tpTensorTab, if_neg (fun h => by have := hoddS _ h; omega)]
    exact l4

end Ptn.C16.Ttndo
