import Ptn.C16.TreeLemmas
import Ptn.C16.TtndoTrace
import Ptn.C16.TtndoTop
import Ptn.C16.Value
import Ptn.C16.ValueDemo
import Ptn.C16.ValueLoop
import Ptn.C16.LoopDemo
import Ptn.C16.TensorProduct
import Ptn.C16.TensorProductValue
import Ptn.C16.TensorProductGraph
import Ptn.C16.TensorProductAbsorb
import Ptn.C16.TensorProductPerm
import Ptn.C16.TensorProductRename
import Ptn.C16.TensorProductSubst
/-! Property theorems for C16. Only property theorems and non-vacuity examples live here. -/
namespace Ptn.C16

/-- **Structure of `from_ttns`.**  For every ordered tree `t` with pairwise distinct identifiers and
identifier maps that are injective, disjoint and avoid the new root identifier `r`, `from_ttns`
succeeds and returns a network with `2n+1` distinct nodes: the root `r` (no parent, children
`[ket root, bra root]`) and for every state node `i` with parent `p` (resp. the root) a ket copy that is
a child of the ket copy of `p` (resp. of `r`) and a bra copy mirrored, each with the copies of `i`'s
children in the child order of the state. -/
theorem ttndo_structure {α : Type} [DecidableEq α] (ket bra : α → α) (r : α) (t : Tree α)
    (hnd : t.ids.Nodup) (H : Tagging ket bra r t.ids) :
    ∃ net, fromTtns ket bra r t = some net ∧
      net.order = r :: t.ids.flatMap (fun i => [ket i, bra i]) ∧
      net.order.length = 2 * t.ids.length + 1 ∧
      net.order.Nodup ∧
      net.parent r = none ∧
      net.children r = [ket t.id, bra t.id] ∧
      ∀ e ∈ Tree.info r t,
        net.parent (ket e.1) = some (if e.2.1 = r then r else ket e.2.1) ∧
        net.parent (bra e.1) = some (if e.2.1 = r then r else bra e.2.1) ∧
        net.children (ket e.1) = e.2.2.map ket ∧
        net.children (bra e.1) = e.2.2.map bra := by
  have hv : validOps [r] (opsT ket bra r r r t) :=
    opsT_valid ket bra r t.ids H t r r [r] hnd (fun _ hi => hi) (by simp) (by simp)
      (fun i hi => ⟨by simpa using H.ketR i hi, by simpa using H.braR i hi⟩)
  obtain ⟨net, h1, h2, h3, h4, h5⟩ := applyOps_spec (Net.trivialRoot r) _ hv
  have hfst := opsT_fst ket bra r t r r
  have hndo : ([r] ++ (opsT ket bra r r r t).map (·.1)).Nodup := validOps_nodup [r] _ hv (by simp)
  have hndf : ((opsT ket bra r r r t).map (·.1)).Nodup := (List.nodup_append.1 hndo).2.1
  have hrf : r ∉ (opsT ket bra r r r t).map (·.1) := by
    rw [hfst, mem_flatMap_pair]
    rintro ⟨i, hi, e | e⟩
    · exact H.ketR i hi e.symm
    · exact H.braR i hi e.symm
  have hlen : (t.ids.flatMap (fun i => [ket i, bra i])).length = 2 * t.ids.length := by
    generalize t.ids = l
    induction l with
    | nil => rfl
    | cons a as ih => simp [List.flatMap_cons, ih]; omega
  refine ⟨net, by rw [fromTtns_eq]; exact h1, ?_, ?_, ?_, ?_, ?_, ?_⟩
  · rw [h2, hfst]; rfl
  · rw [h2, hfst]; simp [Net.trivialRoot, hlen]
  · rw [h2]; exact hndo
  · rw [h3 r hrf]; rfl
  · rw [h5 r, if_neg hrf]
    cases t with
    | node i ks =>
      have hiS : i ∈ (Tree.node i ks).ids := by simp [Tree.ids]
      have hir : ¬ i = r := fun e => H.rS (e ▸ hiS)
      have hsub := childOps_opsL_nil ket bra r _ H ks (ket i) (bra i) r
        (fun j hj => by simp [Tree.ids, hj]) (fun e => H.ketR i hiS e.symm) (fun e => H.braR i hiS e.symm)
        (fun j hj => ⟨fun e => H.ketR j (by simp [Tree.ids, hj]) e.symm,
                      fun e => H.braR j (by simp [Tree.ids, hj]) e.symm⟩)
      simp [Net.trivialRoot, opsT, hir, childOps_cons, hsub, Tree.id]
  · intro e he
    have hi : e.1 ∈ t.ids := info_ids t r e he
    have hmem := info_mem_opsT ket bra r t.ids H t r e he
    simp only [if_true] at hmem
    have hkf : ket e.1 ∈ (opsT ket bra r r r t).map (·.1) := by
      rw [hfst, mem_flatMap_pair]; exact ⟨e.1, hi, Or.inl rfl⟩
    have hbf : bra e.1 ∈ (opsT ket bra r r r t).map (·.1) := by
      rw [hfst, mem_flatMap_pair]; exact ⟨e.1, hi, Or.inr rfl⟩
    have hch := childOps_info_opsT ket bra r t.ids H t r r r e hnd (fun _ h => h) he
    refine ⟨h4 _ _ hmem.1 hndf, h4 _ _ hmem.2 hndf, ?_, ?_⟩
    · rw [h5, if_pos hkf, hch.1 (fun e' => H.ketR _ hi e'.symm) (fun e' => H.ketR _ hi e'.symm)]; rfl
    · rw [h5, if_pos hbf, hch.2 (fun e' => H.braR _ hi e'.symm) (fun e' => H.braR _ hi e'.symm)]; rfl

/-- **The suffix convention is an injective tagging** for *all* identifier strings: appending `_ket` /
`_bra` is injective, the two images are disjoint (also for identifiers that themselves end in a
suffix); only the freshness of the new root identifier is a precondition on the caller. -/
theorem suffix_tagging (r : Ident) (S : List Ident) (hr : r ∉ S) (hk : ∀ i ∈ S, ketId i ≠ r)
    (hb : ∀ i ∈ S, braId i ≠ r) : Tagging ketId braId r S where
  rS := hr
  ketR := hk
  braR := hb
  ketInj := fun _ _ _ _ e => List.append_cancel_right e
  braInj := fun _ _ _ _ e => List.append_cancel_right e
  ketBra := fun i _ j _ e => by
    have := (List.append_inj' e (by decide)).2
    exact absurd this (by decide)

/-- non-vacuity: identifiers that already end in the suffixes (`a`, `a_ket`, `a_ket_bra`) -/
example : Tagging ketId braId "ttndo_root".toList ["a".toList, "a_ket".toList, "a_ket_bra".toList] :=
  suffix_tagging _ _ (by decide) (by decide) (by decide)

example : (fromTtns ketId braId "R".toList
    (.node "a".toList [.node "a_ket".toList [], .node "b".toList []])).map (·.order.map String.ofList) =
    some ["R", "a_ket", "a_bra", "a_ket_ket", "a_ket_bra", "b_ket", "b_bra"] := by decide

/-- **`ttndo_contraction_order`** (after the repair of F-C16b): filtering `linearise()` with
`endswith(ket_suffix)` returns exactly the ket copies, in linearisation order, for every tree and all
identifier strings — provided only that the root identifier itself does not end with the ket suffix. -/
theorem contraction_order_kets (r : Ident) (t : Tree Ident) (hr : endsWith r ketSuffix = false) :
    contractionOrder ketSuffix (linearisedIds r t) = t.post.map ketId := by
  have h1 : (t.post.map ketId).filter (endsWith · ketSuffix) = t.post.map ketId :=
    List.filter_eq_self.2 (fun x hx => by
      obtain ⟨s, _, rfl⟩ := List.mem_map.1 hx
      exact endsWith_append_suffix s ketSuffix)
  have h2 : (t.post.map braId).filter (endsWith · ketSuffix) = [] :=
    List.filter_eq_nil_iff.2 (fun x hx => by
      obtain ⟨s, _, rfl⟩ := List.mem_map.1 hx
      have := not_endsWith_of_other_suffix s ketSuffix braSuffix (by decide) (by decide)
      simp [braId, this])
  simp [contractionOrder, linearisedIds, List.filter_append, h1, h2, hr]

example : endsWith "ttndo_root".toList ketSuffix = false := by decide

/-- `reverse_ket_id` / `reverse_bra_id` undo `ket_id` / `bra_id` -/
theorem reverseId_append (s sfx : Ident) : reverseId sfx (s ++ sfx) = some s := by
  simp [reverseId, endsWith_append_suffix]

/-- **The padded root bond.**  `from_ttns` reshapes the state's root tensor to a leading axis of length 1
and pads that axis to `root_bond_dim = d`: entry `0` is the tensor, every entry `k ≥ 1` is zero. -/
theorem padded_root_index (β : Type) [OfNat β 0] (x : Nat → β) (k : Nat) :
    pad0 0 1 x k = if k = 0 then x 0 else 0 := by
  cases k with
  | zero => simp [pad0]
  | succ k => simp [pad0]

/-- hence the identity matrix on the root couples only index 0 of the ket copy with index 0 of the bra
copy: `Σ_{a,b<d} eye[a,b]·K[a]·B[b] = K₀·B₀` for every root bond dimension `d ≥ 1`. -/
theorem padded_root_no_contribution (d : Nat) (hd : 0 < d) (x y : Nat → Int) :
    ((List.range d).map (fun a => ((List.range d).map
        (fun b => (if a = b then 1 else 0) * pad0 0 1 x a * pad0 0 1 y b)).sum)).sum = x 0 * y 0 := by
  obtain ⟨n, rfl⟩ : ∃ n, d = n + 1 := ⟨d - 1, by omega⟩
  rw [sum_range_head _ n]
  · rw [sum_range_head _ n]
    · simp [padded_root_index]
    · intro b; simp [padded_root_index]
  · intro a
    have : (fun b => (if a + 1 = b then (1 : Int) else 0) * pad0 0 1 x (a + 1) * pad0 0 1 y b) = fun _ => 0 := by
      funext b; simp [padded_root_index]
    rw [this]
    exact sum_map_zero _

example : ((List.range 3).map (fun a => ((List.range 3).map
    (fun b => (if a = b then 1 else 0) * pad0 0 1 (fun _ => (5 : Int)) a * pad0 0 1 (fun _ => (7 : Int)) b)).sum)).sum
    = 35 := by decide

/-! ## The contractions of the TTNDO (tree level, leg-label calculus of C04) -/

open Ptn.C04 in
/-- **`trace_ttndo` computes the closed graph of `<psi|psi>` through the root.**  For every state tree `t`
(distinct identifiers) — `ketTree t` is `t` with the identifiers renamed to the ket identifiers, on which
`from_ttns` builds the mirrored ket and bra branches below the root (`ttndo_structure`) — the loop of
`trace_ttndo` over the ket nodes in linearisation order (with `ket_to_bra_id` as `id_trafo`, block dictionary
keyed by ket identifiers) and `_contract_final_block` never raise and leave NO free leg; the bound pairs
are, up to order: for every node `(ketPhys n, braPhys n)`, for every edge the two ket legs and the two bra
legs, and the two root-bond legs of the ket and the bra copy of the state's root bound to the two legs of the
root tensor (whose open leg of dimension 1 is indexed away).  With `padded_root_no_contribution` (the root
tensor is the identity and only index 0 of the padded bonds is non-zero) the value is `<psi|psi>` (bra tensor
= conj of the ket tensor). -/
theorem trace_graph (t : Ptn.C04.Tree) (hnd : t.ids.Nodup) :
    ∃ binds, Ttndo.traceTtndo (Ttndo.ttndoNetK (Ttndo.ketTree t)) = some ⟨[], binds⟩ ∧
      binds.Perm (ssSpec (Ttndo.ketTree t) ++
        [(Ttndo.rootKetLeg, Leg.gKet (Ttndo.ketTree t).id 0), (Ttndo.rootBraLeg, Leg.gBra (Ttndo.ketTree t).id 0)]) := by
  obtain ⟨h1, h2⟩ := Ttndo.ketTree_wf t hnd
  refine ⟨_, Ttndo.traceTtndo_eq (Ttndo.ketTree t) h1 h2, List.Perm.append_right _ ?_⟩
  exact List.perm_iff_count.2 (fun x => count_blockBinds x _)

example : Ttndo.traceTtndo (Ttndo.ttndoNetK (Ttndo.ketTree (.node 0 [.node 1 [], .node 2 []]))) =
    some ⟨[], [Ptn.C04.physPair 3, Ptn.C04.ketEdge 1 3, Ptn.C04.physPair 5, Ptn.C04.ketEdge 1 5,
               Ptn.C04.braEdge 1 3, Ptn.C04.braEdge 1 5, Ptn.C04.physPair 1,
               (Ttndo.rootKetLeg, .gKet 1 0), (Ttndo.rootBraLeg, .gBra 1 0)]⟩ := by decide

open Ptn.C04 in
/-- **`ttndo_ttno_expectation_value` computes the closed graph of `<psi|O|psi>` through the root.**  For every
state tree and every TTNO on it with arbitrary, independent child orders (`opKids k` any permutation of the
children of the ket node `k`): the loop over the ket nodes except the copy of the root (identifier maps
`reverse_ket_id` for the operator, `ket_to_bra_id` for the bra), `_contract_ttno_root` (resp.
`_single_site_contraction` for a single node) and `_contract_final_block` never raise and leave NO free leg;
the bound pairs are, as unordered pairs up to order: for every node the operator's INPUT leg with the ket
copy's physical leg and its OUTPUT leg with the bra copy's, for every edge the ket, operator and bra pairs,
and the two root-bond legs bound to the root tensor. -/
theorem ttndo_ttno_graph (t : Ptn.C04.Tree) (hnd : t.ids.Nodup) (opKids : Nat → List Nat)
    (hperm : ∀ e ∈ Ptn.C04.Tree.info none (Ttndo.ketTree t), (opKids e.1).Perm e.2.2) :
    ∃ binds, Ttndo.ttndoTtnoExpectationValue (Ttndo.ttndoNetK (Ttndo.ketTree t))
        (Ttndo.ttnoNetK (Ttndo.ketTree t) opKids) = some ⟨[], binds⟩ ∧
      (unord binds).Perm (unord (soSpec (Ttndo.ketTree t) ++
        [(Ttndo.rootKetLeg, Leg.gKet (Ttndo.ketTree t).id 0), (Ttndo.rootBraLeg, Leg.gBra (Ttndo.ketTree t).id 0)])) := by
  obtain ⟨h1, h2⟩ := Ttndo.ketTree_wf t hnd
  exact ⟨_, Ttndo.ttndoTtno_eq (Ttndo.ketTree t) opKids h1 h2 hperm, Ttndo.teBinds_perm _⟩

example : Ttndo.ttndoTtnoExpectationValue (Ttndo.ttndoNetK (Ttndo.ketTree (.node 0 [.node 1 [], .node 2 []])))
    (Ttndo.ttnoNetK (Ttndo.ketTree (.node 0 [.node 1 [], .node 2 []])) (fun k => if k = 1 then [5, 3] else [])) =
    some ⟨[], Ttndo.teBinds (Ttndo.ketTree (.node 0 [.node 1 [], .node 2 []]))⟩ := by decide

example : ∀ e ∈ Ptn.C04.Tree.info none (Ttndo.ketTree (.node 0 [.node 1 [], .node 2 []])),
    ((fun k => if k = 1 then [5, 3] else []) e.1).Perm e.2.2 := by decide

/-! ## Value level: what the records of `trace_graph` and `ttndo_ttno_graph` evaluate to

`Ptn/Common/Einsum*.lean`: a tensor is a function of an index assignment, `sumPairs dim ps f` sums `f` over one
common index per pair of `ps`, `Expr` is a nesting of `tensordot` calls and `Expr.eval` evaluates it the way the
program does.  The hypotheses are bundled in `Ttndo.TraceProgram`, `Ttndo.TtnoProgram`, `Ttndo.PaddedRoot`
(`Value.lean`). -/

open Ptn.C04 Ptn.Ein in
/-- **`trace_ttndo` computes `Σ_{a,b} root[a,b] · Σ_phys ψ_a(phys) · ψ'_b(phys)` (value level).**  For every
state tree with distinct identifiers the routine returns a closed tensor with some record `binds`
(`trace_graph`), and over every commutative semiring, for all dimensions: EVERY strongly well-formed contraction
program `e` with that record whose leaves are the root tensor `rv` and the tensors of the two copies — in
particular the sequence of `tensordot` calls the routine performs — evaluates to the sum, over the two root-bond
indices, of the root tensor times the sum over one common index per physical pair of the product of the two dense
vectors `K` (ket copy) and `B` (bra copy), each ANY well-formed contraction of its own network over its own
bonds. -/
theorem trace_value {R : Type} [CommSemiring R] (t : Ptn.C04.Tree) (hnd : t.ids.Nodup) :
    ∃ binds, Ttndo.traceTtndo (Ttndo.ttndoNetK (Ttndo.ketTree t)) = some ⟨[], binds⟩ ∧
      ∀ (dim : Leg → Nat) (e K B : Expr Leg R) (rv : Asg Leg → R),
        Ttndo.TraceProgram (Ttndo.ketTree t) binds e K B rv →
        ∀ σ, e.eval dim σ = sumPairs dim (Ttndo.rootPairs (Ttndo.ketTree t)) (fun τ => rv τ *
          sumPairs dim (Ttndo.physPairs (Ttndo.ketTree t)) (fun ρ => K.eval dim ρ * B.eval dim ρ) τ) σ := by
  obtain ⟨binds, hrun, hb⟩ := trace_graph t hnd
  exact ⟨binds, hrun, fun dim e K B rv h σ => h.value hb dim σ⟩

open Ptn.C04 Ptn.Ein in
/-- **`trace()` of the TTNDO of `from_ttns` is `Σ_phys ψ(phys) · ψ'(phys)` for every root bond dimension ≥ 1.**
With the root tensor `eye(d).reshape(d, d, 1)` and the padded root bond (both dense vectors vanish off index 0 of
their root-bond leg, `padded_root_index`) every program with the record of `trace_ttndo` evaluates to the sum over
the physical indices of the product of the two dense vectors at root-bond index 0 — with `ψ'` the conjugated copy
this is `<psi|psi>`.  No hypothesis relates the two root-leg dimensions to each other or bounds them. -/
theorem trace_value_padded_root {R : Type} [CommSemiring R] (t : Ptn.C04.Tree) (hnd : t.ids.Nodup) :
    ∃ binds, Ttndo.traceTtndo (Ttndo.ttndoNetK (Ttndo.ketTree t)) = some ⟨[], binds⟩ ∧
      ∀ (dim : Leg → Nat) (e K B : Expr Leg R),
        Ttndo.TraceProgram (Ttndo.ketTree t) binds e K B Ttndo.eyeRoot →
        Ttndo.PaddedRoot dim (Ttndo.ketTree t) K B →
        ∀ σ, e.eval dim σ =
          sumPairs dim (Ttndo.physPairs (Ttndo.ketTree t)) (fun ρ => K.eval dim ρ * B.eval dim ρ)
            (upd (upd σ (Leg.gKet (Ttndo.ketTree t).id 0) 0) (Leg.gBra (Ttndo.ketTree t).id 0) 0) := by
  obtain ⟨binds, hrun, hb⟩ := trace_graph t hnd
  exact ⟨binds, hrun, fun dim e K B h hp σ => h.value_padded hb dim hp σ⟩

open Ptn.C04 Ptn.Ein Ttndo.Demo in
/-- non-vacuity: on the state tree `0 — 1` the `tensordot` calls of `trace_ttndo` (block of the leaf, root copy,
root tensor), integer node tensors reading all their legs and the padded root bond of dimension 3 satisfy every
hypothesis; the record is the one the model produces -/
example : Ttndo.traceTtndo (Ttndo.ttndoNetK (Ttndo.ketTree st)) = some ⟨[], trBinds⟩ ∧
    Ttndo.TraceProgram (Ttndo.ketTree st) trBinds trProg K B Ttndo.eyeRoot ∧
    Ttndo.PaddedRoot dim (Ttndo.ketTree st) K B :=
  ⟨trace_run, trace_hyps, padded⟩

open Ptn.C04 Ptn.Ein Ttndo.Demo in
/-- … and both sides of the conclusion are the integer 622 -/
example : trProg.eval dim (fun _ => 0) = 622 ∧
    sumPairs dim (Ttndo.physPairs (Ttndo.ketTree st)) (fun ρ => K.eval dim ρ * B.eval dim ρ) (fun _ => 0) = 622 := by
  decide

open Ptn.C04 Ptn.Ein in
/-- **`ttndo_ttno_expectation_value` computes `Σ root · Σ_out (Σ_in ψ · O) · ψ'` (value level).**  For every
state tree and every TTNO on it (independent child orders) the routine returns a closed tensor with some record
`binds` (`ttndo_ttno_graph`, which fixes the pairs only as UNORDERED pairs); for all dimensions that agree on the
two legs of every pair of the specification graph (NumPy rejects anything else) EVERY strongly well-formed
program with that record over the root tensor and the tensors of the three layers evaluates to: the root tensor
times — the operator's INPUT legs summed against the ket copy's physical legs, its OUTPUT legs against the bra
copy's — the sandwich of the dense operator `O` between the dense vectors `K` and `B`. -/
theorem ttndo_ttno_value {R : Type} [CommSemiring R] (t : Ptn.C04.Tree) (hnd : t.ids.Nodup)
    (opKids : Nat → List Nat)
    (hperm : ∀ e ∈ Ptn.C04.Tree.info none (Ttndo.ketTree t), (opKids e.1).Perm e.2.2) :
    ∃ binds, Ttndo.ttndoTtnoExpectationValue (Ttndo.ttndoNetK (Ttndo.ketTree t))
        (Ttndo.ttnoNetK (Ttndo.ketTree t) opKids) = some ⟨[], binds⟩ ∧
      ∀ (dim : Leg → Nat),
        (∀ p ∈ soSpec (Ttndo.ketTree t) ++ Ttndo.rootPairs (Ttndo.ketTree t), dim p.1 = dim p.2) →
        ∀ (e K O B : Expr Leg R) (rv : Asg Leg → R),
        Ttndo.TtnoProgram (Ttndo.ketTree t) binds e K O B rv →
        ∀ σ, e.eval dim σ = sumPairs dim (Ttndo.rootPairs (Ttndo.ketTree t)) (fun τ => rv τ *
          sumPairs dim (Ttndo.physOuts (Ttndo.ketTree t)) (fun ρ =>
            sumPairs dim (Ttndo.physIns (Ttndo.ketTree t)) (fun π => K.eval dim π * O.eval dim π) ρ *
              B.eval dim ρ) τ) σ := by
  obtain ⟨binds, hrun, hb⟩ := ttndo_ttno_graph t hnd opKids hperm
  exact ⟨binds, hrun, fun dim hd e K O B rv h σ => h.value hb dim hd σ⟩

open Ptn.C04 Ptn.Ein in
/-- **… and on the TTNDO of `from_ttns` this is `Σ ψ' O ψ` for every root bond dimension ≥ 1**: identity root
tensor and padded root bond, as in `trace_value_padded_root`. -/
theorem ttndo_ttno_value_padded_root {R : Type} [CommSemiring R] (t : Ptn.C04.Tree) (hnd : t.ids.Nodup)
    (opKids : Nat → List Nat)
    (hperm : ∀ e ∈ Ptn.C04.Tree.info none (Ttndo.ketTree t), (opKids e.1).Perm e.2.2) :
    ∃ binds, Ttndo.ttndoTtnoExpectationValue (Ttndo.ttndoNetK (Ttndo.ketTree t))
        (Ttndo.ttnoNetK (Ttndo.ketTree t) opKids) = some ⟨[], binds⟩ ∧
      ∀ (dim : Leg → Nat),
        (∀ p ∈ soSpec (Ttndo.ketTree t) ++ Ttndo.rootPairs (Ttndo.ketTree t), dim p.1 = dim p.2) →
        ∀ (e K O B : Expr Leg R),
        Ttndo.TtnoProgram (Ttndo.ketTree t) binds e K O B Ttndo.eyeRoot →
        Ttndo.PaddedRoot dim (Ttndo.ketTree t) K B →
        ∀ σ, e.eval dim σ =
          sumPairs dim (Ttndo.physOuts (Ttndo.ketTree t)) (fun ρ =>
            sumPairs dim (Ttndo.physIns (Ttndo.ketTree t)) (fun π => K.eval dim π * O.eval dim π) ρ *
              B.eval dim ρ)
            (upd (upd σ (Leg.gKet (Ttndo.ketTree t).id 0) 0) (Leg.gBra (Ttndo.ketTree t).id 0) 0) := by
  obtain ⟨binds, hrun, hb⟩ := ttndo_ttno_graph t hnd opKids hperm
  exact ⟨binds, hrun, fun dim hd e K O B h hp σ => h.value_padded hb dim hd hp σ⟩

open Ptn.C04 Ptn.Ein Ttndo.Demo in
/-- non-vacuity: the `tensordot` calls of `ttndo_ttno_expectation_value` on the tree `0 — 1` with a TTNO whose
tensors read all their legs -/
example : (∀ e ∈ Ptn.C04.Tree.info none (Ttndo.ketTree st), (opKids e.1).Perm e.2.2) ∧
    Ttndo.ttndoTtnoExpectationValue (Ttndo.ttndoNetK (Ttndo.ketTree st))
      (Ttndo.ttnoNetK (Ttndo.ketTree st) opKids) = some ⟨[], Ttndo.teBinds (Ttndo.ketTree st)⟩ ∧
    (∀ p ∈ soSpec (Ttndo.ketTree st) ++ Ttndo.rootPairs (Ttndo.ketTree st), dim p.1 = dim p.2) ∧
    Ttndo.TtnoProgram (Ttndo.ketTree st) (Ttndo.teBinds (Ttndo.ketTree st)) teProg K O B Ttndo.eyeRoot ∧
    Ttndo.PaddedRoot dim (Ttndo.ketTree st) K B :=
  ⟨opKids_perm, ttno_run, dims_ok, ttno_hyps, padded⟩

open Ptn.C04 Ptn.Ein Ttndo.Demo in
/-- … and both sides of the conclusion are the integer 16274 -/
example : teProg.eval dim (fun _ => 0) = 16274 ∧
    sumPairs dim (Ttndo.physOuts (Ttndo.ketTree st)) (fun ρ =>
      sumPairs dim (Ttndo.physIns (Ttndo.ketTree st)) (fun π => K.eval dim π * O.eval dim π) ρ * B.eval dim ρ)
      (fun _ => 0) = 16274 := by
  decide

open Ptn.C04 Ptn.Ein in
/-- **The padding hypothesis follows from the padded root TENSORS.**  `from_ttns` gives the ket and the bra copy of
the state's root a tensor that vanishes off index `0` of the new root-bond axis (`padded_root_index`); for ANY
strongly well-formed contractions `K`, `B` of the two copies in which that tensor is a leaf and the root-bond leg is
still open, the dense vectors vanish off index `0` as well — `PaddedRoot`, the hypothesis of
`trace_value_padded_root` and `ttndo_ttno_value_padded_root` (the root bond dimension is positive:
`positivity_check` in `add_trivial_root`). -/
theorem padded_root_of_tensors {R : Type} [CommSemiring R] (dim : Leg → Nat) (t : Ptn.C04.Tree)
    (K B : Expr Leg R) (hK : K.SWF) (hB : B.SWF)
    (hgK : Leg.gKet (Ttndo.ketTree t).id 0 ∈ K.free) (hgB : Leg.gBra (Ttndo.ketTree t).id 0 ∈ B.free)
    (hkz : ∃ kl ∈ K.leaves, ∀ ρ : Asg Leg, ρ (Leg.gKet (Ttndo.ketTree t).id 0) ≠ 0 → kl.2 ρ = 0)
    (hbz : ∃ bl ∈ B.leaves, ∀ ρ : Asg Leg, ρ (Leg.gBra (Ttndo.ketTree t).id 0) ≠ 0 → bl.2 ρ = 0)
    (hdK : 0 < dim Ttndo.rootKetLeg) (hdB : 0 < dim Ttndo.rootBraLeg) :
    Ttndo.PaddedRoot dim (Ttndo.ketTree t) K B := by
  obtain ⟨kl, hkl, hk⟩ := hkz
  obtain ⟨bl, hbl, hb⟩ := hbz
  exact Ttndo.PaddedRoot.of_tensors dim _ K B hK hB hgK hgB kl bl hkl hbl hk hb hdK hdB

open Ptn.C04 Ptn.Ein Ttndo.Demo in
/-- non-vacuity: the padded root tensors of the demo network (root bond dimension 3) -/
example : K.SWF ∧ B.SWF ∧ Leg.gKet (Ttndo.ketTree st).id 0 ∈ K.free ∧ Leg.gBra (Ttndo.ketTree st).id 0 ∈ B.free ∧
    (∃ kl ∈ K.leaves, ∀ ρ : Asg Leg, ρ (Leg.gKet (Ttndo.ketTree st).id 0) ≠ 0 → kl.2 ρ = 0) ∧
    (∃ bl ∈ B.leaves, ∀ ρ : Asg Leg, ρ (Leg.gBra (Ttndo.ketTree st).id 0) ≠ 0 → bl.2 ρ = 0) ∧
    0 < dim Ttndo.rootKetLeg ∧ 0 < dim Ttndo.rootBraLeg :=
  padded_tensors

/-! ## Value level, unconditional in the program: the model's own sequence of `tensordot` calls

`Ptn.C04.Built t e` (`Ptn/C04/Built.lean`): the tensor `t` of the leg-label calculus is the result of the nesting
`e` of `tensordot` calls over fresh tensors.  `BuiltFns.lean` proves "inputs built ⟹ output built from exactly the
consumed leaves" for every function of the model of `ttndo_contractions.py` (`trStep`, `teStep`,
`_contract_ttno_root`, `_single_site_contraction`, `_contract_final_block`), `BuiltTree.lean` composes them along the
tree, `ValueLoop.lean` shows that every such expression satisfies `Ttndo.TraceProgram` / `Ttndo.TtnoProgram` with the
canonical dense vectors `Ttndo.ketVec`, `Ttndo.braVec` (and the dense operator) as reference contractions. -/

open Ptn.C04 Ptn.Ein in
/-- **`trace_ttndo` computes `Σ_{a,b} root[a,b] · Σ_phys ψ_a(phys) · ψ'_b(phys)` — the loop itself, unconditionally
in the program.**  For every state tree with distinct identifiers, every commutative semiring, all dimensions and
ALL values of the root tensor `rv` and of the node tensors `kv` (ket copy), `bv` (bra copy), each reading only its
own legs:

* the routine returns a closed tensor `⟨[], binds⟩`: the result `⟨[rootOpenLeg], binds⟩` of its last `tensordot`
  with the open leg of the root tensor (dimension 1) indexed away (`contraction_result[0]`);
* that last result is BUILT, by the `tensordot` calls the loop over the ket identifiers and
  `_contract_final_block` perform, from an expression whose leaves are exactly the root tensor and the ket and bra
  tensors of all nodes;
* EVERY expression `e` from which it is built over these leaves is strongly well-formed, has the record `binds`,
  has the open leg of the root tensor as its only free leg, and evaluates — for every index of that leg, in
  particular index `0` — to the sum over the two root-bond indices of the root tensor times the sum over one common
  index per physical pair of the product of the dense vectors `ketVec` and `braVec` of the two copies (each branch
  contracted over its own bonds, child by child). -/
theorem trace_loop_value {R : Type} [CommSemiring R] (t : Ptn.C04.Tree) (hnd : t.ids.Nodup)
    (kv bv : Nat → Asg Leg → R) (rv : Asg Leg → R)
    (hkv : Ttndo.KetLocal0 kv (Ttndo.ketTree t)) (hbv : Ttndo.BraLocal0 bv (Ttndo.ketTree t))
    (hrv : DependsOn (· ∈ Ttndo.rootLegs) rv) :
    ∃ binds, Ttndo.traceTtndo (Ttndo.ttndoNetK (Ttndo.ketTree t)) = some ⟨[], binds⟩ ∧
      (∃ e : Expr Leg R, Built ⟨[Ttndo.rootOpenLeg], binds⟩ e ∧
        e.leaves.Perm (Ttndo.traceLeaves rv kv bv (Ttndo.ketTree t))) ∧
      ∀ e : Expr Leg R, Built ⟨[Ttndo.rootOpenLeg], binds⟩ e →
        e.leaves.Perm (Ttndo.traceLeaves rv kv bv (Ttndo.ketTree t)) →
        e.SWF ∧ e.binds.Perm binds ∧ e.free = [Ttndo.rootOpenLeg] ∧
        ∀ (dim : Leg → Nat) (σ : Asg Leg), e.eval dim σ =
          sumPairs dim (Ttndo.rootPairs (Ttndo.ketTree t)) (fun τ => rv τ *
            sumPairs dim (Ttndo.physPairs (Ttndo.ketTree t)) (fun ρ =>
              (Ttndo.ketVec kv (Ttndo.ketTree t)).eval dim ρ * (Ttndo.braVec bv (Ttndo.ketTree t)).eval dim ρ) τ) σ := by
  obtain ⟨h1, h2⟩ := Ttndo.ketTree_wf t hnd
  have h0 : (0 : Nat) ∉ (Ttndo.ketTree t).ids := fun h => by have := h2 0 h; omega
  obtain ⟨binds, hrun, hb, hbuilt⟩ := Ttndo.traceTtndo_built (Ttndo.ketTree t) h1 h2 kv bv rv
  refine ⟨binds, hrun, hbuilt, fun e he hl => ?_⟩
  obtain ⟨hprog, hfree, _, _⟩ := Ttndo.trace_program (Ttndo.ketTree t) h1 h0 kv bv rv hkv hbv hrv binds e he hl
  exact ⟨hprog.e_swf, hprog.record, hfree, fun dim σ => hprog.value hb dim σ⟩

open Ptn.C04 Ptn.Ein in
/-- **`trace()` of the TTNDO of `from_ttns` is `Σ_phys ψ(phys) · ψ'(phys)` — the loop itself, for every root bond
dimension ≥ 1.**  As `trace_loop_value`, with the root tensor `eye(d).reshape(d, d, 1)` (`Ttndo.eyeRoot`) and the
padded root bond: the tensors of the two copies of the state's root vanish off index `0` of their root-bond leg
(`padded_root_index`).  Every expression the result is built from evaluates to the sum over the physical indices of
the product of the two dense vectors at root-bond index `0` — `<psi|psi>` when the bra tensors are the conjugates.
No hypothesis relates the two root-leg dimensions to each other or bounds them. -/
theorem trace_loop_value_padded_root {R : Type} [CommSemiring R] (t : Ptn.C04.Tree) (hnd : t.ids.Nodup)
    (kv bv : Nat → Asg Leg → R)
    (hkv : Ttndo.KetLocal0 kv (Ttndo.ketTree t)) (hbv : Ttndo.BraLocal0 bv (Ttndo.ketTree t))
    (dim : Leg → Nat) (hdK : 0 < dim Ttndo.rootKetLeg) (hdB : 0 < dim Ttndo.rootBraLeg)
    (hkz : ∀ ρ : Asg Leg, ρ (Leg.gKet (Ttndo.ketTree t).id 0) ≠ 0 → kv (Ttndo.ketTree t).id ρ = 0)
    (hbz : ∀ ρ : Asg Leg, ρ (Leg.gBra (Ttndo.ketTree t).id 0) ≠ 0 → bv (Ttndo.ketTree t).id ρ = 0) :
    ∃ binds, Ttndo.traceTtndo (Ttndo.ttndoNetK (Ttndo.ketTree t)) = some ⟨[], binds⟩ ∧
      (∃ e : Expr Leg R, Built ⟨[Ttndo.rootOpenLeg], binds⟩ e ∧
        e.leaves.Perm (Ttndo.traceLeaves Ttndo.eyeRoot kv bv (Ttndo.ketTree t))) ∧
      ∀ e : Expr Leg R, Built ⟨[Ttndo.rootOpenLeg], binds⟩ e →
        e.leaves.Perm (Ttndo.traceLeaves Ttndo.eyeRoot kv bv (Ttndo.ketTree t)) →
        ∀ σ : Asg Leg, e.eval dim σ =
          sumPairs dim (Ttndo.physPairs (Ttndo.ketTree t)) (fun ρ =>
              (Ttndo.ketVec kv (Ttndo.ketTree t)).eval dim ρ * (Ttndo.braVec bv (Ttndo.ketTree t)).eval dim ρ)
            (upd (upd σ (Leg.gKet (Ttndo.ketTree t).id 0) 0) (Leg.gBra (Ttndo.ketTree t).id 0) 0) := by
  obtain ⟨h1, h2⟩ := Ttndo.ketTree_wf t hnd
  have h0 : (0 : Nat) ∉ (Ttndo.ketTree t).ids := fun h => by have := h2 0 h; omega
  obtain ⟨binds, hrun, hb, hbuilt⟩ := Ttndo.traceTtndo_built (Ttndo.ketTree t) h1 h2 kv bv Ttndo.eyeRoot
  refine ⟨binds, hrun, hbuilt, fun e he hl σ => ?_⟩
  obtain ⟨hprog, _, hK, hB⟩ := Ttndo.trace_program (Ttndo.ketTree t) h1 h0 kv bv Ttndo.eyeRoot hkv hbv
    Ttndo.eyeRoot_local binds e he hl
  have hp := Ttndo.PaddedRoot.of_tensors dim (Ttndo.ketTree t) _ _ hK hB hprog.rootK_free hprog.rootB_free _ _
    (Ttndo.root_leaf_mem (ketLayer kv) (Ttndo.ketTree t)) (Ttndo.root_leaf_mem (braLayerK bv) (Ttndo.ketTree t))
    hkz hbz hdK hdB
  exact hprog.value_padded hb dim hp σ

open Ptn.C04 Ptn.Ein Ttndo.Demo in
/-- non-vacuity: the node tensors of the demo network as functions of the identifier (state tree `0 — 1`, integer
tensors reading all their legs, padded root bond of dimension 3) satisfy every hypothesis -/
example : st.ids.Nodup ∧ Ttndo.KetLocal0 kvD (Ttndo.ketTree st) ∧ Ttndo.BraLocal0 bvD (Ttndo.ketTree st) ∧
    DependsOn (· ∈ Ttndo.rootLegs) (Ttndo.eyeRoot (R := Int)) ∧
    0 < dim Ttndo.rootKetLeg ∧ 0 < dim Ttndo.rootBraLeg ∧
    (∀ ρ : Asg Leg, ρ (Leg.gKet (Ttndo.ketTree st).id 0) ≠ 0 → kvD (Ttndo.ketTree st).id ρ = 0) ∧
    (∀ ρ : Asg Leg, ρ (Leg.gBra (Ttndo.ketTree st).id 0) ≠ 0 → bvD (Ttndo.ketTree st).id ρ = 0) :=
  ⟨st_nodup, kvD_local, bvD_local, Ttndo.eyeRoot_local, by decide, by decide, kvD_padded, bvD_padded⟩

open Ptn.C04 Ptn.Ein Ttndo.Demo in
/-- … and the right-hand side of the conclusion (the canonical dense vectors of the two copies joined over the
physical pairs, root-bond index 0) is the integer 622 of the example after `trace_value_padded_root` -/
example : sumPairs dim (Ttndo.physPairs (Ttndo.ketTree st)) (fun ρ =>
    (Ttndo.ketVec kvD (Ttndo.ketTree st)).eval dim ρ * (Ttndo.braVec bvD (Ttndo.ketTree st)).eval dim ρ)
    (fun _ => 0) = 622 := by decide

open Ptn.C04 Ptn.Ein in
/-- **`ttndo_ttno_expectation_value` computes `Σ root · Σ_out (Σ_in ψ · O) · ψ'` — the loop itself, unconditionally
in the program.**  For every state tree with distinct identifiers, every TTNO on it with independent child orders,
every commutative semiring and ALL values of the root tensor `rv` and of the node tensors `kv` (ket copy), `ov`
(operator), `bv` (bra copy), each reading only its own legs:

* the routine returns a closed tensor `⟨[], binds⟩`: the result `⟨[rootOpenLeg], binds⟩` of its last `tensordot`
  with the open leg of the root tensor indexed away;
* that last result is BUILT, by the `tensordot` calls of the loop over the ket identifiers, of
  `_contract_ttno_root` (resp. `_single_site_contraction` for a single node) and of `_contract_final_block`, from
  an expression whose leaves are exactly the root tensor and the ket, operator and bra tensors of all nodes;
* EVERY expression `e` from which it is built over these leaves is strongly well-formed, has the record `binds`
  and the open leg of the root tensor as its only free leg, and evaluates — for all dimensions that agree on the
  two legs of every pair of the specification graph (NumPy rejects anything else), for every index of the open leg —
  to the root tensor times the sandwich of the dense operator `opExpr` between the dense vectors `ketVec` and
  `braVec`: operator INPUT legs summed against the ket copy, OUTPUT legs against the bra copy. -/
theorem ttndo_ttno_loop_value {R : Type} [CommSemiring R] (t : Ptn.C04.Tree) (hnd : t.ids.Nodup)
    (opKids : Nat → List Nat)
    (hperm : ∀ e ∈ Ptn.C04.Tree.info none (Ttndo.ketTree t), (opKids e.1).Perm e.2.2)
    (kv ov bv : Nat → Asg Leg → R) (rv : Asg Leg → R)
    (hkv : Ttndo.KetLocal0 kv (Ttndo.ketTree t)) (hov : OpLocalK ov opKids (Ttndo.ketTree t))
    (hbv : Ttndo.BraLocal0 bv (Ttndo.ketTree t)) (hrv : DependsOn (· ∈ Ttndo.rootLegs) rv) :
    ∃ binds, Ttndo.ttndoTtnoExpectationValue (Ttndo.ttndoNetK (Ttndo.ketTree t))
        (Ttndo.ttnoNetK (Ttndo.ketTree t) opKids) = some ⟨[], binds⟩ ∧
      (∃ e : Expr Leg R, Built ⟨[Ttndo.rootOpenLeg], binds⟩ e ∧
        e.leaves.Perm (Ttndo.ttnoLeaves rv opKids kv ov bv (Ttndo.ketTree t))) ∧
      ∀ e : Expr Leg R, Built ⟨[Ttndo.rootOpenLeg], binds⟩ e →
        e.leaves.Perm (Ttndo.ttnoLeaves rv opKids kv ov bv (Ttndo.ketTree t)) →
        e.SWF ∧ e.binds.Perm binds ∧ e.free = [Ttndo.rootOpenLeg] ∧
        ∀ (dim : Leg → Nat),
          (∀ p ∈ soSpec (Ttndo.ketTree t) ++ Ttndo.rootPairs (Ttndo.ketTree t), dim p.1 = dim p.2) →
          ∀ σ : Asg Leg, e.eval dim σ =
            sumPairs dim (Ttndo.rootPairs (Ttndo.ketTree t)) (fun τ => rv τ *
              sumPairs dim (Ttndo.physOuts (Ttndo.ketTree t)) (fun ρ =>
                sumPairs dim (Ttndo.physIns (Ttndo.ketTree t)) (fun π =>
                  (Ttndo.ketVec kv (Ttndo.ketTree t)).eval dim π * (opExpr ov opKids (Ttndo.ketTree t)).eval dim π) ρ *
                (Ttndo.braVec bv (Ttndo.ketTree t)).eval dim ρ) τ) σ := by
  obtain ⟨h1, h2⟩ := Ttndo.ketTree_wf t hnd
  have h0 : (0 : Nat) ∉ (Ttndo.ketTree t).ids := fun h => by have := h2 0 h; omega
  obtain ⟨binds, hrun, hb, hbuilt⟩ := Ttndo.ttndoTtno_built (Ttndo.ketTree t) opKids h1 h2 hperm kv ov bv rv
  refine ⟨binds, hrun, hbuilt, fun e he hl => ?_⟩
  obtain ⟨hprog, hfree, _, _⟩ := Ttndo.ttno_program (Ttndo.ketTree t) h1 h0 opKids hperm kv ov bv rv hkv hov hbv hrv
    binds e he hl
  exact ⟨hprog.e_swf, hprog.record, hfree, fun dim hd σ => hprog.value hb dim hd σ⟩

open Ptn.C04 Ptn.Ein in
/-- **… and on the TTNDO of `from_ttns` this is `Σ ψ' O ψ` — the loop itself, for every root bond dimension ≥ 1**:
identity root tensor and padded root bond, as in `trace_loop_value_padded_root`. -/
theorem ttndo_ttno_loop_value_padded_root {R : Type} [CommSemiring R] (t : Ptn.C04.Tree) (hnd : t.ids.Nodup)
    (opKids : Nat → List Nat)
    (hperm : ∀ e ∈ Ptn.C04.Tree.info none (Ttndo.ketTree t), (opKids e.1).Perm e.2.2)
    (kv ov bv : Nat → Asg Leg → R)
    (hkv : Ttndo.KetLocal0 kv (Ttndo.ketTree t)) (hov : OpLocalK ov opKids (Ttndo.ketTree t))
    (hbv : Ttndo.BraLocal0 bv (Ttndo.ketTree t))
    (dim : Leg → Nat)
    (hd : ∀ p ∈ soSpec (Ttndo.ketTree t) ++ Ttndo.rootPairs (Ttndo.ketTree t), dim p.1 = dim p.2)
    (hdK : 0 < dim Ttndo.rootKetLeg) (hdB : 0 < dim Ttndo.rootBraLeg)
    (hkz : ∀ ρ : Asg Leg, ρ (Leg.gKet (Ttndo.ketTree t).id 0) ≠ 0 → kv (Ttndo.ketTree t).id ρ = 0)
    (hbz : ∀ ρ : Asg Leg, ρ (Leg.gBra (Ttndo.ketTree t).id 0) ≠ 0 → bv (Ttndo.ketTree t).id ρ = 0) :
    ∃ binds, Ttndo.ttndoTtnoExpectationValue (Ttndo.ttndoNetK (Ttndo.ketTree t))
        (Ttndo.ttnoNetK (Ttndo.ketTree t) opKids) = some ⟨[], binds⟩ ∧
      (∃ e : Expr Leg R, Built ⟨[Ttndo.rootOpenLeg], binds⟩ e ∧
        e.leaves.Perm (Ttndo.ttnoLeaves Ttndo.eyeRoot opKids kv ov bv (Ttndo.ketTree t))) ∧
      ∀ e : Expr Leg R, Built ⟨[Ttndo.rootOpenLeg], binds⟩ e →
        e.leaves.Perm (Ttndo.ttnoLeaves Ttndo.eyeRoot opKids kv ov bv (Ttndo.ketTree t)) →
        ∀ σ : Asg Leg, e.eval dim σ =
          sumPairs dim (Ttndo.physOuts (Ttndo.ketTree t)) (fun ρ =>
              sumPairs dim (Ttndo.physIns (Ttndo.ketTree t)) (fun π =>
                (Ttndo.ketVec kv (Ttndo.ketTree t)).eval dim π * (opExpr ov opKids (Ttndo.ketTree t)).eval dim π) ρ *
              (Ttndo.braVec bv (Ttndo.ketTree t)).eval dim ρ)
            (upd (upd σ (Leg.gKet (Ttndo.ketTree t).id 0) 0) (Leg.gBra (Ttndo.ketTree t).id 0) 0) := by
  obtain ⟨h1, h2⟩ := Ttndo.ketTree_wf t hnd
  have h0 : (0 : Nat) ∉ (Ttndo.ketTree t).ids := fun h => by have := h2 0 h; omega
  obtain ⟨binds, hrun, hb, hbuilt⟩ := Ttndo.ttndoTtno_built (Ttndo.ketTree t) opKids h1 h2 hperm kv ov bv
    Ttndo.eyeRoot
  refine ⟨binds, hrun, hbuilt, fun e he hl σ => ?_⟩
  obtain ⟨hprog, _, hK, hB⟩ := Ttndo.ttno_program (Ttndo.ketTree t) h1 h0 opKids hperm kv ov bv Ttndo.eyeRoot
    hkv hov hbv Ttndo.eyeRoot_local binds e he hl
  have hp := Ttndo.PaddedRoot.of_tensors dim (Ttndo.ketTree t) _ _ hK hB hprog.rootK_free hprog.rootB_free _ _
    (Ttndo.root_leaf_mem (ketLayer kv) (Ttndo.ketTree t)) (Ttndo.root_leaf_mem (braLayerK bv) (Ttndo.ketTree t))
    hkz hbz hdK hdB
  exact hprog.value_padded hb dim hd hp σ

open Ptn.C04 Ptn.Ein Ttndo.Demo in
/-- non-vacuity: the demo TTNO (tensors reading all their legs, same child order as the state) on the demo
network satisfies every hypothesis -/
example : st.ids.Nodup ∧ (∀ e ∈ Ptn.C04.Tree.info none (Ttndo.ketTree st), (opKids e.1).Perm e.2.2) ∧
    Ttndo.KetLocal0 kvD (Ttndo.ketTree st) ∧ OpLocalK ovD opKids (Ttndo.ketTree st) ∧
    Ttndo.BraLocal0 bvD (Ttndo.ketTree st) ∧
    (∀ p ∈ soSpec (Ttndo.ketTree st) ++ Ttndo.rootPairs (Ttndo.ketTree st), dim p.1 = dim p.2) ∧
    0 < dim Ttndo.rootKetLeg ∧ 0 < dim Ttndo.rootBraLeg ∧
    (∀ ρ : Asg Leg, ρ (Leg.gKet (Ttndo.ketTree st).id 0) ≠ 0 → kvD (Ttndo.ketTree st).id ρ = 0) ∧
    (∀ ρ : Asg Leg, ρ (Leg.gBra (Ttndo.ketTree st).id 0) ≠ 0 → bvD (Ttndo.ketTree st).id ρ = 0) :=
  ⟨st_nodup, opKids_perm, kvD_local, ovD_local, bvD_local, dims_ok, by decide, by decide, kvD_padded, bvD_padded⟩

open Ptn.C04 Ptn.Ein Ttndo.Demo in
/-- … and the right-hand side of the conclusion is the integer 16274 of the example after
`ttndo_ttno_value_padded_root` -/
example : sumPairs dim (Ttndo.physOuts (Ttndo.ketTree st)) (fun ρ =>
      sumPairs dim (Ttndo.physIns (Ttndo.ketTree st)) (fun π =>
        (Ttndo.ketVec kvD (Ttndo.ketTree st)).eval dim π * (opExpr ovD opKids (Ttndo.ketTree st)).eval dim π) ρ *
      (Ttndo.braVec bvD (Ttndo.ketTree st)).eval dim ρ) (fun _ => 0) = 16274 := by
  decide

/-! ## Tensor-product expectation values (`tensor_product_expectation_value`, `absorb_into_open_legs`) -/

open Ptn.C04 in
/-- **One absorption, every node shape.**  `absorb_into_open_legs` on the ket copy `k` (any parent, any number of
children) with a single-site operator (axes output, input) never raises; the operator's INPUT leg is bound to the
ket copy's physical leg, its OUTPUT leg takes the physical leg's place as the last axis and the virtual legs keep
their order ("the leg ordering was not changed here"). -/
theorem absorb_graph (k : Nat) (node : Node) :
    Ttndo.absorbIntoOpenLegs node (gKetT k node) (Ttndo.siteOpT k) =
      some ⟨node.nbrs.map (Leg.gKet k) ++ [Leg.gOpOut k], [(Leg.gKetPhys k, Leg.gOpIn k)]⟩ :=
  Ttndo.absorbIntoOpenLegs_gKetT k node

/-- **The empty product is the trace** (every network). -/
theorem tensor_product_empty_is_trace (nd : Ptn.C04.Net) :
    Ttndo.tensorProductExpectationValue nd [] = Ttndo.traceTtndo nd := rfl

open Ptn.C04 in
/-- **The calculus is positional**: `tensordot` after renaming the legs of both operands by ANY map is the renamed
`tensordot` (success, legs and record) — the contraction routines never look at a leg's name, so the trace of the
network whose ket tensor at a site has the operator's output leg as its last axis is the renamed trace. -/
theorem tensordot_positional (f : Leg → Leg) (a b : T) (ia ib : List Nat) :
    tensordot (Ttndo.T.relabel f a) (Ttndo.T.relabel f b) ia ib = (tensordot a b ia ib).map (Ttndo.T.relabel f) :=
  Ttndo.tensordot_relabel f a b ia ib

open Ptn.C04 in
/-- **`tensor_product_graph`, decided per tree (PARTIAL: not for all trees).**  On the state tree `0 — (1, 2 — 3)` with
factors on the sites 3, 0 (dict order), on one site, on all sites and on none: the routine never raises, leaves no
free leg, and its record is `Ttndo.tpSpec`: the trace record with the operator's output leg in the place of the ket
physical leg at exactly the named sites, one pair (ket physical leg, operator input) per factor — for ALL factors —
and every site not named untouched.  Missing for the for-all-trees statement: the lift of `tensordot_positional`
through every routine of `trace_ttndo` (the harness compares the record of every generated case instead). -/
theorem tensor_product_graph_partial :
    let kt := Ttndo.ketTree (.node 0 [.node 1 [], .node 2 [.node 3 []]])
    ∀ sites ∈ [[7, 1], [5], [1, 3, 5, 7], []],
      Ttndo.tpRecordOk kt sites = true := by
  decide +kernel

open Ptn.C04 in
/-- **`trace_ttndo` after the absorptions, EVERY tree and every set of sites (B53; PARTIAL for `tensor_product_graph`).**
For every state tree with distinct identifiers and every list `sites`: on ANY network that has the nodes, the order,
the root tensor and the bra tensors of the TTNDO of `from_ttns` and whose ket tensor at node `k` is the tensor
`absorb_graph` produces at the named sites (last axis `gOpOut k`, one logged pair (ket physical leg, operator input))
and the untouched ket tensor elsewhere (`Ttndo.tpKetT`), `trace_ttndo` never raises, leaves no free leg, and its record is
`Ttndo.tpBlockBinds sites` (the trace record in the order of the code, with the operator's output leg facing the bra
copy at exactly the named sites and the logged pair of every named site) plus the two root pairs.  Proof: the logged
pairs of a left operand are carried in front of the record by every routine (`Ttndo.contractAnyNodes_pre`), the C04
routines are label-generic (`contract_any_nodes_general`), tree induction `Ttndo.tpLoop_subtree`.
The two steps that were missing for `tensor_product_graph` - (a) the result of the loop `absorbAll` IS such a network,
(b) `Ttndo.tpBlockBinds sites kt` plus the root pairs is a permutation of `Ttndo.tpSpec kt sites` - are
`Ttndo.absorbAll_ttndo` and `Ttndo.tpBlockBinds_perm` (B59); the full statement is `tensor_product_graph` below. -/
theorem tensor_product_trace_graph_partial (t : Ptn.C04.Tree) (hnd : t.ids.Nodup) (sites : List Nat) (nd : Ptn.C04.Net)
    (hr0 : nd.root = 0) (hord : nd.order = (Ttndo.ttndoNetK (Ttndo.ketTree t)).order)
    (hnode : nd.node = (Ttndo.ttndoNetK (Ttndo.ketTree t)).node)
    (hrt : nd.tensor 0 = some (T.fresh [Ttndo.rootKetLeg, Ttndo.rootBraLeg, Ttndo.rootOpenLeg]))
    (hket : ∀ e ∈ Ptn.C04.Tree.info (some 0) (Ttndo.ketTree t),
      nd.tensor e.1 = some (Ttndo.tpKetT sites e.1 ⟨e.2.1, e.2.2⟩))
    (hbra : ∀ e ∈ Ptn.C04.Tree.info (some 0) (Ttndo.ketTree t), nd.tensor (e.1 + 1) = some (gBraT e.1 ⟨e.2.1, e.2.2⟩)) :
    Ttndo.traceTtndo nd = some ⟨[], Ttndo.tpBlockBinds sites (Ttndo.ketTree t) ++
      [(Ttndo.rootKetLeg, Leg.gKet (Ttndo.ketTree t).id 0), (Ttndo.rootBraLeg, Leg.gBra (Ttndo.ketTree t).id 0)]⟩ := by
  obtain ⟨h1, h2⟩ := Ttndo.ketTree_wf t hnd
  exact Ttndo.tpTrace_eq sites (Ttndo.ketTree t) h1 h2 nd hr0 hord hnode hrt hket hbra

open Ptn.C04 in
/-- non-vacuity: the network the model's absorption loop produces on the state tree `0 — 1` for the sites `[3]`
satisfies every hypothesis, and the record is the model's own record -/
example : ∃ nd, Ttndo.absorbAll [3] (Ttndo.ttndoNetK (Ttndo.ketTree (.node 0 [.node 1 []]))) = some nd ∧
    nd.root = 0 ∧ nd.order = (Ttndo.ttndoNetK (Ttndo.ketTree (.node 0 [.node 1 []]))).order ∧
    (∀ e ∈ Ptn.C04.Tree.info (some 0) (Ttndo.ketTree (.node 0 [.node 1 []])),
      nd.node e.1 = (Ttndo.ttndoNetK (Ttndo.ketTree (.node 0 [.node 1 []]))).node e.1 ∧
      nd.tensor e.1 = some (Ttndo.tpKetT [3] e.1 ⟨e.2.1, e.2.2⟩) ∧
      nd.tensor (e.1 + 1) = some (gBraT e.1 ⟨e.2.1, e.2.2⟩)) ∧
    Ttndo.traceTtndo nd = some ⟨[], Ttndo.tpBlockBinds [3] (Ttndo.ketTree (.node 0 [.node 1 []])) ++
      [(Ttndo.rootKetLeg, Leg.gKet 1 0), (Ttndo.rootBraLeg, Leg.gBra 1 0)]⟩ :=
  ⟨_, rfl, by decide⟩

open Ptn.C04 in
/-- **`tensor_product_graph`, EVERY tree and every list of distinct sites (B59).**  For every state tree `t` with
pairwise distinct identifiers and every list `ss` of pairwise distinct nodes of `t` (the keys of the `TensorProduct`
in dict order: none, one, some, all, any order), `tensor_product_expectation_value` on the TTNDO of `from_ttns`
(model `Ttndo.tensorProductExpectationValue`, the sites given by their ket identifiers) never raises, leaves no free
leg, and its record is in the code's order `Ttndo.tpBlockBinds` plus the two root pairs, which is the specification
graph `Ttndo.tpSpec` up to order: one pair (ket physical leg, operator input) per factor - for ALL factors -, the
operator's output leg facing the bra copy's physical leg at exactly the named sites, the ket physical leg facing it at
every other site, every ket edge, every bra edge, the two root pairs.  Proof: `Ttndo.absorbAll_ttndo` (loop invariant
of the absorption loop; one step is `absorb_graph`), `Ttndo.tpTrace_eq` (B53), `Ttndo.tpBlockBinds_perm` (counting). -/
theorem tensor_product_graph (t : Ptn.C04.Tree) (hnd : t.ids.Nodup) (ss : List Nat) (hss : ss.Nodup)
    (hin : ∀ s ∈ ss, s ∈ t.ids) :
    ∃ binds, Ttndo.tensorProductExpectationValue (Ttndo.ttndoNetK (Ttndo.ketTree t)) (ss.map Ttndo.ketOf) =
        some ⟨[], binds⟩ ∧
      binds = Ttndo.tpBlockBinds (ss.map Ttndo.ketOf) (Ttndo.ketTree t) ++
        [(Ttndo.rootKetLeg, Leg.gKet (Ttndo.ketTree t).id 0), (Ttndo.rootBraLeg, Leg.gBra (Ttndo.ketTree t).id 0)] ∧
      binds.Perm (Ttndo.tpSpec (Ttndo.ketTree t) (ss.map Ttndo.ketOf)) := by
  obtain ⟨h1, h2⟩ := Ttndo.ketTree_wf t hnd
  have hs' : (ss.map Ttndo.ketOf).Nodup :=
    nodup_map_of_inj_on _ _ hss (fun x _ y _ e => by simp [Ttndo.ketOf] at e; omega)
  have hin' : ∀ s ∈ ss.map Ttndo.ketOf, s ∈ (Ttndo.ketTree t).ids := by
    intro s hs
    obtain ⟨a, ha, rfl⟩ := List.mem_map.1 hs
    rw [Ttndo.ketTree_ids]
    exact List.mem_map.2 ⟨a, hin a ha, rfl⟩
  exact ⟨_, Ttndo.tensorProduct_eq _ h1 h2 _ hs' hin', rfl, Ttndo.tpBlockBinds_perm _ h1 _ hs' hin'⟩

/-- the decision procedure `Ttndo.tpRecordOk` (used by `tensor_product_graph_partial` on one tree) answers `true` on
every tree and every list of distinct sites -/
theorem tensor_product_graph_recordOk (t : Ptn.C04.Tree) (hnd : t.ids.Nodup) (ss : List Nat) (hss : ss.Nodup)
    (hin : ∀ s ∈ ss, s ∈ t.ids) :
    Ttndo.tpRecordOk (Ttndo.ketTree t) (ss.map Ttndo.ketOf) = true := by
  obtain ⟨binds, h1, _, h3⟩ := tensor_product_graph t hnd ss hss hin
  simp only [Ttndo.tpRecordOk, h1, List.isEmpty_nil, Bool.true_and]
  exact List.isPerm_iff.2 h3

/-- non-vacuity: the state tree `0 — (1, 2 — 3)` with factors on the sites 3, 0 (dict order) satisfies the hypotheses;
the record has 2 logged pairs, 4 physical pairs, 3 ket edges, 3 bra edges and the 2 root pairs, and the operator
outputs face the bra copy at exactly the ket copies 7 and 1 -/
example : (Ptn.C04.Tree.node 0 [.node 1 [], .node 2 [.node 3 []]]).ids.Nodup ∧ [3, 0].Nodup ∧
    (∀ s ∈ [3, 0], s ∈ (Ptn.C04.Tree.node 0 [.node 1 [], .node 2 [.node 3 []]]).ids) ∧
    (Ttndo.tpSpec (Ttndo.ketTree (.node 0 [.node 1 [], .node 2 [.node 3 []]])) ([3, 0].map Ttndo.ketOf)).length = 14 ∧
    (Ptn.C04.Leg.gOpOut 7, Ptn.C04.Leg.gBraPhys 7) ∈
      Ttndo.tpSpec (Ttndo.ketTree (.node 0 [.node 1 [], .node 2 [.node 3 []]])) ([3, 0].map Ttndo.ketOf) ∧
    (Ptn.C04.Leg.gKetPhys 3, Ptn.C04.Leg.gBraPhys 3) ∈
      Ttndo.tpSpec (Ttndo.ketTree (.node 0 [.node 1 [], .node 2 [.node 3 []]])) ([3, 0].map Ttndo.ketOf) := by
  decide

/-! ## Value level of `tensor_product_expectation_value` (B42)

`Ttndo.applyAt dim O p f σ = Σ_x O[σ p, x] · f(σ[p ↦ x])` applies the matrix `O[out, in]` at the label `p`;
`Ttndo.applySites` applies `⊗_s O_s` factor by factor (in the order of the loop over `operator.items()`);
`Ttndo.absorbedKv` are the ket tensors after the absorption loop, the output index of every absorbed operator read on
the leg that carries the NAME of the physical leg (`tensordot` is positional, `tensordot_positional`: in the model
`tensorProductExpectationValue` that axis is called `gOpOut s`; identifying the two names for ALL trees is the graph
theorem that is still open, see `notes/C16.md`). -/

open Ptn.C04 Ptn.Ein in
/-- **`absorb_into_open_legs` on a ket copy, graph AND value, every node shape.**  The call succeeds; its result
(virtual legs in order, then the operator's output leg; one logged pair (ket physical leg, operator input)) is built by
its single `tensordot` from the ket tensor and the operator tensor; for ALL values of the two tensors reading only
their own legs, the result evaluated with the output index `a` on `gOpOut k` is
`Σ_x O[a, x] · ket[…, phys = x]` — i.e. `applyAt (matrix of the operator) (phys k) (ket tensor)` when the output
index is read on the physical leg's name. -/
theorem absorb_value {R : Type} [CommSemiring R] (k : Nat) (node : Node) (kvk ov : Asg Leg → R)
    (hk : DependsOn (· ∈ (gKetT k node).legs) kvk) (ho : DependsOn (· ∈ (Ttndo.siteOpT k).legs) ov) :
    ∃ r, Ttndo.absorbIntoOpenLegs node (gKetT k node) (Ttndo.siteOpT k) = some r ∧
      r = ⟨node.nbrs.map (Leg.gKet k) ++ [Leg.gOpOut k], [(Leg.gKetPhys k, Leg.gOpIn k)]⟩ ∧
      Built r (Ttndo.absorbExpr k node kvk ov) ∧
      ∀ (dim : Leg → Nat) (σ : Asg Leg),
        (Ttndo.absorbExpr k node kvk ov).eval dim (upd σ (Leg.gOpOut k) (σ (Leg.gKetPhys k))) =
          Ttndo.applyAt dim (Ttndo.opMat ov k) (Leg.gKetPhys k) kvk σ := by
  obtain ⟨r, h1, h2, h3⟩ := Ttndo.absorb_built k node kvk ov
  exact ⟨r, h1, h2, h3, fun dim σ => Ttndo.absorbExpr_value dim k node kvk ov hk ho σ⟩

open Ptn.C04 Ptn.Ein Ttndo.Demo in
/-- non-vacuity: the root ket tensor of the demo network and an operator tensor reading both its legs satisfy the
hypotheses -/
example : DependsOn (· ∈ (gKetT 1 ⟨some 0, [3]⟩).legs) (kvD 1) ∧
    DependsOn (· ∈ (Ttndo.siteOpT 1).legs)
      (fun σ : Asg Leg => tpOD 1 (σ (Leg.gOpOut 1)) (σ (Leg.gOpIn 1))) := by
  refine ⟨kvD_local (1, some 0, [3]) (by rw [info0]; simp), ?_⟩
  intro σ τ h
  simp only [h (Leg.gOpOut 1) (by simp [Ttndo.siteOpT, T.fresh]), h (Leg.gOpIn 1) (by simp [Ttndo.siteOpT, T.fresh])]

open Ptn.C04 Ptn.Ein in
/-- **The absorption loop applies `⊗_s O_s` to the dense vector of the ket copy — every tree, every list of sites,
every commutative semiring, all dimensions.**  The absorbed ket tensors are local again, and the canonical dense
vector built from them is the tensor product of the single-site operators applied to the dense vector of the
original tensors: `ketVec[kv'](out) = Σ_in Π_s O_s[out_s, in_s] · ketVec[kv](in)`. -/
theorem tensor_product_ket_value {R : Type} [CommSemiring R] (t : Ptn.C04.Tree) (hnd : t.ids.Nodup)
    (dim : Leg → Nat) (O : Nat → Nat → Nat → R) (sites : List Nat)
    (hsites : ∀ s ∈ sites, s ∈ (Ttndo.ketTree t).ids)
    (kv : Nat → Asg Leg → R) (hkv : Ttndo.KetLocal0 kv (Ttndo.ketTree t)) :
    Ttndo.KetLocal0 (Ttndo.absorbedKv dim O sites kv) (Ttndo.ketTree t) ∧
      ∀ σ : Asg Leg, (Ttndo.ketVec (Ttndo.absorbedKv dim O sites kv) (Ttndo.ketTree t)).eval dim σ =
        Ttndo.applySites dim O sites ((Ttndo.ketVec kv (Ttndo.ketTree t)).eval dim) σ := by
  obtain ⟨h1, h2⟩ := Ttndo.ketTree_wf t hnd
  have h0 : (0 : Nat) ∉ (Ttndo.ketTree t).ids := fun h => by have := h2 0 h; omega
  obtain ⟨hl, hv⟩ := Ttndo.ketVec_absorbed dim O (Ttndo.ketTree t) h1 h0 sites hsites kv hkv
  exact ⟨hl, fun σ => congrFun hv σ⟩

open Ptn.C04 Ptn.Ein in
/-- **`tensor_product_expectation_value` computes `Σ_root rv · Σ_phys ((⊗_s O_s) ψ)(phys) · ψ'(phys)`.**  For every
state tree with distinct identifiers, every commutative semiring, all dimensions, every list of sites of the tree
(any order, any number: none, one, all), all single-site matrices `O s`, all values of the root tensor and the node
tensors reading only their own legs: `trace_ttndo` on the network whose ket tensors are the absorbed ones
(`Ttndo.absorbedKv`: the result of `absorb_into_open_legs` at every named site, `absorb_value`) returns a closed
tensor, and EVERY expression its last `tensordot` result is built from over the root tensor, the absorbed ket tensors
and the bra tensors evaluates to the sum over the two root-bond indices of the root tensor times the sum over one
common index per physical pair of `(⊗_s O_s) ketVec` times `braVec`: operator OUTPUT indices meet the bra copy, INPUT
indices the ket copy. -/
theorem tensor_product_value {R : Type} [CommSemiring R] (t : Ptn.C04.Tree) (hnd : t.ids.Nodup)
    (dim : Leg → Nat) (O : Nat → Nat → Nat → R) (sites : List Nat)
    (hsites : ∀ s ∈ sites, s ∈ (Ttndo.ketTree t).ids)
    (kv bv : Nat → Asg Leg → R) (rv : Asg Leg → R)
    (hkv : Ttndo.KetLocal0 kv (Ttndo.ketTree t)) (hbv : Ttndo.BraLocal0 bv (Ttndo.ketTree t))
    (hrv : DependsOn (· ∈ Ttndo.rootLegs) rv) :
    ∃ binds, Ttndo.traceTtndo (Ttndo.ttndoNetK (Ttndo.ketTree t)) = some ⟨[], binds⟩ ∧
      (∃ e : Expr Leg R, Built ⟨[Ttndo.rootOpenLeg], binds⟩ e ∧
        e.leaves.Perm (Ttndo.traceLeaves rv (Ttndo.absorbedKv dim O sites kv) bv (Ttndo.ketTree t))) ∧
      ∀ e : Expr Leg R, Built ⟨[Ttndo.rootOpenLeg], binds⟩ e →
        e.leaves.Perm (Ttndo.traceLeaves rv (Ttndo.absorbedKv dim O sites kv) bv (Ttndo.ketTree t)) →
        ∀ σ : Asg Leg, e.eval dim σ =
          sumPairs dim (Ttndo.rootPairs (Ttndo.ketTree t)) (fun τ => rv τ *
            sumPairs dim (Ttndo.physPairs (Ttndo.ketTree t)) (fun ρ =>
              Ttndo.applySites dim O sites ((Ttndo.ketVec kv (Ttndo.ketTree t)).eval dim) ρ *
                (Ttndo.braVec bv (Ttndo.ketTree t)).eval dim ρ) τ) σ := by
  obtain ⟨hl, hv⟩ := tensor_product_ket_value t hnd dim O sites hsites kv hkv
  obtain ⟨binds, hrun, hex, hall⟩ := trace_loop_value t hnd (Ttndo.absorbedKv dim O sites kv) bv rv hl hbv hrv
  refine ⟨binds, hrun, hex, fun e he hp σ => ?_⟩
  rw [(hall e he hp).2.2.2 dim σ]
  simp only [hv]

open Ptn.C04 Ptn.Ein in
/-- **`tensor_product_expectation_value` of the TTNDO of `from_ttns` is `Σ_phys ((⊗_s O_s) ψ)(phys) · ψ'(phys)` —
`<psi'| ⊗O |psi>` — for every root bond dimension ≥ 1.**  As `tensor_product_value` with the identity root tensor
`eye(d).reshape(d, d, 1)` and the padded root bond of the ORIGINAL tensors (the absorptions keep the padding:
`Ttndo.absorbedKv_zero`): the value is the sum over the physical indices at root-bond index `0` of both copies. -/
theorem tensor_product_value_padded_root {R : Type} [CommSemiring R] (t : Ptn.C04.Tree) (hnd : t.ids.Nodup)
    (dim : Leg → Nat) (O : Nat → Nat → Nat → R) (sites : List Nat)
    (hsites : ∀ s ∈ sites, s ∈ (Ttndo.ketTree t).ids)
    (kv bv : Nat → Asg Leg → R)
    (hkv : Ttndo.KetLocal0 kv (Ttndo.ketTree t)) (hbv : Ttndo.BraLocal0 bv (Ttndo.ketTree t))
    (hdK : 0 < dim Ttndo.rootKetLeg) (hdB : 0 < dim Ttndo.rootBraLeg)
    (hkz : ∀ ρ : Asg Leg, ρ (Leg.gKet (Ttndo.ketTree t).id 0) ≠ 0 → kv (Ttndo.ketTree t).id ρ = 0)
    (hbz : ∀ ρ : Asg Leg, ρ (Leg.gBra (Ttndo.ketTree t).id 0) ≠ 0 → bv (Ttndo.ketTree t).id ρ = 0) :
    ∃ binds, Ttndo.traceTtndo (Ttndo.ttndoNetK (Ttndo.ketTree t)) = some ⟨[], binds⟩ ∧
      (∃ e : Expr Leg R, Built ⟨[Ttndo.rootOpenLeg], binds⟩ e ∧
        e.leaves.Perm (Ttndo.traceLeaves Ttndo.eyeRoot (Ttndo.absorbedKv dim O sites kv) bv (Ttndo.ketTree t))) ∧
      ∀ e : Expr Leg R, Built ⟨[Ttndo.rootOpenLeg], binds⟩ e →
        e.leaves.Perm (Ttndo.traceLeaves Ttndo.eyeRoot (Ttndo.absorbedKv dim O sites kv) bv (Ttndo.ketTree t)) →
        ∀ σ : Asg Leg, e.eval dim σ =
          sumPairs dim (Ttndo.physPairs (Ttndo.ketTree t)) (fun ρ =>
              Ttndo.applySites dim O sites ((Ttndo.ketVec kv (Ttndo.ketTree t)).eval dim) ρ *
                (Ttndo.braVec bv (Ttndo.ketTree t)).eval dim ρ)
            (upd (upd σ (Leg.gKet (Ttndo.ketTree t).id 0) 0) (Leg.gBra (Ttndo.ketTree t).id 0) 0) := by
  obtain ⟨hl, hv⟩ := tensor_product_ket_value t hnd dim O sites hsites kv hkv
  have hkz' := Ttndo.absorbedKv_zero dim O (Leg.gKet (Ttndo.ketTree t).id 0) (fun n h => by cases h)
    (Ttndo.ketTree t).id sites kv hkz
  obtain ⟨binds, hrun, hex, hall⟩ := trace_loop_value_padded_root t hnd (Ttndo.absorbedKv dim O sites kv) bv
    hl hbv dim hdK hdB hkz' hbz
  refine ⟨binds, hrun, hex, fun e he hp σ => ?_⟩
  rw [hall e he hp σ]
  simp only [hv]

open Ptn.C04 Ptn.Ein in
/-- **no factor: the routine is `trace()`** (value-level companion of `tensor_product_empty_is_trace`): with an empty
product the absorbed tensors are the tensors and `⊗O` is the identity, so `tensor_product_value_padded_root` IS
`trace_loop_value_padded_root`. -/
theorem tensor_product_value_no_factor {R : Type} [CommSemiring R] (dim : Leg → Nat) (O : Nat → Nat → Nat → R)
    (kv : Nat → Asg Leg → R) (f : Asg Leg → R) :
    Ttndo.absorbedKv dim O [] kv = kv ∧ Ttndo.applySites dim O [] f = f := ⟨rfl, rfl⟩

open Ptn.C04 Ptn.Ein in
/-- **the order of the factors is irrelevant** (distinct sites — the keys of a dictionary): two orders of the same
sites give the same operator on the dense vector, hence (`tensor_product_value`) the same expectation value. -/
theorem tensor_product_factor_order {R : Type} [CommSemiring R] (dim : Leg → Nat) (O : Nat → Nat → Nat → R)
    (s1 s2 : List Nat) (h : s1.Perm s2) (hnd : s1.Nodup) (f : Asg Leg → R) :
    Ttndo.applySites dim O s1 f = Ttndo.applySites dim O s2 f :=
  Ttndo.applySites_perm dim O h hnd f

example : [1, 3].Perm [3, 1] ∧ [1, 3].Nodup := by decide

open Ptn.C04 Ptn.Ein Ttndo.Demo in
/-- non-vacuity of `tensor_product_value(_padded_root)`: the demo tensors (state tree `0 — 1`, ket identifiers `1`,
`3`, root bond dimension 3) with an operator on both sites satisfy every hypothesis (the remaining ones are in the
example after `trace_loop_value_padded_root`) -/
example : (∀ s ∈ [1, 3], s ∈ (Ttndo.ketTree st).ids) ∧ (∀ s ∈ [3], s ∈ (Ttndo.ketTree st).ids) := by decide

open Ptn.C04 Ptn.Ein Ttndo.Demo in
/-- … and the right-hand side of `tensor_product_value_padded_root` on the demo network is the dense
`<psi| O_1 ⊗ O_3 |psi> = 24816` (both sites), `<psi| O_3 |psi> = 5206` (one site), `<psi|psi> = 622` (no factor);
the same numbers come out of the dense vector of the ABSORBED tensors (left-hand side of `tensor_product_ket_value`) -/
example : sumPairs dim (Ttndo.physPairs (Ttndo.ketTree st)) (fun ρ =>
      Ttndo.applySites dim tpOD [1, 3] ((Ttndo.ketVec kvD (Ttndo.ketTree st)).eval dim) ρ *
        (Ttndo.braVec bvD (Ttndo.ketTree st)).eval dim ρ) (fun _ => 0) = 24816 ∧
    sumPairs dim (Ttndo.physPairs (Ttndo.ketTree st)) (fun ρ =>
      Ttndo.applySites dim tpOD [3] ((Ttndo.ketVec kvD (Ttndo.ketTree st)).eval dim) ρ *
        (Ttndo.braVec bvD (Ttndo.ketTree st)).eval dim ρ) (fun _ => 0) = 5206 ∧
    sumPairs dim (Ttndo.physPairs (Ttndo.ketTree st)) (fun ρ =>
      Ttndo.applySites dim tpOD [] ((Ttndo.ketVec kvD (Ttndo.ketTree st)).eval dim) ρ *
        (Ttndo.braVec bvD (Ttndo.ketTree st)).eval dim ρ) (fun _ => 0) = 622 ∧
    sumPairs dim (Ttndo.physPairs (Ttndo.ketTree st)) (fun ρ =>
      (Ttndo.ketVec (Ttndo.absorbedKv dim tpOD [1, 3] kvD) (Ttndo.ketTree st)).eval dim ρ *
        (Ttndo.braVec bvD (Ttndo.ketTree st)).eval dim ρ) (fun _ => 0) = 24816 := by decide

/-! ## The model's own labels: the value-level renaming `tpSwap` (B65) -/

open Ptn.C04 Ptn.Ein in
/-- **`tensor_product_value` in the MODEL's labels (partial: see below).**  Hypotheses of `tensor_product_value`, and
the operator's output leg has the dimension of the physical leg at every named site (square operators; NumPy rejects
anything else when the output leg meets the bra copy).  Let `f = Ttndo.tpSwap sites` (exchange the names `gKetPhys s`
and `gOpOut s` at the named sites: an involution).  EVERY program `e` the trace is built from over the root tensor,
the absorbed ket tensors and the bra tensors, renamed by `f` - so that the last axis of the absorbed ket tensor at a
named site is called `gOpOut s`, as in the model `tensorProductExpectationValue` and in `tensor_product_graph` - is
strongly well-formed, has the renamed record (its physical pairs are the model's `tpPhysPair sites`:
`Ttndo.tpSwap_physPairs`; root pairs unchanged: `Ttndo.tpSwap_rootPairs`), the open leg of the root tensor as only free
leg, the renamed leaves, and evaluates to the value of `tensor_product_value`.  The renamed absorbed leaf of a site
absorbed once IS the value of the `tensordot` of `absorb_into_open_legs` (`Ttndo.tpSwap_pull_absorb`, with
`absorb_value`).
PARTIAL - what is missing for `tensor_product_model_value` / `tensor_product_loop_value`: (1) the absorbed tensor is a
single leaf here (with the value of `absorbExpr`), not the sub-expression `absorbExpr` itself with its logged pair
`(gKetPhys s, gOpIn s)` (substitution of a leaf by an expression of equal value); (2) provenance (`Built`) of the
model's run on tensors that carry a logged pair (`Ttndo.traceTtndo_built` is stated for fresh ket tensors). -/
theorem tensor_product_model_value_partial {R : Type} [CommSemiring R] (t : Ptn.C04.Tree) (hnd : t.ids.Nodup)
    (dim : Leg → Nat) (O : Nat → Nat → Nat → R) (sites : List Nat)
    (hsites : ∀ s ∈ sites, s ∈ (Ttndo.ketTree t).ids)
    (hd : ∀ s ∈ sites, dim (Leg.gOpOut s) = dim (Leg.gKetPhys s))
    (kv bv : Nat → Asg Leg → R) (rv : Asg Leg → R)
    (hkv : Ttndo.KetLocal0 kv (Ttndo.ketTree t)) (hbv : Ttndo.BraLocal0 bv (Ttndo.ketTree t))
    (hrv : DependsOn (· ∈ Ttndo.rootLegs) rv) :
    ∃ binds, Ttndo.traceTtndo (Ttndo.ttndoNetK (Ttndo.ketTree t)) = some ⟨[], binds⟩ ∧
      (∃ e : Expr Leg R, Built ⟨[Ttndo.rootOpenLeg], binds⟩ e ∧
        e.leaves.Perm (Ttndo.traceLeaves rv (Ttndo.absorbedKv dim O sites kv) bv (Ttndo.ketTree t))) ∧
      ∀ e : Expr Leg R, Built ⟨[Ttndo.rootOpenLeg], binds⟩ e →
        e.leaves.Perm (Ttndo.traceLeaves rv (Ttndo.absorbedKv dim O sites kv) bv (Ttndo.ketTree t)) →
        (e.rn_map (Ttndo.tpSwap sites)).SWF ∧
        (e.rn_map (Ttndo.tpSwap sites)).binds.Perm (rn_pairs (Ttndo.tpSwap sites) binds) ∧
        (e.rn_map (Ttndo.tpSwap sites)).free = [Ttndo.rootOpenLeg] ∧
        (e.rn_map (Ttndo.tpSwap sites)).leaves =
          e.leaves.map (fun lf => (lf.1.map (Ttndo.tpSwap sites), rn_pull (Ttndo.tpSwap sites) lf.2)) ∧
        ∀ σ : Asg Leg, (e.rn_map (Ttndo.tpSwap sites)).eval dim σ =
          sumPairs dim (Ttndo.rootPairs (Ttndo.ketTree t)) (fun τ => rv τ *
            sumPairs dim (Ttndo.physPairs (Ttndo.ketTree t)) (fun ρ =>
              Ttndo.applySites dim O sites ((Ttndo.ketVec kv (Ttndo.ketTree t)).eval dim) ρ *
                (Ttndo.braVec bv (Ttndo.ketTree t)).eval dim ρ) τ) (fun l => σ (Ttndo.tpSwap sites l)) := by
  obtain ⟨hl, hv⟩ := tensor_product_ket_value t hnd dim O sites hsites kv hkv
  obtain ⟨binds, hrun, hex, hall⟩ := trace_loop_value t hnd (Ttndo.absorbedKv dim O sites kv) bv rv hl hbv hrv
  refine ⟨binds, hrun, hex, fun e he hp => ?_⟩
  obtain ⟨hswf, hb, hf, hval⟩ := hall e he hp
  have hinj := Ttndo.tpSwap_inj sites
  refine ⟨Expr.rn_swf_map _ hinj e hswf, ?_, ?_, Expr.rn_leaves_map _ e, fun σ => ?_⟩
  · rw [Expr.rn_binds_map]; exact hb.map _
  · rw [Expr.rn_free_map _ hinj, hf]; rfl
  · rw [Expr.rn_eval_map _ hinj dim dim (Ttndo.tpSwap_dim sites dim hd), hval dim]
    simp only [hv]

open Ptn.C04 Ptn.Ein Ttndo.Demo in
/-- non-vacuity: on the demo network (state tree `0 — 1`, ket identifiers `1`, `3`) with operators on both sites the
dimension hypothesis holds (the others are in the examples after `trace_loop_value_padded_root` and
`tensor_product_value`); the renaming is not the identity and turns the trace's physical pairs into the model's -/
example : (∀ s ∈ [1, 3], dim (Leg.gOpOut s) = dim (Leg.gKetPhys s)) ∧
    Ttndo.tpSwap [1, 3] (Leg.gKetPhys 3) = Leg.gOpOut 3 ∧ Ttndo.tpSwap [3] (Leg.gKetPhys 1) = Leg.gKetPhys 1 ∧
    rn_pairs (Ttndo.tpSwap [3]) (Ttndo.physPairs (Ttndo.ketTree st)) =
      [(Leg.gKetPhys 1, Leg.gBraPhys 1), (Leg.gOpOut 3, Leg.gBraPhys 3)] := by decide

open Ptn.C04 Ptn.Ein in
/-- **The absorption loop, tensor by tensor (B75).**  For pairwise distinct sites (`operator.items()` of a `dict`),
after the loop the ket tensor of a named site is the original tensor with the site's operator applied on its
physical leg, and every other ket tensor is unchanged - every list of sites, every commutative semiring. -/
theorem tensor_product_absorbed_tensor {R : Type} [CommSemiring R] (dim : Leg → Nat) (O : Nat → Nat → Nat → R)
    (sites : List Nat) (hnd : sites.Nodup) (kv : Nat → Asg Leg → R) (k : Nat) :
    Ttndo.absorbedKv dim O sites kv k =
      if k ∈ sites then Ttndo.applyAt dim (O k) (Leg.gKetPhys k) (kv k) else kv k :=
  Ttndo.absorbedKv_at dim O sites hnd kv k

open Ptn.C04 Ptn.Ein Ttndo.Demo in
/-- non-vacuity: two distinct sites; the tensor of site 3 after the loop is `O_3` applied to the original one -/
example : [1, 3].Nodup ∧ Ttndo.absorbedKv dim tpOD [1, 3] kvD 3 =
    Ttndo.applyAt dim (tpOD 3) (Leg.gKetPhys 3) (kvD 3) := by
  refine ⟨by decide, ?_⟩
  rw [tensor_product_absorbed_tensor dim tpOD [1, 3] (by decide) kvD 3]; simp

open Ptn.C04 Ptn.Ein in
/-- **Substituting the absorbed leaf by the `tensordot` of `absorb_into_open_legs` (B75; closes item 1 of the list
under `tensor_product_model_value_partial`).**  `e` is any strongly well-formed program in the model's labels that
has, at the path `p`, the one-leaf absorbed tensor of a site `s ∈ sites` (legs: neighbour legs then `gOpOut s`;
value: the pulled-back `applyAt (opMat ov s) (gKetPhys s) kvk` of `tensor_product_model_value_partial`), and in
which the two labels bound inside the absorption, `gKetPhys s` and `gOpIn s`, do not occur.  Then the program with
that leaf replaced by the two-leaf `tensordot` expression `absorbExpr s …` is strongly well-formed, has the same
free legs, its record is the record of `e` plus the logged pair `(gKetPhys s, gOpIn s)` (up to order, no leg bound
twice), and it has the same value at every assignment.  Generic part: `Ptn.Ein.Expr.sb_subst_spec`.
PARTIAL: one site at a time (iterate over `sites`), and not yet joined with `tensor_product_model_value_partial`
(needs the path of each absorbed leaf in a `Built` program and item 2, provenance with a pre-record). -/
theorem tensor_product_absorbed_leaf_subst_partial {R : Type} [CommSemiring R] (dim : Leg → Nat) (sites : List Nat)
    (s : Nat) (hs : s ∈ sites) (node : Node) (hnbr : node.nbrs.Nodup) (kvk ov : Asg Leg → R)
    (hk : DependsOn (· ∈ (gKetT s node).legs) kvk) (ho : DependsOn (· ∈ (Ttndo.siteOpT s).legs) ov)
    (e : Expr Leg R) (p : List Bool) (he : e.SWF)
    (hat : e.sb_at p = some ((Ttndo.absorbExpr s node kvk ov).free,
      rn_pull (Ttndo.tpSwap sites) (Ttndo.applyAt dim (Ttndo.opMat ov s) (Leg.gKetPhys s) kvk)))
    (h1 : Leg.gKetPhys s ∉ e.labels) (h2 : Leg.gOpIn s ∉ e.labels) :
    (e.sb_subst p (Ttndo.absorbExpr s node kvk ov)).SWF ∧
    (e.sb_subst p (Ttndo.absorbExpr s node kvk ov)).free = e.free ∧
    (e.sb_subst p (Ttndo.absorbExpr s node kvk ov)).binds.Perm (e.binds ++ [(Leg.gKetPhys s, Leg.gOpIn s)]) ∧
    (Expr.pairLegs (e.sb_subst p (Ttndo.absorbExpr s node kvk ov)).binds).Nodup ∧
    ∀ σ, (e.sb_subst p (Ttndo.absorbExpr s node kvk ov)).eval dim σ = e.eval dim σ :=
  Ttndo.tp_subst_absorb dim sites s hs node hnbr kvk ov hk ho e p he hat h1 h2

open Ptn.C04 Ptn.Ein Ttndo.Demo in
/-- non-vacuity: the absorbed root ket tensor of the demo network (site 1, operator `tpOD 1`) as one leaf, contracted
with a bra-side tensor over the model's physical pair `(gOpOut 1, gBraPhys 1)`, satisfies every hypothesis -/
example :
    let ov : Asg Leg → Int := fun σ => tpOD 1 (σ (Leg.gOpOut 1)) (σ (Leg.gOpIn 1))
    let nd : Node := ⟨some 0, [3]⟩
    let v := rn_pull (Ttndo.tpSwap [1]) (Ttndo.applyAt dim (Ttndo.opMat ov 1) (Leg.gKetPhys 1) (kvD 1))
    let e : Expr Leg Int := .dot (.leaf (Ttndo.absorbExpr 1 nd (kvD 1) ov).free v)
      (.leaf [Leg.gBraPhys 1] (fun σ => (σ (Leg.gBraPhys 1) : Int))) [(Leg.gOpOut 1, Leg.gBraPhys 1)]
    nd.nbrs.Nodup ∧ DependsOn (· ∈ (gKetT 1 nd).legs) (kvD 1) ∧ DependsOn (· ∈ (Ttndo.siteOpT 1).legs) ov ∧
    e.SWF ∧ e.sb_at [false] = some ((Ttndo.absorbExpr 1 nd (kvD 1) ov).free, v) ∧
    Leg.gKetPhys 1 ∉ e.labels ∧ Leg.gOpIn 1 ∉ e.labels ∧
    (e.sb_subst [false] (Ttndo.absorbExpr 1 nd (kvD 1) ov)).binds =
      [(Leg.gOpOut 1, Leg.gBraPhys 1), (Leg.gKetPhys 1, Leg.gOpIn 1)] := by
  intro ov nd v e
  have hk : DependsOn (· ∈ (gKetT 1 nd).legs) (kvD 1) := kvD_local (1, some 0, [3]) (by rw [info0]; simp)
  have ho : DependsOn (· ∈ (Ttndo.siteOpT 1).legs) ov := by
    intro σ τ h
    simp only [ov, h (Leg.gOpOut 1) (by simp [Ttndo.siteOpT, T.fresh]),
      h (Leg.gOpIn 1) (by simp [Ttndo.siteOpT, T.fresh])]
  have hx := Ttndo.absorbExpr_swf 1 nd (kvD 1) ov (by decide) hk ho
  have hv : v = (Ttndo.absorbExpr 1 nd (kvD 1) ov).eval dim := by
    funext σ; exact Ttndo.tpSwap_pull_absorb dim [1] 1 (by simp) nd (kvD 1) ov hk ho σ
  refine ⟨by decide, hk, ho, ?_, rfl, by decide, by decide, by decide⟩
  refine ⟨⟨by decide, ?_⟩, ⟨by decide, ?_⟩, by decide, by decide, by decide, by decide⟩
  · rw [hv]; exact Expr.sb_eval_dependsOn_free dim _ hx.wf
  · intro σ τ h; simp only [h (Leg.gBraPhys 1) (by simp)]

end Ptn.C16
