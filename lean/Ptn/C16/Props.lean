import Ptn.C16.Model
/-! Property theorems for C16. Only property theorems and non-vacuity examples live here. -/
namespace Ptn.C16
end Ptn.C16
