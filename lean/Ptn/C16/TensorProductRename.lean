import Ptn.C16.TensorProductValue
import Ptn.Common.EinsumRename
/-! The value-level renaming between the two descriptions of `tensor_product_expectation_value` (B65).

`tensor_product_value` is stated on the network whose absorbed ket tensor keeps the NAME `gKetPhys s` on its last
axis; the model's own run calls that axis `gOpOut s`.  `tpSwap sites` exchanges the two names at the named sites (an
involution, hence injective); a program over the first network, renamed by `tpSwap sites`
(`Ptn.Ein.Expr.rn_map`), is a program over the second one with the same value (`Ptn.Ein.Expr.rn_eval_map`), its
physical pairs are the model's `tpPhysPair sites`, and the renamed absorbed leaf IS the value of the `tensordot` of
`absorb_into_open_legs` (`absorbExpr`) read on the model's labels. -/
namespace Ptn.C16.Ttndo

open Ptn.C04 Ptn.Ein

set_option linter.unusedSectionVars false
variable {R : Type} [CommSemiring R]

/-- exchange `gKetPhys i` and `gOpOut i` at the named sites -/
def tpSwap (sites : List Nat) : Leg → Leg
  | .gKetPhys i => if i ∈ sites then .gOpOut i else .gKetPhys i
  | .gOpOut i => if i ∈ sites then .gKetPhys i else .gOpOut i
  | l => l

theorem tpSwap_invol (sites : List Nat) (l : Leg) : tpSwap sites (tpSwap sites l) = l := by
  cases l with
  | gKetPhys i => by_cases h : i ∈ sites <;> simp [tpSwap, h]
  | gOpOut i => by_cases h : i ∈ sites <;> simp [tpSwap, h]
  | _ => rfl

theorem tpSwap_inj (sites : List Nat) : Function.Injective (tpSwap sites) := by
  intro a b h
  have := congrArg (tpSwap sites) h
  rwa [tpSwap_invol, tpSwap_invol] at this

/-- dimensions are kept when the operator's output leg has the dimension of the physical leg (square operators:
NumPy rejects anything else when the output leg meets the bra copy) -/
theorem tpSwap_dim (sites : List Nat) (dim : Leg → Nat) (hd : ∀ s ∈ sites, dim (Leg.gOpOut s) = dim (Leg.gKetPhys s))
    (l : Leg) : dim (tpSwap sites l) = dim l := by
  cases l with
  | gKetPhys i => by_cases h : i ∈ sites <;> simp [tpSwap, h, hd]
  | gOpOut i => by_cases h : i ∈ sites <;> simp [tpSwap, h, hd]
  | _ => rfl

theorem tpSwap_ketPhys (sites : List Nat) (s : Nat) (hs : s ∈ sites) :
    tpSwap sites (Leg.gKetPhys s) = Leg.gOpOut s := by simp [tpSwap, hs]

theorem tpSwap_opOut (sites : List Nat) (s : Nat) (hs : s ∈ sites) :
    tpSwap sites (Leg.gOpOut s) = Leg.gKetPhys s := by simp [tpSwap, hs]

/-- the physical pairs of the trace record, renamed, are the physical pairs of the model's record -/
theorem tpSwap_physPairs (sites : List Nat) (kt : Tree) :
    rn_pairs (tpSwap sites) (physPairs kt) = kt.ids.map (tpPhysPair sites) := by
  simp only [rn_pairs, physPairs, List.map_map]
  apply List.map_congr_left
  intro i _
  simp only [Function.comp, physPair, tpPhysPair, tpSwap]
  split <;> rfl

/-- the root pairs are not renamed -/
theorem tpSwap_rootPairs (sites : List Nat) (kt : Tree) :
    rn_pairs (tpSwap sites) (rootPairs kt) = rootPairs kt := by
  simp [rn_pairs, rootPairs, rootKetLeg, rootBraLeg, tpSwap]

/-- **the renamed absorbed leaf is the `tensordot` of `absorb_into_open_legs`**: the tensor
`applyAt (matrix of the operator) (phys s) (ket tensor)` of `tensor_product_value`, read in the model's labels
(output index on `gOpOut s`), is the value of `absorbExpr` - the expression the model's absorbed tensor is built
from (`absorb_value`) - at every assignment. -/
theorem tpSwap_pull_absorb (dim : Leg → Nat) (sites : List Nat) (s : Nat) (hs : s ∈ sites) (node : Node)
    (kvk ov : Asg Leg → R)
    (hk : DependsOn (· ∈ (gKetT s node).legs) kvk) (ho : DependsOn (· ∈ (siteOpT s).legs) ov) (σ' : Asg Leg) :
    rn_pull (tpSwap sites) (applyAt dim (opMat ov s) (Leg.gKetPhys s) kvk) σ' =
      (absorbExpr s node kvk ov).eval dim σ' := by
  unfold rn_pull
  rw [← absorbExpr_value dim s node kvk ov hk ho]
  simp only [absorbExpr, Expr.eval, sumPairs]
  congr 1; funext x
  congr 1
  · apply hk
    intro l hl
    simp only [gKetT, T.fresh, List.mem_append, List.mem_map, List.mem_singleton] at hl
    rcases hl with ⟨n, _, rfl⟩ | rfl
    · simp [upd, tpSwap]
    · simp [upd]
  · apply ho
    intro l hl
    simp only [siteOpT, T.fresh, List.mem_cons, List.not_mem_nil, or_false] at hl
    rcases hl with rfl | rfl
    · simp [upd, tpSwap_ketPhys sites s hs]
    · simp [upd]

end Ptn.C16.Ttndo
