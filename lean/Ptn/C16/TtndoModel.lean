import Ptn.C04.TreeModel
/-! Tree-level model of `pytreenet/contractions/ttndo_contractions.py` (core Lean only), on top of the
leg-label calculus and the block dictionary of `Ptn.C04`.

Identifiers of the TTNDO are natural numbers: the root is `0`, the ket copy of state node `i` is `2i+1`
(`ketOf`), its bra copy `2i+2` (`braOf`).  The identifier maps of the code are
`ket_to_bra_id` ↔ `ketToBra` (`k ↦ k+1`), `reverse_ket_id` ↔ `revKet` (`k ↦ (k-1)/2`), and the test
`id.endswith(ket_suffix)` ↔ `isKet` (odd).

  ttndo_contraction_order            ↔ contractionOrder
  trace_ttndo                        ↔ traceTtndo   (loop: `trStep`)
  ttndo_ttno_expectation_value       ↔ ttndoTtnoExpectationValue   (loop: `teStep`)
  _contract_ttno_root                ↔ contractTtnoRoot
  _single_site_contraction           ↔ singleSiteContraction
  _contract_final_block              ↔ contractFinalBlock
-/
namespace Ptn.C16.Ttndo
open Ptn.C04

def ketOf (i : Nat) : Nat := 2 * i + 1
def braOf (i : Nat) : Nat := 2 * i + 2
def ketToBra (k : Nat) : Nat := k + 1
def revKet (k : Nat) : Nat := (k - 1) / 2
def isKet (k : Nat) : Bool := k % 2 == 1

/-- `ttndo_contraction_order`: the ket identifiers of `linearise()` -/
def contractionOrder (ttndo : Net) : List Nat := ttndo.order.filter isKet

/-- legs of the TTNDO root tensor `eye(d).reshape(d, d, 1)`: toward the ket copy, toward the bra copy, open -/
def rootKetLeg : Leg := Leg.blkKet 0
def rootBraLeg : Leg := Leg.blkBra 0
def rootOpenLeg : Leg := Leg.blkOp 0

/-- `_contract_final_block` -/
def contractFinalBlock (ttndo : Net) (finalBlock : T) : Option T :=
  match ttndo.node ttndo.root, ttndo.tensor ttndo.root with
  | some rootNode, some rootTensor =>
    if rootNode.nn ≠ 2 then none                                  -- assert
    else
      match rootNode.children.find? isKet with                    -- [...][0]: IndexError
      | none => none
      | some finalKet =>
        match rootNode.neighbourIndex finalKet, rootNode.neighbourIndex (ketToBra finalKet) with
        | some l1, some l2 =>
          match tensordot rootTensor finalBlock [l1, l2] [0, 1] with
          | none => none
          | some r =>
            match r.legs with                                     -- contraction_result[0]
            | [] => none
            | _ :: rest => some ⟨rest, r.binds⟩
        | _, _ => none
  | _, _ => none

/-- one iteration of the loop of `trace_ttndo` -/
def trStep (ttndo : Net) (d : Dict) (ketId : Nat) : Option Dict :=
  match ttndo.node ketId, ttndo.tensor ketId, ttndo.node (ketToBra ketId), ttndo.tensor (ketToBra ketId) with
  | some ketNode, some ketTensor, some braNode, some braTensor =>
    match ketNode.parent with
    | none => none
    | some next =>
      match contractAnyNodes next ketNode braNode ketTensor braTensor (d.cacheOf ketId) ketToBra with
      | none => none
      | some block => (d.add (ketId, next) block).deleteAll (ketNode.children.map (fun c => (c, ketId)))
  | _, _, _, _ => none

def trLoop (ttndo : Net) : List Nat → Dict → Option Dict
  | [], d => some d
  | k :: rest, d =>
    match trStep ttndo d k with
    | none => none
    | some d1 => trLoop ttndo rest d1

/-- `trace_ttndo` -/
def traceTtndo (ttndo : Net) : Option T :=
  if ttndo.order.length = 1 then none                             -- only a root: ValueError
  else
    let order := contractionOrder ttndo
    match trLoop ttndo order Dict.empty with
    | none => none
    | some d =>
      match order.getLast? with
      | none => none                                              -- IndexError
      | some finalKet =>
        match d (finalKet, ttndo.root) with
        | none => none                                            -- KeyError
        | some finalBlock => contractFinalBlock ttndo finalBlock

/-! ### with a TTNO -/

/-- a matrix transposed (`.T` of a two-leg tensor) -/
def transpose2 (t : T) : Option T :=
  match t.legs with
  | [a, b] => some ⟨[b, a], t.binds⟩
  | _ => none

/-- `_single_site_contraction`: `(bra @ op @ ket.T).T` -/
def singleSiteContraction (ket op bra : T) : Option T :=
  if ket.legs.length ≠ 2 ∨ op.legs.length ≠ 2 ∨ bra.legs.length ≠ 2 then none       -- asserts
  else
    match tensordot bra op [1] [0], transpose2 ket with
    | some braOp, some ketT =>
      match tensordot braOp ketT [1] [0] with
      | none => none
      | some block => transpose2 block
    | _, _ => none

/-- `_contract_ttno_root` -/
def contractTtnoRoot (ttndo ttno : Net) (nNodesTtno : Nat) (d : Dict) (dEmpty : Bool) : Option T :=
  let rootId := ttno.root
  match ttno.node rootId, ttno.tensor rootId, ttndo.node (ketOf rootId), ttndo.tensor (ketOf rootId),
        ttndo.node (braOf rootId), ttndo.tensor (braOf rootId) with
  | some rootNode, some rootTensor, some ketNode, some ketTensor, some braNode, some braTensor =>
    if nNodesTtno = 1 then
      if ¬ dEmpty then none else singleSiteContraction ketTensor rootTensor braTensor
    else
      match contractAllButOneNeighbourBlockToKet ketTensor ketNode ttndo.root (d.cacheOf (ketOf rootId)) with
      | none => none
      | some ketblock =>
        match contractOperatorTensorIgnoringOneLeg ketblock ketNode rootTensor rootNode ttndo.root revKet with
        | none => none
        | some ketopblock =>
          let legsTensor := List.range' 1 ketNode.nn                         -- range(1, nn+1)
          match getEquivalentLegs ketNode braNode [ttndo.root] ketToBra with
          | none => none
          | some (_, legsBra) => tensordot ketopblock braTensor legsTensor (legsBra ++ [braNode.nn])
  | _, _, _, _, _, _ => none

/-- one iteration of the loop of `ttndo_ttno_expectation_value` -/
def teStep (ttndo ttno : Net) (d : Dict) (ketId : Nat) : Option Dict :=
  match ttndo.node ketId, ttndo.tensor ketId, ttndo.node (ketToBra ketId), ttndo.tensor (ketToBra ketId),
        ttno.node (revKet ketId), ttno.tensor (revKet ketId) with
  | some ketNode, some ketTensor, some braNode, some braTensor, some opNode, some opTensor =>
    match ketNode.parent with
    | none => none
    | some next =>
      match opContractAnyNodeEnvironmentButOne next ketNode ketTensor opNode opTensor (d.cacheOf ketId)
              braNode braTensor revKet ketToBra with
      | none => none
      | some block => (d.add (ketId, next) block).deleteAll (ketNode.children.map (fun c => (c, ketId)))
  | _, _, _, _, _, _ => none

def teLoop (ttndo ttno : Net) : List Nat → Dict → Option Dict
  | [], d => some d
  | k :: rest, d =>
    match teStep ttndo ttno d k with
    | none => none
    | some d1 => teLoop ttndo ttno rest d1

/-- `ttndo_ttno_expectation_value` -/
def ttndoTtnoExpectationValue (ttndo ttno : Net) : Option T :=
  let order := (contractionOrder ttndo).dropLast
  match teLoop ttndo ttno order Dict.empty with
  | none => none
  | some d =>
    match contractTtnoRoot ttndo ttno ttno.order.length d order.isEmpty with
    | none => none
    | some finalBlock => contractFinalBlock ttndo finalBlock

/-! ### the TTNDO that `from_ttns` builds (structure: `ttndo_structure`) and a TTNO on the same tree

The networks are described over the KET TREE `kt`: the state's tree with every identifier `i` renamed to the
ket identifier `2i+1` (`Tree.mapIds ketOf`).  Leg labels are names: the legs of the bra copy of ket node `k`
are called `gBra k n` / `gBraPhys k` (`n` = ket identifier of the neighbour, `0` = the TTNDO root), the legs
of the operator tensor of the same site `gOp k n`, `gOpOut k`, `gOpIn k`. -/

def braP (p : Nat) : Nat := if p = 0 then 0 else p + 1

def ttndoNetK (kt : Tree) : Net :=
  let inf := Tree.info (some 0) kt
  let kets : List (Nat × Node × T) := inf.map fun e => (e.1, ⟨e.2.1, e.2.2⟩, gKetT e.1 ⟨e.2.1, e.2.2⟩)
  let bras : List (Nat × Node × T) := inf.map fun e =>
    (e.1 + 1, ⟨e.2.1.map braP, e.2.2.map (· + 1)⟩, gBraT e.1 ⟨e.2.1, e.2.2⟩)
  let table : List (Nat × Node × T) :=
    (0, ⟨none, [kt.id, kt.id + 1]⟩, T.fresh [rootKetLeg, rootBraLeg, rootOpenLeg]) :: (kets ++ bras)
  { root := 0
    node := fun k => (table.find? (·.1 == k)).map (·.2.1)
    tensor := fun k => (table.find? (·.1 == k)).map (·.2.2)
    order := kt.post ++ kt.post.map (· + 1) ++ [0] }

/-- a TTNO on the same tree (state identifiers `revKet k`), node `k` with the child order `opKids k` -/
def ttnoNetK (kt : Tree) (opKids : Nat → List Nat) : Net :=
  let inf := Tree.info none kt
  let table : List (Nat × Node × T) := inf.map fun e =>
    (revKet e.1, ⟨e.2.1.map revKet, (opKids e.1).map revKet⟩, gOpT e.1 ⟨e.2.1, opKids e.1⟩)
  { root := revKet kt.id
    node := fun i => (table.find? (·.1 == i)).map (·.2.1)
    tensor := fun i => (table.find? (·.1 == i)).map (·.2.2)
    order := kt.post.map revKet }

/-- the ket tree of a state tree -/
def ketTree : Tree → Tree
  | .node i ks => .node (ketOf i) (ketTreeL ks)
where ketTreeL : List Tree → List Tree
  | [] => []
  | t :: ts => ketTree t :: ketTreeL ts

end Ptn.C16.Ttndo
