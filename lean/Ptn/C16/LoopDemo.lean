import Ptn.C16.ValueLoop
import Ptn.C16.ValueDemo
/-! The concrete instance for the non-vacuity examples of the `…_loop_value` theorems: the node tensors of
`ValueDemo.lean` (state tree `0 — 1`, ket tree `1 — 3`, padded root bond of dimension 3) as FUNCTIONS of the node
identifier, the way the theorems quantify over them. -/
namespace Ptn.C16.Ttndo.Demo

open Ptn.C04 Ptn.Ein Ptn.C16.Val

/-- the tensors of the ket copy, by ket identifier -/
def kvD (i : Nat) : Asg Leg → Int := fun σ =>
  if i = 1 then gRoot (σ (.gKet 1 0)) (σ (.gKet 1 3)) (σ (.gKetPhys 1))
  else gLeaf (σ (.gKet 3 1)) (σ (.gKetPhys 3))
/-- the tensors of the bra copy (the same real entries), by ket identifier -/
def bvD (i : Nat) : Asg Leg → Int := fun σ =>
  if i = 1 then gRoot (σ (.gBra 1 0)) (σ (.gBra 1 3)) (σ (.gBraPhys 1))
  else gLeaf (σ (.gBra 3 1)) (σ (.gBraPhys 3))
/-- the tensors of the TTNO, by ket identifier -/
def ovD (i : Nat) : Asg Leg → Int := fun σ =>
  if i = 1 then gOp1 (σ (.gOp 1 3)) (σ (.gOpOut 1)) (σ (.gOpIn 1))
  else gOp3 (σ (.gOp 3 1)) (σ (.gOpOut 3)) (σ (.gOpIn 3))

theorem st_nodup : st.ids.Nodup := by decide

theorem info0 : Tree.info (some 0) (ketTree st) = [(1, some 0, [3]), (3, some 1, [])] := by decide

theorem kvD_local : KetLocal0 kvD (ketTree st) := by
  intro e he
  rw [info0] at he
  simp only [List.mem_cons, List.not_mem_nil, or_false] at he
  rcases he with rfl | rfl
  · exact leaf3_local (.gKet 1 0) (.gKet 1 3) (.gKetPhys 1) gRoot
  · exact leaf2_local (.gKet 3 1) (.gKetPhys 3) gLeaf

theorem bvD_local : BraLocal0 bvD (ketTree st) := by
  intro e he
  rw [info0] at he
  simp only [List.mem_cons, List.not_mem_nil, or_false] at he
  rcases he with rfl | rfl
  · exact leaf3_local (.gBra 1 0) (.gBra 1 3) (.gBraPhys 1) gRoot
  · exact leaf2_local (.gBra 3 1) (.gBraPhys 3) gLeaf

theorem kvD_padded : ∀ ρ : Asg Leg, ρ (Leg.gKet (ketTree st).id 0) ≠ 0 → kvD (ketTree st).id ρ = 0 := by
  intro ρ h
  have h' : ρ (Leg.gKet 1 0) ≠ 0 := h
  show (if (1 : Nat) = 1 then gRoot (ρ (.gKet 1 0)) (ρ (.gKet 1 3)) (ρ (.gKetPhys 1)) else _) = 0
  simp [gRoot, h']

theorem bvD_padded : ∀ ρ : Asg Leg, ρ (Leg.gBra (ketTree st).id 0) ≠ 0 → bvD (ketTree st).id ρ = 0 := by
  intro ρ h
  have h' : ρ (Leg.gBra 1 0) ≠ 0 := h
  show (if (1 : Nat) = 1 then gRoot (ρ (.gBra 1 0)) (ρ (.gBra 1 3)) (ρ (.gBraPhys 1)) else _) = 0
  simp [gRoot, h']

theorem infoN : Tree.info none (ketTree st) = [(1, none, [3]), (3, some 1, [])] := by decide

theorem ovD_local : OpLocalK ovD opKids (ketTree st) := by
  intro e he
  rw [infoN] at he
  simp only [List.mem_cons, List.not_mem_nil, or_false] at he
  rcases he with rfl | rfl
  · exact leaf3_local (.gOp 1 3) (.gOpOut 1) (.gOpIn 1) gOp1
  · exact leaf3_local (.gOp 3 1) (.gOpOut 3) (.gOpIn 3) gOp3

end Ptn.C16.Ttndo.Demo
