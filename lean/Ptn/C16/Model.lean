/-! Model for property C16 (core Lean only): the *structure* of the density-operator network that
`pytreenet/ttns/ttndo.py::from_ttns` builds from a state, the identifier conventions, the padded
root bond and the contraction-order filter of `contractions/ttndo_contractions.py`.

* `Tree`                ↔ the source TTNS as an ordered rooted tree (identifier, ordered children)
* `Net`                 ↔ what is observable of a `TreeStructure`: dict order of `nodes`, every
                          node's `parent` and ordered `children`
* `Net.addChild`        ↔ `add_child_to_parent` (structure only): refuses an existing identifier and
                          a missing parent, appends the child to the parent's child list
* `addSymmetric`        ↔ `SymmetricTTNDO.add_symmetric_children_to_parent`: the test
                          `parent_id == self.root_id` is a comparison of identifiers, as in the code
* `recAdd`/`recAddNode` ↔ `_rec_add_children` (depth first, in the child order of the state)
* `fromTtns`            ↔ `from_ttns`: trivial root, mirrored copies of the state's root, recursion
* `ketId`/`braId`       ↔ `ket_id`/`bra_id`: the suffix strings `_ket` / `_bra` appended
* `contractionOrder`    ↔ `ttndo_contraction_order`: `id.endswith(ket_suffix)` on `linearise()`
* `pad0`                ↔ `numpy.pad(t, [(0, d-1), (0,0), …])` along the new leading axis of length 1

Identifiers are abstract (`α` with decidable equality) in the structural part; the suffix
convention is modelled on `List Char`. -/
namespace Ptn.C16

inductive Tree (α : Type) where
  | node (id : α) (kids : List (Tree α))

namespace Tree
variable {α : Type}

def id : Tree α → α
  | node i _ => i

def kids : Tree α → List (Tree α)
  | node _ ks => ks

mutual
/-- identifiers in depth-first preorder -/
def ids : Tree α → List α
  | node i ks => i :: idsL ks
def idsL : List (Tree α) → List α
  | [] => []
  | t :: ts => ids t ++ idsL ts
end

mutual
/-- every node with its parent (`p` for the root of the subtree) and its ordered child identifiers -/
def info (p : α) : Tree α → List (α × α × List α)
  | node i ks => (i, p, ks.map Tree.id) :: infoL i ks
def infoL (p : α) : List (Tree α) → List (α × α × List α)
  | [] => []
  | t :: ts => info p t ++ infoL p ts
end

mutual
/-- `linearise()`: children before the node -/
def post : Tree α → List α
  | node i ks => postL ks ++ [i]
def postL : List (Tree α) → List α
  | [] => []
  | t :: ts => post t ++ postL ts
end

end Tree

structure Net (α : Type) where
  order : List α
  parent : α → Option α
  children : α → List α

variable {α : Type} [DecidableEq α]

/-- `add_trivial_root` -/
def Net.trivialRoot (r : α) : Net α := ⟨[r], fun _ => none, fun _ => []⟩

def Net.addChild (net : Net α) (c p : α) : Option (Net α) :=
  if c ∈ net.order then none            -- identifier already used: the library raises
  else if p ∉ net.order then none       -- parent not in the network: the library raises
  else some
    { order := net.order ++ [c]
      parent := fun x => if x = c then some p else net.parent x
      children := fun x => if x = p then net.children p ++ [c] else if x = c then [] else net.children x }

/-- `add_symmetric_children_to_parent(child_id, …, parent_id, …)` -/
def addSymmetric (ket bra : α → α) (r : α) (net : Net α) (child parent : α) : Option (Net α) :=
  let pk := if parent = r then r else ket parent
  let pb := if parent = r then r else bra parent
  match net.addChild (ket child) pk with
  | none => none
  | some net1 => net1.addChild (bra child) pb

mutual
/-- `_rec_add_children(ttns, ttndo, node)` for `node.identifier = p`, `node.children = ks` -/
def recAdd (ket bra : α → α) (r : α) (net : Net α) (p : α) : List (Tree α) → Option (Net α)
  | [] => some net
  | t :: ts =>
    match recAddNode ket bra r net p t with
    | none => none
    | some net1 => recAdd ket bra r net1 p ts
/-- one iteration of the loop: attach the pair of copies of the child, then recurse into it -/
def recAddNode (ket bra : α → α) (r : α) (net : Net α) (p : α) : Tree α → Option (Net α)
  | .node i ks =>
    match addSymmetric ket bra r net i p with
    | none => none
    | some net1 => recAdd ket bra r net1 i ks
end

/-- `from_ttns(ttns, root_id = r)` -/
def fromTtns (ket bra : α → α) (r : α) : Tree α → Option (Net α)
  | .node i ks =>
    match addSymmetric ket bra r (Net.trivialRoot r) i r with
    | none => none
    | some net1 => recAdd ket bra r net1 i ks

/-! ### identifier convention -/

abbrev Ident := List Char

def ketSuffix : Ident := "_ket".toList
def braSuffix : Ident := "_bra".toList
def ketId (s : Ident) : Ident := s ++ ketSuffix
def braId (s : Ident) : Ident := s ++ braSuffix

/-- `node_id.endswith(suffix)` -/
def endsWith (s suffix : Ident) : Bool := suffix.isSuffixOf s

/-- `ttndo_contraction_order`: the identifiers of `linearise()` that end with the ket suffix -/
def contractionOrder (suffix : Ident) (linearised : List Ident) : List Ident :=
  linearised.filter (endsWith · suffix)

/-- `reverse_ket_id` (the assertion is modelled by `none`) -/
def reverseId (suffix : Ident) (s : Ident) : Option Ident :=
  if endsWith s suffix then some (s.take (s.length - suffix.length)) else none

/-- the identifiers of the TTNDO in `linearise()` order: ket branch, bra branch, root -/
def linearisedIds (r : Ident) (t : Tree Ident) : List Ident :=
  t.post.map ketId ++ t.post.map braId ++ [r]

/-! ### the padded root bond -/

/-- entry `k` along axis 0 of `numpy.pad(x.reshape((1,)+shape), [(0, d-1), (0,0)…])`, where `x0` is
the (only) slice of the reshaped tensor; `k` ranges over `0 … d-1` -/
def pad0 {β : Type} [OfNat β 0] (before len : Nat) (x : Nat → β) (k : Nat) : β :=
  if k < before then 0 else if k < before + len then x (k - before) else 0

end Ptn.C16
