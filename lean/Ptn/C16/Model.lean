/-! Model for property C16 (core Lean only; no Mathlib). -/
namespace Ptn.C16
end Ptn.C16
