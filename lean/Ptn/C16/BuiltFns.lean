import Ptn.C04.BuiltTree
import Ptn.C16.TtndoModel
/-! Provenance for the TTNDO routines (`TtndoModel.lean`): "inputs built ⟹ output built" for every function of
the model of `ttndo_contractions.py`, on top of the relation `Ptn.C04.Built` (a tensor of the leg-label calculus
is the result of a nesting of `tensordot` calls over fresh tensors) and the lemmas of `Ptn/C04/BuiltFns.lean` for
the helpers the TTNDO routines reuse (`contract_any_nodes`, `contract_any_node_environment_but_one`,
`contract_all_but_one_neighbour_block_to_ket`, `contract_operator_tensor_ignoring_one_leg` — all for ARBITRARY
identifier transformations).  Each lemma: if the call succeeds and its tensor arguments (and the dictionary entries
it may read) are built from given leaf tensors, the result is built — by the `tensordot` calls the function
performs — from exactly the leaves of the arguments it consumed. -/
namespace Ptn.C16.Ttndo
open Ptn.C04 Ptn.Ein

variable {R : Type}

/-! ### `.T` of a matrix -/

theorem transpose2_built {t r : T} {ls : List (LeafT R)} (h : transpose2 t = some r) (ht : BuiltL t ls) :
    BuiltL r ls := by
  unfold transpose2 at h
  split at h
  · rename_i a b hab
    simp only [Option.some.injEq] at h
    subst h
    exact BuiltL.transpose ht (by rw [hab]; exact List.Perm.swap _ _ _)
  · simp at h

/-! ### `_single_site_contraction`: `(bra @ op @ ket.T).T` -/

theorem singleSiteContraction_built {ket op bra r : T} {lk lo lb : List (LeafT R)}
    (h : singleSiteContraction ket op bra = some r) (hk : BuiltL ket lk) (ho : BuiltL op lo) (hb : BuiltL bra lb) :
    BuiltL r ((lb ++ lo) ++ lk) := by
  unfold singleSiteContraction at h
  split at h
  · simp at h
  · split at h
    · rename_i braOp ketT hbo hkt
      split at h
      · simp at h
      · rename_i block hblock
        exact transpose2_built h (BuiltL.dot (BuiltL.dot hb ho hbo) (transpose2_built hkt hk) hblock)
    · simp at h

/-! ### `_contract_final_block`: `tensordot(root_tensor, final_block, ([l1, l2], [0, 1]))[0]` -/

/-- what a successful call of `_contract_final_block` did: it looked up the root node and its tensor, the ket
child, the two legs toward the ket and the bra child, called `tensordot(root, block, ([l1, l2], [0, 1]))` and
returned the result with its first leg indexed away -/
theorem contractFinalBlock_some {ttndo : Net} {fb r : T} (h : contractFinalBlock ttndo fb = some r) :
    ∃ (rootNode : Node) (rt : T) (fk l1 l2 : Nat) (r' : T) (x : Leg),
      ttndo.node ttndo.root = some rootNode ∧ ttndo.tensor ttndo.root = some rt ∧
      rootNode.children.find? isKet = some fk ∧ rootNode.neighbourIndex fk = some l1 ∧
      rootNode.neighbourIndex (ketToBra fk) = some l2 ∧
      tensordot rt fb [l1, l2] [0, 1] = some r' ∧ r'.legs = x :: r.legs ∧ r'.binds = r.binds := by
  unfold contractFinalBlock at h
  split at h
  · rename_i rootNode rootTensor hn ht
    split at h
    · simp at h
    · split at h
      · simp at h
      · rename_i fk hfk
        split at h
        · rename_i l1 l2 hl1 hl2
          split at h
          · simp at h
          · rename_i r' hr'
            split at h
            · simp at h
            · rename_i x rest hlegs
              simp only [Option.some.injEq] at h
              subst h
              exact ⟨rootNode, rootTensor, fk, l1, l2, r', x, hn, ht, hfk, hl1, hl2, hr', hlegs, rfl⟩
        · simp at h
  · simp at h

/-- the `tensordot` result `r'` (whose first leg `x` is indexed away by the routine: `contraction_result[0]`) is
built from the root tensor and the final block -/
theorem contractFinalBlock_built {ttndo : Net} {fb r : T} {lr lf : List (LeafT R)}
    (h : contractFinalBlock ttndo fb = some r)
    (hroot : ∀ rt, ttndo.tensor ttndo.root = some rt → BuiltL rt lr) (hf : BuiltL fb lf) :
    ∃ (rootNode : Node) (rt : T) (fk l1 l2 : Nat) (r' : T) (x : Leg),
      ttndo.node ttndo.root = some rootNode ∧ ttndo.tensor ttndo.root = some rt ∧
      rootNode.children.find? isKet = some fk ∧ rootNode.neighbourIndex fk = some l1 ∧
      rootNode.neighbourIndex (ketToBra fk) = some l2 ∧
      tensordot rt fb [l1, l2] [0, 1] = some r' ∧ r'.legs = x :: r.legs ∧ r'.binds = r.binds ∧
      BuiltL r' (lr ++ lf) := by
  obtain ⟨rn, rt, fk, l1, l2, r', x, hn, ht, hfk, hl1, hl2, hr', hlegs, hbinds⟩ := contractFinalBlock_some h
  exact ⟨rn, rt, fk, l1, l2, r', x, hn, ht, hfk, hl1, hl2, hr', hlegs, hbinds, BuiltL.dot (hroot rt ht) hf hr'⟩

/-! ### one iteration of the loop of `trace_ttndo` -/

/-- the new dictionary entry is built from the two tensors of the ket node and its bra copy and the blocks of
the ket node's children; every other entry was there before -/
theorem trStep_built {ttndo : Net} {d d' : Dict} {k : Nat} {l1 l2 : List (LeafT R)} {lv : Nat → List (LeafT R)}
    (h : trStep ttndo d k = some d')
    (h1 : ∀ t1, ttndo.tensor k = some t1 → BuiltL t1 l1)
    (h2 : ∀ t2, ttndo.tensor (ketToBra k) = some t2 → BuiltL t2 l2)
    (hc : ∀ n1, ttndo.node k = some n1 → ∀ p, n1.parent = some p → ∀ n ∈ n1.nbrs, n ≠ p →
      ∀ blk, d (n, k) = some blk → BuiltL blk (lv n)) :
    ∃ n1 p, ttndo.node k = some n1 ∧ n1.parent = some p ∧ ∀ key blk, d' key = some blk →
      (key = (k, p) ∧
        BuiltL blk ((l1 ++ (if n1.isLeaf then [] else (n1.nbrs.filter (· ≠ p)).flatMap lv)) ++ l2)) ∨
      (key ≠ (k, p) ∧ d key = some blk) := by
  unfold trStep at h
  split at h
  · rename_i ketNode ketTensor braNode braTensor hkn hkt hbn hbt
    split at h
    · simp at h
    · rename_i p hp
      split at h
      · simp at h
      · rename_i block hblock
        have hb := contractAnyNodes_built (lv := lv) hblock (h1 ketTensor hkt) (h2 braTensor hbt)
          (fun n hn hne blk hblk => hc ketNode hkn p hp n hn hne blk hblk)
        refine ⟨ketNode, p, hkn, hp, fun key blk hk => ?_⟩
        have := Dict.deleteAll_some _ h hk
        unfold Dict.add at this
        by_cases e : key = (k, p)
        · rw [if_pos e] at this
          simp only [Option.some.injEq] at this
          subst this
          exact Or.inl ⟨e, hb⟩
        · rw [if_neg e] at this
          exact Or.inr ⟨e, this⟩
  · simp at h

/-! ### one iteration of the loop of `ttndo_ttno_expectation_value` -/

theorem teStep_built {ttndo ttno : Net} {d d' : Dict} {k : Nat} {l1 l2 l3 : List (LeafT R)}
    {lv : Nat → List (LeafT R)} (h : teStep ttndo ttno d k = some d')
    (h1 : ∀ t1, ttndo.tensor k = some t1 → BuiltL t1 l1)
    (h2 : ∀ t2, ttno.tensor (revKet k) = some t2 → BuiltL t2 l2)
    (h3 : ∀ t3, ttndo.tensor (ketToBra k) = some t3 → BuiltL t3 l3)
    (hc : ∀ n1, ttndo.node k = some n1 → ∀ p, n1.parent = some p → ∀ n ∈ n1.nbrs, n ≠ p →
      ∀ blk, d (n, k) = some blk → BuiltL blk (lv n)) :
    ∃ n1 p, ttndo.node k = some n1 ∧ n1.parent = some p ∧ ∀ key blk, d' key = some blk →
      (key = (k, p) ∧
        BuiltL blk (((l1 ++ (if n1.isLeaf then [] else (n1.nbrs.filter (· ≠ p)).flatMap lv)) ++ l2) ++ l3)) ∨
      (key ≠ (k, p) ∧ d key = some blk) := by
  unfold teStep at h
  split at h
  · rename_i ketNode ketTensor braNode braTensor opNode opTensor hkn hkt hbn hbt hon hot
    split at h
    · simp at h
    · rename_i p hp
      split at h
      · simp at h
      · rename_i block hblock
        have hb := opContractAnyNodeEnvironmentButOne_built (lv := lv) hblock (h1 ketTensor hkt)
          (h2 opTensor hot) (h3 braTensor hbt)
          (fun n hn hne blk hblk => hc ketNode hkn p hp n hn hne blk hblk)
        refine ⟨ketNode, p, hkn, hp, fun key blk hk => ?_⟩
        have := Dict.deleteAll_some _ h hk
        unfold Dict.add at this
        by_cases e : key = (k, p)
        · rw [if_pos e] at this
          simp only [Option.some.injEq] at this
          subst this
          exact Or.inl ⟨e, hb⟩
        · rw [if_neg e] at this
          exact Or.inr ⟨e, this⟩
  · simp at h

/-! ### `_contract_ttno_root` -/

/-- the block of the root site: built from the three tensors of the root site (ket copy, operator, bra copy) and —
unless the tree has a single node — the blocks of all neighbours of the ket copy except the TTNDO root -/
theorem contractTtnoRoot_built {ttndo ttno : Net} {n : Nat} {d : Dict} {emp : Bool} {r : T}
    {lk lo lb : List (LeafT R)} {lv : Nat → List (LeafT R)}
    (h : contractTtnoRoot ttndo ttno n d emp = some r)
    (hk : ∀ t1, ttndo.tensor (ketOf ttno.root) = some t1 → BuiltL t1 lk)
    (ho : ∀ t2, ttno.tensor ttno.root = some t2 → BuiltL t2 lo)
    (hb : ∀ t3, ttndo.tensor (braOf ttno.root) = some t3 → BuiltL t3 lb)
    (hc : ∀ n1, ttndo.node (ketOf ttno.root) = some n1 → ∀ m ∈ n1.nbrs, m ≠ ttndo.root →
      ∀ blk, d (m, ketOf ttno.root) = some blk → BuiltL blk (lv m)) :
    ∃ n1, ttndo.node (ketOf ttno.root) = some n1 ∧
      BuiltL r (if n = 1 then (lb ++ lo) ++ lk
        else ((lk ++ (n1.nbrs.filter (· ≠ ttndo.root)).flatMap lv) ++ lo) ++ lb) := by
  unfold contractTtnoRoot at h
  simp only at h
  split at h
  · rename_i rootNode rootTensor ketNode ketTensor braNode braTensor hrn hrt hkn hkt hbn hbt
    refine ⟨ketNode, hkn, ?_⟩
    by_cases hn : n = 1
    · rw [if_pos hn] at h ⊢
      split at h
      · simp at h
      · exact singleSiteContraction_built h (hk _ hkt) (ho _ hrt) (hb _ hbt)
    · rw [if_neg hn] at h ⊢
      split at h
      · simp at h
      · rename_i ketblock hkb
        split at h
        · simp at h
        · rename_i ketopblock hkob
          split at h
          · simp at h
          · have h1 : BuiltL ketblock (lk ++ (ketNode.nbrs.filter (· ≠ ttndo.root)).flatMap lv) :=
              allButOneLoop_built (lv := lv) _ _ _ _ hkb (hk _ hkt)
                (fun m hm hne blk hblk => hc ketNode hkn m hm hne blk hblk)
            have h2 := contractOperatorTensorIgnoringOneLeg_built hkob h1 (ho _ hrt)
            exact BuiltL.dot h2 (hb _ hbt) h
  · simp at h

/-! ### the top-level routines are: loop, root step, final block -/

theorem traceTtndo_some {ttndo : Net} {r : T} (h : traceTtndo ttndo = some r) :
    ∃ d finalKet fb, trLoop ttndo (contractionOrder ttndo) Dict.empty = some d ∧
      (contractionOrder ttndo).getLast? = some finalKet ∧ d (finalKet, ttndo.root) = some fb ∧
      contractFinalBlock ttndo fb = some r := by
  unfold traceTtndo at h
  split at h
  · simp at h
  · simp only at h
    split at h
    · simp at h
    · rename_i d hd
      split at h
      · simp at h
      · rename_i fk hfk
        split at h
        · simp at h
        · rename_i fb hfb
          exact ⟨d, fk, fb, hd, hfk, hfb, h⟩

theorem ttndoTtno_some {ttndo ttno : Net} {r : T} (h : ttndoTtnoExpectationValue ttndo ttno = some r) :
    ∃ d fb, teLoop ttndo ttno (contractionOrder ttndo).dropLast Dict.empty = some d ∧
      contractTtnoRoot ttndo ttno ttno.order.length d (contractionOrder ttndo).dropLast.isEmpty = some fb ∧
      contractFinalBlock ttndo fb = some r := by
  unfold ttndoTtnoExpectationValue at h
  simp only at h
  split at h
  · simp at h
  · rename_i d hd
    split at h
    · simp at h
    · rename_i fb hfb
      exact ⟨d, fb, hd, hfb, h⟩

end Ptn.C16.Ttndo
