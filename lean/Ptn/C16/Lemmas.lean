import Ptn.C16.Model
/-! Helper lemmas for C16: `from_ttns` as a sequence of `add_child_to_parent` operations, generic facts
about such sequences, and the tree bookkeeping. -/
namespace Ptn.C16

set_option linter.unusedSectionVars false

variable {α : Type} [DecidableEq α]

/-! ### sequences of `addChild` operations -/

/-- run a list of `(child, parent)` operations -/
def applyOps : Net α → List (α × α) → Option (Net α)
  | net, [] => some net
  | net, (c, p) :: rest =>
    match net.addChild c p with
    | none => none
    | some net1 => applyOps net1 rest

theorem applyOps_append (net : Net α) (a b : List (α × α)) :
    applyOps net (a ++ b) = (applyOps net a).bind (fun n => applyOps n b) := by
  induction a generalizing net with
  | nil => simp [applyOps]
  | cons o rest ih =>
    obtain ⟨c, p⟩ := o
    simp only [List.cons_append, applyOps]
    cases net.addChild c p with
    | none => simp
    | some n1 => simp [ih]

/-- all operations are executable from a network whose identifiers are `order` -/
def validOps : List α → List (α × α) → Prop
  | _, [] => True
  | order, (c, p) :: rest => c ∉ order ∧ p ∈ order ∧ validOps (order ++ [c]) rest

theorem validOps_append (order : List α) (a b : List (α × α)) :
    validOps order (a ++ b) ↔ validOps order a ∧ validOps (order ++ a.map (·.1)) b := by
  induction a generalizing order with
  | nil => simp [validOps]
  | cons o rest ih =>
    obtain ⟨c, p⟩ := o
    simp only [List.cons_append, validOps, ih, List.map_cons, List.append_assoc]
    constructor
    · rintro ⟨h1, h2, h3, h4⟩; exact ⟨⟨h1, h2, h3⟩, h4⟩
    · rintro ⟨⟨h1, h2, h3⟩, h4⟩; exact ⟨h1, h2, h3, h4⟩

theorem validOps_fresh (order : List α) (ops : List (α × α)) (hv : validOps order ops) :
    ∀ y, y ∈ ops.map (·.1) → y ∉ order := by
  induction ops generalizing order with
  | nil => simp
  | cons o rest ih =>
    obtain ⟨c, p⟩ := o
    obtain ⟨hc, _, hr⟩ := hv
    intro y hy
    simp only [List.map_cons, List.mem_cons] at hy
    rcases hy with rfl | hy
    · exact hc
    · intro hmem
      exact ih (order ++ [c]) hr y hy (by simp [hmem])

/-- children attached to `x` by a list of operations -/
def childOps (x : α) (ops : List (α × α)) : List α := (ops.filter (fun o => o.2 = x)).map (·.1)

theorem childOps_append (x : α) (a b : List (α × α)) : childOps x (a ++ b) = childOps x a ++ childOps x b := by
  simp [childOps]

theorem childOps_cons (x : α) (c p : α) (rest : List (α × α)) :
    childOps x ((c, p) :: rest) = (if p = x then [c] else []) ++ childOps x rest := by
  by_cases h : p = x <;> simp [childOps, h]

/-- the effect of an executable list of operations -/
theorem applyOps_spec (net : Net α) (ops : List (α × α)) (hv : validOps net.order ops) :
    ∃ net', applyOps net ops = some net' ∧
      net'.order = net.order ++ ops.map (·.1) ∧
      (∀ x, x ∉ ops.map (·.1) → net'.parent x = net.parent x) ∧
      (∀ c p, (c, p) ∈ ops → (ops.map (·.1)).Nodup → net'.parent c = some p) ∧
      (∀ x, net'.children x =
        (if x ∈ ops.map (·.1) then [] else net.children x) ++ childOps x ops) := by
  induction ops generalizing net with
  | nil => exact ⟨net, rfl, by simp, by simp, by simp, by simp [childOps]⟩
  | cons o rest ih =>
    obtain ⟨c, p⟩ := o
    obtain ⟨hc, hp, hrest⟩ := hv
    let net1 : Net α :=
      { order := net.order ++ [c]
        parent := fun x => if x = c then some p else net.parent x
        children := fun x => if x = p then net.children p ++ [c] else if x = c then [] else net.children x }
    have hadd : net.addChild c p = some net1 := by
      simp [Net.addChild, hc, hp, net1]
    obtain ⟨net', h1, h2, h3, h4, h5⟩ := ih net1 hrest
    simp only [net1] at h2 h3 h5
    refine ⟨net', by simp [applyOps, hadd, h1], by simp [h2], ?_, ?_, ?_⟩
    · intro x hx
      simp only [List.map_cons, List.mem_cons, not_or] at hx
      rw [h3 x hx.2]
      simp [hx.1]
    · intro c' p' hmem hnd
      simp only [List.map_cons, List.nodup_cons] at hnd
      simp only [List.mem_cons, Prod.mk.injEq] at hmem
      rcases hmem with ⟨rfl, rfl⟩ | hmem
      · rw [h3 c' hnd.1]; simp
      · exact h4 c' p' hmem hnd.2
    · intro x
      rw [h5 x, childOps_cons]
      -- the new identifiers of `rest` are not in `net.order ++ [c]`
      have hfresh := validOps_fresh (net.order ++ [c]) rest hrest
      by_cases hxc : x = c
      · subst hxc
        have hxp : ¬ x = p := fun e => hc (e ▸ hp)
        have hxr : x ∉ rest.map (·.1) := fun hy => hfresh x hy (by simp)
        have hpx : ¬ p = x := fun e => hxp e.symm
        simp [hxr, hxp, hpx]
      · by_cases hxp : x = p
        · subst hxp
          have hxr : x ∉ rest.map (·.1) := fun hy => hfresh x hy (by simp [hp])
          simp [hxr, hxc]
        · have hpx : ¬ p = x := fun e => hxp e.symm
          by_cases hm : x ∈ rest.map (·.1)
          · have hm' : x ∈ ((c, p) :: rest).map (·.1) := by
              simp only [List.map_cons, List.mem_cons]; exact Or.inr hm
            simp only [if_pos hm, if_pos hm', if_neg hpx]
            simp
          · have hm' : x ∉ ((c, p) :: rest).map (·.1) := by
              simp only [List.map_cons, List.mem_cons, not_or]; exact ⟨hxc, hm⟩
            simp only [if_neg hm, if_neg hm', if_neg hxp, if_neg hxc, if_neg hpx]
            simp

/-! ### `from_ttns` as a list of operations -/

mutual
/-- the operations of `recAddNode … (parent copies pk, pb) t` -/
def opsT (ket bra : α → α) (r : α) (pk pb : α) : Tree α → List (α × α)
  | .node i ks =>
    (ket i, pk) :: (bra i, pb) :: opsL ket bra r (if i = r then r else ket i) (if i = r then r else bra i) ks
def opsL (ket bra : α → α) (r : α) (pk pb : α) : List (Tree α) → List (α × α)
  | [] => []
  | t :: ts => opsT ket bra r pk pb t ++ opsL ket bra r pk pb ts
end

theorem addSymmetric_eq (ket bra : α → α) (r : α) (net : Net α) (i p : α) :
    addSymmetric ket bra r net i p =
      applyOps net [(ket i, if p = r then r else ket p), (bra i, if p = r then r else bra p)] := by
  simp only [addSymmetric, applyOps]
  cases net.addChild (ket i) (if p = r then r else ket p) with
  | none => rfl
  | some n1 =>
    dsimp only
    cases n1.addChild (bra i) (if p = r then r else bra p) <;> rfl

mutual
theorem recAddNode_eq (ket bra : α → α) (r : α) (p : α) :
    ∀ (t : Tree α) (net : Net α), recAddNode ket bra r net p t =
      applyOps net (opsT ket bra r (if p = r then r else ket p) (if p = r then r else bra p) t)
  | .node i ks, net => by
    simp only [recAddNode, opsT, addSymmetric_eq]
    have h := applyOps_append net [(ket i, if p = r then r else ket p), (bra i, if p = r then r else bra p)]
      (opsL ket bra r (if i = r then r else ket i) (if i = r then r else bra i) ks)
    simp only [List.cons_append, List.nil_append] at h
    rw [h]
    cases applyOps net [(ket i, if p = r then r else ket p), (bra i, if p = r then r else bra p)] with
    | none => rfl
    | some n1 => simp [recAdd_eq ket bra r i ks n1]
theorem recAdd_eq (ket bra : α → α) (r : α) (p : α) :
    ∀ (ts : List (Tree α)) (net : Net α), recAdd ket bra r net p ts =
      applyOps net (opsL ket bra r (if p = r then r else ket p) (if p = r then r else bra p) ts)
  | [], net => by simp [recAdd, opsL, applyOps]
  | t :: ts, net => by
    simp only [recAdd, opsL, applyOps_append, recAddNode_eq ket bra r p t net]
    cases applyOps net (opsT ket bra r (if p = r then r else ket p) (if p = r then r else bra p) t) with
    | none => rfl
    | some n1 => simp [recAdd_eq ket bra r p ts n1]
end

theorem fromTtns_eq (ket bra : α → α) (r : α) (t : Tree α) :
    fromTtns ket bra r t = applyOps (Net.trivialRoot r) (opsT ket bra r r r t) := by
  cases t with
  | node i ks =>
    simp only [fromTtns, opsT, addSymmetric_eq, if_true]
    have h := applyOps_append (Net.trivialRoot r) [(ket i, r), (bra i, r)]
      (opsL ket bra r (if i = r then r else ket i) (if i = r then r else bra i) ks)
    simp only [List.cons_append, List.nil_append] at h
    rw [h]
    cases applyOps (Net.trivialRoot r) [(ket i, r), (bra i, r)] with
    | none => rfl
    | some n1 => simp [recAdd_eq ket bra r i ks n1]

end Ptn.C16
