import Ptn.C16.ValueLoop
import Ptn.C16.TensorProduct
/-! Value level of `tensor_product_expectation_value`: absorbing a single-site operator into the ket tensor of its
site replaces the local tensor `kv s` by `applyAt (O s) (phys s) (kv s)`; on the dense vector of the ket copy this is
the application of the operator at that site (`ketVec_absorb1`), for every tree, every commutative semiring. -/
namespace Ptn.C16.Ttndo

open Ptn.C04 Ptn.Ein Finset

set_option linter.unusedSectionVars false
variable {R : Type} [CommSemiring R]

section generic
variable {L : Type} [DecidableEq L]

/-- the matrix `O[out, in]` applied at the label `p`: `(O f)(σ) = Σ_x O[σ p, x] · f(σ[p ↦ x])` -/
def applyAt (dim : L → Nat) (O : Nat → Nat → R) (p : L) (f : Asg L → R) (σ : Asg L) : R :=
  sumR (dim p) (fun x => O (σ p) x * f (upd σ p x))

theorem applyAt_congr (dim : L → Nat) (O : Nat → Nat → R) (p : L) {f g : Asg L → R} (h : ∀ σ, f σ = g σ)
    (σ : Asg L) : applyAt dim O p f σ = applyAt dim O p g σ := by
  simp only [applyAt, h]

theorem applyAt_sumPairs (dim : L → Nat) (O : Nat → Nat → R) (p : L) (ps : List (L × L))
    (hp : p ∉ Expr.pairLegs ps) (F : Asg L → R) (σ : Asg L) :
    applyAt dim O p (sumPairs dim ps F) σ = sumPairs dim ps (applyAt dim O p F) σ := by
  induction ps generalizing σ with
  | nil => rfl
  | cons q ps ih =>
    obtain ⟨a, b⟩ := q
    have hpa : p ≠ a := fun h => hp (by simp [Expr.pairLegs, h])
    have hpb : p ≠ b := fun h => hp (by simp [Expr.pairLegs, h])
    have hp' : p ∉ Expr.pairLegs ps := fun h => hp (by
      simp only [Expr.pairLegs, List.map_cons, List.mem_append, List.mem_cons] at h ⊢; tauto)
    show _ = sumR (dim a) (fun i => sumPairs dim ps (applyAt dim O p F) (upd (upd σ a i) b i))
    simp only [← ih hp']
    simp only [applyAt, sumPairs, sumR_eq, mul_sum]
    rw [sum_comm]
    apply sum_congr rfl; intro i _; apply sum_congr rfl; intro x _
    have e1 : upd (upd σ a i) b i p = σ p := by simp [upd, hpa, hpb]
    have e2 : upd (upd (upd σ a i) b i) p x = upd (upd (upd σ p x) a i) b i := by
      funext y; unfold upd
      by_cases h1 : y = p <;> by_cases h2 : y = a <;> by_cases h3 : y = b <;> simp_all
    rw [e1, e2]

theorem applyAt_mul_right (dim : L → Nat) (O : Nat → Nat → R) (p : L) (f g : Asg L → R) {S : L → Prop}
    (hg : DependsOn S g) (hp : ¬ S p) (σ : Asg L) :
    applyAt dim O p (fun σ => f σ * g σ) σ = applyAt dim O p f σ * g σ := by
  simp only [applyAt, sumR_eq, sum_mul]
  apply sum_congr rfl; intro x _
  have : g (upd σ p x) = g σ := hg _ _ (fun l hl => by
    have : l ≠ p := fun h => hp (h ▸ hl)
    simp [upd, this])
  rw [this, mul_assoc]

theorem applyAt_mul_left (dim : L → Nat) (O : Nat → Nat → R) (p : L) (f g : Asg L → R) {S : L → Prop}
    (hg : DependsOn S g) (hp : ¬ S p) (σ : Asg L) :
    applyAt dim O p (fun σ => g σ * f σ) σ = g σ * applyAt dim O p f σ := by
  rw [mul_comm, ← applyAt_mul_right dim O p f g hg hp]
  exact applyAt_congr dim O p (fun _ => mul_comm _ _) σ

theorem applyAt_dependsOn (dim : L → Nat) (O : Nat → Nat → R) (p : L) {f : Asg L → R} {S : L → Prop}
    (hf : DependsOn S f) (hp : S p) : DependsOn S (applyAt dim O p f) := by
  intro σ τ h
  simp only [applyAt, h p hp]
  congr 1; funext x; congr 1
  apply hf
  intro l hl
  by_cases e : l = p
  · simp [upd, e]
  · simp [upd, e, h l hl]

/-- operators at two different labels commute -/
theorem applyAt_comm (dim : L → Nat) (O O' : Nat → Nat → R) (p q : L) (hpq : p ≠ q) (f : Asg L → R) (σ : Asg L) :
    applyAt dim O p (applyAt dim O' q f) σ = applyAt dim O' q (applyAt dim O p f) σ := by
  simp only [applyAt, sumR_eq, mul_sum]
  rw [sum_comm]
  apply sum_congr rfl; intro y _; apply sum_congr rfl; intro x _
  have e1 : upd σ p x q = σ q := by simp [upd, hpq.symm]
  have e2 : upd σ q y p = σ p := by simp [upd, hpq]
  rw [e1, e2, upd_comm σ hpq x y, mul_left_comm]

end generic

/-! ### one site -/

/-- the ket tensors after `absorb_into_open_legs(ket s, O)`: the output index is read on the leg that carries the
name of the physical leg (`tensordot` is positional: the output leg takes the physical leg's place) -/
def absorb1 (dim : Leg → Nat) (O : Nat → Nat → R) (s : Nat) (kv : Nat → Asg Leg → R) : Nat → Asg Leg → R :=
  fun k => if k = s then applyAt dim O (Leg.gKetPhys s) (kv s) else kv k

theorem phys_mem_gKetT (s k : Nat) (nd : Node) : Leg.gKetPhys s ∈ (gKetT k nd).legs ↔ s = k := by
  simp [gKetT, T.fresh]

theorem absorb1_local (dim : Leg → Nat) (O : Nat → Nat → R) (s : Nat) (kv : Nat → Asg Leg → R) (kt : Tree)
    (hkv : KetLocal0 kv kt) : KetLocal0 (absorb1 dim O s kv) kt := by
  intro e he
  simp only [absorb1]
  split
  · rename_i h
    have := hkv e he
    rw [h] at this ⊢
    exact applyAt_dependsOn dim O _ this ((phys_mem_gKetT s s _).2 rfl)
  · exact hkv e he

theorem tp_prod_indep (s : Nat) (kv : Nat → Asg Leg → R) : ∀ (es : List (Nat × Option Nat × List Nat)),
    s ∉ es.map (·.1) → (∀ e ∈ es, DependsOn (· ∈ (gKetT e.1 ⟨e.2.1, e.2.2⟩).legs) (kv e.1)) →
    DependsOn (fun l => l ≠ Leg.gKetPhys s) (fun τ => prodL (es.map (fun e => kv e.1 τ)))
  | [], _, _ => fun _ _ _ => rfl
  | e :: es, hs, hloc => by
    simp only [List.map_cons, List.mem_cons, not_or] at hs
    have ih := tp_prod_indep s kv es hs.2 (fun e' he' => hloc e' (by simp [he']))
    have h1 : DependsOn (fun l => l ≠ Leg.gKetPhys s) (kv e.1) :=
      (hloc e (by simp)).mono (fun l hl h => hs.1 ((phys_mem_gKetT s e.1 _).1 (h ▸ hl)))
    exact h1.mul ih

theorem tp_prod_absorb_not_mem (dim : Leg → Nat) (O : Nat → Nat → R) (s : Nat) (kv : Nat → Asg Leg → R)
    (es : List (Nat × Option Nat × List Nat)) (hs : s ∉ es.map (·.1)) (τ : Asg Leg) :
    prodL (es.map (fun e => absorb1 dim O s kv e.1 τ)) = prodL (es.map (fun e => kv e.1 τ)) := by
  congr 1
  apply List.map_congr_left
  intro e he
  have : e.1 ≠ s := fun h => hs (List.mem_map.2 ⟨e, he, h⟩)
  simp [absorb1, this]

theorem tp_prod_absorb (dim : Leg → Nat) (O : Nat → Nat → R) (s : Nat) (kv : Nat → Asg Leg → R) :
    ∀ (es : List (Nat × Option Nat × List Nat)), (es.map (·.1)).Nodup → s ∈ es.map (·.1) →
    (∀ e ∈ es, DependsOn (· ∈ (gKetT e.1 ⟨e.2.1, e.2.2⟩).legs) (kv e.1)) → ∀ τ : Asg Leg,
    prodL (es.map (fun e => absorb1 dim O s kv e.1 τ)) =
      applyAt dim O (Leg.gKetPhys s) (fun τ => prodL (es.map (fun e => kv e.1 τ))) τ
  | [], _, hs, _, _ => by simp at hs
  | e :: es, hnd, hs, hloc, τ => by
    simp only [List.map_cons, List.nodup_cons] at hnd
    have hloc' : ∀ e' ∈ es, DependsOn (· ∈ (gKetT e'.1 ⟨e'.2.1, e'.2.2⟩).legs) (kv e'.1) :=
      fun e' he' => hloc e' (by simp [he'])
    simp only [List.map_cons, prodL]
    by_cases h : e.1 = s
    · have hs' : s ∉ es.map (·.1) := h ▸ hnd.1
      rw [tp_prod_absorb_not_mem dim O s kv es hs' τ]
      have hind := tp_prod_indep s kv es hs' hloc'
      rw [applyAt_mul_right dim O _ (kv e.1) _ hind (fun hh => hh rfl) τ]
      simp [absorb1, h]
    · have hs' : s ∈ es.map (·.1) := by
        simp only [List.map_cons, List.mem_cons] at hs
        rcases hs with hs | hs
        · exact absurd hs.symm h
        · exact hs
      rw [tp_prod_absorb dim O s kv es hnd.2 hs' hloc' τ]
      have h1 : DependsOn (fun l => l ≠ Leg.gKetPhys s) (kv e.1) :=
        (hloc e (by simp)).mono (fun l hl hh => h ((phys_mem_gKetT s e.1 _).1 (hh ▸ hl)).symm)
      rw [applyAt_mul_left dim O _ _ (kv e.1) h1 (fun hh => hh rfl) τ]
      simp [absorb1, h]

mutual
theorem tp_treeLeaves_info (kv : Nat → Asg Leg → R) : ∀ (t : Tree) (p : Option Nat),
    treeLeaves (ketLayer kv).nodeLeaves p t =
      (Tree.info p t).map (fun e => ((gKetT e.1 ⟨e.2.1, e.2.2⟩).legs, kv e.1))
  | .node i ks, p => by
    simp only [treeLeaves, Tree.info, List.map_cons, tp_treeLeavesL_info kv ks i]
    rfl
theorem tp_treeLeavesL_info (kv : Nat → Asg Leg → R) : ∀ (ts : List Tree) (i : Nat),
    treeLeavesL (ketLayer kv).nodeLeaves i ts =
      (Tree.infoL i ts).map (fun e => ((gKetT e.1 ⟨e.2.1, e.2.2⟩).legs, kv e.1))
  | [], _ => rfl
  | c :: cs, i => by
    simp only [treeLeavesL, Tree.infoL, tp_treeLeaves_info kv c (some i), tp_treeLeavesL_info kv cs i,
      List.map_append]
end

theorem ketVec_leafProd (kv : Nat → Asg Leg → R) (kt : Tree) (τ : Asg Leg) :
    (ketVec kv kt).leafProd τ = prodL ((Tree.info (some 0) kt).map (fun e => kv e.1 τ)) := by
  unfold ketVec
  rw [Expr.leafProd_of_leaves _ _ (layExpr_leaves (ketLayer kv) kt (some 0)) τ, tp_treeLeaves_info,
    List.map_map]
  rfl

/-- the canonical dense vector of the ket copy is strongly well-formed and has every physical leg free -/
theorem ketVec_swf (kt : Tree) (hnd : kt.ids.Nodup) (h0 : (0 : Nat) ∉ kt.ids) (kv : Nat → Asg Leg → R)
    (hkv : KetLocal0 kv kt) :
    (ketVec kv kt).SWF ∧ ∀ n ∈ kt.ids, Leg.gKetPhys n ∈ (ketVec kv kt).free := by
  have hsome : ∀ q, (some 0 : Option Nat) = some q → q ∉ kt.ids := fun q hq => by
    simp only [Option.some.injEq] at hq; subst hq; exact h0
  have hnb := info_nbrs_nodup kt (some 0) hnd hsome
  have hok : ∀ x ∈ Tree.info (some 0) kt, NodeOK (trNodeLeaves kv kv) x := fun x hx => tr_nodeOK kv kv x (hnb x hx)
  have hokK : ∀ x ∈ Tree.info (some 0) kt, NodeOK (ketLayer kv).nodeLeaves x := fun x hx =>
    nodeOK_left (f := (ketLayer kv).nodeLeaves) (g := (braLayerK kv).nodeLeaves) (hok x hx)
  have hhK : ∀ x ∈ Tree.info (some 0) kt, (ketLayer kv).Has x := fun x _ n hn => by
    simp only [ketLayer, gKetT, T.fresh, Node.nbrs, List.mem_append, List.mem_map]
    exact Or.inl ⟨n, List.mem_append.1 hn, rfl⟩
  refine ⟨layExpr_swf (ketLayer kv) (ketLayer_inj kv) kt (some 0) hnd hsome hhK hokK hkv, ?_⟩
  intro n hn
  rw [← Tree.info_keys (some 0) kt] at hn
  obtain ⟨x, hx, rfl⟩ := List.mem_map.1 hn
  apply layExpr_free_phys (ketLayer kv) _ (fun a b => by simp [ketLayer]) kt (some 0)
  simp only [labelsOf, List.mem_flatMap]
  exact ⟨_, nodeLeaves_sub _ kt (some 0) x hx _ (List.mem_singleton.2 rfl), by simp [ketLayer, gKetT, T.fresh]⟩

/-- **one absorption on the dense vector**: replacing the tensor of ket node `s` by the absorbed tensor applies the
operator at site `s` to the dense vector of the ket copy -/
theorem ketVec_absorb1 (dim : Leg → Nat) (O : Nat → Nat → R) (s : Nat) (kt : Tree) (hnd : kt.ids.Nodup)
    (h0 : (0 : Nat) ∉ kt.ids) (hs : s ∈ kt.ids) (kv : Nat → Asg Leg → R) (hkv : KetLocal0 kv kt) (σ : Asg Leg) :
    (ketVec (absorb1 dim O s kv) kt).eval dim σ =
      applyAt dim O (Leg.gKetPhys s) ((ketVec kv kt).eval dim) σ := by
  obtain ⟨hK, hfree⟩ := ketVec_swf kt hnd h0 kv hkv
  obtain ⟨hK1, _⟩ := ketVec_swf kt hnd h0 _ (absorb1_local dim O s kv kt hkv)
  have hb : (ketVec (absorb1 dim O s kv) kt).binds.Perm (ketVec kv kt).binds :=
    (layExpr_binds (ketLayer (absorb1 dim O s kv)) kt (some 0)).trans (layExpr_binds (ketLayer kv) kt (some 0)).symm
  have hkeys : ((Tree.info (some 0) kt).map (·.1)).Nodup := by rw [Tree.info_keys]; exact hnd
  have hsk : s ∈ (Tree.info (some 0) kt).map (·.1) := by rw [Tree.info_keys]; exact hs
  have hlp : ∀ τ, (ketVec (absorb1 dim O s kv) kt).leafProd τ =
      applyAt dim O (Leg.gKetPhys s) (ketVec kv kt).leafProd τ := by
    intro τ
    rw [ketVec_leafProd, tp_prod_absorb dim O s kv _ hkeys hsk hkv τ]
    exact applyAt_congr dim O _ (fun ρ => (ketVec_leafProd kv kt ρ).symm) τ
  rw [Expr.eval_eq_full dim _ hK1.wf]
  simp only [Expr.full]
  rw [sumPairs_perm dim hb (Expr.binds_nodup _ hK1), sumPairs_congr dim _ hlp,
    ← applyAt_sumPairs dim O _ _ (Expr.free_not_bound _ hK _ (hfree s hs))]
  exact applyAt_congr dim O _ (fun ρ => (Expr.eval_eq_full dim _ hK.wf ρ).symm) σ

/-! ### all factors, in the order of the loop over `operator.items()` -/

/-- the ket tensors after the absorption loop -/
def absorbedKv (dim : Leg → Nat) (O : Nat → Nat → Nat → R) (sites : List Nat) (kv : Nat → Asg Leg → R) :
    Nat → Asg Leg → R :=
  sites.foldl (fun kv s => absorb1 dim (O s) s kv) kv

/-- the tensor product `⊗_s O_s` applied to a dense vector, factor by factor -/
def applySites (dim : Leg → Nat) (O : Nat → Nat → Nat → R) (sites : List Nat) (f : Asg Leg → R) : Asg Leg → R :=
  sites.foldl (fun f s => applyAt dim (O s) (Leg.gKetPhys s) f) f

theorem ketVec_absorbed (dim : Leg → Nat) (O : Nat → Nat → Nat → R) (kt : Tree) (hnd : kt.ids.Nodup)
    (h0 : (0 : Nat) ∉ kt.ids) : ∀ (sites : List Nat), (∀ s ∈ sites, s ∈ kt.ids) →
    ∀ (kv : Nat → Asg Leg → R), KetLocal0 kv kt →
    KetLocal0 (absorbedKv dim O sites kv) kt ∧
      (ketVec (absorbedKv dim O sites kv) kt).eval dim = applySites dim O sites ((ketVec kv kt).eval dim)
  | [], _, _, hkv => ⟨hkv, rfl⟩
  | s :: rest, hs, kv, hkv => by
    have h1 := absorb1_local dim (O s) s kv kt hkv
    obtain ⟨hl, hv⟩ := ketVec_absorbed dim O kt hnd h0 rest (fun s' hs' => hs s' (by simp [hs'])) _ h1
    refine ⟨hl, ?_⟩
    have e1 : (ketVec (absorb1 dim (O s) s kv) kt).eval dim =
        applyAt dim (O s) (Leg.gKetPhys s) ((ketVec kv kt).eval dim) :=
      funext (ketVec_absorb1 dim (O s) s kt hnd h0 (hs s (by simp)) kv hkv)
    simp only [absorbedKv, applySites, List.foldl_cons] at hv ⊢
    rw [hv, e1]

theorem absorb1_zero (dim : Leg → Nat) (O : Nat → Nat → R) (s : Nat) (kv : Nat → Asg Leg → R) (g : Leg)
    (hg : ∀ n, g ≠ Leg.gKetPhys n) (r : Nat) (hz : ∀ ρ : Asg Leg, ρ g ≠ 0 → kv r ρ = 0) :
    ∀ ρ : Asg Leg, ρ g ≠ 0 → absorb1 dim O s kv r ρ = 0 := by
  intro ρ hρ
  simp only [absorb1]
  split
  · rename_i h
    subst h
    simp only [applyAt, sumR_eq]
    apply Finset.sum_eq_zero
    intro x _
    rw [hz (upd ρ (Leg.gKetPhys r) x) (by simpa [upd, hg r] using hρ), mul_zero]
  · exact hz ρ hρ

/-- the padded root bond survives the absorptions: the absorbed tensor still vanishes off index 0 -/
theorem absorbedKv_zero (dim : Leg → Nat) (O : Nat → Nat → Nat → R) (g : Leg) (hg : ∀ n, g ≠ Leg.gKetPhys n)
    (r : Nat) : ∀ (sites : List Nat) (kv : Nat → Asg Leg → R), (∀ ρ : Asg Leg, ρ g ≠ 0 → kv r ρ = 0) →
    ∀ ρ : Asg Leg, ρ g ≠ 0 → absorbedKv dim O sites kv r ρ = 0
  | [], _, hz => hz
  | s :: rest, kv, hz => by
    simp only [absorbedKv, List.foldl_cons]
    exact absorbedKv_zero dim O g hg r rest _ (absorb1_zero dim (O s) s kv g hg r hz)

/-- the order of the factors is irrelevant (distinct sites) -/
theorem applySites_perm (dim : Leg → Nat) (O : Nat → Nat → Nat → R) {s1 s2 : List Nat} (h : s1.Perm s2)
    (hnd : s1.Nodup) (f : Asg Leg → R) : applySites dim O s1 f = applySites dim O s2 f := by
  induction h generalizing f with
  | nil => rfl
  | cons x _ ih => exact ih (List.nodup_cons.1 hnd).2 _
  | swap x y l =>
    simp only [applySites, List.foldl_cons]
    congr 1
    funext σ
    have hxy : y ≠ x := fun e => by simp [e] at hnd
    exact applyAt_comm dim (O x) (O y) _ _ (fun e => hxy (by injection e with e; exact e.symm)) f σ
  | trans h1 _ ih1 ih2 => rw [ih1 hnd, ih2 (h1.nodup_iff.1 hnd)]

/-! ### the absorption step itself -/

/-- the matrix of a single-site operator tensor with axes (output, input) -/
def opMat (ov : Asg Leg → R) (k : Nat) (a x : Nat) : R :=
  ov (upd (upd (fun _ => 0) (Leg.gOpOut k) a) (Leg.gOpIn k) x)

/-- the `tensordot` of `absorb_into_open_legs`, as an expression over the two tensors -/
def absorbExpr (k : Nat) (node : Node) (kvk ov : Asg Leg → R) : Expr Leg R :=
  Expr.dot (Expr.leaf (gKetT k node).legs kvk) (Expr.leaf (siteOpT k).legs ov) [(Leg.gKetPhys k, Leg.gOpIn k)]

/-- `absorb_into_open_legs` succeeds and its result is built, by its one `tensordot` call, from the ket tensor and
the operator tensor -/
theorem absorb_built (k : Nat) (node : Node) (kvk ov : Asg Leg → R) :
    ∃ r, absorbIntoOpenLegs node (gKetT k node) (siteOpT k) = some r ∧
      r = ⟨node.nbrs.map (Leg.gKet k) ++ [Leg.gOpOut k], [(Leg.gKetPhys k, Leg.gOpIn k)]⟩ ∧
      Built r (absorbExpr k node kvk ov) := by
  have h := absorbIntoOpenLegs_gKetT k node
  refine ⟨_, h, rfl, ?_⟩
  have h' : tensordot (gKetT k node) (siteOpT k) [node.nn] [1] = some
      ⟨node.nbrs.map (Leg.gKet k) ++ [Leg.gOpOut k], [(Leg.gKetPhys k, Leg.gOpIn k)]⟩ := by
    simpa [absorbIntoOpenLegs, siteOpT, T.fresh] using h
  have hb := Built.dot (R := R) (Built.fresh (gKetT k node).legs kvk) (Built.fresh (siteOpT k).legs ov)
    (ia := [node.nn]) (ib := [1]) (la := [Leg.gKetPhys k]) (lb := [Leg.gOpIn k]) h'
    (by simp [pick, gKetT, T.fresh, getElem?_nbrs_phys]) (by simp [pick, siteOpT, T.fresh])
  exact hb

/-- **value of one absorption**: with the output index read on the physical leg's name, the result of
`tensordot(node_tensor, operator, (open_legs, [1]))` is `applyAt (matrix of the operator) (phys k) (ket tensor)` -/
theorem absorbExpr_value (dim : Leg → Nat) (k : Nat) (node : Node) (kvk ov : Asg Leg → R)
    (hk : DependsOn (· ∈ (gKetT k node).legs) kvk) (ho : DependsOn (· ∈ (siteOpT k).legs) ov) (σ : Asg Leg) :
    (absorbExpr k node kvk ov).eval dim (upd σ (Leg.gOpOut k) (σ (Leg.gKetPhys k))) =
      applyAt dim (opMat ov k) (Leg.gKetPhys k) kvk σ := by
  simp only [absorbExpr, Expr.eval, sumPairs, applyAt]
  congr 1; funext x
  rw [mul_comm]
  congr 1
  · apply ho
    intro l hl
    simp only [siteOpT, T.fresh, List.mem_cons, List.not_mem_nil, or_false] at hl
    rcases hl with rfl | rfl <;> simp [upd]
  · apply hk
    intro l hl
    simp only [gKetT, T.fresh, List.mem_append, List.mem_map, List.mem_singleton] at hl
    rcases hl with ⟨n, _, rfl⟩ | rfl <;> simp [upd]

end Ptn.C16.Ttndo

namespace Ptn.C16.Ttndo.Demo
/-- the single-site operators of the non-vacuity example (non-symmetric, different per site) -/
def tpOD (s a x : Nat) : Int := (s : Int) + 2 * (a : Int) - (x : Int) + 1
end Ptn.C16.Ttndo.Demo
