import Ptn.C16.BuiltFns
import Ptn.C16.TtndoTop
/-! Provenance along the tree: the tensors that `trace_ttndo` and `ttndo_ttno_expectation_value` return are BUILT —
by the `tensordot` calls the loops, `_contract_ttno_root` / `_single_site_contraction` and `_contract_final_block`
perform (`BuiltFns.lean`) — from exactly the root tensor of the TTNDO and the ket / (operator) / bra tensors of all
nodes. -/
namespace Ptn.C16.Ttndo
open Ptn.C04 Ptn.Ein

variable {R : Type}

/-- the block of the kid `n` of node `i` is built from the leaves of that kid's subtree -/
theorem kid_block_built {f : Tree → List (LeafT R)} {blockOf : Tree → Nat → T} (ks : List Tree) (i n : Nat)
    (hn : n ∈ ks.map Tree.id) (hkids : ∀ c ∈ ks, BuiltL (blockOf c i) (f c)) (blk : T)
    (hblk : ∀ c, ks.find? (fun c => c.id == n) = some c → blk = blockOf c i) : BuiltL blk (lvOf f ks n) := by
  obtain ⟨c0, hc0, hcn⟩ := List.mem_map.1 hn
  have hsome : (ks.find? (fun c => c.id == n)).isSome := by
    rw [List.find?_isSome]; exact ⟨c0, hc0, by simp [hcn]⟩
  obtain ⟨c, hc⟩ := Option.isSome_iff_exists.1 hsome
  obtain ⟨hcm, _⟩ := find_kid hc
  rw [hblk c hc]
  simp only [lvOf, hc, Option.map_some, Option.getD_some]
  exact hkids c hcm

/-! ### `trace_ttndo` -/

/-- the ket node `e`, its bra copy, and the loop step on it, as the TTNDO of `from_ttns` stores them -/
def TrRep (nd : Net) (info : List (Nat × Option Nat × List Nat)) : Prop :=
  ∀ e ∈ info, ∃ p, e.2.1 = some p ∧
    nd.node e.1 = some ⟨some p, e.2.2⟩ ∧ nd.tensor e.1 = some (gKetT e.1 ⟨some p, e.2.2⟩) ∧
    nd.tensor (ketToBra e.1) = some (gBraT e.1 ⟨some p, e.2.2⟩) ∧
    ∀ d, trStep nd d e.1 = ssStep nd (braView nd) d e.1

theorem TrRep.rep {nd : Net} {info : List (Nat × Option Nat × List Nat)} (h : TrRep nd info) :
    Rep nd (braView nd) (kidsOfNet nd) info := by
  intro e he
  obtain ⟨p, hp, l1, l2, l4, _⟩ := h e he
  rw [hp]
  refine ⟨l1, l2, ?_, ?_, ?_⟩
  · simp [braView, l1, kidsOfNet]
  · simpa [braView, kidsOfNet, l1, ketToBra] using l4
  · simp [kidsOfNet, l1]

/-- the TTNDO of the ket tree satisfies `TrRep` -/
theorem ttndoNetK_trRep (kt : Tree) (hnd : kt.ids.Nodup) (hodd : ∀ k ∈ kt.ids, k % 2 = 1) :
    TrRep (ttndoNetK kt) (Tree.info (some 0) kt) := by
  intro e he
  obtain ⟨l1, l2, l3, l4⟩ := ttndo_lookup kt hnd hodd e he
  obtain ⟨p, hp⟩ := info_parent_some kt 0 e he
  have l3' : (ttndoNetK kt).node (e.1 + 1) = some ⟨some (braP p), e.2.2.map (· + 1)⟩ := by
    simpa [hp] using l3
  have l1' : (ttndoNetK kt).node e.1 = some ⟨some p, e.2.2⟩ := by simpa [hp] using l1
  rw [hp] at l2 l4
  refine ⟨p, hp, l1', l2, l4, fun d => ?_⟩
  simp only [trStep, ssStep, ssContractAny, braView, l1', l2, l3', ketToBra, l4, contractAnyNodes_relabel]
  rfl

section tr
variable (nd : Net) (kv bv : Nat → Asg Leg → R)

/-- the two tensors of the state node behind the ket identifier `i`: the tensor of the ket copy and of the bra
copy (same neighbour order: `from_ttns` mirrors the branches) -/
def trNodeLeaves (i : Nat) (p : Option Nat) (kids : List Nat) : List (LeafT R) :=
  [((gKetT i ⟨p, kids⟩).legs, kv i), ((gBraT i ⟨p, kids⟩).legs, bv i)]

/-- all node tensors of the two copies -/
def trLeaves (p : Option Nat) (t : Tree) : List (LeafT R) := treeLeaves (trNodeLeaves kv bv) p t

mutual
/-- **every block the loop of `trace_ttndo` caches is built from the tensors of its subtree** -/
theorem trBlock_built : ∀ (t : Tree) (p : Nat), t.ids.Nodup → p ∉ t.ids →
    TrRep nd (Tree.info (some p) t) → BuiltL (ssBlock t p) (trLeaves kv bv (some p) t)
  | .node i ks, p, hnd, hp, hrep => by
    have hnd' := hnd
    simp only [Tree.ids, List.nodup_cons] at hnd'
    have hp' := hp
    simp only [Tree.ids, List.mem_cons, not_or] at hp'
    have hkids := trBlock_builtL ks i hnd'.2 hnd'.1 (fun e he => hrep e (by simp [Tree.info, he]))
    have hrepS := TrRep.rep hrep
    obtain ⟨df, _, hf2⟩ := ssLoop_forest nd (braView nd) (kidsOfNet nd) ks i Dict.empty hnd'.2 hnd'.1
      (fun e he => hrepS e (by simp [Tree.info, he])) (fun _ _ _ => rfl)
    have hrep1 : Rep nd (braView nd) (kidsOfNet nd) [(i, some p, ks.map Tree.id)] := by
      intro e he
      simp only [List.mem_singleton] at he
      subst he
      exact hrepS _ (by simp [Tree.info])
    obtain ⟨d', hs1, hs2⟩ := ssStep_node nd (braView nd) (kidsOfNet nd) i p ks df hnd hp hrep1
      (fun n hn => by rw [hf2 (n, i), kidBlock_of_mem ks i n hn])
    obtain ⟨q, hq, h1, h2, h4, hstep⟩ := hrep (i, some p, ks.map Tree.id) (by simp [Tree.info])
    simp only [Option.some.injEq] at hq
    subst hq
    simp only at h1 h2 h4 hstep
    rw [← hstep] at hs1
    have hkn : (ks.map Tree.id).Nodup := Tree.nodup_kid_ids ks hnd'.2
    have hpk : p ∉ ks.map Tree.id := fun hm => hp'.2 (Tree.kid_id_mem ks p hm)
    have hik : i ∉ ks.map Tree.id := fun hm => hnd'.1 (Tree.kid_id_mem ks i hm)
    obtain ⟨n1, p1, hn1, hp1, hall⟩ := trStep_built (R := R)
      (l1 := [((gKetT i ⟨some p, ks.map Tree.id⟩).legs, kv i)])
      (l2 := [((gBraT i ⟨some p, ks.map Tree.id⟩).legs, bv i)])
      (lv := lvOf (trLeaves kv bv (some i)) ks) hs1
      (fun t1 ht1 => by
        rw [h2] at ht1; simp only [Option.some.injEq] at ht1; subst ht1
        exact BuiltL.fresh _ _)
      (fun t2 ht2 => by
        rw [h4] at ht2; simp only [Option.some.injEq] at ht2; subst ht2
        exact BuiltL.fresh _ _)
      (fun n1 hn1 p1 hp1 n hn hne blk hblk => by
        rw [h1] at hn1; simp only [Option.some.injEq] at hn1; subst hn1
        simp only [Option.some.injEq] at hp1; subst hp1
        have hn' : n ∈ ks.map Tree.id := by
          simp only [Node.nbrs, Option.toList_some, List.singleton_append, List.mem_cons] at hn
          rcases hn with e | hn
          · exact absurd e hne
          · exact hn
        rw [hf2 (n, i)] at hblk
        exact kid_block_built (blockOf := ssBlock) ks i n hn' hkids blk (fun c hc => by
          simp only [kidBlock, hc, if_true, Option.map_some, Option.some.injEq] at hblk
          exact hblk.symm))
    rw [h1] at hn1; simp only [Option.some.injEq] at hn1; subst hn1
    simp only [Option.some.injEq] at hp1; subst hp1
    have hd' : d' (i, p) = some (ssBlock (Tree.node i ks) p) := by
      rw [hs2 (i, p)]
      have hnk : (i, p) ∉ (ks.map Tree.id).map (fun c => (c, i)) := by
        intro hm
        obtain ⟨n, hn, e⟩ := List.mem_map.1 hm
        exact hik ((Prod.mk.inj e).1 ▸ hn)
      rw [if_neg hnk, if_pos rfl]
    rcases hall (i, p) _ hd' with ⟨_, hb⟩ | ⟨hne, _⟩
    · refine hb.perm ?_
      have hfilter : (Node.mk (some p) (ks.map Tree.id)).nbrs.filter (· ≠ p) = ks.map Tree.id := by
        have := filter_ne_mid [] (ks.map Tree.id) p (by simp) hpk
        simpa [Node.nbrs] using this
      rw [hfilter, lvOf_flatMap _ ks hkn]
      simp only [trLeaves, treeLeaves, trNodeLeaves, treeLeavesL_eq]
      cases ks with
      | nil => simp [Node.isLeaf]
      | cons c cs =>
        simp only [Node.isLeaf, List.map_cons, List.isEmpty_cons, Bool.false_eq_true, if_false]
        simp only [List.cons_append, List.nil_append]
        exact List.Perm.cons _ (List.perm_append_comm.trans (List.Perm.refl _))
    · exact absurd rfl hne
theorem trBlock_builtL : ∀ (ts : List Tree) (i : Nat), (Tree.idsL ts).Nodup → i ∉ Tree.idsL ts →
    TrRep nd (Tree.infoL i ts) → ∀ c ∈ ts, BuiltL (ssBlock c i) (trLeaves kv bv (some i) c)
  | [], _, _, _, _ => fun c hc => absurd hc (List.not_mem_nil)
  | c :: cs, i, hnd, hi, hrep => by
    simp only [Tree.idsL, List.nodup_append] at hnd
    simp only [Tree.idsL, List.mem_append, not_or] at hi
    intro c' hc'
    rcases List.mem_cons.1 hc' with h | hc'
    · rw [h]; exact trBlock_built c i hnd.1 hi.1 (fun e he => hrep e (by simp [Tree.infoL, he]))
    · exact trBlock_builtL cs i hnd.2.1 hi.2 (fun e he => hrep e (by simp [Tree.infoL, he])) c' hc'
end

end tr

/-- what `tensordot(root_tensor, block, ([l1, l2], [0, 1]))` returns when the result with its first leg removed is
closed: the open leg of the root tensor is that first leg -/
theorem final_dot_legs {fb r' : T} {l1 l2 : Nat} {x : Leg} {binds : List (Leg × Leg)}
    (hl : l1 = 0 ∧ l2 = 1)
    (h : tensordot (T.fresh [rootKetLeg, rootBraLeg, rootOpenLeg]) fb [l1, l2] [0, 1] = some r')
    (hlegs : r'.legs = [x]) (hb : r'.binds = binds) : r' = ⟨[rootOpenLeg], binds⟩ := by
  obtain ⟨rfl, rfl⟩ := hl
  obtain ⟨_, _, _, la, lb, _, _, hc⟩ := tensordot_some h
  subst hc
  simp only [T.fresh, remaining] at hlegs
  simp only [List.contains_cons, List.contains_nil, Bool.or_false] at hlegs
  simp only at hb
  subst hb
  simp only [T.mk.injEq, and_true]
  simp only [T.fresh, remaining, List.contains_cons, List.contains_nil, Bool.or_false]
  simp at hlegs ⊢
  exact hlegs.2

/-- `_contract_final_block` on the TTNDO of the ket tree: the `tensordot` of the root tensor with a block whose
result, first leg removed, is the closed tensor `⟨[], binds⟩`, is `⟨[rootOpenLeg], binds⟩`, built from the root
tensor and the leaves of the block -/
theorem finalBlock_built (kt : Tree) (hid : kt.id % 2 = 1) (rv : Asg Leg → R) {fb : T} {binds : List (Leg × Leg)}
    {lf : List (LeafT R)} (h : contractFinalBlock (ttndoNetK kt) fb = some ⟨[], binds⟩) (hf : BuiltL fb lf) :
    BuiltL (⟨[rootOpenLeg], binds⟩ : T) (([rootKetLeg, rootBraLeg, rootOpenLeg], rv) :: lf) := by
  have hroot := ttndo_root_lookup kt
  have hrootid : (ttndoNetK kt).root = 0 := rfl
  obtain ⟨rn, rt, fk, l1, l2, r', x, hn, ht, hfk, hl1, hl2, hdot, hlegs, hbinds, hb⟩ :=
    contractFinalBlock_built (lr := [([rootKetLeg, rootBraLeg, rootOpenLeg], rv)]) h
      (fun rt hrt => by
        rw [hrootid, hroot.2] at hrt
        simp only [Option.some.injEq] at hrt
        subst hrt
        exact BuiltL.fresh _ _) hf
  rw [hrootid, hroot.1] at hn
  rw [hrootid, hroot.2] at ht
  simp only [Option.some.injEq] at hn ht
  subst hn; subst ht
  have hfind : [kt.id, kt.id + 1].find? isKet = some kt.id := by simp [isKet, hid]
  have hi1 : (Node.mk none [kt.id, kt.id + 1]).neighbourIndex kt.id = some 0 := by
    simp [Node.neighbourIndex, Node.nparents]
  have hi2 : (Node.mk none [kt.id, kt.id + 1]).neighbourIndex (ketToBra kt.id) = some 1 := by
    simp [Node.neighbourIndex, Node.nparents, ketToBra]
  simp only [hfind, Option.some.injEq] at hfk
  subst hfk
  rw [hi1] at hl1
  rw [hi2] at hl2
  simp only [Option.some.injEq] at hl1 hl2
  have := final_dot_legs ⟨hl1.symm, hl2.symm⟩ hdot hlegs hbinds
  rw [this] at hb
  exact hb

/-- **The tensor `trace_ttndo` computes is built from exactly the root tensor and the ket and bra tensors of all
nodes**: the loop over the ket identifiers of `linearise()` with the block dictionary and `_contract_final_block`
are a nesting of `tensordot` calls over these tensors.  The routine returns the result `⟨[rootOpenLeg], binds⟩` of
the last `tensordot` with its only leg (the open leg of the root tensor, dimension 1) indexed away. -/
theorem traceTtndo_built (kt : Tree) (hnd : kt.ids.Nodup) (hodd : ∀ k ∈ kt.ids, k % 2 = 1)
    (kv bv : Nat → Asg Leg → R) (rv : Asg Leg → R) :
    ∃ binds, traceTtndo (ttndoNetK kt) = some ⟨[], binds⟩ ∧
      binds.Perm (ssSpec kt ++ [(rootKetLeg, Leg.gKet kt.id 0), (rootBraLeg, Leg.gBra kt.id 0)]) ∧
      BuiltL (⟨[rootOpenLeg], binds⟩ : T)
        (([rootKetLeg, rootBraLeg, rootOpenLeg], rv) :: trLeaves kv bv (some 0) kt) := by
  have heq := traceTtndo_eq kt hnd hodd
  refine ⟨_, heq, List.Perm.append_right _ (List.perm_iff_count.2 (fun x => count_blockBinds x _)), ?_⟩
  obtain ⟨d, fk, fb, hloop, hlast, hfb, hfin⟩ := traceTtndo_some heq
  have hrep := ttndoNetK_trRep kt hnd hodd
  have h0 : (0 : Nat) ∉ kt.ids := fun h => by have := hodd 0 h; omega
  have horder : contractionOrder (ttndoNetK kt) = kt.post := by
    simp only [contractionOrder, ttndoNetK]
    exact filter_isKet kt.post (fun k hk => hodd k (Tree.post_mem_ids kt k hk))
  have hstep : ∀ k ∈ kt.post, ∀ d, trStep (ttndoNetK kt) d k = ssStep (ttndoNetK kt) (braView (ttndoNetK kt)) d k := by
    intro k hk d
    obtain ⟨e, he, rfl⟩ := info_mem_of_id (some 0) kt k (Tree.post_mem_ids kt k hk)
    obtain ⟨_, _, _, _, _, hs⟩ := hrep e he
    exact hs d
  have hl := trLoop_eq_ssLoop (ttndoNetK kt) kt.post hstep Dict.empty
  obtain ⟨d2, hd1, hd2⟩ := ssLoop_subtree (ttndoNetK kt) (braView (ttndoNetK kt)) (kidsOfNet (ttndoNetK kt)) kt 0
    Dict.empty hnd h0 (TrRep.rep hrep) (fun _ _ _ => rfl)
  rw [horder, hl, hd1] at hloop
  simp only [Option.some.injEq] at hloop
  subst hloop
  rw [horder, post_getLast] at hlast
  simp only [Option.some.injEq] at hlast
  subst hlast
  have hrootid : (ttndoNetK kt).root = 0 := rfl
  rw [hrootid, hd2 (kt.id, 0), if_pos rfl] at hfb
  simp only [Option.some.injEq] at hfb
  subst hfb
  exact finalBlock_built kt (hodd kt.id (Tree.id_mem_ids kt)) rv hfin
    (trBlock_built (ttndoNetK kt) kv bv kt 0 hnd h0 hrep)

/-! ### `ttndo_ttno_expectation_value` -/

/-- a non-root ket node `e`, its bra copy, the operator node of the same site, and the loop step on it -/
def TeRep (ttndo ttno : Net) (opKids : Nat → List Nat) (info : List (Nat × Option Nat × List Nat)) : Prop :=
  ∀ e ∈ info, ∃ p, e.2.1 = some p ∧
    ttndo.node e.1 = some ⟨some p, e.2.2⟩ ∧ ttndo.tensor e.1 = some (gKetT e.1 ⟨some p, e.2.2⟩) ∧
    ttndo.tensor (ketToBra e.1) = some (gBraT e.1 ⟨some p, e.2.2⟩) ∧
    (opView ttno).node e.1 = some ⟨some p, opKids e.1⟩ ∧
    ttno.tensor (revKet e.1) = some (gOpT e.1 ⟨some p, opKids e.1⟩) ∧
    (opKids e.1).Perm e.2.2 ∧
    ∀ d, teStep ttndo ttno d e.1 = soStep ttndo (opView ttno) gBraT d e.1

theorem TeRep.rep {ttndo ttno : Net} {opKids : Nat → List Nat} {info : List (Nat × Option Nat × List Nat)}
    (h : TeRep ttndo ttno opKids info) : RepO ttndo (opView ttno) opKids info := by
  intro e he
  obtain ⟨p, hp, l1, l2, _, o1, o2, hperm, _⟩ := h e he
  rw [hp]
  exact ⟨l1, l2, o1, by simpa [opView] using o2, hperm⟩

/-- the TTNDO and the TTNO of the ket tree satisfy `TeRep` below the copy of the state's root -/
theorem ttndoNetK_teRep (r : Nat) (ks : List Tree) (opKids : Nat → List Nat) (hnd : (Tree.node r ks).ids.Nodup)
    (hodd : ∀ k ∈ (Tree.node r ks).ids, k % 2 = 1)
    (hperm : ∀ e ∈ Tree.info none (Tree.node r ks), (opKids e.1).Perm e.2.2) :
    TeRep (ttndoNetK (.node r ks)) (ttnoNetK (.node r ks) opKids) opKids (Tree.infoL r ks) := by
  intro e he
  have hlook := ttndo_lookup (.node r ks) hnd hodd
  have holook := ttno_lookup (.node r ks) opKids hnd hodd
  obtain ⟨p, hp, hpodd, hkids, hokids, heodd⟩ := entry_facts (.node r ks) opKids hnd hodd hperm r ks rfl e he
  obtain ⟨l1, l2, l3, l4⟩ := hlook e (infoL_sub_both r ks (some 0) e he)
  obtain ⟨o1, o2⟩ := holook e (infoL_sub_both r ks none e he)
  rw [hp] at l1 l2 l3 l4 o1 o2
  simp only [Option.map_some] at l3 o1
  have hov : (opView (ttnoNetK (.node r ks) opKids)).node e.1 = some ⟨some p, opKids e.1⟩ := by
    simp only [opView, o1, Option.map_some, ketOf_revKet p hpodd, map_ketOf_revKet _ hokids]
  have hot : (opView (ttnoNetK (.node r ks) opKids)).tensor e.1 = some (gOpT e.1 ⟨some p, opKids e.1⟩) := by
    simp only [opView, o2]
  refine ⟨p, hp, l1, l2, l4, hov, o2, hperm e (infoL_sub_both r ks none e he), fun d => ?_⟩
  have hrel := opAny_relabel p e.2.2 (some p) (opKids e.1) (gKetT e.1 ⟨some p, e.2.2⟩) (gOpT e.1 ⟨some p, opKids e.1⟩)
    (gBraT e.1 ⟨some p, e.2.2⟩) (d.cacheOf e.1) hkids (fun q hq => by cases hq; exact hpodd) hokids
  simp only [Option.map_some] at hrel
  simp only [teStep, soStep, soContractAny, l1, l2, ketToBra, l3, l4, o1, o2, hov, hot, hrel]
  rfl

section te
variable (ttndo ttno : Net) (opKids : Nat → List Nat) (kv ov bv : Nat → Asg Leg → R)

mutual
/-- **every block the loop of `ttndo_ttno_expectation_value` caches is built from the ket, operator and bra
tensors of its subtree** -/
theorem teBlock_built : ∀ (t : Tree) (p : Nat), t.ids.Nodup → p ∉ t.ids →
    TeRep ttndo ttno opKids (Tree.info (some p) t) → BuiltL (soBlock t p) (soLeaves opKids kv ov bv (some p) t)
  | .node i ks, p, hnd, hp, hrep => by
    have hnd' := hnd
    simp only [Tree.ids, List.nodup_cons] at hnd'
    have hp' := hp
    simp only [Tree.ids, List.mem_cons, not_or] at hp'
    have hkids := teBlock_builtL ks i hnd'.2 hnd'.1 (fun e he => hrep e (by simp [Tree.info, he]))
    have hrepS := TeRep.rep hrep
    obtain ⟨df, _, hf2⟩ := soLoop_forest ttndo (opView ttno) opKids ks i Dict.empty hnd'.2 hnd'.1
      (fun e he => hrepS e (by simp [Tree.info, he])) (fun _ _ _ => rfl)
    have hrep1 : RepO ttndo (opView ttno) opKids [(i, some p, ks.map Tree.id)] := by
      intro e he
      simp only [List.mem_singleton] at he
      subst he
      exact hrepS _ (by simp [Tree.info])
    obtain ⟨d', hs1, hs2⟩ := soStep_node ttndo (opView ttno) opKids i p ks df hnd hp hrep1
      (fun n hn => by rw [hf2 (n, i), soKidBlock_of_mem ks i n hn])
    obtain ⟨q, hq, h1, h2, h4, _, ho, _, hstep⟩ := hrep (i, some p, ks.map Tree.id) (by simp [Tree.info])
    simp only [Option.some.injEq] at hq
    subst hq
    simp only at h1 h2 h4 ho hstep
    rw [← hstep] at hs1
    have hkn : (ks.map Tree.id).Nodup := Tree.nodup_kid_ids ks hnd'.2
    have hpk : p ∉ ks.map Tree.id := fun hm => hp'.2 (Tree.kid_id_mem ks p hm)
    have hik : i ∉ ks.map Tree.id := fun hm => hnd'.1 (Tree.kid_id_mem ks i hm)
    obtain ⟨n1, p1, hn1, hp1, hall⟩ := teStep_built (R := R)
      (l1 := [((gKetT i ⟨some p, ks.map Tree.id⟩).legs, kv i)])
      (l2 := [((gOpT i ⟨some p, opKids i⟩).legs, ov i)])
      (l3 := [((gBraT i ⟨some p, ks.map Tree.id⟩).legs, bv i)])
      (lv := lvOf (soLeaves opKids kv ov bv (some i)) ks) hs1
      (fun t1 ht1 => by
        rw [h2] at ht1; simp only [Option.some.injEq] at ht1; subst ht1
        exact BuiltL.fresh _ _)
      (fun t2 ht2 => by
        rw [ho] at ht2; simp only [Option.some.injEq] at ht2; subst ht2
        exact BuiltL.fresh _ _)
      (fun t3 ht3 => by
        rw [h4] at ht3; simp only [Option.some.injEq] at ht3; subst ht3
        exact BuiltL.fresh _ _)
      (fun n1 hn1 p1 hp1 n hn hne blk hblk => by
        rw [h1] at hn1; simp only [Option.some.injEq] at hn1; subst hn1
        simp only [Option.some.injEq] at hp1; subst hp1
        have hn' : n ∈ ks.map Tree.id := by
          simp only [Node.nbrs, Option.toList_some, List.singleton_append, List.mem_cons] at hn
          rcases hn with e | hn
          · exact absurd e hne
          · exact hn
        rw [hf2 (n, i)] at hblk
        exact kid_block_built (blockOf := soBlock) ks i n hn' hkids blk (fun c hc => by
          simp only [soKidBlock, hc, if_true, Option.map_some, Option.some.injEq] at hblk
          exact hblk.symm))
    rw [h1] at hn1; simp only [Option.some.injEq] at hn1; subst hn1
    simp only [Option.some.injEq] at hp1; subst hp1
    have hd' : d' (i, p) = some (soBlock (Tree.node i ks) p) := by
      rw [hs2 (i, p)]
      have hnk : (i, p) ∉ (ks.map Tree.id).map (fun c => (c, i)) := by
        intro hm
        obtain ⟨n, hn, e⟩ := List.mem_map.1 hm
        exact hik ((Prod.mk.inj e).1 ▸ hn)
      rw [if_neg hnk, if_pos rfl]
    rcases hall (i, p) _ hd' with ⟨_, hb⟩ | ⟨hne, _⟩
    · refine hb.perm ?_
      have hfilter : (Node.mk (some p) (ks.map Tree.id)).nbrs.filter (· ≠ p) = ks.map Tree.id := by
        have := filter_ne_mid [] (ks.map Tree.id) p (by simp) hpk
        simpa [Node.nbrs] using this
      rw [hfilter, lvOf_flatMap _ ks hkn]
      simp only [soLeaves, treeLeaves, soNodeLeaves, treeLeavesL_eq]
      cases ks with
      | nil => simp [Node.isLeaf]
      | cons c cs =>
        simp only [Node.isLeaf, List.map_cons, List.isEmpty_cons, Bool.false_eq_true, if_false]
        simp only [List.cons_append, List.nil_append, List.append_assoc]
        refine List.Perm.cons _ ?_
        exact List.perm_append_comm.trans (List.Perm.refl _)
    · exact absurd rfl hne
theorem teBlock_builtL : ∀ (ts : List Tree) (i : Nat), (Tree.idsL ts).Nodup → i ∉ Tree.idsL ts →
    TeRep ttndo ttno opKids (Tree.infoL i ts) →
    ∀ c ∈ ts, BuiltL (soBlock c i) (soLeaves opKids kv ov bv (some i) c)
  | [], _, _, _, _ => fun c hc => absurd hc (List.not_mem_nil)
  | c :: cs, i, hnd, hi, hrep => by
    simp only [Tree.idsL, List.nodup_append] at hnd
    simp only [Tree.idsL, List.mem_append, not_or] at hi
    intro c' hc'
    rcases List.mem_cons.1 hc' with h | hc'
    · rw [h]; exact teBlock_built c i hnd.1 hi.1 (fun e he => hrep e (by simp [Tree.infoL, he]))
    · exact teBlock_builtL cs i hnd.2.1 hi.2 (fun e he => hrep e (by simp [Tree.infoL, he])) c' hc'
end

end te

/-- the leaves of the TTNO expectation value below the TTNDO root tensor: the three tensors of the root site — the
ket and the bra copy have the root-bond leg toward the TTNDO root `0`, the operator's root has no parent leg — and
the ket, operator and bra tensors of all other sites -/
def teLeaves (opKids : Nat → List Nat) (kv ov bv : Nat → Asg Leg → R) : Tree → List (LeafT R)
  | .node r ks =>
    [((gKetT r ⟨some 0, ks.map Tree.id⟩).legs, kv r), ((gOpT r ⟨none, opKids r⟩).legs, ov r),
     ((gBraT r ⟨some 0, ks.map Tree.id⟩).legs, bv r)] ++ treeLeavesL (soNodeLeaves opKids kv ov bv) r ks

/-- **The tensor `ttndo_ttno_expectation_value` computes is built from exactly the root tensor and the ket,
operator and bra tensors of all nodes**: the loop over the ket identifiers except the copy of the root,
`_contract_ttno_root` (resp. `_single_site_contraction`) and `_contract_final_block` are a nesting of `tensordot`
calls over these tensors. -/
theorem ttndoTtno_built (kt : Tree) (opKids : Nat → List Nat) (hnd : kt.ids.Nodup)
    (hodd : ∀ k ∈ kt.ids, k % 2 = 1) (hperm : ∀ e ∈ Tree.info none kt, (opKids e.1).Perm e.2.2)
    (kv ov bv : Nat → Asg Leg → R) (rv : Asg Leg → R) :
    ∃ binds, ttndoTtnoExpectationValue (ttndoNetK kt) (ttnoNetK kt opKids) = some ⟨[], binds⟩ ∧
      (unord binds).Perm (unord (soSpec kt ++
        [(rootKetLeg, Leg.gKet kt.id 0), (rootBraLeg, Leg.gBra kt.id 0)])) ∧
      BuiltL (⟨[rootOpenLeg], binds⟩ : T)
        (([rootKetLeg, rootBraLeg, rootOpenLeg], rv) :: teLeaves opKids kv ov bv kt) := by
  have heq := ttndoTtno_eq kt opKids hnd hodd hperm
  refine ⟨_, heq, teBinds_perm _, ?_⟩
  obtain ⟨d, fb, hloop, hrootstep, hfin⟩ := ttndoTtno_some heq
  obtain ⟨r, ks⟩ := kt
  have hrep := ttndoNetK_teRep r ks opKids hnd hodd hperm
  have hrodd : r % 2 = 1 := hodd r (by simp [Tree.ids])
  have hnd' := hnd
  simp only [Tree.ids, List.nodup_cons] at hnd'
  have horder : contractionOrder (ttndoNetK (.node r ks)) = Tree.postL ks ++ [r] := by
    simp only [contractionOrder, ttndoNetK]
    exact filter_isKet (Tree.node r ks).post (fun k hk => hodd k (Tree.post_mem_ids _ k hk))
  have hdrop : (Tree.postL ks ++ [r]).dropLast = Tree.postL ks := List.dropLast_concat
  have hstep : ∀ k ∈ Tree.postL ks, ∀ d, teStep (ttndoNetK (.node r ks)) (ttnoNetK (.node r ks) opKids) d k =
      soStep (ttndoNetK (.node r ks)) (opView (ttnoNetK (.node r ks) opKids)) gBraT d k := by
    intro k hk d
    have hkid : k ∈ Tree.idsL ks := Tree.postL_mem_ids ks k hk
    obtain ⟨e, he, rfl⟩ : ∃ e ∈ Tree.infoL r ks, e.1 = k := by
      rw [← Tree.infoL_keys r ks] at hkid
      obtain ⟨e, he, rfl⟩ := List.mem_map.1 hkid
      exact ⟨e, he, rfl⟩
    obtain ⟨_, _, _, _, _, _, _, _, hs⟩ := hrep e he
    exact hs d
  have hl := teLoop_eq_soLoop (ttndoNetK (.node r ks)) (ttnoNetK (.node r ks) opKids) (Tree.postL ks) hstep Dict.empty
  obtain ⟨d2, hd1, hd2⟩ := soLoop_forest (ttndoNetK (.node r ks)) (opView (ttnoNetK (.node r ks) opKids)) opKids ks r
    Dict.empty hnd'.2 hnd'.1 (TeRep.rep hrep) (fun _ _ _ => rfl)
  rw [horder, hdrop, hl, hd1] at hloop
  simp only [Option.some.injEq] at hloop
  subst hloop
  rw [horder, hdrop] at hrootstep
  obtain ⟨k1, k2, _, k4⟩ := ttndo_lookup (.node r ks) hnd hodd (r, some 0, ks.map Tree.id) (by simp [Tree.info])
  obtain ⟨_, r2⟩ := ttno_lookup (.node r ks) opKids hnd hodd (r, none, ks.map Tree.id) (by simp [Tree.info])
  simp only at k1 k2 k4 r2
  have hrootT : (ttnoNetK (.node r ks) opKids).root = revKet r := rfl
  have hrootD : (ttndoNetK (.node r ks)).root = 0 := rfl
  have hkids := teBlock_builtL (ttndoNetK (.node r ks)) (ttnoNetK (.node r ks) opKids) opKids kv ov bv ks r
    hnd'.2 hnd'.1 hrep
  have hKodd : ∀ c ∈ ks.map Tree.id, c % 2 = 1 := fun c hc =>
    hodd c (by simp [Tree.ids, Tree.kid_id_mem ks c hc])
  have hK0 : (0 : Nat) ∉ ks.map Tree.id := fun h => by have := hKodd 0 h; omega
  have hKnd : (ks.map Tree.id).Nodup := Tree.nodup_kid_ids ks hnd'.2
  obtain ⟨n1, hn1, hb⟩ := contractTtnoRoot_built (R := R)
    (lk := [((gKetT r ⟨some 0, ks.map Tree.id⟩).legs, kv r)])
    (lo := [((gOpT r ⟨none, opKids r⟩).legs, ov r)])
    (lb := [((gBraT r ⟨some 0, ks.map Tree.id⟩).legs, bv r)])
    (lv := lvOf (soLeaves opKids kv ov bv (some r)) ks) hrootstep
    (fun t1 ht1 => by
      rw [hrootT, ketOf_revKet r hrodd, k2] at ht1; simp only [Option.some.injEq] at ht1; subst ht1
      exact BuiltL.fresh _ _)
    (fun t2 ht2 => by
      rw [hrootT, r2] at ht2; simp only [Option.some.injEq] at ht2; subst ht2
      exact BuiltL.fresh _ _)
    (fun t3 ht3 => by
      rw [hrootT, braOf_revKet r hrodd, k4] at ht3; simp only [Option.some.injEq] at ht3; subst ht3
      exact BuiltL.fresh _ _)
    (fun n1 hn1 m hm hne blk hblk => by
      rw [hrootT, ketOf_revKet r hrodd] at hn1 hblk
      rw [k1] at hn1; simp only [Option.some.injEq] at hn1; subst hn1
      rw [hrootD] at hne
      have hm' : m ∈ ks.map Tree.id := by
        simp only [Node.nbrs, Option.toList_some, List.singleton_append, List.mem_cons] at hm
        rcases hm with e | hm
        · exact absurd e hne
        · exact hm
      rw [hd2 (m, r)] at hblk
      exact kid_block_built (blockOf := soBlock) ks r m hm' hkids blk (fun c hc => by
        simp only [soKidBlock, hc, if_true, Option.map_some, Option.some.injEq] at hblk
        exact hblk.symm))
  rw [hrootT, ketOf_revKet r hrodd, k1] at hn1
  simp only [Option.some.injEq] at hn1
  subst hn1
  refine finalBlock_built (.node r ks) hrodd rv hfin (hb.perm ?_)
  have hfilter : (Node.mk (some 0) (ks.map Tree.id)).nbrs.filter (· ≠ (ttndoNetK (.node r ks)).root) = ks.map Tree.id := by
    have := filter_ne_mid [] (ks.map Tree.id) 0 (by simp) hK0
    simpa [Node.nbrs, hrootD] using this
  rw [hfilter, lvOf_flatMap _ ks hKnd]
  simp only [teLeaves, treeLeavesL_eq]
  by_cases hn : (ttnoNetK (.node r ks) opKids).order.length = 1
  · rw [if_pos hn]
    have hks : ks = [] := by
      have hlen : (Tree.postL ks).length = 0 := by
        simp only [ttnoNetK, Tree.post, List.length_map, List.length_append, List.length_cons,
          List.length_nil] at hn
        omega
      exact postL_eq_nil ks (List.length_eq_zero_iff.1 hlen)
    subst hks
    simp only [List.flatMap_nil, List.append_nil, List.cons_append, List.nil_append]
    exact (List.Perm.swap _ _ _).trans ((List.Perm.cons _ (List.Perm.swap _ _ _)).trans (List.Perm.swap _ _ _))
  · rw [if_neg hn]
    simp only [List.cons_append, List.nil_append, List.append_assoc]
    exact List.Perm.cons _ List.perm_append_comm

end Ptn.C16.Ttndo
