import Ptn.C16.ValueGen
import Ptn.C16.TtndoTop
/-! Value level for C16: what the binding records of `trace_graph` and `ttndo_ttno_graph` EVALUATE to.

The specification graphs `ssSpec kt` / `soSpec kt` (C04) are split into their layers as EXPLICIT lists over the
nodes and edges of the ket tree (`ssSpec_split`, `soSpec_split`); a program with the record of the trace
(resp. of the TTNO expectation value) is compared with the reference nesting
`root · ((K · B) over the physical pairs)` (resp. `root · (((K · O) over the inputs) · B over the outputs)`), which
`Ptn.Ein.Expr.eval_eq_full` and Fubini (`sumPairs_perm`, `sumPairs_unord`) allow for every size and every
commutative semiring. -/
namespace Ptn.C16.Ttndo

open Ptn.C04 Ptn.Ein Ptn.C16.Val

/-- legs of the TTNDO root tensor `eye(d).reshape(d, d, 1)` in axis order -/
def rootLegs : List Leg := [rootKetLeg, rootBraLeg, rootOpenLeg]

/-- the two root-bond legs of the copies of the state's root, bound to the root tensor -/
def rootPairs (kt : Tree) : List (Leg × Leg) :=
  [(rootKetLeg, Leg.gKet kt.id 0), (rootBraLeg, Leg.gBra kt.id 0)]

/-- per node: (ket physical leg, bra physical leg) -/
def physPairs (kt : Tree) : List (Leg × Leg) := kt.ids.map physPair
/-- per node: (ket physical leg, operator INPUT leg) -/
def physIns (kt : Tree) : List (Leg × Leg) := kt.ids.map physIn
/-- per node: (operator OUTPUT leg, bra physical leg) -/
def physOuts (kt : Tree) : List (Leg × Leg) := kt.ids.map physOut
/-- per edge: the two ket legs / operator legs / bra legs -/
def ketBonds (kt : Tree) : List (Leg × Leg) := kt.edges.map fun e => ketEdge e.1 e.2
def opBonds (kt : Tree) : List (Leg × Leg) := kt.edges.map fun e => opEdge e.1 e.2
def braBonds (kt : Tree) : List (Leg × Leg) := kt.edges.map fun e => braEdge e.1 e.2

/-! ### the specification graphs, layer by layer -/

mutual
theorem count_ssSpec (x : Leg × Leg) : ∀ t : Tree, (ssSpec t).count x =
    (t.ids.map physPair).count x + (t.edges.map fun e => ketEdge e.1 e.2).count x +
      (t.edges.map fun e => braEdge e.1 e.2).count x
  | .node i ks => by
    have := count_ssSpecL x i ks
    simp only [ssSpec, Tree.ids, Tree.edges, List.map_cons, List.count_cons]
    omega
theorem count_ssSpecL (x : Leg × Leg) (i : Nat) : ∀ ts : List Tree, (ssSpecL i ts).count x =
    ((Tree.idsL ts).map physPair).count x + ((Tree.edgesL i ts).map fun e => ketEdge e.1 e.2).count x +
      ((Tree.edgesL i ts).map fun e => braEdge e.1 e.2).count x
  | [] => by simp [ssSpecL, Tree.idsL, Tree.edgesL]
  | c :: cs => by
    have h1 := count_ssSpec x c
    have h2 := count_ssSpecL x i cs
    simp only [ssSpecL, Tree.idsL, Tree.edgesL, List.map_cons, List.map_append, List.count_cons,
      List.count_append, h1, h2]
    omega
end

mutual
theorem count_soSpec (x : Leg × Leg) : ∀ t : Tree, (soSpec t).count x =
    (t.ids.map physIn).count x + (t.ids.map physOut).count x + (t.edges.map fun e => ketEdge e.1 e.2).count x +
      (t.edges.map fun e => opEdge e.1 e.2).count x + (t.edges.map fun e => braEdge e.1 e.2).count x
  | .node i ks => by
    have := count_soSpecL x i ks
    simp only [soSpec, Tree.ids, Tree.edges, List.map_cons, List.count_cons]
    omega
theorem count_soSpecL (x : Leg × Leg) (i : Nat) : ∀ ts : List Tree, (soSpecL i ts).count x =
    ((Tree.idsL ts).map physIn).count x + ((Tree.idsL ts).map physOut).count x +
      ((Tree.edgesL i ts).map fun e => ketEdge e.1 e.2).count x +
      ((Tree.edgesL i ts).map fun e => opEdge e.1 e.2).count x +
      ((Tree.edgesL i ts).map fun e => braEdge e.1 e.2).count x
  | [] => by simp [soSpecL, Tree.idsL, Tree.edgesL]
  | c :: cs => by
    have h1 := count_soSpec x c
    have h2 := count_soSpecL x i cs
    simp only [soSpecL, Tree.idsL, Tree.edgesL, List.map_cons, List.map_append, List.count_cons,
      List.count_append, h1, h2]
    omega
end

/-- the graph of `<psi|psi>` is: one physical pair per node, one ket pair and one bra pair per edge -/
theorem ssSpec_split (t : Tree) : (ssSpec t).Perm (physPairs t ++ (ketBonds t ++ braBonds t)) := by
  rw [List.perm_iff_count]
  intro x
  simp only [List.count_append, count_ssSpec x t, physPairs, ketBonds, braBonds]
  omega

/-- the graph of `<psi|O|psi>` is: per node the operator's input with the ket and its output with the bra, per
edge one ket, one operator and one bra pair -/
theorem soSpec_split (t : Tree) :
    (soSpec t).Perm (physIns t ++ (physOuts t ++ (ketBonds t ++ (opBonds t ++ braBonds t)))) := by
  rw [List.perm_iff_count]
  intro x
  simp only [List.count_append, count_soSpec x t, physIns, physOuts, ketBonds, opBonds, braBonds]
  omega

/-! ### the trace -/

section
set_option linter.unusedSectionVars false
variable {R : Type} [CommSemiring R]

theorem rootKet_ne (kt : Tree) :
    rootKetLeg ≠ Leg.gKet kt.id 0 ∧ rootKetLeg ≠ rootBraLeg ∧ rootKetLeg ≠ Leg.gBra kt.id 0 ∧
    Leg.gKet kt.id 0 ≠ rootBraLeg ∧ Leg.gKet kt.id 0 ≠ Leg.gBra kt.id 0 ∧ rootBraLeg ≠ Leg.gBra kt.id 0 := by
  simp [rootKetLeg, rootBraLeg]

/-- the reference nesting of the trace: ket vector and bra vector joined over the physical pairs -/
theorem trace_ref (kt : Tree) (K B : Expr Leg R) (hK : K.WF) (hB : B.WF)
    (hdis : ∀ l ∈ K.labels, l ∉ B.labels)
    (hpp : ∀ p ∈ physPairs kt, p.1 ∈ K.free ∧ p.2 ∈ B.free)
    (hgK : Leg.gKet kt.id 0 ∈ K.free) (hgB : Leg.gBra kt.id 0 ∈ B.free) :
    (Expr.dot K B (physPairs kt)).WF ∧
      ∀ p ∈ rootPairs kt, p.1 ∈ rootLegs ∧ p.2 ∈ (Expr.dot K B (physPairs kt)).free := by
  refine ⟨⟨hK, hB, hdis, hpp⟩, ?_⟩
  intro p hp
  simp only [rootPairs, List.mem_cons, List.not_mem_nil, or_false] at hp
  rcases hp with rfl | rfl
  · refine ⟨by simp [rootLegs], mem_free_dot_left hgK ?_⟩
    simp [physPairs, physPair]
  · refine ⟨by simp [rootLegs], mem_free_dot_right hgB ?_⟩
    simp [physPairs, physPair]

/-- **a program with the record of `trace_ttndo` computes `Σ root · Σ_phys K · B`** -/
theorem trace_value_of_record (kt : Tree) (binds : List (Leg × Leg))
    (hb : binds.Perm (ssSpec kt ++ rootPairs kt))
    (dim : Leg → Nat) (e K B : Expr Leg R) (rv : Asg Leg → R)
    (he : e.SWF) (hK : K.WF) (hB : B.WF) (hrv : DependsOn (· ∈ rootLegs) rv)
    (hdis : ∀ l ∈ K.labels, l ∉ B.labels) (hr : ∀ l ∈ rootLegs, l ∉ K.labels ∧ l ∉ B.labels)
    (heb : e.binds.Perm binds) (hKb : K.binds.Perm (ketBonds kt)) (hBb : B.binds.Perm (braBonds kt))
    (hpp : ∀ p ∈ physPairs kt, p.1 ∈ K.free ∧ p.2 ∈ B.free)
    (hgK : Leg.gKet kt.id 0 ∈ K.free) (hgB : Leg.gBra kt.id 0 ∈ B.free)
    (hleaf : ∀ σ, e.leafProd σ = rv σ * (K.leafProd σ * B.leafProd σ)) (σ : Asg Leg) :
    e.eval dim σ = sumPairs dim (rootPairs kt)
      (fun τ => rv τ * sumPairs dim (physPairs kt) (fun ρ => K.eval dim ρ * B.eval dim ρ) τ) σ := by
  obtain ⟨hX, hrp⟩ := trace_ref kt K B hK hB hdis hpp hgK hgB
  have hrec : e.binds.Perm (rootPairs kt ++ (Expr.dot K B (physPairs kt)).binds) := by
    refine heb.trans (hb.trans (List.perm_append_comm.trans (List.Perm.append_left _ ?_)))
    refine (ssSpec_split kt).trans ?_
    simp only [Expr.binds]
    exact List.Perm.append_left _ (List.Perm.append hKb.symm hBb.symm)
  have := root_value_of_record dim e (Expr.dot K B (physPairs kt)) rootLegs rv he hX hrv
    (fun l hl => by
      simp only [Expr.labels, List.mem_append, not_or]
      exact hr l hl)
    (rootPairs kt) hrp hrec (fun σ => by rw [hleaf, Expr.leafProd_dot]) σ
  simpa only [Expr.eval] using this

/-- the part of the trace below the root tensor reads only the labels of the two copies -/
theorem inner_dependsOn (dim : Leg → Nat) (pp : List (Leg × Leg)) (K B : Expr Leg R) (hK : K.WF) (hB : B.WF) :
    DependsOn (fun l => l ∈ K.labels ∨ l ∈ B.labels)
      (sumPairs dim pp (fun ρ => K.eval dim ρ * B.eval dim ρ)) :=
  (sumPairs_dependsOn dim pp
    (((eval_dependsOn dim K hK).mono (fun _ h => Or.inl h)).mul
      ((eval_dependsOn dim B hB).mono (fun _ h => Or.inr h)))).mono (fun _ h => h.1)

/-- **… and with the identity root tensor on the padded root bonds this is `Σ_phys K₀ · B₀`** -/
theorem trace_value_padded_of_record (kt : Tree) (binds : List (Leg × Leg))
    (hb : binds.Perm (ssSpec kt ++ rootPairs kt))
    (dim : Leg → Nat) (e K B : Expr Leg R)
    (he : e.SWF) (hK : K.WF) (hB : B.WF)
    (hdis : ∀ l ∈ K.labels, l ∉ B.labels) (hr : ∀ l ∈ rootLegs, l ∉ K.labels ∧ l ∉ B.labels)
    (heb : e.binds.Perm binds) (hKb : K.binds.Perm (ketBonds kt)) (hBb : B.binds.Perm (braBonds kt))
    (hpp : ∀ p ∈ physPairs kt, p.1 ∈ K.free ∧ p.2 ∈ B.free)
    (hgK : Leg.gKet kt.id 0 ∈ K.free) (hgB : Leg.gBra kt.id 0 ∈ B.free)
    (hleaf : ∀ σ, e.leafProd σ =
      (if σ rootKetLeg = σ rootBraLeg then 1 else 0) * (K.leafProd σ * B.leafProd σ))
    (hdK : 0 < dim rootKetLeg) (hdB : 0 < dim rootBraLeg)
    (hK0 : ∀ τ : Asg Leg, τ (Leg.gKet kt.id 0) ≠ 0 → K.eval dim τ = 0)
    (hB0 : ∀ τ : Asg Leg, τ (Leg.gBra kt.id 0) ≠ 0 → B.eval dim τ = 0) (σ : Asg Leg) :
    e.eval dim σ = sumPairs dim (physPairs kt) (fun ρ => K.eval dim ρ * B.eval dim ρ)
      (upd (upd σ (Leg.gKet kt.id 0) 0) (Leg.gBra kt.id 0) 0) := by
  have hrv : DependsOn (· ∈ rootLegs) (fun σ : Asg Leg => (if σ rootKetLeg = σ rootBraLeg then (1 : R) else 0)) := by
    intro σ τ h
    show (if σ rootKetLeg = σ rootBraLeg then (1 : R) else 0) = (if τ rootKetLeg = τ rootBraLeg then (1 : R) else 0)
    rw [h rootKetLeg (by simp [rootLegs]), h rootBraLeg (by simp [rootLegs])]
  rw [trace_value_of_record kt binds hb dim e K B _ he hK hB hrv hdis hr heb hKb hBb hpp hgK hgB hleaf σ]
  obtain ⟨n1, n2, n3, n4, n5, n6⟩ := rootKet_ne kt
  have hnotK : Leg.gKet kt.id 0 ∉ Expr.pairLegs (physPairs kt) := by
    simp [Expr.pairLegs, physPairs, physPair]
  have hnotB : Leg.gBra kt.id 0 ∉ Expr.pairLegs (physPairs kt) := by
    simp [Expr.pairLegs, physPairs, physPair]
  exact identity_root_padded dim rootKetLeg (Leg.gKet kt.id 0) rootBraLeg (Leg.gBra kt.id 0) _
    (inner_dependsOn dim (physPairs kt) K B hK hB)
    (fun h => h.elim (hr rootKetLeg (by simp [rootLegs])).1 (hr rootKetLeg (by simp [rootLegs])).2)
    (fun h => h.elim (hr rootBraLeg (by simp [rootLegs])).1 (hr rootBraLeg (by simp [rootLegs])).2)
    n1 n2 n3 n4 n5 n6
    (fun τ hτ => sumPairs_eq_zero_of dim _ _ τ (fun ρ hρ => by
      rw [hK0 ρ (by rw [hρ _ hnotK]; exact hτ), zero_mul]))
    (fun τ hτ => sumPairs_eq_zero_of dim _ _ τ (fun ρ hρ => by
      rw [hB0 ρ (by rw [hρ _ hnotB]; exact hτ), mul_zero]))
    hdK hdB σ

/-! ### the expectation value of a TTNO -/

/-- the reference nesting of `<psi|O|psi>`: the operator's inputs summed against the ket vector, then its
outputs against the bra vector -/
theorem ttno_ref (kt : Tree) (K O B : Expr Leg R) (hK : K.WF) (hO : O.WF) (hB : B.WF)
    (hKO : ∀ l ∈ K.labels, l ∉ O.labels) (hKB : ∀ l ∈ K.labels, l ∉ B.labels)
    (hOB : ∀ l ∈ O.labels, l ∉ B.labels)
    (hin : ∀ p ∈ physIns kt, p.1 ∈ K.free ∧ p.2 ∈ O.free)
    (hout : ∀ p ∈ physOuts kt, p.1 ∈ O.free ∧ p.2 ∈ B.free)
    (hgK : Leg.gKet kt.id 0 ∈ K.free) (hgB : Leg.gBra kt.id 0 ∈ B.free) :
    (Expr.dot (Expr.dot K O (physIns kt)) B (physOuts kt)).WF ∧
      ∀ p ∈ rootPairs kt, p.1 ∈ rootLegs ∧
        p.2 ∈ (Expr.dot (Expr.dot K O (physIns kt)) B (physOuts kt)).free := by
  refine ⟨⟨⟨hK, hO, hKO, hin⟩, hB, ?_, ?_⟩, ?_⟩
  · intro l hl
    simp only [Expr.labels, List.mem_append] at hl
    rcases hl with hl | hl
    · exact hKB l hl
    · exact hOB l hl
  · intro p hp
    have h := hout p hp
    obtain ⟨n, _, rfl⟩ := List.mem_map.1 hp
    exact ⟨mem_free_dot_right h.1 (by simp [physIns, physIn, physOut]), h.2⟩
  · intro p hp
    simp only [rootPairs, List.mem_cons, List.not_mem_nil, or_false] at hp
    rcases hp with rfl | rfl
    · refine ⟨by simp [rootLegs], mem_free_dot_left (mem_free_dot_left hgK ?_) ?_⟩
      · simp [physIns, physIn]
      · simp [physOuts, physOut]
    · refine ⟨by simp [rootLegs], mem_free_dot_right hgB ?_⟩
      simp [physOuts, physOut]

theorem perm_shape {α : Type} [DecidableEq α] (a b c d f r : List α) :
    (a ++ (b ++ (c ++ (d ++ f))) ++ r).Perm (r ++ (b ++ ((a ++ (c ++ d)) ++ f))) := by
  rw [List.perm_iff_count]
  intro x
  simp only [List.count_append]
  omega

/-- **a program with the record of `ttndo_ttno_expectation_value` (as unordered pairs) computes
`Σ root · Σ_out (Σ_in K · O) · B`** -/
theorem ttno_value_of_record (kt : Tree) (binds : List (Leg × Leg))
    (hb : (unordL binds).Perm (unordL (soSpec kt ++ rootPairs kt)))
    (dim : Leg → Nat) (hd : ∀ p ∈ soSpec kt ++ rootPairs kt, dim p.1 = dim p.2)
    (e K O B : Expr Leg R) (rv : Asg Leg → R)
    (he : e.SWF) (hK : K.WF) (hO : O.WF) (hB : B.WF) (hrv : DependsOn (· ∈ rootLegs) rv)
    (hKO : ∀ l ∈ K.labels, l ∉ O.labels) (hKB : ∀ l ∈ K.labels, l ∉ B.labels)
    (hOB : ∀ l ∈ O.labels, l ∉ B.labels)
    (hr : ∀ l ∈ rootLegs, l ∉ K.labels ∧ l ∉ O.labels ∧ l ∉ B.labels)
    (heb : e.binds.Perm binds) (hKb : K.binds.Perm (ketBonds kt)) (hOb : O.binds.Perm (opBonds kt))
    (hBb : B.binds.Perm (braBonds kt))
    (hin : ∀ p ∈ physIns kt, p.1 ∈ K.free ∧ p.2 ∈ O.free)
    (hout : ∀ p ∈ physOuts kt, p.1 ∈ O.free ∧ p.2 ∈ B.free)
    (hgK : Leg.gKet kt.id 0 ∈ K.free) (hgB : Leg.gBra kt.id 0 ∈ B.free)
    (hleaf : ∀ σ, e.leafProd σ = rv σ * ((K.leafProd σ * O.leafProd σ) * B.leafProd σ)) (σ : Asg Leg) :
    e.eval dim σ = sumPairs dim (rootPairs kt) (fun τ => rv τ *
      sumPairs dim (physOuts kt) (fun ρ =>
        sumPairs dim (physIns kt) (fun π => K.eval dim π * O.eval dim π) ρ * B.eval dim ρ) τ) σ := by
  obtain ⟨hX, hrp⟩ := ttno_ref kt K O B hK hO hB hKO hKB hOB hin hout hgK hgB
  have hperm : (soSpec kt ++ rootPairs kt).Perm
      (rootPairs kt ++ (Expr.dot (Expr.dot K O (physIns kt)) B (physOuts kt)).binds) := by
    refine ((soSpec_split kt).append_right _).trans ((perm_shape _ _ _ _ _ _).trans ?_)
    simp only [Expr.binds]
    exact List.Perm.append_left _ (List.Perm.append_left _
      (List.Perm.append (List.Perm.append_left _ (List.Perm.append hKb.symm hOb.symm)) hBb.symm))
  have hrec : (unordL e.binds).Perm
      (unordL (rootPairs kt ++ (Expr.dot (Expr.dot K O (physIns kt)) B (physOuts kt)).binds)) :=
    (unordL_perm heb).trans (hb.trans (unordL_perm hperm))
  have := root_value_of_unord_record dim e (Expr.dot (Expr.dot K O (physIns kt)) B (physOuts kt)) rootLegs rv
    he hX hrv
    (fun l hl => by
      simp only [Expr.labels, List.mem_append, not_or]
      exact ⟨⟨(hr l hl).1, (hr l hl).2.1⟩, (hr l hl).2.2⟩)
    (rootPairs kt) hrp hrec (fun p hp => hd p (hperm.mem_iff.2 hp))
    (fun σ => by rw [hleaf, Expr.leafProd_dot, Expr.leafProd_dot]) σ
  simpa only [Expr.eval] using this

/-- the part below the root tensor reads only the labels of the three layers -/
theorem sandwich_dependsOn (dim : Leg → Nat) (pin pout : List (Leg × Leg)) (K O B : Expr Leg R)
    (hK : K.WF) (hO : O.WF) (hB : B.WF) :
    DependsOn (fun l => l ∈ K.labels ∨ l ∈ O.labels ∨ l ∈ B.labels)
      (sumPairs dim pout (fun ρ => sumPairs dim pin (fun π => K.eval dim π * O.eval dim π) ρ * B.eval dim ρ)) :=
  (sumPairs_dependsOn dim pout
    (((sumPairs_dependsOn dim pin
        (((eval_dependsOn dim K hK).mono (fun _ h => Or.inl h)).mul
          ((eval_dependsOn dim O hO).mono (fun _ h => Or.inr (Or.inl h))))).mono (fun _ h => h.1)).mul
      ((eval_dependsOn dim B hB).mono (fun _ h => Or.inr (Or.inr h))))).mono (fun _ h => h.1)

/-- **… and with the identity root tensor on the padded root bonds this is `Σ_out (Σ_in K₀ · O) · B₀`** -/
theorem ttno_value_padded_of_record (kt : Tree) (binds : List (Leg × Leg))
    (hb : (unordL binds).Perm (unordL (soSpec kt ++ rootPairs kt)))
    (dim : Leg → Nat) (hd : ∀ p ∈ soSpec kt ++ rootPairs kt, dim p.1 = dim p.2)
    (e K O B : Expr Leg R)
    (he : e.SWF) (hK : K.WF) (hO : O.WF) (hB : B.WF)
    (hKO : ∀ l ∈ K.labels, l ∉ O.labels) (hKB : ∀ l ∈ K.labels, l ∉ B.labels)
    (hOB : ∀ l ∈ O.labels, l ∉ B.labels)
    (hr : ∀ l ∈ rootLegs, l ∉ K.labels ∧ l ∉ O.labels ∧ l ∉ B.labels)
    (heb : e.binds.Perm binds) (hKb : K.binds.Perm (ketBonds kt)) (hOb : O.binds.Perm (opBonds kt))
    (hBb : B.binds.Perm (braBonds kt))
    (hin : ∀ p ∈ physIns kt, p.1 ∈ K.free ∧ p.2 ∈ O.free)
    (hout : ∀ p ∈ physOuts kt, p.1 ∈ O.free ∧ p.2 ∈ B.free)
    (hgK : Leg.gKet kt.id 0 ∈ K.free) (hgB : Leg.gBra kt.id 0 ∈ B.free)
    (hleaf : ∀ σ, e.leafProd σ = (if σ rootKetLeg = σ rootBraLeg then 1 else 0) *
      ((K.leafProd σ * O.leafProd σ) * B.leafProd σ))
    (hdK : 0 < dim rootKetLeg) (hdB : 0 < dim rootBraLeg)
    (hK0 : ∀ τ : Asg Leg, τ (Leg.gKet kt.id 0) ≠ 0 → K.eval dim τ = 0)
    (hB0 : ∀ τ : Asg Leg, τ (Leg.gBra kt.id 0) ≠ 0 → B.eval dim τ = 0) (σ : Asg Leg) :
    e.eval dim σ = sumPairs dim (physOuts kt) (fun ρ =>
        sumPairs dim (physIns kt) (fun π => K.eval dim π * O.eval dim π) ρ * B.eval dim ρ)
      (upd (upd σ (Leg.gKet kt.id 0) 0) (Leg.gBra kt.id 0) 0) := by
  have hrv : DependsOn (· ∈ rootLegs) (fun σ : Asg Leg => (if σ rootKetLeg = σ rootBraLeg then (1 : R) else 0)) := by
    intro σ τ h
    show (if σ rootKetLeg = σ rootBraLeg then (1 : R) else 0) = (if τ rootKetLeg = τ rootBraLeg then (1 : R) else 0)
    rw [h rootKetLeg (by simp [rootLegs]), h rootBraLeg (by simp [rootLegs])]
  rw [ttno_value_of_record kt binds hb dim hd e K O B _ he hK hO hB hrv hKO hKB hOB hr heb hKb hOb hBb hin hout
    hgK hgB hleaf σ]
  obtain ⟨n1, n2, n3, n4, n5, n6⟩ := rootKet_ne kt
  have hKi : Leg.gKet kt.id 0 ∉ Expr.pairLegs (physIns kt) := by
    simp [Expr.pairLegs, physIns, physIn]
  have hKo : Leg.gKet kt.id 0 ∉ Expr.pairLegs (physOuts kt) := by
    simp [Expr.pairLegs, physOuts, physOut]
  have hBo : Leg.gBra kt.id 0 ∉ Expr.pairLegs (physOuts kt) := by
    simp [Expr.pairLegs, physOuts, physOut]
  have hrK := hr rootKetLeg (by simp [rootLegs])
  have hrB := hr rootBraLeg (by simp [rootLegs])
  exact identity_root_padded dim rootKetLeg (Leg.gKet kt.id 0) rootBraLeg (Leg.gBra kt.id 0) _
    (sandwich_dependsOn dim (physIns kt) (physOuts kt) K O B hK hO hB)
    (fun h => h.elim hrK.1 (fun h => h.elim hrK.2.1 hrK.2.2))
    (fun h => h.elim hrB.1 (fun h => h.elim hrB.2.1 hrB.2.2))
    n1 n2 n3 n4 n5 n6
    (fun τ hτ => sumPairs_eq_zero_of dim _ _ τ (fun ρ hρ => by
      rw [sumPairs_eq_zero_of dim _ _ ρ (fun π hπ => by
        rw [hK0 π (by rw [hπ _ hKi, hρ _ hKo]; exact hτ), zero_mul]), zero_mul]))
    (fun τ hτ => sumPairs_eq_zero_of dim _ _ τ (fun ρ hρ => by
      rw [hB0 ρ (by rw [hρ _ hBo]; exact hτ), mul_zero]))
    hdK hdB σ

/-! ### the hypotheses, bundled -/

/-- the root tensor `eye(d).reshape(d, d, 1)` of `add_trivial_root` (the open leg has dimension 1) -/
def eyeRoot : Asg Leg → R := fun σ => if σ rootKetLeg = σ rootBraLeg then 1 else 0

theorem eyeRoot_local : DependsOn (· ∈ rootLegs) (eyeRoot (R := R)) := by
  intro σ τ h
  show (if σ rootKetLeg = σ rootBraLeg then (1 : R) else 0) = (if τ rootKetLeg = τ rootBraLeg then (1 : R) else 0)
  rw [h rootKetLeg (by simp [rootLegs]), h rootBraLeg (by simp [rootLegs])]

/-- **What is assumed for the trace.**  `e` is a contraction program (a nesting of `tensordot` calls) with the
binding record `binds`; `K`, `B` are reference contractions of the ket copy and of the bra copy over their own
bonds (the two dense vectors, in any contraction order); `rv` is the root tensor. -/
structure TraceProgram (kt : Tree) (binds : List (Leg × Leg)) (e K B : Expr Leg R) (rv : Asg Leg → R) : Prop where
  /-- the program is strongly well-formed: distinct leaf legs, every leaf reads only its legs, the two operands
  of every `tensordot` share no label, every pair joins a free leg of the left with one of the right operand -/
  e_swf : e.SWF
  K_wf : K.WF
  B_wf : B.WF
  /-- the root tensor reads only its three legs -/
  root_local : DependsOn (· ∈ rootLegs) rv
  disjoint : ∀ l ∈ K.labels, l ∉ B.labels
  root_fresh : ∀ l ∈ rootLegs, l ∉ K.labels ∧ l ∉ B.labels
  /-- the program's record is the one the model of the library routine produces -/
  record : e.binds.Perm binds
  K_bonds : K.binds.Perm (ketBonds kt)
  B_bonds : B.binds.Perm (braBonds kt)
  /-- the physical legs are open in the two dense vectors … -/
  phys_free : ∀ p ∈ physPairs kt, p.1 ∈ K.free ∧ p.2 ∈ B.free
  /-- … and so are the root-bond legs of the two copies of the state's root -/
  rootK_free : Leg.gKet kt.id 0 ∈ K.free
  rootB_free : Leg.gBra kt.id 0 ∈ B.free
  /-- the program contracts exactly the root tensor and the tensors of the two copies -/
  leaves : ∀ σ, e.leafProd σ = rv σ * (K.leafProd σ * B.leafProd σ)

/-- **What is assumed for the expectation value of a TTNO**: as `TraceProgram`, with the operator network `O`. -/
structure TtnoProgram (kt : Tree) (binds : List (Leg × Leg)) (e K O B : Expr Leg R) (rv : Asg Leg → R) : Prop where
  e_swf : e.SWF
  K_wf : K.WF
  O_wf : O.WF
  B_wf : B.WF
  root_local : DependsOn (· ∈ rootLegs) rv
  disjointKO : ∀ l ∈ K.labels, l ∉ O.labels
  disjointKB : ∀ l ∈ K.labels, l ∉ B.labels
  disjointOB : ∀ l ∈ O.labels, l ∉ B.labels
  root_fresh : ∀ l ∈ rootLegs, l ∉ K.labels ∧ l ∉ O.labels ∧ l ∉ B.labels
  record : e.binds.Perm binds
  K_bonds : K.binds.Perm (ketBonds kt)
  O_bonds : O.binds.Perm (opBonds kt)
  B_bonds : B.binds.Perm (braBonds kt)
  /-- the operator's INPUT legs face the ket copy -/
  in_free : ∀ p ∈ physIns kt, p.1 ∈ K.free ∧ p.2 ∈ O.free
  /-- the operator's OUTPUT legs face the bra copy -/
  out_free : ∀ p ∈ physOuts kt, p.1 ∈ O.free ∧ p.2 ∈ B.free
  rootK_free : Leg.gKet kt.id 0 ∈ K.free
  rootB_free : Leg.gBra kt.id 0 ∈ B.free
  leaves : ∀ σ, e.leafProd σ = rv σ * ((K.leafProd σ * O.leafProd σ) * B.leafProd σ)

/-- **The padded root bond of `from_ttns`**: the root tensor of the state got a new leading axis of length 1
padded with zeros to `root_bond_dim` (`padded_root_index`), so the dense vector of either copy vanishes off index
`0` of its root-bond leg; the root bond dimension is positive (`positivity_check`). -/
structure PaddedRoot (dim : Leg → Nat) (kt : Tree) (K B : Expr Leg R) : Prop where
  dimK : 0 < dim rootKetLeg
  dimB : 0 < dim rootBraLeg
  K_zero : ∀ τ : Asg Leg, τ (Leg.gKet kt.id 0) ≠ 0 → K.eval dim τ = 0
  B_zero : ∀ τ : Asg Leg, τ (Leg.gBra kt.id 0) ≠ 0 → B.eval dim τ = 0

theorem TraceProgram.value {kt : Tree} {binds : List (Leg × Leg)} {e K B : Expr Leg R} {rv : Asg Leg → R}
    (h : TraceProgram kt binds e K B rv) (hb : binds.Perm (ssSpec kt ++ rootPairs kt)) (dim : Leg → Nat)
    (σ : Asg Leg) :
    e.eval dim σ = sumPairs dim (rootPairs kt)
      (fun τ => rv τ * sumPairs dim (physPairs kt) (fun ρ => K.eval dim ρ * B.eval dim ρ) τ) σ :=
  trace_value_of_record kt binds hb dim e K B rv h.e_swf h.K_wf h.B_wf h.root_local h.disjoint h.root_fresh
    h.record h.K_bonds h.B_bonds h.phys_free h.rootK_free h.rootB_free h.leaves σ

theorem TraceProgram.value_padded {kt : Tree} {binds : List (Leg × Leg)} {e K B : Expr Leg R}
    (h : TraceProgram kt binds e K B eyeRoot) (hb : binds.Perm (ssSpec kt ++ rootPairs kt)) (dim : Leg → Nat)
    (hp : PaddedRoot dim kt K B) (σ : Asg Leg) :
    e.eval dim σ = sumPairs dim (physPairs kt) (fun ρ => K.eval dim ρ * B.eval dim ρ)
      (upd (upd σ (Leg.gKet kt.id 0) 0) (Leg.gBra kt.id 0) 0) :=
  trace_value_padded_of_record kt binds hb dim e K B h.e_swf h.K_wf h.B_wf h.disjoint h.root_fresh
    h.record h.K_bonds h.B_bonds h.phys_free h.rootK_free h.rootB_free h.leaves hp.dimK hp.dimB hp.K_zero hp.B_zero σ

theorem TtnoProgram.value {kt : Tree} {binds : List (Leg × Leg)} {e K O B : Expr Leg R} {rv : Asg Leg → R}
    (h : TtnoProgram kt binds e K O B rv) (hb : (unordL binds).Perm (unordL (soSpec kt ++ rootPairs kt)))
    (dim : Leg → Nat) (hd : ∀ p ∈ soSpec kt ++ rootPairs kt, dim p.1 = dim p.2) (σ : Asg Leg) :
    e.eval dim σ = sumPairs dim (rootPairs kt) (fun τ => rv τ *
      sumPairs dim (physOuts kt) (fun ρ =>
        sumPairs dim (physIns kt) (fun π => K.eval dim π * O.eval dim π) ρ * B.eval dim ρ) τ) σ :=
  ttno_value_of_record kt binds hb dim hd e K O B rv h.e_swf h.K_wf h.O_wf h.B_wf h.root_local h.disjointKO
    h.disjointKB h.disjointOB h.root_fresh h.record h.K_bonds h.O_bonds h.B_bonds h.in_free h.out_free
    h.rootK_free h.rootB_free h.leaves σ

theorem TtnoProgram.value_padded {kt : Tree} {binds : List (Leg × Leg)} {e K O B : Expr Leg R}
    (h : TtnoProgram kt binds e K O B eyeRoot) (hb : (unordL binds).Perm (unordL (soSpec kt ++ rootPairs kt)))
    (dim : Leg → Nat) (hd : ∀ p ∈ soSpec kt ++ rootPairs kt, dim p.1 = dim p.2)
    (hp : PaddedRoot dim kt K B) (σ : Asg Leg) :
    e.eval dim σ = sumPairs dim (physOuts kt) (fun ρ =>
        sumPairs dim (physIns kt) (fun π => K.eval dim π * O.eval dim π) ρ * B.eval dim ρ)
      (upd (upd σ (Leg.gKet kt.id 0) 0) (Leg.gBra kt.id 0) 0) :=
  ttno_value_padded_of_record kt binds hb dim hd e K O B h.e_swf h.K_wf h.O_wf h.B_wf h.disjointKO
    h.disjointKB h.disjointOB h.root_fresh h.record h.K_bonds h.O_bonds h.B_bonds h.in_free h.out_free
    h.rootK_free h.rootB_free h.leaves hp.dimK hp.dimB hp.K_zero hp.B_zero σ

/-- **`PaddedRoot` from the padded root TENSORS.**  It suffices that the tensor of the ket copy of the state's
root (a leaf of `K`) vanishes off index `0` of its root-bond leg — that is `padded_root_index` for the tensor
`from_ttns` builds — and likewise for the bra copy: the zero padding survives the contraction of the copies. -/
theorem PaddedRoot.of_tensors (dim : Leg → Nat) (kt : Tree) (K B : Expr Leg R) (hK : K.SWF) (hB : B.SWF)
    (hgK : Leg.gKet kt.id 0 ∈ K.free) (hgB : Leg.gBra kt.id 0 ∈ B.free)
    (kl bl : List Leg × (Asg Leg → R)) (hkl : kl ∈ K.leaves) (hbl : bl ∈ B.leaves)
    (hkz : ∀ ρ : Asg Leg, ρ (Leg.gKet kt.id 0) ≠ 0 → kl.2 ρ = 0)
    (hbz : ∀ ρ : Asg Leg, ρ (Leg.gBra kt.id 0) ≠ 0 → bl.2 ρ = 0)
    (hdK : 0 < dim rootKetLeg) (hdB : 0 < dim rootBraLeg) : PaddedRoot dim kt K B where
  dimK := hdK
  dimB := hdB
  K_zero := eval_zero_of_leaf_zero dim K hK _ hgK kl hkl hkz
  B_zero := eval_zero_of_leaf_zero dim B hB _ hgB bl hbl hbz

end

end Ptn.C16.Ttndo
