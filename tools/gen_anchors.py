#!/venv/bin/python
"""tools/gen_anchors.py [--check] : (re)generate anchors_baseline.json - a normalised-AST hash of every source file a property is
anchored in (properties.jsonl, anchors.files), taken from /repo's working tree.  The models were written against (and the
correspondence validated on) exactly these sources.  A check whose anchored files hash differently at run time triples its
generator budget (harness/common.py anchor_drift): a changed source is where a broken tie would be, so it is searched harder.
Regenerate after every commit to /repo.  --check: exit 1 if the baseline is stale."""
import json, os, sys, warnings
warnings.filterwarnings("ignore")
sys.path.insert(0, os.path.dirname(os.path.dirname(os.path.abspath(__file__))))
from harness import common
cur = common.anchor_hashes(common.all_anchor_files())
path = os.path.join(common.VERIF, "anchors_baseline.json")
if "--check" in sys.argv:
    old = json.load(open(path))
    bad = sorted(f for f in cur if old.get(f) != cur[f])
    print("stale: " + ", ".join(bad) if bad else "baseline matches the working tree")
    sys.exit(1 if bad else 0)
json.dump(cur, open(path, "w"), indent=1, sort_keys=True)
print(f"{len(cur)} files hashed -> {path}")
