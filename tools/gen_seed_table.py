#!/venv/bin/python
"""Writes seeded/INDEX.md: one row per confirmed seeded change (from the meta.json files)."""
import glob, json, os
VERIF = os.path.dirname(os.path.dirname(os.path.abspath(__file__)))
rows = []
for d in sorted(glob.glob(os.path.join(VERIF, "seeded", "*", "meta.json"))):
    m = json.load(open(d))
    sid = os.path.basename(os.path.dirname(d))
    def cell(x):
        return (x or "").replace("|", "/").replace("\n", " ")
    caught = "; ".join(f"{k}: {v}" for k, v in m.get("caught_by", {}).items())
    conf = m.get("last_confirmation") or {}
    ok = "yes" if conf and conf.get("suite_passes_apart_from_known_failure") and conf.get("demo_rc_with_change") else ("n/a" if not conf else "check")
    rows.append(f"| {sid} | {cell(m.get('breaks'))[:220]} | {cell(m.get('needs_to_manifest'))[:260]} | {cell(caught)} | {cell(m.get('missed_at_first')) or '—'} | {ok} |")
with open(os.path.join(VERIF, "seeded", "INDEX.md"), "w") as f:
    f.write("# Seeded changes (independent sub-agents; confirmed in scratch worktrees)\n\n")
    f.write(f"{len(rows)} changes. Columns: id; clause broken; what it needs to manifest; which check catches it (tier: how); "
            "what had to be strengthened if it was missed at first; re-confirmed by tools/confirm_seeds.py (suite passes, demo fails with / passes without).\n\n")
    f.write("| id | breaks | needs | caught by | missed at first → strengthening | re-confirmed |\n|---|---|---|---|---|---|\n")
    f.write("\n".join(rows) + "\n")
print(len(rows), "rows")
