#!/venv/bin/python
"""Confirm a seeded change and run our check against it, in a scratch worktree (never in /repo).

usage: tools/try_seed.py <property> <patch.diff> <demo.py> [--thorough] [--no-tests] [--checks C05,C06]
Prints a JSON summary: tests pass with the change, demo fails with / passes without it, check verdicts.
"""
import json
import os
import subprocess
import sys
import tempfile
import shutil

VERIF = os.path.dirname(os.path.dirname(os.path.abspath(__file__)))
KNOWN_FAIL = "tests/test_lindbladian.py::TestAgainstExact::test_random_jump_operator"


def sh(cmd, cwd=None, env=None, timeout=3600):
    p = subprocess.run(cmd, shell=True, cwd=cwd, env=env, capture_output=True, text=True, timeout=timeout)
    return p.returncode, p.stdout + p.stderr


def main():
    args = [a for a in sys.argv[1:] if not a.startswith("--")]
    flags = [a for a in sys.argv[1:] if a.startswith("--")]
    pid, patch, demo = args[0], os.path.abspath(args[1]), os.path.abspath(args[2])
    checks = [pid]
    for f in flags:
        if f.startswith("--checks="):
            checks = f.split("=", 1)[1].split(",")
    wt = tempfile.mkdtemp(prefix=f"tryseed_{pid}_")
    os.rmdir(wt)
    out = {"property": pid, "patch": patch}
    try:
        rc, o = sh(f"git -C /repo worktree add -q --detach {wt} HEAD")
        assert rc == 0, o
        rc, o = sh(f"git apply {patch}", cwd=wt)
        out["applies"] = rc == 0
        if rc != 0:
            out["apply_error"] = o[-500:]
            print(json.dumps(out, indent=1))
            return
        env = dict(os.environ, PYTHONPATH=wt, PYTHONDONTWRITEBYTECODE="1", OMP_NUM_THREADS="1", OPENBLAS_NUM_THREADS="1", MKL_NUM_THREADS="1")
        env.pop("PYTREENET_VERIF", None)
        if "--no-tests" not in flags:
            rc, o = sh("/venv/bin/python -m pytest -q -p no:cacheprovider -n 12 tests 2>&1 | tail -15", cwd=wt, env=env)
            failed = [l for l in o.splitlines() if l.startswith("FAILED") or l.startswith("ERROR")]
            out["tests_failed"] = failed
            out["tests_ok"] = all(KNOWN_FAIL in l for l in failed) and ("passed" in o)
        rc, o = sh(f"/venv/bin/python {demo}", cwd=wt, env=env, timeout=1800)
        out["demo_with_change_rc"] = rc
        out["demo_with_change_tail"] = o.strip().splitlines()[-2:]
        env2 = dict(env, PYTHONPATH="/repo")
        rc, o = sh(f"/venv/bin/python {demo}", cwd="/repo", env=env2, timeout=1800)
        out["demo_without_change_rc"] = rc
        tier = "thorough" if "--thorough" in flags else "quick"
        out["checks"] = {}
        for c in checks:
            env3 = dict(os.environ, VERIF_REPO=wt, PYTHONDONTWRITEBYTECODE="1", VERIF_EVIDENCE_DIR=wt + "_evidence")
            # keep evidence of the real tree intact: run in a throw-away copy of the evidence dir
            rc, o = sh(f"./check {c} --tier {tier} --skip-proof", cwd=VERIF, env=env3, timeout=3600)
            lines = [l for l in o.splitlines() if l.startswith("VIOLATION") or l.startswith("[oracle]") or l.startswith("[corr]")]
            out["checks"][c] = {"rc": rc, "lines": [l[:300] for l in lines[:4]]}
    finally:
        sh(f"git -C /repo worktree remove --force {wt}")
        shutil.rmtree(wt + "_evidence", ignore_errors=True)
        shutil.rmtree(wt, ignore_errors=True)
    print(json.dumps(out, indent=1))


if __name__ == "__main__":
    main()
