#!/venv/bin/python
"""Regenerates the tables of DESIGN.md section 6 (between the markers) from seeded/*/meta.json and harmless/*/meta.json."""
import glob, json, os, re
VERIF = os.path.dirname(os.path.dirname(os.path.abspath(__file__)))
def cell(x, n):
    return (x or "").replace("|", "/").replace("\n", " ")[:n]
seeds = {os.path.basename(os.path.dirname(p)): json.load(open(p)) for p in sorted(glob.glob(f"{VERIF}/seeded/*/meta.json"))}
harm = {os.path.basename(os.path.dirname(p)): json.load(open(p)) for p in sorted(glob.glob(f"{VERIF}/harmless/*/meta.json"))}
missed = [(k, m) for k, m in seeds.items() if m.get("missed_at_first")]
uncaught = [k for k, m in seeds.items() if not m.get("caught_by")]
out = []
out.append(f"<!-- BEGIN GENERATED (tools/gen_design_seeds.py) -->\n")
out.append(f"**{len(seeds)} confirmed breaking changes** are kept under `seeded/<id>/` (patch.diff, demo.py, meta.json; full table: "
           f"`seeded/INDEX.md`). {'All of them are' if not uncaught else str(len(seeds) - len(uncaught)) + ' are'} caught by the quick tier of at "
           f"least one check{'' if not uncaught else ' (not caught: ' + ', '.join(uncaught) + ')'}. {len(missed)} were missed when first tried; what was "
           f"strengthened:\n\n| seed | breaks | missed at first → what was strengthened |\n|---|---|---|\n")
for k, m in missed:
    out.append(f"| {k} | {cell(m.get('breaks'), 150)} | {cell(m.get('missed_at_first'), 400)} |\n")
out.append(f"\n**{len(harm)} behaviour-preserving rewrites** (round 3; same authorship rules, the author's demo passes with and without the "
           f"rewrite, suite passes) are kept under `harmless/<id>/`; all 20 checks are run against each (`tools/try_harmless.py`). "
           f"Outcome:\n\n| rewrite | what was restructured | checks exiting non-zero at first | resolution | now |\n|---|---|---|---|---|\n")
for k, m in harm.items():
    now = ", ".join(sorted(c for c, rc in m.get("checks_exit", {}).items() if rc != 0)) or "all 20 exit 0"
    out.append(f"| {k} | {cell(m.get('what'), 160)} | {cell(m.get('alarm_at_first'), 300) or 'none'} | {cell(m.get('resolution'), 420) or '—'} | {now} |\n")
out.append("<!-- END GENERATED -->\n")
p = f"{VERIF}/DESIGN.md"
s = open(p).read()
blk = "".join(out)
if "<!-- BEGIN GENERATED (tools/gen_design_seeds.py) -->" in s:
    s = re.sub(r"<!-- BEGIN GENERATED \(tools/gen_design_seeds.py\) -->.*?<!-- END GENERATED -->\n", lambda _: blk, s, flags=re.S)
    open(p, "w").write(s)
    print("section 6 tables regenerated:", len(seeds), "seeds,", len(harm), "rewrites")
else:
    print("markers not found in DESIGN.md; block follows\n" + blk)
