#!/venv/bin/python
"""Re-confirm every seeded change: suite passes with it, demo fails with / passes without, our check(s) catch it.
Writes the outcome into seeded/<id>/meta.json under 'last_confirmation'."""
import json, os, subprocess, sys, glob
VERIF = os.path.dirname(os.path.dirname(os.path.abspath(__file__)))
only = [a for a in sys.argv[1:] if not a.startswith("--")]
extra = [a for a in sys.argv[1:] if a.startswith("--")]       # e.g. --no-tests (the suite was confirmed when the seed was recorded)
for d in sorted(glob.glob(os.path.join(VERIF, "seeded", "*"))):
    sid = os.path.basename(d)
    if only and sid not in only:
        continue
    meta = json.load(open(os.path.join(d, "meta.json")))
    checks = ",".join(sorted(meta["caught_by"].keys()))
    p = subprocess.run([os.path.join(VERIF, "tools", "try_seed.py"), meta["property"], os.path.join(d, "patch.diff"),
                        os.path.join(d, "demo.py"), f"--checks={checks}"] + extra, capture_output=True, text=True)
    t = p.stdout
    try:
        res = json.loads(t[t.index("{"):])
    except Exception:
        res = {"error": t[-400:] + p.stderr[-400:]}
    meta["last_confirmation"] = {
        "applies": res.get("applies"),
        "suite_passes_apart_from_known_failure": (res.get("tests_ok") if "--no-tests" not in extra
                                                  else (meta.get("last_confirmation") or {}).get("suite_passes_apart_from_known_failure")),
        "demo_rc_with_change": res.get("demo_with_change_rc"), "demo_rc_without_change": res.get("demo_without_change_rc"),
        "checks": {c: {"exit": v["rc"], "first_line": (v["lines"] or [""])[0][:200]} for c, v in res.get("checks", {}).items()},
    }
    json.dump(meta, open(os.path.join(d, "meta.json"), "w"), indent=1)
    ok = (res.get("applies") and (res.get("tests_ok") or "--no-tests" in extra) and res.get("demo_with_change_rc") not in (0, None)
          and res.get("demo_without_change_rc") == 0 and any(v["rc"] == 1 for v in res.get("checks", {}).values()))
    print(sid, "OK" if ok else "PROBLEM", meta["last_confirmation"], flush=True)
