#!/venv/bin/python
"""tools/eval_round3.py <property> : evaluate a round-3 pair (breaking change C, harmless rewrite H) from /tmp/seeds/out3_<property>
and record them under seeded/<property>-R3C and harmless/<property>-H (meta.json with the verdicts of all 20 checks)."""
import json, os, shutil, subprocess, sys
VERIF = os.path.dirname(os.path.dirname(os.path.abspath(__file__)))
pid = sys.argv[1]
src = f"/tmp/seeds/out3_{pid}"
notes = json.load(open(f"{src}/notes.json")) if os.path.exists(f"{src}/notes.json") else {}
def run(tool, letter, extra):
    p = subprocess.run([os.path.join(VERIF, "tools", tool), pid, f"{src}/{letter}.diff", f"{src}/demo_{letter}.py"] + extra,
                       capture_output=True, text=True)
    t = p.stdout
    try:
        return json.loads(t[t.index("{"):])
    except Exception:
        return {"error": (t + p.stderr)[-800:]}
if os.path.exists(f"{src}/C.diff"):
    # harmless-tool run gives the verdict of every check; try_seed gives suite + demo with/without
    a = run("try_seed.py", "C", [f"--checks={pid}"])
    b = run("try_harmless.py", "C", ["--no-tests"])
    caught = {c: "quick: " + ((v["lines"] or ["exit 1"])[0][:160]) for c, v in b.get("checks", {}).items() if v["rc"] == 1}
    if a.get("checks", {}).get(pid, {}).get("rc") == 1 and pid not in caught:
        caught[pid] = "quick: " + ((a["checks"][pid]["lines"] or ["exit 1"])[0][:160])
    dst = os.path.join(VERIF, "seeded", f"{pid}-R3C"); os.makedirs(dst, exist_ok=True)
    shutil.copy(f"{src}/C.diff", f"{dst}/patch.diff"); shutil.copy(f"{src}/demo_C.py", f"{dst}/demo.py")
    meta = {"property": pid, "breaks": notes.get("C", {}).get("breaks"), "needs_to_manifest": notes.get("C", {}).get("needs"),
            "author": "independent sub-agent given only the property record and a scratch worktree",
            "confirmed_by": "tools/try_seed.py in a scratch worktree of /repo", "caught_by": caught, "missed_at_first": None,
            "last_confirmation": {"applies": a.get("applies"), "suite_passes_apart_from_known_failure": a.get("tests_ok"),
                                  "demo_rc_with_change": a.get("demo_with_change_rc"), "demo_rc_without_change": a.get("demo_without_change_rc"),
                                  "checks": {c: {"exit": v["rc"], "first_line": (v["lines"] or [""])[0][:200]} for c, v in b.get("checks", {}).items() if v["rc"] != 0}}}
    json.dump(meta, open(f"{dst}/meta.json", "w"), indent=1)
    ok = a.get("applies") and a.get("tests_ok") and a.get("demo_with_change_rc") not in (0, None) and a.get("demo_without_change_rc") == 0
    print(pid, "C", "valid" if ok else f"INVALID {a}", "caught_by", sorted(caught) or "NONE", flush=True)
if os.path.exists(f"{src}/H.diff"):
    h = run("try_harmless.py", "H", [])
    dst = os.path.join(VERIF, "harmless", f"{pid}-H"); os.makedirs(dst, exist_ok=True)
    shutil.copy(f"{src}/H.diff", f"{dst}/patch.diff"); shutil.copy(f"{src}/demo_H.py", f"{dst}/demo.py")
    meta = {"property": pid, "what": notes.get("H", {}).get("what"),
            "unconstrained_behaviour_changed": notes.get("H", {}).get("unconstrained_behaviour_changed"),
            "author": "independent sub-agent given only the property record and a scratch worktree",
            "suite_passes_apart_from_known_failure": h.get("tests_ok"), "demo_rc_with_change": h.get("demo_with_change_rc"),
            "checks_exit": {c: v["rc"] for c, v in h.get("checks", {}).items()},
            "alarms": {c: v["lines"] for c, v in h.get("checks", {}).items() if v["rc"] != 0}}
    json.dump(meta, open(f"{dst}/meta.json", "w"), indent=1)
    print(pid, "H", "suite_ok" if h.get("tests_ok") else f"SUITE? {h.get('tests_failed')}", "demo", h.get("demo_with_change_rc"), "alarms", meta["alarms"] or "none", h.get("error", ""), flush=True)
