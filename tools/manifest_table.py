# One claim(...) per property that has a working check.  Executed by gen_manifest.py.
claim("C18",
      technique="Lean 4 theorems on an executable model of the driver loop (induction over the step range) + exact correspondence on the double quotient + dense oracle per concrete class",
      text="Step-count rule, schedule (every column written exactly once with the state after j*k steps), key addressing and reset are proved in Lean for all n, k, step/observe functions; the model is tied to the code by exact comparison of step counts (rational value of the double T/dt) and write schedules; recorded values, untouched caller state, run/reset/run and exact evolution are decided per run by an independently stepped twin and dense algebra for all seven concrete classes.",
      note="Trusted: Lean kernel, axioms {propext, Classical.choice, Quot.sound}; hand-written model lean/Ptn/C18/Model.lean; harness; math.modf/float division exactness; Python object aliasing is decided by the oracle only (partial).",
      ref="DESIGN.md section 5 C18")
