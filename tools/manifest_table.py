# One claim(...) per property that has a working check.  Executed by gen_manifest.py.
claim("C18",
      technique="Lean 4 theorems on an executable model of the driver loop (induction over the step range) + exact correspondence on the double quotient + dense oracle per concrete class",
      text="Step-count rule, schedule (every column written exactly once with the state after j*k steps), key addressing and reset are proved in Lean for all n, k, step/observe functions; the model is tied to the code by exact comparison of step counts (rational value of the double T/dt) and write schedules; recorded values, untouched caller state, run/reset/run and exact evolution are decided per run by an independently stepped twin and dense algebra for all seven concrete classes.",
      note="Trusted: Lean kernel, axioms {propext, Classical.choice, Quot.sound}; hand-written model lean/Ptn/C18/Model.lean; harness; math.modf/float division exactness; Python object aliasing is decided by the oracle only (partial).",
      ref="DESIGN.md section 5 C18")
claim("C05",
      technique="Lean 4 theorems on the executable schedule model of the three TDVP sweeps (signed-duration totals per node/edge, palindromic order) + exact trace correspondence through the guarded time_evolve observer + dense E^H H E oracle at every call",
      text="For all segment lists (update path + next hops) the per-node, per-edge and total signed durations of the first-order, second-order one-site and two-site schedules are proved in Lean; the model's event sequence is compared exactly with the calls observed through the PYTREENET_VERIF hook; at every observed call the effective Hamiltonian is compared with E^H H E built densely from all other current tensors (so stale cache blocks, wrong leg permutations and wrong child-order handling are failing inputs).",
      note="Trusted: Lean kernel + standard axioms; model lean/Ptn/C05/Model.lean; harness dense embedding; that segment edges enumerate the tree edges is C17 (re-checked per run by the totals oracle); time_evolve itself is C20.",
      ref="DESIGN.md section 5 C05")
