# One claim(...) per property that has a working check.  Executed by gen_manifest.py.
claim("C18",
      technique="Lean 4 theorems on an executable model of the driver loop (induction over the step range) + exact correspondence on the double quotient + dense oracle per concrete class",
      text="Step-count rule, schedule (every column written exactly once with the state after j*k steps), key addressing and reset are proved in Lean for all n, k, step/observe functions; the model is tied to the code by exact comparison of step counts (rational value of the double T/dt) and write schedules; recorded values, untouched caller state, run/reset/run and exact evolution are decided per run by an independently stepped twin and dense algebra for all seven concrete classes.",
      note="Trusted: Lean kernel, axioms {propext, Classical.choice, Quot.sound}; hand-written model lean/Ptn/C18/Model.lean; harness; math.modf/float division exactness; Python object aliasing is decided by the oracle only (partial).",
      ref="DESIGN.md section 5 C18")
claim("C05",
      technique="Lean 4 theorems on the executable schedule model of the three TDVP sweeps (signed-duration totals per node/edge, palindromic order) + exact trace correspondence through the guarded time_evolve observer + dense E^H H E oracle at every call",
      text="For all segment lists (update path + next hops) the per-node, per-edge and total signed durations of the first-order, second-order one-site and two-site schedules are proved in Lean; the model's event sequence is compared exactly with the calls observed through the PYTREENET_VERIF hook; at every observed call the effective Hamiltonian is compared with E^H H E built densely from all other current tensors (so stale cache blocks, wrong leg permutations and wrong child-order handling are failing inputs).",
      note="Trusted: Lean kernel + standard axioms; model lean/Ptn/C05/Model.lean; harness dense embedding; that segment edges enumerate the tree edges is C17 (re-checked per run by the totals oracle); time_evolve itself is C20.",
      ref="DESIGN.md section 5 C05")
claim("C06",
      technique="Lean 4 theorems (schedule defined on every sweep >= 2 nodes, centre at step end, palindromic composition of invertible local flows is reversible) + correspondence of sweep end/centre + dense state oracle",
      text="Completion of the first/second-order schedules for every segment list, the centre at the end of a step, and time-reversibility of a palindromic composition of invertible local flows are proved in Lean (no size bound); the second-order schedule is proved to be such a palindrome. Per run, on random trees incl. roots with a single child: completion, unchanged identifiers/relations/shapes, canonical form at the first sweep node (partial isometries toward it, centre norm = full norm), norm and energy drift <= 1e-8, reversal with -H to 1e-7 on generic full-rank states, saturated two-node exactness to 1e-9.",
      note="Trusted: Lean kernel + standard axioms; models lean/Ptn/C05/Model.lean, C06/Model.lean; that the library's local updates are invertible flows (gauge independence) and float accuracy are decided by the oracle only (partial).",
      ref="DESIGN.md section 5 C06/C07")
claim("C07",
      technique="Lean 4 theorems (two-site schedule totals, centre at step end, two-node trace = two half steps on the single bond, kept-count bounds) + correspondence + dense state oracle over a truncation grid",
      text="Schedule-level facts of the two-site sweep are proved in Lean for all segment lists (edge +dt, node -(deg-1)dt, sum dt, final centre, two-node case consists of two half two-site flows which compose to the full step for a one-parameter group, 1 <= kept <= D). Per run: conservation of norm/energy with truncation disabled, two-node exactness for initial bonds 1..4 and mixed dimensions, identifiers/relations kept, canonical at the recorded centre, bond bounds over a grid of truncation settings.",
      note="Trusted: Lean kernel + standard axioms; models C05/C06/C07; SVD contract and float accuracy by contract; conservation decided by the oracle (partial).",
      ref="DESIGN.md section 5 C06/C07")
