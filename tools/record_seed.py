#!/venv/bin/python
"""tools/record_seed.py <property> <letter> <caught_by json> [--missed-first "<what was strengthened>"]
Copies /tmp/seeds/out_<property>/<letter>.diff + demo + notes into seeded/<property>-<letter>/."""
import json, os, shutil, sys
pid, letter = sys.argv[1], sys.argv[2]
caught = json.loads(sys.argv[3])
missed = sys.argv[5] if len(sys.argv) > 5 and sys.argv[4] == "--missed-first" else None
src = os.environ.get("SEED_SRC") or f"/tmp/seeds/out_{pid}"
dst = os.path.join(os.path.dirname(os.path.dirname(os.path.abspath(__file__))), "seeded", f"{pid}-{os.environ.get('SEED_TAG', '')}{letter}")
os.makedirs(dst, exist_ok=True)
shutil.copy(f"{src}/{letter}.diff", f"{dst}/patch.diff")
shutil.copy(f"{src}/demo_{letter}.py", f"{dst}/demo.py")
notes = json.load(open(f"{src}/notes.json")).get(letter, {})
meta = {
    "property": pid,
    "breaks": notes.get("breaks"),
    "needs_to_manifest": notes.get("needs"),
    "author": "independent sub-agent given only the property record and a scratch worktree",
    "confirmed_by": "tools/try_seed.py in a scratch worktree of /repo: patch applies; existing suite passes apart from the "
                    "pre-existing failure tests/test_lindbladian.py::TestAgainstExact::test_random_jump_operator; "
                    "demo exits non-zero with the change and 0 without",
    "caught_by": caught,
    "missed_at_first": missed,
}
json.dump(meta, open(f"{dst}/meta.json", "w"), indent=1)
print("recorded", dst)
