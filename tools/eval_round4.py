#!/venv/bin/python
"""tools/eval_round4.py <property> [C1|C2 ...] : evaluate the round-4 breaking changes delivered in /tmp/seeds/r4/<property>/out
(C1.diff, demo_C1.py, C2.diff, demo_C2.py, notes.json) and record the valid ones under seeded/<property>-R4A / -R4B
(meta.json with the verdicts of all 20 checks).  Invalid deliveries (suite fails, demo does not separate) are reported, not kept."""
import json, os, shutil, subprocess, sys
VERIF = os.path.dirname(os.path.dirname(os.path.abspath(__file__)))
pid = sys.argv[1]
letters = sys.argv[2:] or ["C1", "C2"]
src = f"/tmp/seeds/r4/{pid}/out"
notes = json.load(open(f"{src}/notes.json")) if os.path.exists(f"{src}/notes.json") else {}
def run(tool, letter, extra):
    p = subprocess.run([os.path.join(VERIF, "tools", tool), pid, f"{src}/{letter}.diff", f"{src}/demo_{letter}.py"] + extra,
                       capture_output=True, text=True)
    t = p.stdout
    try:
        return json.loads(t[t.index("{"):])
    except Exception:
        return {"error": (t + p.stderr)[-800:]}
for letter in letters:
    if not os.path.exists(f"{src}/{letter}.diff"):
        print(pid, letter, "not delivered", flush=True); continue
    a = run("try_seed.py", letter, [f"--checks={pid}"])
    ok = a.get("applies") and a.get("tests_ok") and a.get("demo_with_change_rc") not in (0, None) and a.get("demo_without_change_rc") == 0
    if not ok:
        print(pid, letter, f"INVALID {json.dumps(a)[:600]}", flush=True); continue
    b = run("try_harmless.py", letter, ["--no-tests"])
    caught = {c: "quick: " + ((v["lines"] or ["exit 1"])[0][:160]) for c, v in b.get("checks", {}).items() if v["rc"] == 1}
    if a.get("checks", {}).get(pid, {}).get("rc") == 1 and pid not in caught:
        caught[pid] = "quick: " + ((a["checks"][pid]["lines"] or ["exit 1"])[0][:160])
    tag = {"C1": "R4A", "C2": "R4B"}[letter]
    dst = os.path.join(VERIF, "seeded", f"{pid}-{tag}"); os.makedirs(dst, exist_ok=True)
    shutil.copy(f"{src}/{letter}.diff", f"{dst}/patch.diff"); shutil.copy(f"{src}/demo_{letter}.py", f"{dst}/demo.py")
    n = notes.get(letter, {})
    meta = {"property": pid, "breaks": n.get("breaks"), "needs_to_manifest": n.get("needs"), "author_ran": n.get("ran"),
            "author": "independent sub-agent given only the property record and a scratch worktree (round 4)",
            "confirmed_by": "tools/try_seed.py in a scratch worktree of /repo", "caught_by": caught,
            "missed_at_first": (None if pid in caught else "own check missed it at first"),
            "last_confirmation": {"applies": a.get("applies"), "suite_passes_apart_from_known_failure": a.get("tests_ok"),
                                  "demo_rc_with_change": a.get("demo_with_change_rc"), "demo_rc_without_change": a.get("demo_without_change_rc"),
                                  "checks": {c: {"exit": v["rc"], "first_line": (v["lines"] or [""])[0][:200]} for c, v in b.get("checks", {}).items() if v["rc"] != 0}}}
    json.dump(meta, open(f"{dst}/meta.json", "w"), indent=1)
    print(pid, letter, "valid", "caught_by", sorted(caught) or "NONE",
          "" if pid in caught else "  <-- OWN CHECK MISSED", flush=True)
