#!/venv/bin/python
"""Regenerates MANIFEST.json from the table below (keeps it schema-valid at all times)."""
import json
import os

VERIF = os.path.dirname(os.path.dirname(os.path.abspath(__file__)))

# property -> (technique, level text, level note, design ref)   ; None = not yet claimed
CHECKS = {}
NOT_APPLICABLE = {}


def claim(pid, technique, text, note, ref):
    CHECKS[pid] = dict(technique=technique, text=text, note=note, ref=ref)


exec(open(os.path.join(VERIF, "tools", "manifest_table.py")).read())

props = [json.loads(l)["id"] for l in open(os.path.join(VERIF, "properties.jsonl"))]
checks = []
for pid in props:
    if pid in CHECKS:
        c = CHECKS[pid]
        checks.append({
            "property_id": pid,
            "quick_cmd": f"./check {pid} --tier quick",
            "thorough_cmd": f"./check {pid} --tier thorough",
            "evidence_file": f"evidence/{pid}.json",
            "replay_cmd_template": f"./check {pid} --replay {{path}}",
            "engine": "lean4-proof+correspondence",
            "level_claimed": {"category": "proof", "text": c["text"], "design_ref": c["ref"]},
            "level_note": c["note"],
            "technique": c["technique"],
        })
na = [{"property_id": pid, "reason": NOT_APPLICABLE.get(pid, "check under construction in this round; not claimed yet")}
      for pid in props if pid not in CHECKS]
manifest = {
    "version": 1,
    "setup_cmd": "cd lean && lake build 2>&1 | tail -n 30",
    "hooks": {
        "guard": "PYTREENET_VERIF",
        "enable": "export PYTREENET_VERIF=1 (set by ./check itself); the package is imported from /repo's working tree (editable install), nothing to rebuild",
        "baseline_off_cmd": "cd /repo && env -u PYTREENET_VERIF /venv/bin/python -m pytest -ra -q -p no:cacheprovider --timeout=900 --continue-on-collection-errors",
        "source_commits": ["4cd0def"],
        "add_only": True,
    },
    "engines": [{
        "name": "lean4-proof+correspondence",
        "path": "check",
        "serves_properties": [c["property_id"] for c in checks],
        "kind_free_text": "Lean 4 theorems about hand-written executable models (lean/Ptn/Cxx), axiom audit on every run; "
                          "correspondence harness (harness/props/cxx.py) drives model (line protocol, compiled lean_exe) and "
                          "implementation on the same generated cases; independent dense oracles search for failing inputs",
    }],
    "checks": checks,
    "not_applicable": na,
    "notes": "One entry point: ./check Cxx --tier quick|thorough [--replay file]; VERIF_SEED seeds all generators. "
             "Exit 0 held / 1 VIOLATION / 2 harness problem or timeout. known_findings.json lists recorded defects.",
}
with open(os.path.join(VERIF, "MANIFEST.json"), "w") as f:
    json.dump(manifest, f, indent=1)
print(f"MANIFEST.json: {len(checks)} checks, {len(na)} not claimed")
